(* Correspondence checker for the `indexer` driver (C14).  Cases carry the consensus data of a harness chain
   (projected block views) plus what the real KVIndexer / EVMIndexerService / rpc Backend answered. *)
From Evm Require Import Indexer CorrBase.
Open Scope Z_scope.

Definition txres_eqb (a b : txres) : bool :=
  (r_height a =? r_height b) && (r_txidx a =? r_txidx b) && (r_ethidx a =? r_ethidx b) && Bool.eqb (r_failed a) (r_failed b).

Definition val_eqb (a b : val) : bool :=
  match a, b with
  | VRes x, VRes y => txres_eqb x y
  | VHash x, VHash y => x =? y
  | _, _ => false
  end.

Definition opt_eqb {A} (e : A -> A -> bool) (a b : option A) : bool :=
  match a, b with
  | Some x, Some y => e x y
  | None, None => true
  | _, _ => false
  end.

Fixpoint list_eqb {A} (e : A -> A -> bool) (a b : list A) : bool :=
  match a, b with
  | [], [] => true
  | x :: a', y :: b' => e x y && list_eqb e a' b'
  | _, _ => false
  end.

Definition rview_eqb (a b : rview) : bool :=
  (rv_status a =? rv_status b) && (rv_gas a =? rv_gas b) && (rv_cum a =? rv_cum b) && (rv_height a =? rv_height b) &&
  (rv_index a =? rv_index b) && (rv_from a =? rv_from b) && list_eqb Z.eqb (rv_logs a) (rv_logs b) &&
  Bool.eqb (rv_contract a) (rv_contract b).

Definition tview_eqb (a b : tview) : bool :=
  (t_height a =? t_height b) && (t_index a =? t_index b) && (t_hash a =? t_hash b) && (t_from a =? t_from b).

Definition pair_eqb (a b : Z * Z) : bool := (fst a =? fst b) && (snd a =? snd b).

Definition bview_eqb (a b : bview) : bool :=
  match a, b with
  | BNone, BNone => true
  | BErr, BErr => true
  | BSome h g, BSome h' g' => list_eqb Z.eqb h h' && (g =? g')
  | _, _ => false
  end.

(* the dump of the real DB (sorted, unique keys) against the model DB: same keys, same values *)
Definition dump_ok (d : db) (dump : list (key * val)) : bool :=
  forallb (fun kv => match db_get (fst kv) d with Some v => val_eqb v (snd kv) | None => false end) dump
  && Nat.eqb (length (db_keys d)) (length dump)
  && Nat.eqb (length (db_keys dump)) (length dump).

(* the DB after every life of the service (each with its kill point and its node-client failures) *)
Fixpoint lives (c : chain) (d : db) (ls : list slife) : list db :=
  match ls with
  | [] => []
  | L :: r => let d' := run_slife c d L in d' :: lives c d' r
  end.

Fixpoint all2 {A B} (f : A -> B -> bool) (a : list A) (b : list B) : bool :=
  match a, b with
  | [], [] => true
  | x :: a', y :: b' => f x y && all2 f a' b'
  | _, _ => false
  end.

Inductive icase :=
| CIndex (c : chain) (feeds : list Z) (dump : list (key * val)) (last first : Z)
         (by_hash : list (Z * option txres)) (by_idx : list (Z * Z * option txres))
| CSvc (c : chain) (ls : list slife) (dumps : list (list (key * val)))
| CRpc (c : chain)
       (receipts : list (Z * option rview)) (txs : list (Z * option tview))
       (txs_idx : list (Z * Z * option tview)) (blocks : list (Z * bview))
       (counts : list (Z * option Z)) (logs : list (Z * option (list (list Z)))).

Definition icase_ok (x : icase) : bool :=
  match x with
  | CIndex c feeds dump last first by_hash by_idx =>
      let d := feed c [] feeds in
      dump_ok d dump && (last_indexed d =? last) && (first_indexed d =? first)
      && forallb (fun q => opt_eqb txres_eqb (get_by_hash d (fst q)) (snd q)) by_hash
      && forallb (fun q => let '(h, i, o) := q in opt_eqb txres_eqb (get_by_block_index d h i) o) by_idx
  | CSvc c ls dumps =>
      all2 dump_ok (lives c [] ls) dumps
  | CRpc c receipts txs txs_idx blocks counts logs =>
      let d := run c in
      (* the hypotheses of the theorems hold of the real consensus results (these chains are not mutated) *)
      chain_hyps c
      && forallb (fun q => opt_eqb rview_eqb (rpc_receipt c d (fst q)) (snd q)) receipts
      && forallb (fun q => opt_eqb tview_eqb (rpc_tx_by_hash c d (fst q)) (snd q)) txs
      && forallb (fun q => let '(h, i, o) := q in opt_eqb tview_eqb (rpc_tx_by_block_index c d h i) o) txs_idx
      && forallb (fun q => bview_eqb (rpc_block c d (fst q)) (snd q)) blocks
      && forallb (fun q => opt_eqb Z.eqb (rpc_tx_count c (fst q)) (snd q)) counts
      && forallb (fun q => opt_eqb (list_eqb (list_eqb Z.eqb)) (rpc_logs c (fst q)) (snd q)) logs
  end.

Definition indexer_mismatches (off : nat) (l : list icase) : list nat := mism icase_ok off l.
