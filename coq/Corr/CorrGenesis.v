(* Correspondence checker for the `genesis` driver (C18).  A case carries the custom modules' store content of a
   harness chain A (read raw from the stores), the genesis document the real ExportAppStateAndValidators produced,
   the store content of the fresh application B after the real InitChain on that document, and B's own export. *)
From Evm Require Import Genesis CorrBase.
Open Scope Z_scope.

Fixpoint leqb {A} (e : A -> A -> bool) (a b : list A) : bool :=
  match a, b with
  | [], [] => true
  | x :: a', y :: b' => e x y && leqb e a' b'
  | _, _ => false
  end.

Definition zz_eqb (a b : Z * Z) : bool := (fst a =? fst b) && (snd a =? snd b).
Definition meta_eqb (a b : meta) : bool := (m_type a =? m_type b) && (m_digest a =? m_digest b).
Definition zmeta_eqb (a b : Z * meta) : bool := (fst a =? fst b) && meta_eqb (snd a) (snd b).

Definition evm_eqb (a b : evm_state) : bool :=
  (e_params a =? e_params b) && leqb zz_eqb (e_codehash a) (e_codehash b) && leqb zz_eqb (e_code a) (e_code b)
  && leqb zz_eqb (e_storage a) (e_storage b).
Definition fm_eqb (a b : fm_state) : bool := (f_base_fee a =? f_base_fee b) && (f_min_gas_price a =? f_min_gas_price b).
Definition cpc_eqb (a b : cpc_state) : bool :=
  (c_params a =? c_params b) && leqb zmeta_eqb (c_metas a) (c_metas b) && leqb zz_eqb (c_denoms a) (c_denoms b)
  && leqb zz_eqb (c_allow a) (c_allow b).
Definition cstate_eqb (a b : cstate) : bool :=
  evm_eqb (s_evm a) (s_evm b) && fm_eqb (s_fm a) (s_fm b) && cpc_eqb (s_cpc a) (s_cpc b) && leqb zz_eqb (s_proofs a) (s_proofs b).

Definition acct_eqb (a b : gen_acct) : bool :=
  (ga_addr a =? ga_addr b) && (ga_code a =? ga_code b) && leqb zz_eqb (ga_storage a) (ga_storage b).
Definition gen_eqb (a b : gen) : bool :=
  (g_evm_params a =? g_evm_params b) && leqb acct_eqb (g_accounts a) (g_accounts b) && fm_eqb (g_fm a) (g_fm b)
  && (g_cpc_params a =? g_cpc_params b) && Bool.eqb (g_erc20_native a) (g_erc20_native b) && Bool.eqb (g_staking a) (g_staking b).

Definition res_eqb (r : res cstate) (o : option cstate) : bool :=
  match r, o with
  | Ok s, Some s' => cstate_eqb s s'
  | Panic, None => true
  | _, _ => false
  end.

(* unsorted association list *)
Fixpoint aget {V} (k : Z) (l : list (Z * V)) : option V :=
  match l with
  | [] => None
  | (k', x) :: r => if k =? k' then Some x else aget k r
  end.

(* keccak on code identifiers as observed by the harness; the accounts the auth section of the imported document
   holds at the addresses the custom modules use (every x/evm genesis account, the fixed precompile addresses, the
   next dynamic precompile address, the cpc module address): an address not listed holds no account *)
Definition mk_env (hashes : list (Z * Z)) (accts : list (Z * acct_kind)) (next_dyn : Z) (supply_pos : bool) : env :=
  Env (fun c => match zget c hashes with Some h => h | None => if c =? CODE_EMPTY then EMPTYH else 0 end)
      (fun a => match aget a accts with Some kd => kd | None => ANone end) next_dyn supply_pos.

Inductive gcase :=
(* export A; import into B; export B *)
| GRound (k : cpc_consts) (hashes : list (Z * Z)) (accts : list (Z * acct_kind)) (next_dyn : Z) (supply_pos : bool)
         (s : cstate) (g1 : gen) (imp : option cstate) (g2 : option gen)
(* import of a genesis document with chosen cpc flags *)
| GImport (k : cpc_consts) (hashes : list (Z * Z)) (accts : list (Z * acct_kind)) (next_dyn : Z) (supply_pos : bool)
          (g : gen) (imp : option cstate).

Definition gcase_ok (c : gcase) : bool :=
  match c with
  | GRound k hashes base nd sp s g1 imp g2 =>
      let v := mk_env hashes base nd sp in
      (* the invariant the theorems of Properties/C18.v assume, on the real store content of A and of B *)
      wfb v s &&
      gen_eqb (export k s) g1 && res_eqb (import k v g1) imp &&
      match imp, g2 with
      | Some s', Some g2' => wfb v s' && gen_eqb (export k s') g2'
      | None, None => true
      | _, _ => false
      end
  | GImport k hashes base nd sp g imp =>
      let v := mk_env hashes base nd sp in
      res_eqb (import k v g) imp && match imp with Some s' => wfb v s' | None => true end
  end.

Definition genesis_mismatches (off : nat) (l : list gcase) : list nat := mism gcase_ok off l.
