(* Correspondence checker for the `erc20` driver (C10).
   A case is one whole history executed on the real chain: configuration, initial tables, and for every
   step the operation, the observed outcome and the observed changes of ALL balances / supplies / allowances
   of the universe (written as differences against the previous observation; the checker rebuilds the full
   observed tables and compares every universe key with the model state after the step). *)
From Evm Require Import Erc20 CorrBase.
Open Scope Z_scope.

Inductive obs_out :=
| XOk (r : ret) (logs : list log)
| XErr
| XBad.                                   (* undecodable observation: never matches *)

Record estep := {
  s_op : xop;                             (* plain operation, or one transaction with a whole call tree *)
  s_out : obs_out;
  s_check : bool;                         (* state observed after this step (false inside a multi-tx block) *)
  s_dbal : list (Z * Z * Z);              (* (address, denom, new balance) for every balance that changed *)
  s_dsup : list (Z * Z);                  (* (denom, new supply) *)
  s_dallow : list (Z * Z * Z)             (* (owner, spender, new allowance) *)
}.

Record ecase := {
  c_tokens : list (Z * tokmeta);
  c_blocked : list Z;
  c_module : Z;
  c_universe : list Z;
  c_denoms : list Z;
  c_bal : list (Z * Z * Z);
  c_locked : list (Z * Z * Z);
  c_sup : list (Z * Z);
  c_allow : list (Z * Z * Z);
  c_steps : list estep
}.

Fixpoint look2 (l : list (Z * Z * Z)) (a b : Z) : Z :=
  match l with
  | [] => 0
  | (x, y, v) :: r => if (x =? a) && (y =? b) then v else look2 r a b
  end.
Fixpoint look1 (l : list (Z * Z)) (a : Z) : Z :=
  match l with
  | [] => 0
  | (x, v) :: r => if x =? a then v else look1 r a
  end.
Fixpoint look_tok (l : list (Z * tokmeta)) (a : Z) : option tokmeta :=
  match l with
  | [] => None
  | (x, m) :: r => if x =? a then Some m else look_tok r a
  end.
Fixpoint memZ (l : list Z) (a : Z) : bool :=
  match l with [] => false | x :: r => (x =? a) || memZ r a end.

Definition env_of (c : ecase) : env :=
  {| e_token := look_tok (c_tokens c); e_blocked := memZ (c_blocked c); e_module := c_module c |}.

Definition state_of (c : ecase) : state :=
  {| bal := look2 (c_bal c); locked := look2 (c_locked c); supply := look1 (c_sup c); allow := look2 (c_allow c) |}.

Definition ret_eqb (a b : ret) : bool :=
  match a, b with
  | RNone, RNone => true
  | RBool x, RBool y => Bool.eqb x y
  | RUint x, RUint y => x =? y
  | RStr x, RStr y => x =? y
  | _, _ => false
  end.
Definition log_eqb (a b : log) : bool :=
  match a, b with
  | LTransfer t f o v, LTransfer t' f' o' v' => (t =? t') && (f =? f') && (o =? o') && (v =? v')
  | LApproval t f o v, LApproval t' f' o' v' => (t =? t') && (f =? f') && (o =? o') && (v =? v')
  | _, _ => false
  end.
Fixpoint logs_eqb (a b : list log) : bool :=
  match a, b with
  | [], [] => true
  | x :: a', y :: b' => log_eqb x y && logs_eqb a' b'
  | _, _ => false
  end.
Definition out_eqb (m : out) (o : obs_out) : bool :=
  match m, o with
  | OOk r l, XOk r' l' => ret_eqb r r' && logs_eqb l l'
  | OErr, XErr => true
  | _, _ => false
  end.

(* the observed tables: newest entries first *)
Record otab := { o_bal : list (Z * Z * Z); o_sup : list (Z * Z); o_allow : list (Z * Z * Z) }.

Definition state_agrees (c : ecase) (s : state) (t : otab) : bool :=
  forallb (fun a => forallb (fun d => bal s a d =? look2 (o_bal t) a d) (c_denoms c)) (c_universe c)
  && forallb (fun d => supply s d =? look1 (o_sup t) d) (c_denoms c)
  && forallb (fun a => forallb (fun b => allow s a b =? look2 (o_allow t) a b) (c_universe c)) (c_universe c)
  && forallb (fun a => forallb (fun d => locked s a d =? look2 (c_locked c) a d) (c_denoms c)) (c_universe c).

(* index of the first step on which model and implementation disagree (None = all agree) *)
Fixpoint first_bad (c : ecase) (e : env) (s : state) (t : otab) (i : nat) (l : list estep) : option nat :=
  match l with
  | [] => None
  | x :: r =>
      let '(s', o) := xstep e s (s_op x) in
      let t' := {| o_bal := s_dbal x ++ o_bal t; o_sup := s_dsup x ++ o_sup t; o_allow := s_dallow x ++ o_allow t |} in
      if out_eqb o (s_out x) && (negb (s_check x) || state_agrees c s' t')
      then first_bad c e s' t' (S i) r
      else Some i
  end.

Definition erc20_first_bad (c : ecase) : option nat :=
  let t0 := {| o_bal := c_bal c; o_sup := c_sup c; o_allow := c_allow c |} in
  if state_agrees c (state_of c) t0
  then first_bad c (env_of c) (state_of c) t0 0%nat (c_steps c)
  else Some 0%nat.

Definition erc20_ok (c : ecase) : bool :=
  match erc20_first_bad c with None => true | Some _ => false end.

Definition erc20_mismatches (off : nat) (l : list ecase) : list nat := mism erc20_ok off l.
