(* Correspondence checker for the `crypto` driver (C19).

   The models of SigWrap / HdPath / Eip712Enc are parametric in the hash functions; here they are
   instantiated with executable Gallina implementations of Keccak-256 and HMAC-SHA-512 (checked against
   published vectors at the end of this file), so that coqc recomputes every observation of the harness
   from the inputs alone.  ECDSA verification results and scalar-times-generator values are supplied per
   case by the harness from its independent implementation (tables); a table miss is a mismatch. *)
From Coq Require Export String Ascii.
From Coq Require Import List NArith ZArith Bool.
From Evm Require Export SigWrap HdPath Eip712Enc SignDocFields CorrBase.
(* tymap_ok / doc_parts: the side conditions of C19_render_injective_or_collision_partial, evaluated on every case *)
From Evm Require Import Eip712EncProofs.
Import ListNotations.
Open Scope N_scope.

(* ------------------------------------------------------------------ Keccak-256 *)

Definition M64 : N := 0xFFFFFFFFFFFFFFFF.
Definition rotl64 (x : N) (n : N) : N :=
  if n =? 0 then x else N.lor (N.land (N.shiftl x n) M64) (N.shiftr x (64 - n)).
Definition nthN (l : list N) (i : nat) : N := nth i l 0.

Definition KECCAK_RC : list N := [
 0x0000000000000001; 0x0000000000008082; 0x800000000000808A; 0x8000000080008000;
 0x000000000000808B; 0x0000000080000001; 0x8000000080008081; 0x8000000000008009;
 0x000000000000008A; 0x0000000000000088; 0x0000000080008009; 0x000000008000000A;
 0x000000008000808B; 0x800000000000008B; 0x8000000000008089; 0x8000000000008003;
 0x8000000000008002; 0x8000000000000080; 0x000000000000800A; 0x800000008000000A;
 0x8000000080008081; 0x8000000000008080; 0x0000000080000001; 0x8000000080008008].

(* rotation offsets, index x + 5y *)
Definition KECCAK_ROT : list N := [
  0; 1; 62; 28; 27;   36; 44; 6; 55; 20;   3; 10; 43; 25; 39;   41; 45; 15; 21; 8;   18; 2; 61; 56; 14].

(* source lane of destination lane j under rho/pi: B[y, 2x+3y] = rot(A[x,y]) *)
Definition KECCAK_PI_SRC : list nat :=
  map (fun j => let X := (j mod 5)%nat in let Y := (j / 5)%nat in
                let y := X in let x := (((Y + 15 - (3 * y) mod 5) * 3) mod 5)%nat in (x + 5 * y)%nat) (seq 0 25).
Definition IDX25 : list nat := seq 0 25.
Definition IDX5 : list nat := seq 0 5.

Definition keccak_round (a : list N) (rc : N) : list N :=
  let c := map (fun x => N.lxor (nthN a x) (N.lxor (nthN a (x+5)) (N.lxor (nthN a (x+10)) (N.lxor (nthN a (x+15)) (nthN a (x+20)))))) IDX5 in
  let d := map (fun x => N.lxor (nthN c ((x+4) mod 5)) (rotl64 (nthN c ((x+1) mod 5)) 1)) IDX5 in
  let a1 := map (fun i => N.lxor (nthN a i) (nthN d (i mod 5))) IDX25 in
  let b := map (fun s => rotl64 (nthN a1 s) (nthN KECCAK_ROT s)) KECCAK_PI_SRC in
  let a2 := map (fun i => let x := (i mod 5)%nat in let y5 := (5 * (i / 5))%nat in
                 N.lxor (nthN b i) (N.land (N.lxor (nthN b (((x+1) mod 5) + y5)) M64) (nthN b (((x+2) mod 5) + y5)))) IDX25 in
  match a2 with
  | h :: t => N.lxor h rc :: t
  | [] => []
  end.
Definition keccak_f (a : list N) : list N := fold_left keccak_round KECCAK_RC a.

Fixpoint lane_of_bytes (l : bytes) : N :=
  match l with [] => 0 | b :: r => b + 256 * lane_of_bytes r end.
Fixpoint bytes_of_lane (n : nat) (x : N) : bytes :=
  match n with O => [] | S k => N.land x 255 :: bytes_of_lane k (N.shiftr x 8) end.
Fixpoint chunks (k : nat) (fuel : nat) (l : bytes) : list bytes :=
  match fuel with
  | O => []
  | S f => match l with [] => [] | _ => firstn k l :: chunks k f (skipn k l) end
  end.

Definition KECCAK_RATE : nat := 136.
Definition keccak_pad (m : bytes) : bytes :=
  let q := (KECCAK_RATE - (length m) mod KECCAK_RATE)%nat in
  if Nat.eqb q 1 then m ++ [0x81] else m ++ [0x01] ++ repeat 0 (q - 2) ++ [0x80].
Definition keccak_absorb (st : list N) (blk : bytes) : list N :=
  let lanes := map lane_of_bytes (chunks 8 17 blk) in
  keccak_f (map (fun i => if Nat.ltb i 17 then N.lxor (nthN st i) (nthN lanes i) else nthN st i) IDX25).
Definition keccak256 (m : bytes) : bytes :=
  let p := keccak_pad m in
  let st := fold_left keccak_absorb (chunks KECCAK_RATE (S (length p / KECCAK_RATE)) p) (repeat 0 25) in
  firstn 32 (flat_map (bytes_of_lane 8) st).

(* ------------------------------------------------------------------ SHA-512, HMAC *)

Definition SHA512_K : list N := [
 0x428a2f98d728ae22; 0x7137449123ef65cd; 0xb5c0fbcfec4d3b2f; 0xe9b5dba58189dbbc;
 0x3956c25bf348b538; 0x59f111f1b605d019; 0x923f82a4af194f9b; 0xab1c5ed5da6d8118;
 0xd807aa98a3030242; 0x12835b0145706fbe; 0x243185be4ee4b28c; 0x550c7dc3d5ffb4e2;
 0x72be5d74f27b896f; 0x80deb1fe3b1696b1; 0x9bdc06a725c71235; 0xc19bf174cf692694;
 0xe49b69c19ef14ad2; 0xefbe4786384f25e3; 0x0fc19dc68b8cd5b5; 0x240ca1cc77ac9c65;
 0x2de92c6f592b0275; 0x4a7484aa6ea6e483; 0x5cb0a9dcbd41fbd4; 0x76f988da831153b5;
 0x983e5152ee66dfab; 0xa831c66d2db43210; 0xb00327c898fb213f; 0xbf597fc7beef0ee4;
 0xc6e00bf33da88fc2; 0xd5a79147930aa725; 0x06ca6351e003826f; 0x142929670a0e6e70;
 0x27b70a8546d22ffc; 0x2e1b21385c26c926; 0x4d2c6dfc5ac42aed; 0x53380d139d95b3df;
 0x650a73548baf63de; 0x766a0abb3c77b2a8; 0x81c2c92e47edaee6; 0x92722c851482353b;
 0xa2bfe8a14cf10364; 0xa81a664bbc423001; 0xc24b8b70d0f89791; 0xc76c51a30654be30;
 0xd192e819d6ef5218; 0xd69906245565a910; 0xf40e35855771202a; 0x106aa07032bbd1b8;
 0x19a4c116b8d2d0c8; 0x1e376c085141ab53; 0x2748774cdf8eeb99; 0x34b0bcb5e19b48a8;
 0x391c0cb3c5c95a63; 0x4ed8aa4ae3418acb; 0x5b9cca4f7763e373; 0x682e6ff3d6b2b8a3;
 0x748f82ee5defb2fc; 0x78a5636f43172f60; 0x84c87814a1f0ab72; 0x8cc702081a6439ec;
 0x90befffa23631e28; 0xa4506cebde82bde9; 0xbef9a3f7b2c67915; 0xc67178f2e372532b;
 0xca273eceea26619c; 0xd186b8c721c0c207; 0xeada7dd6cde0eb1e; 0xf57d4f7fee6ed178;
 0x06f067aa72176fba; 0x0a637dc5a2c898a6; 0x113f9804bef90dae; 0x1b710b35131c471b;
 0x28db77f523047d84; 0x32caab7b40c72493; 0x3c9ebe0a15c9bebc; 0x431d67c49c100d4c;
 0x4cc5d4becb3e42b6; 0x597f299cfc657e2a; 0x5fcb6fab3ad6faec; 0x6c44198c4a475817].
Definition SHA512_H0 : list N := [0x6a09e667f3bcc908; 0xbb67ae8584caa73b; 0x3c6ef372fe94f82b; 0xa54ff53a5f1d36f1; 0x510e527fade682d1; 0x9b05688c2b3e6c1f; 0x1f83d9abfb41bd6b; 0x5be0cd19137e2179].

Definition add64 (a b : N) : N := N.land (a + b) M64.
Definition rotr64 (x n : N) : N := N.lor (N.shiftr x n) (N.land (N.shiftl x (64 - n)) M64).
Definition bsig0 (a : N) := N.lxor (rotr64 a 28) (N.lxor (rotr64 a 34) (rotr64 a 39)).
Definition bsig1 (e : N) := N.lxor (rotr64 e 14) (N.lxor (rotr64 e 18) (rotr64 e 41)).
Definition ssig0 (x : N) := N.lxor (rotr64 x 1) (N.lxor (rotr64 x 8) (N.shiftr x 7)).
Definition ssig1 (x : N) := N.lxor (rotr64 x 19) (N.lxor (rotr64 x 61) (N.shiftr x 6)).
Definition ch (e f g : N) := N.lxor (N.land e f) (N.land (N.lxor e M64) g).
Definition maj (a b c : N) := N.lxor (N.land a b) (N.lxor (N.land a c) (N.land b c)).

(* message schedule: win holds w[i-16..i-1] *)
Fixpoint sha_sched (n : nat) (win : list N) : list N :=
  match n with
  | O => []
  | S k =>
    let w := add64 (add64 (ssig1 (nthN win 14)) (nthN win 9)) (add64 (ssig0 (nthN win 1)) (nthN win 0)) in
    w :: sha_sched k (tl win ++ [w])
  end.

Definition sha_state : Type := (N * N * N * N * N * N * N * N)%type.
Definition sha_round (s : sha_state) (kw : N * N) : sha_state :=
  let '(a, b, c, d, e, f, g, h) := s in
  let t1 := add64 (add64 (add64 h (bsig1 e)) (add64 (ch e f g) (fst kw))) (snd kw) in
  let t2 := add64 (bsig0 a) (maj a b c) in
  (add64 t1 t2, a, b, c, add64 d t1, e, f, g).

Fixpoint be_word (l : bytes) (acc : N) : N :=
  match l with [] => acc | b :: r => be_word r (acc * 256 + b) end.

Definition sha_block (s : sha_state) (blk : bytes) : sha_state :=
  let w16 := map (fun c => be_word c 0) (chunks 8 16 blk) in
  let w := w16 ++ sha_sched 64 w16 in
  let '(a, b, c, d, e, f, g, h) := s in
  let '(a', b', c', d', e', f', g', h') := fold_left sha_round (combine SHA512_K w) s in
  (add64 a a', add64 b b', add64 c c', add64 d d', add64 e e', add64 f f', add64 g g', add64 h h').

Definition sha_pad (m : bytes) : bytes :=
  let l := length m in
  let z := ((128 - (l + 17) mod 128) mod 128)%nat in
  m ++ [0x80] ++ repeat 0 z ++ be_bytes 16 (N.of_nat l * 8) [].

Definition sha512 (m : bytes) : bytes :=
  let p := sha_pad m in
  let init := match SHA512_H0 with
              | [a; b; c; d; e; f; g; h] => (a, b, c, d, e, f, g, h)
              | _ => (0, 0, 0, 0, 0, 0, 0, 0)
              end in
  let '(a, b, c, d, e, f, g, h) := fold_left sha_block (chunks 128 (S (length p / 128)) p) init in
  flat_map (fun x => be_bytes 8 x []) [a; b; c; d; e; f; g; h].

Definition hmac_sha512 (key data : bytes) : bytes :=
  let k := if (128 <? length key)%nat then sha512 key else key in
  let k := k ++ repeat 0 (128 - length k) in
  sha512 (map (N.lxor 0x5c) k ++ sha512 (map (N.lxor 0x36) k ++ data)).

(* ------------------------------------------------------------------ cases *)

Inductive ccase :=
| CVerify (msg sig : bytes) (e712 : option bytes) (tbl : list (bytes * bytes * bool)) (obs : bool)
| CSignDigest (msg : bytes) (which : N)
| CAddr (xy : option bytes) (obs : bytes)
| CPath (s : bytes) (obs : option (list N))
| CPathStr (p : list N) (obs : bytes)
| CDerive (seed : bytes) (path : list N) (ptbl : list (bytes * bytes)) (obs : option bytes)
| CGen (bz obs : bytes)
| CProtoEnc (key obs : bytes)
| CAminoEnc (pub : bool) (key obs : bytes)
| CAminoDec (pub : bool) (bz : bytes) (obs : option bytes)
| CEip (doc : json) (obs : option bytes)
| CTyped (T : tymap) (prim : bytes) (dom msg : json) (obs : option bytes)
(* the fields of a SIGN_MODE_DIRECT sign document as the driver reads them by reflection from the message descriptors
   (path, kind): must be exactly the model's table (Model/SignDocFields.v pb_table) *)
| CPbFields (l : list (bytes * bytes))
(* how the real GetEIP712BytesForMsg treated every generated perturbation of one field, over the whole run:
   PRendered = never rendered the same (accepted ones rendered differently), PRefused = always refused,
   PSame = accepted and rendered the same at least once: must be the class the model's guard list gives the field *)
| CPbField (path : bytes) (cls : pclass)
(* json keys of legacytx.StdSignDoc / StdFee read by Go reflection *)
| CAminoKeys (l : list bytes).

Definition pclass_eqb (a b : pclass) : bool :=
  match a, b with
  | PRendered, PRendered | PRefused, PRefused | PSame, PSame | PUntouched, PUntouched => true
  | _, _ => false
  end.

Fixpoint table_eqb (a b : list (bytes * bytes)) : bool :=
  match a, b with
  | [], [] => true
  | (p, k) :: a', (q, l) :: b' => beqb p q && beqb k l && table_eqb a' b'
  | _, _ => false
  end.

Fixpoint blist_eqb (a b : list bytes) : bool :=
  match a, b with
  | [], [] => true
  | p :: a', q :: b' => beqb p q && blist_eqb a' b'
  | _, _ => false
  end.

Definition obeqb (a b : option bytes) : bool :=
  match a, b with
  | Some x, Some y => beqb x y
  | None, None => true
  | _, _ => false
  end.

Fixpoint lookup2 (tbl : list (bytes * bytes * bool)) (d s : bytes) : option bool :=
  match tbl with
  | [] => None
  | (d', s', r) :: t => if beqb d d' && beqb s s' then Some r else lookup2 t d s
  end.

Fixpoint listN_eqb (a b : list N) : bool :=
  match a, b with
  | [], [] => true
  | x :: a', y :: b' => (x =? y) && listN_eqb a' b'
  | _, _ => false
  end.

Definition all_ascii_types (T : tymap) : bool :=
  forallb (fun e => forallb (fun c => c <? 128) (fst e) &&
                    forallb (fun f => forallb (fun c => c <? 128) (fst f) && forallb (fun c => c <? 128) (snd f)) (snd e)) T.

Definition is_some {A} (o : option A) : bool := match o with Some _ => true | None => false end.

Definition crypto_ok (c : ccase) : bool :=
  match c with
  | CVerify msg sig e712 tbl obs =>
    let s' := strip_v sig in
    let present := match lookup2 tbl (keccak256 msg) s' with
                   | None => false
                   | Some _ => match e712 with
                               | None => true
                               | Some b => match lookup2 tbl (keccak256 b) s' with Some _ => true | None => false end
                               end
                   end in
    present &&
    Bool.eqb (verify keccak256 (fun _ d s => match lookup2 tbl d s with Some r => r | None => false end)
                     (fun _ => e712) [] msg sig) obs
  | CSignDigest msg which =>
    let d := sign_digest keccak256 msg in
    if which =? 0 then beqb d msg && (length msg =? 32)%nat
    else if which =? 1 then beqb d (keccak256 msg) && negb (length msg =? 32)%nat
    else false
  | CAddr xy obs => beqb (address keccak256 (fun _ => xy) []) obs
  | CPath s obs =>
    match parse_path s, obs with
    | POk p, Some q => listN_eqb p q
    | PErr, None => true
    | PUnmodelled, _ => true
    | _, _ => false
    end
  | CPathStr p obs => beqb (print_path p) obs
  | CDerive seed path ptbl obs =>
    let point (k : bytes) := match assoc k ptbl with Some p => p | None => [] end in
    match derive_seed hmac_sha512 point seed path, obs with
    | HOk k, Some k' => beqb k k'
    | HOk _, None => false
    | HUnmodelled, _ => true
    | _, None => true
    | _, Some _ => false
    end
  | CGen bz obs => beqb (generate bz) obs
  | CProtoEnc key obs =>
    beqb (proto_enc key) obs &&
    match proto_dec obs with DOk k => beqb k key | _ => false end
  | CAminoEnc pub key obs =>
    beqb (amino_enc pub key) obs && obeqb (amino_dec pub obs) (amino_unmarshal pub key)
  | CAminoDec pub bz obs => obeqb (amino_unmarshal pub bz) obs
  | CEip doc obs =>
    if negb (dup_free doc) then
      (* a repeated member at any depth: refused (ethereum/eip712/duplicate_keys.go) *)
      match obs with None => true | Some _ => false end
    else if keys_ok doc then
      obeqb (render_checked keccak256 doc) obs &&
      match obs with
      | Some _ =>       (* a rendered document: its derived type map meets the hypotheses of the injectivity theorem *)
        match doc_parts doc with
        | Some (_, T, _) => tymap_ok T && is_some (assoc TX T) && is_some (assoc EIP712DOMAIN T)
        | None => false
        end
      | None => true
      end
    else true
  | CTyped T prim dom msg obs =>
    match dom, msg with
    | JObj d, JObj m =>
      if all_ascii_types T then
        obeqb (typed_message_hash keccak256 T prim d m) obs &&
        match obs with Some _ => tymap_ok T && is_some (assoc prim T) && is_some (assoc EIP712DOMAIN T) | None => true end
      else true
    | _, _ => false
    end
  | CPbFields l => table_eqb l pb_table
  | CPbField path cls =>
    match field_of_path all_fields path with
    | Some f => pclass_eqb (pb_class f) cls
    | None => false
    end
  | CAminoKeys l => blist_eqb l amino_keys
  end.

Definition crypto_mismatches (off : nat) (l : list ccase) : list nat := mism crypto_ok off l.

(* ------------------------------------------------------------------ self-checks of the hash implementations *)

Definition hex_of (b : bytes) : bytes :=
  flat_map (fun x => let h (d : N) := if d <? 10 then 48 + d else 87 + d in [h (x / 16); h (x mod 16)]) b.

Example keccak256_empty :
  hex_of (keccak256 []) = bs "c5d2460186f7233c927e7db2dcc703c0e500b653ca82273b7bfad8045d85a470".
Proof. vm_compute. reflexivity. Qed.
Example keccak256_abc :
  hex_of (keccak256 (bs "abc")) = bs "4e03657aea45a94fc7d47ba826c8d667c0d1e6e33a64a036ec44f58fa12d6c45".
Proof. vm_compute. reflexivity. Qed.
(* 200 bytes: two blocks *)
Example keccak256_200a :
  hex_of (keccak256 (repeat 0x61 200)) = bs "96ea54061def936c4be90b518992fdc6f12f535068a256229aca54267b4d084d".
Proof. vm_compute. reflexivity. Qed.
Example sha512_abc :
  hex_of (sha512 (bs "abc")) =
  bs "ddaf35a193617abacc417349ae20413112e6fa4e89a97ea20a9eeee64b55d39a2192992a274fc1a836ba3c23a3feebbd454d4423643ce80e2a9ac94fa54ca49f".
Proof. vm_compute. reflexivity. Qed.
Example sha512_two_blocks :
  hex_of (sha512 (repeat 0x61 200)) = bs "4b11459c33f52a22ee8236782714c150a3b2c60994e9acee17fe68947a3e6789f31e7668394592da7bef827cddca88c4e6f86e4df7ed1ae6cba71f3e98faee9f".
Proof. vm_compute. reflexivity. Qed.
(* BIP-32 test vector 1, master node: I = HMAC-SHA512("Bitcoin seed", 000102..0f) *)
Example hmac_bip32_vector1 :
  hex_of (hmac_sha512 (bs "Bitcoin seed") (B 16 0x000102030405060708090a0b0c0d0e0f)) =
  bs "e8f32e723decf4051aefac8e2c93c9c5b214313817cdb01a1494b917c8436b35873dff81c02f525623fd1fe5167eac3a55a049de3d314bb42ee227ffed37d508".
Proof. vm_compute. reflexivity. Qed.
Example hmac_long_key :
  hex_of (hmac_sha512 (repeat 0x6b 200) (bs "data")) = bs "854e242c54ce5f31621a1f809881b3439c0a77fd594dc546b9b3a957cf6f7b5475a1302be9fde1ece18531982eaa2141907c8b2fbd8bec2e5b19b8312ace3f2b".
Proof. vm_compute. reflexivity. Qed.
