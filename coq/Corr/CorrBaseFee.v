(* Correspondence checker for the `basefee` driver: cases are (b, used, max_gas, min_dec, observed). *)
From Evm Require Import BaseFee CorrBase.
Open Scope Z_scope.

Inductive obs := ObsOk (z : Z) | ObsPanicDivZero | ObsPanicOverflow | ObsPanicOther.

Definition obs_eqb (r : res) (o : obs) : bool :=
  match r, o with
  | Ok a, ObsOk b => a =? b
  | PanicDivZero, ObsPanicDivZero => true
  | PanicOverflow, ObsPanicOverflow => true
  | _, _ => false
  end.

Definition bf_case : Type := Z * Z * Z * Z * obs.

Definition bf_ok (c : bf_case) : bool :=
  let '(b, used, mg, md, o) := c in obs_eqb (calc_base_fee b used mg md) o.

Definition bf_mismatches (off : nat) (l : list bf_case) : list nat := mism bf_ok off l.
