(* Correspondence checker for the `twin` driver (C01).

   Every case is evaluated with [Nondet.exec_tx] (the definition the theorems of Properties/C01.v are about) under
   three different ambient environments — other wall clock, other map enumeration order at every site, other node
   minimum-gas-prices, other tracer, other GOMAXPROCS — and each evaluation must reproduce what the real code did.

   CCommit  one destroy-heavy Ethereum transaction: the state of a small address universe as the real cStateDb saw it
            right before CommitMultiStore (read through the StateDB's own context after the real TransitionDb ran the
            message on a branch), the keys of its `touched` and `selfDestructed` maps in the order Go enumerated them
            in that process, the block time; observed: whether the commit succeeded (no panic of the destroy guard),
            the bank burn events in emission order, which addresses still have an account afterwards.  The same
            transaction then runs in a real block on every replica; the driver's oracle requires the block's events
            to equal the branch run's.
   CStake   transfer(self, amount) of the staking precompile: validators (rank of the operator string, tokens,
            bonded) and the caller's delegations in store order; observed: operator and amount of the delegation made.
   CFloor   an otherwise valid transaction with a price at / around the floor: base fee, global minimum, price fields;
            observed: whether the deliver-mode ante handler let it pass (on every replica, whatever its node minimum).
   CApply   an Ethereum transaction (call, transfer or creation) of a fresh account whose balance right before the state
            transition is known exactly (funded with fee + base; the fee is read back from the transaction's events):
            balance, value; observed: the result code (0 executed, 1 = ApplyTransaction's wrapped error) and that the
            codespace is the one of an unregistered error — on every replica and in the node-configuration process
            (telemetry on), whose outputs the driver compares. *)
From Evm Require Import Destroy Nondet CorrBase.
From Evm Require BaseFee.
Open Scope Z_scope.

Definition nd_entry := (addr * option account * coins * Z * storage)%type.

Definition nd_addr (en : nd_entry) : addr := let '(a, _, _, _, _) := en in a.

Fixpoint nd_find (l : list nd_entry) (a : addr) : option nd_entry :=
  match l with
  | [] => None
  | en :: r => if nd_addr en =? a then Some en else nd_find r a
  end.

Definition nd_world (l : list nd_entry) (next : Z) : world :=
  mkWorld
    (fun a => match nd_find l a with Some (_, ac, _, _, _) => ac | None => None end)
    (fun a => match nd_find l a with Some (_, _, c, _, _) => c | None => [] end)
    (fun a => match nd_find l a with Some (_, _, _, h, _) => h | None => 0 end)
    (fun a => match nd_find l a with Some (_, _, _, _, s) => s | None => [] end)
    next.

(* ---- three ambient environments that differ in everything *)
Definition rot (l : list Z) : list Z := match l with [] => [] | x :: r => r ++ [x] end.

Definition env_a : nenv := mkNenv 0 (fun _ _ _ l => l) 0 TrNone 1 false 0.
Definition env_b : nenv := mkNenv 4102444800 (fun _ _ _ l => rev l) (10 ^ 30) TrAccessList 16 true 5.
Definition env_c : nenv :=
  mkNenv 1700000000 (fun i k j l => if Z.even (i + k + j) then rot l else rev (rot l)) (7 * 10 ^ 18) TrStruct 4 true 4.
Definition envs : list nenv := [env_a; env_b; env_c].

Inductive ccase :=
| CCommit (block_time : Z) (blocked : list addr) (ents : list nd_entry) (next : Z)
          (touched sd : list addr) (denoms : list denom) (create : bool)
          (obs_ok : bool) (obs_burns : list (addr * coins)) (obs_exists : list (addr * bool))
| CStake (vals : list validator) (dels : list (addr * Z * Z)) (caller : addr) (amount : Z)
         (obs : option (Z * Z))
| CFloor (base gmin : Z) (dyn : bool) (price tip cap : Z) (obs_admitted : bool)
| CApply (bal value : Z) (create : bool) (obs_code : Z) (obs_unregistered : bool).

Definition coins_eqb (ds : list denom) (a b : coins) : bool := forallb (fun d => amt a d =? amt b d) ds.

Fixpoint events_eqb (ds : list denom) (evs : list event) (obs : list (addr * coins)) : bool :=
  match evs, obs with
  | [], [] => true
  | EvBurn a c :: r, (a', c') :: r' => (a =? a') && coins_eqb ds c c' && events_eqb ds r r'
  | _, _ => false
  end.

Definition has_acc (w : world) (a : addr) : bool := match w_acc w a with Some _ => true | None => false end.

(* the StateDB calls that leave exactly these trackers over the observed pre-commit state: a zero-value AddBalance only
   touches; Suicide on an existing account whose EVM-denom balance is already zero touches and marks.  The reverted
   frame at the end (touching -1, not an address) makes the current trackers copies, as after any failed inner call. *)
Definition synth_ops (touched sd : list addr) : list op :=
  map (fun a => AddBalance a 0) touched ++ map Suicide sd ++ [Snapshot; AddBalance (-1) 0; RevertTo 0].

Definition plain_tx (create : bool) (stake : option Z) : txd := mkTxd 0 create false 1 0 0 100000 0 0 stake.

Definition commit_ok_in (e : nenv) (bt : Z) (blocked : list addr) (ents : list nd_entry) (next : Z)
    (touched sd : list addr) (ds : list denom) (create obs_ok : bool)
    (obs_burns : list (addr * coins)) (obs_exists : list (addr * bool)) : bool :=
  let s := mkC (nd_world ents next) (fun a => mem a blocked) 0 0 [] [] in
  let interp := fun (_ : header) (_ : world) (_ : txd) => (synth_ops touched sd, 0, 0, false) in
  let '(s', r) := exec_tx interp impl_head e (mkHeader 1 bt) 0 s (plain_tx create None) in
  if obs_ok then
    (r_code r =? 0) && events_eqb ds (r_events r) obs_burns
    && forallb (fun p => Bool.eqb (has_acc (c_w s') (fst p)) (snd p)) obs_exists
  else r_code r =? CODE_PANIC.

Definition stake_ok_in (e : nenv) (vals : list validator) (dels : list (addr * Z * Z)) (caller amount : Z)
    (obs : option (Z * Z)) : bool :=
  let w := nd_world [(caller, Some (mkAcc Base 0 0), [(evm_denom, Z.max amount 0)], 0, [])] 1 in
  let s := mkC w (fun _ => false) 0 0 vals dels in
  let interp := fun (_ : header) (_ : world) (_ : txd) => ([] : list op, 0, 0, false) in
  let t := mkTxd caller false false 1 0 0 100000 0 0 (Some amount) in
  let '(_, r) := exec_tx interp impl_head e (mkHeader 1 0) 0 s t in
  match obs, r_events r with
  | Some (op, a), [EvDelegate d o a'] => (d =? caller) && (o =? op) && (a =? a')
  | None, [] => true
  | _, _ => false
  end.

Definition floor_ok_in (e : nenv) (base gmin : Z) (dyn : bool) (price tip cap : Z) (obs_admitted : bool) : bool :=
  let s := mkC (nd_world [] 1) (fun _ => false) base gmin [] [] in
  let interp := fun (_ : header) (_ : world) (_ : txd) => ([] : list op, 0, 0, false) in
  let t := mkTxd 0 false dyn price tip cap 100000 0 0 None in
  let '(_, r) := exec_tx interp impl_head e (mkHeader 1 0) 0 s t in
  Bool.eqb (negb (r_code r =? CODE_INSUFFICIENT_FEE)) obs_admitted.

Definition apply_ok_in (e : nenv) (bal value : Z) (create : bool) (obs_code : Z) (obs_unregistered : bool) : bool :=
  let w := nd_world [(5, Some (mkAcc Base 0 5), [(evm_denom, bal)], 0, [])] 50 in
  let s := mkC w (fun _ => false) 0 0 [] [] in
  let interp := fun (_ : header) (_ : world) (_ : txd) => ([] : list op, 0, 0, false) in
  let t := mkTxd 5 create false 1 0 0 100000 0 value None in
  let '(_, r) := exec_tx interp impl_head e (mkHeader 1 0) 0 s t in
  obs_unregistered && (r_code r =? obs_code).

Definition nd_ok (c : ccase) : bool :=
  match c with
  | CCommit bt blocked ents next touched sd ds create ok burns ex =>
      forallb (fun e => commit_ok_in e bt blocked ents next touched sd ds create ok burns ex) envs
  | CStake vals dels caller amount obs =>
      forallb (fun e => stake_ok_in e vals dels caller amount obs) envs
  | CFloor base gmin dyn price tip cap adm =>
      forallb (fun e => floor_ok_in e base gmin dyn price tip cap adm) envs
  | CApply bal value create code unreg =>
      forallb (fun e => apply_ok_in e bal value create code unreg) envs
  end.

Definition nd_mismatches (off : nat) (l : list ccase) : list nat := mism nd_ok off l.
