(* Shared helpers for correspondence checkers (evaluated with vm_compute on harness output). *)
From Coq Require Export List ZArith Bool.
Export ListNotations.

Fixpoint mism {A} (ok : A -> bool) (i : nat) (l : list A) : list nat :=
  match l with
  | [] => []
  | c :: r => if ok c then mism ok (S i) r else i :: mism ok (S i) r
  end.

Definition optZ_eqb (a b : option Z) : bool :=
  match a, b with
  | Some x, Some y => Z.eqb x y
  | None, None => true
  | _, _ => false
  end.

Fixpoint listZ_eqb (a b : list Z) : bool :=
  match a, b with
  | [], [] => true
  | x :: a', y :: b' => Z.eqb x y && listZ_eqb a' b'
  | _, _ => false
  end.
