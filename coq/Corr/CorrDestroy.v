(* Correspondence checker for the `destroy` driver (C15).

   A case = block time, bank's blocked addresses, the initial per-address stores of a small universe
   (auth account, bank balances, evm code hash, evm storage) and the global account number, then
   groups of StateDB operations as they were made on the real cStateDb (directly by the harness, or by
   the real EVM interpreter / TransitionDb through a recording wrapper), each with what was observed after
   it (Exist / Empty of a focus address, or a panic), then the observed result of CommitMultiStore:
   the per-address stores, the account number counter and the bank burns of the commit loop in order.

   Since the round-3 seeds: operations are [xop]s (Model/DestroyX.v): the StateDB calls interleaved with the writes other
   modules made on the StateDB's current context (ERC-20 / staking precompiles through the keepers, or the harness
   through the bank keeper directly), each with the observed outcome; and the RAW x/evm store (every key under the
   storage and code-hash prefixes, as the store iterator returns them) before the transaction, before the commit and
   after it.  The per-address code / storage of the model's initial world are READ OFF THE RAW STORE with the model's own
   prefix iteration ([abs_stor] / [abs_code], proved complete for every address in DestroyXProofs.prefix_range_spec);
   the keeper's view (ForEachStorage / GetCodeHash) must agree with it; the commit's effect on the raw store must be
   [raw_wipe] of every address the model's commit loop destroys. *)
From Evm Require Import Destroy DestroyX CorrBase.
Open Scope Z_scope.

Definition entry := (addr * option account * coins * Z * storage)%type.

Definition e_addr (en : entry) : addr := let '(a, _, _, _, _) := en in a.

Fixpoint find_entry (l : list entry) (a : addr) : option entry :=
  match l with
  | [] => None
  | en :: r => if e_addr en =? a then Some en else find_entry r a
  end.

Definition world_of (l : list entry) (next : Z) (r : raw) : world :=
  mkWorld
    (fun a => match find_entry l a with Some (_, ac, _, _, _) => ac | None => None end)
    (fun a => match find_entry l a with Some (_, _, c, _, _) => c | None => [] end)
    (fun a => abs_code r a)
    (fun a => abs_stor r a)
    next.

(* ---- structural comparisons (coins compared per denomination of the case's denomination list) *)

Definition coins_eqb (ds : list denom) (a b : coins) : bool :=
  forallb (fun d => amt a d =? amt b d) ds.

Definition vkind_eqb (a b : vkind) : bool :=
  match a, b with
  | VRaw, VRaw | VDelayed, VDelayed | VContinuous, VContinuous | VPeriodic, VPeriodic | VPermanent, VPermanent => true
  | _, _ => false
  end.

Fixpoint periods_eqb (ds : list denom) (a b : list (Z * coins)) : bool :=
  match a, b with
  | [], [] => true
  | (l1, c1) :: r1, (l2, c2) :: r2 => (l1 =? l2) && coins_eqb ds c1 c2 && periods_eqb ds r1 r2
  | _, _ => false
  end.

Definition sched_eqb (ds : list denom) (a b : sched) : bool :=
  vkind_eqb (s_kind a) (s_kind b) && (s_start a =? s_start b) && (s_end a =? s_end b)
  && coins_eqb ds (s_orig a) (s_orig b) && coins_eqb ds (s_delv a) (s_delv b)
  && periods_eqb ds (s_periods a) (s_periods b).

Definition kind_eqb (ds : list denom) (a b : kind) : bool :=
  match a, b with
  | Base, Base => true
  | Module, Module => true
  | Vesting x, Vesting y => sched_eqb ds x y
  | _, _ => false
  end.

Definition acc_eqb (ds : list denom) (a b : option account) : bool :=
  match a, b with
  | None, None => true
  | Some x, Some y => kind_eqb ds (a_kind x) (a_kind y) && (a_nonce x =? a_nonce y) && (a_num x =? a_num y)
  | _, _ => false
  end.

Fixpoint slot (s : storage) (k : Z) : option Z :=
  match s with
  | [] => None
  | (k', v) :: r => if k' =? k then Some v else slot r k
  end.

(* both lists have distinct keys (model: set_slot; observation: store iteration) *)
Definition stor_eqb (a b : storage) : bool :=
  (Nat.eqb (length a) (length b)) && forallb (fun p => optZ_eqb (slot a (fst p)) (Some (snd p))) b.

Definition entry_ok (ds : list denom) (w : world) (en : entry) : bool :=
  let '(a, ac, c, h, s) := en in
  acc_eqb ds (w_acc w a) ac && coins_eqb ds (w_bal w a) c && (w_code w a =? h) && stor_eqb (w_stor w a) s.

Fixpoint burns_eqb (ds : list denom) (a b : list (addr * coins)) : bool :=
  match a, b with
  | [], [] => true
  | (x, c) :: r, (y, c') :: r' => (x =? y) && coins_eqb ds c c' && burns_eqb ds r r'
  | _, _ => false
  end.

(* ---- raw store *)

Fixpoint raw_eqb (a b : raw) : bool :=
  match a, b with
  | [], [] => true
  | (k, v) :: r, (k', v') :: r' => bytes_eqb k k' && (v =? v') && raw_eqb r r'
  | _, _ => false
  end.

(* the keeper's view of an entry (ForEachStorage, GetCodeHash) is what the raw store holds for the address *)
Definition view_ok (r : raw) (en : entry) : bool :=
  let '(a, _, _, h, s) := en in (abs_code r a =? h) && stor_eqb (abs_stor r a) s.

(* every storage / code-hash key of the raw store belongs to an address of the case's universe *)
Definition own_keys (ens : list entry) : list (bytes * bytes) :=
  map (fun en => (stor_prefix (e_addr en), codehash_key (e_addr en))) ens.

Definition owned (ks : list (bytes * bytes)) (kv : bytes * Z) : bool :=
  existsb (fun k => has_prefix (fst k) (fst kv) || bytes_eqb (fst kv) (snd k)) ks.

Definition raw_ok (ens : list entry) (r : raw) : bool :=
  let ks := own_keys ens in
  wf_raw r && forallb (owned ks) r && forallb (view_ok r) ens.

(* the harness writes a key as (length, the key read as a big-endian number) *)
Definition craw := list (nat * Z * Z).

Definition expand (c : craw) : raw := map (fun x => let '(n, k, v) := x in (be_bytes n k, v)) c.

(* ---- cases *)

(* after a group: what the StateDB answers about a focus address - Exist, Empty, GetBalance, GetNonce, GetCodeHash *)
Inductive gobs := GOk (focus : addr) (ex em : bool) (bal nonce code : Z) | GPanic.

(* (made by the EVM interpreter?, operations, observation after the group) *)
Definition group := (bool * list xop * gobs)%type.

(* entries, next account number, bank burns of the commit loop, raw store before the commit, raw store after it *)
Definition final := (list entry * Z * list (addr * coins) * craw * craw)%type.

Record dcase := mkCase {
  c_now : Z;
  c_blocked : list addr;
  c_denoms : list denom;
  c_init : list entry;
  c_next : Z;
  c_raw : craw;
  c_groups : list group;
  c_final : option final
}.

Definition env_of (c : dcase) : env := mkEnv (c_now c) (fun a => mem a (c_blocked c)).

(* runs the groups; None = mismatch; Some None = the model panicked where the implementation did;
   Some (Some s) = all groups done *)
Fixpoint run_groups (e : env) (s : sdb) (gs : list group) : option (option sdb) :=
  match gs with
  | [] => Some (Some s)
  | (evm, ops, o) :: r =>
      if evm && negb (xevm_trace e s ops) then None
      else if negb (xagree e s ops) then None
      else match run_xops e s ops, o with
           | Ok s', GOk a ex em bal nonce code =>
               if Bool.eqb (exist (cur s') a) ex && Bool.eqb (is_empty (f_w (cur s')) a) em
                  && (amt (w_bal (f_w (cur s')) a) evm_denom =? bal) && (nonce_at (f_w (cur s')) a =? nonce)
                  && (w_code (f_w (cur s')) a =? code)
               then run_groups e s' r else None
           | Panic, GPanic => match r with [] => Some None | _ => None end
           | _, _ => None
           end
  end.

Definition final_ok (c : dcase) (e : env) (f : frame) (w : world) (b : list (addr * coins)) (fin : final) : bool :=
  let '(ens, next, ob, crpre, crpost) := fin in
  let rpre := expand crpre in
  let rpost := expand crpost in
  let ks := own_keys ens in
  forallb (entry_ok (c_denoms c) w) ens && (w_next w =? next) && burns_eqb (c_denoms c) b ob
  (* the raw store at commit time is a view of the model's world at commit time ... *)
  && wf_raw rpre && forallb (owned ks) rpre
  && forallb (fun en => (abs_code rpre (e_addr en) =? w_code (f_w f) (e_addr en))
                        && stor_eqb (w_stor (f_w f) (e_addr en)) (abs_stor rpre (e_addr en))) ens
  (* ... the commit wipes, for every address the model's loop destroys, exactly its keys ... *)
  && raw_eqb rpost (fold_left raw_wipe (destroyed_at_commit e f) rpre)
  (* ... and what is left is the model's final world, in the raw store and in the keeper's view *)
  && raw_ok ens rpost
  && forallb (fun en => (abs_code rpost (e_addr en) =? w_code w (e_addr en))
                        && stor_eqb (w_stor w (e_addr en)) (abs_stor rpost (e_addr en))) ens.

Definition dcase_ok (c : dcase) : bool :=
  let e := env_of c in
  let r0 := expand (c_raw c) in
  raw_ok (c_init c) r0 &&
  match run_groups e (init_sdb (world_of (c_init c) (c_next c) r0)) (c_groups c) with
  | None => false
  | Some None => match c_final c with None => true | Some _ => false end
  | Some (Some s) =>
      match commit e (cur s), c_final c with
      | Panic, None => true
      | Ok (w, b), Some fin => final_ok c e (cur s) w b fin
      | _, _ => false
      end
  end.

(* the whole transaction, as one list of operations, must give the same verdict through run_xtx
   (the function the theorems are about) *)
Definition all_ops (c : dcase) : list xop := flat_map (fun g => snd (fst g)) (c_groups c).

Definition dcase_tx_ok (c : dcase) : bool :=
  match run_xtx (env_of c) (world_of (c_init c) (c_next c) (expand (c_raw c))) (all_ops c), c_final c with
  | TxFailed, None => true
  | TxOk w b, Some (ens, next, ob, _, _) =>
      forallb (entry_ok (c_denoms c) w) ens && (w_next w =? next) && burns_eqb (c_denoms c) b ob
  | _, _ => false
  end.

Definition destroy_ok (c : dcase) : bool := dcase_ok c && dcase_tx_ok c.

Definition destroy_mismatches (off : nat) (l : list dcase) : list nat := mism destroy_ok off l.
