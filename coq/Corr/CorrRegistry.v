(* Correspondence checker for the `registry` driver (C17).
   A case is one history on the real chain: the registry as found (or wiped and re-created by the real InitGenesis),
   then messages / keeper-API calls / supply changes; after every step the whole registry (metadata, denom index,
   module sequence, params) is observed, and at probe points EVM calls to candidate addresses in four execution modes. *)
From Evm Require Import Registry CorrBase.
Open Scope Z_scope.

Inductive obs_res := XOk (addr : Z) | XOkAny | XErr | XPanic.

Inductive skind := SOp (o : op) | SGenesis (g : genesis).

Record rstep := {
  r_kind : skind;
  r_res : obs_res;
  r_metas : list (Z * cmeta);
  r_didx : list (Z * Z);
  r_seq : Z;
  r_prm : params;
  r_probes : list (mode * via * Z * probe * pres);   (* calls made after the step (same block or later) *)
  r_pre : list (mode * via * Z * probe * pres);      (* calls made BEFORE the step took effect: in the same block ahead of
                                                        the step's transaction, or in check / simulate / query mode
                                                        between FinalizeBlock and Commit of the step's block *)
  r_old : list (nat * (mode * via * Z * probe * pres)) (* calls made after the step but evaluated on an EARLIER version of
                                                        the state (eth_call at an older height): (k, ..) = the state
                                                        after k steps of the case (0 = the initial state) *)
}.

Record rcase := {
  rc_caddr : list (Z * Z);          (* module sequence -> crypto.CreateAddress(module, sequence), computed by the driver *)
  rc_hrp : Z;
  rc_metas : list (Z * cmeta);
  rc_didx : list (Z * Z);
  rc_seq : Z;
  rc_prm : params;
  rc_supply : list (Z * Z);
  rc_steps : list rstep
}.

Definition caddr_of (c : rcase) (n : Z) : Z :=
  match lookup (rc_caddr c) n with Some a => a | None => 0 end.

Definition typed_eqb (a b : typed) : bool :=
  match a, b with
  | TErc20 x y z, TErc20 x' y' z' => (x =? x') && (y =? y') && (z =? z')
  | TStaking x y, TStaking x' y' => (x =? x') && (y =? y')
  | TBech32, TBech32 => true
  | TBad, TBad => true
  | TMissing, TMissing => true
  | _, _ => false
  end.
Definition cmeta_eqb (a b : cmeta) : bool :=
  (m_type a =? m_type b) && (m_name a =? m_name b) && typed_eqb (m_typed a) (m_typed b) && Bool.eqb (m_disabled a) (m_disabled b).

Definition map_sub {V} (eqv : V -> V -> bool) (a b : list (Z * V)) : bool :=
  forallb (fun x => match lookup b (fst x) with Some v => eqv (snd x) v | None => false end) a.
Definition map_eqb {V} (eqv : V -> V -> bool) (a b : list (Z * V)) : bool :=
  (Nat.eqb (length a) (length b)) && map_sub eqv a b && map_sub eqv b a.

Fixpoint wl_eqb (a b : list wl_entry) : bool :=
  match a, b with
  | [], [] => true
  | x :: a', y :: b' => (w_id x =? w_id y) && wl_eqb a' b'
  | _, _ => false
  end.
Definition params_eqb (a b : params) : bool := (p_version a =? p_version b) && wl_eqb (p_whitelist a) (p_whitelist b).

Definition pres_eqb (a b : pres) : bool :=
  match a, b with
  | POkStr x, POkStr y => x =? y
  | POkUint x, POkUint y => x =? y
  | POkEmpty, POkEmpty => true
  | PRevert, PRevert => true
  | PFail, PFail => true
  | PStd, PStd => true
  | _, _ => false
  end.

Definition res_eqb (m : res) (o : obs_res) : bool :=
  match m, o with
  | ROk a, XOk b => a =? b
  | ROk _, XOkAny => true
  | RErr, XErr => true
  | RPanic, XPanic => true
  | _, _ => false
  end.

Definition state_agrees (s : state) (x : rstep) : bool :=
  map_eqb cmeta_eqb (metas s) (r_metas x) && map_eqb Z.eqb (didx s) (r_didx x)
  && (mseq s =? r_seq x) && params_eqb (prm s) (r_prm x).

Definition probes_agree_on (c : rcase) (s : state) (l : list (mode * via * Z * probe * pres)) : bool :=
  forallb (fun q => match q with (md, v, a, p, o) => pres_eqb (probe_via (rc_hrp c) md v s a p) o end) l.
Definition probes_agree (c : rcase) (s : state) (x : rstep) : bool := probes_agree_on c s (r_probes x).

Definition step_model (c : rcase) (s : state) (k : skind) : state * res :=
  match k with
  | SOp o => step (caddr_of c) s o
  | SGenesis g => match init_genesis (caddr_of c) s g with Some s' => (s', ROk 0) | None => (s, RPanic) end
  end.

(* answers on older versions: [Registry.answer_at], the function the theorem C17_node_traffic_erasable is about.
   Between the steps the driver also makes requests the case does not mention at all (simulated deployments, the
   historic calls themselves): the model has no term for them because they are erasable. *)
Definition old_agree (c : rcase) (vers : list state) (l : list (nat * (mode * via * Z * probe * pres))) : bool :=
  forallb (fun q => match q with (k, (md, v, a, p, o)) =>
                      match answer_at (rc_hrp c) vers k md v a p with Some m => pres_eqb m o | None => false end end) l.

(* [vers]: the states after 0, 1, .. steps, oldest first (the last one is [s]) *)
Fixpoint first_bad (c : rcase) (vers : list state) (s : state) (i : nat) (l : list rstep) : option nat :=
  match l with
  | [] => None
  | x :: r =>
      let '(s', o) := step_model c s (r_kind x) in
      let vers' := vers ++ [s'] in
      if res_eqb o (r_res x) && state_agrees s' x && probes_agree c s' x && probes_agree_on c s (r_pre x)
         && old_agree c vers' (r_old x)
      then first_bad c vers' s' (S i) r
      else Some i
  end.

Definition state_of (c : rcase) : state :=
  {| metas := rc_metas c; didx := rc_didx c; mseq := rc_seq c; prm := rc_prm c;
     supply := fun d => match lookup (rc_supply c) d with Some v => v | None => 0 end |}.

Definition registry_first_bad (c : rcase) : option nat := first_bad c [state_of c] (state_of c) 0%nat (rc_steps c).
Definition registry_ok (c : rcase) : bool := match registry_first_bad c with None => true | Some _ => false end.
Definition registry_mismatches (off : nat) (l : list rcase) : list nat := mism registry_ok off l.
