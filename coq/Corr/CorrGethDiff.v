(* Correspondence checker of the `gethdiff` driver (C02).
   CTrans: one transaction: message, environment, the sender as each state database reports it, the
           interpreter oracle observed by a tracer on each side, and what each implementation returned;
           Model/Transition.v must predict both.
   COps:   one transaction's complete sequence of StateDB interface operations as issued by the real
           interpreter and transition wrapper (or by the random op generator) on ONE implementation, with
           every returned observation, the EVM view before, and the EVM view after the end-of-transaction
           step; Model/GethStateDB.v resp. Model/EvmStateDB.v must reproduce every observation and the
           final view. *)
From Evm Require Import EvmAbs GethStateDB EvmStateDB Transition CorrBase.
Open Scope Z_scope.

(* ---------------------------------------------------------------- transition cases *)
Inductive tobs :=
| TObsErr (cls : Z)                                   (* core error class, numbered as core_class below *)
| TObsOk (used : Z) (sender_delta : Z) (nonce_after : Z) (coinbase_delta : Z).

Definition core_class (e : core_err) : Z :=
  match e with
  | ENonceTooHigh => 1 | ENonceTooLow => 2 | ENonceMax => 3 | ESenderNoEOA => 4
  | EFeeCapVeryHigh => 5 | ETipVeryHigh => 6 | ETipAboveFeeCap => 7 | EFeeCapTooLow => 8
  | EInsufficientFunds => 9 | EInsufficientFundsForTransfer => 9
  | EGasLimitReached => 10 | EGasUintOverflow => 11 | EIntrinsicGas => 12
  end.

(* [value] is what the interpreter moved out of the sender at the top level (observed), so that the
   wrapper's own contribution to the sender's balance can be compared *)
Definition tres_matches (r : tres) (snd : sender) (o : tobs) (top_value_moved : Z) (is_create : bool) : bool :=
  match r, o with
  | TErr e, TObsErr c => core_class e =? c
  | TOk used _ delta fee bumped, TObsOk used' delta' nonce' cb' =>
      (used =? used') && (delta - top_value_moved =? delta') && (fee =? cb')
      && (nonce' =? s_nonce snd + 1)      (* calls: the wrapper's SetNonce; creations: evm.create's *)
      && (Bool.eqb bumped (negb is_create))
  | _, _ => false
  end.

(* ---------------------------------------------------------------- op-sequence cases *)
Definition pre_acct : Type := (Z * bool * Z * Z * Z * Z * list (Z * Z) * bool)%type.   (* addr, exists, account number, nonce, balance, code, storage, holds another denomination (evermint only) *)
Definition post_acct : Type := (Z * Z * Z * Z * list (Z * Z))%type.             (* addr, nonce, balance, code, probed storage *)

Fixpoint stor_fn (l : list (Z * Z)) : Z -> Z :=
  match l with [] => zf | (k, v) :: r => upd (stor_fn r) k v end.

Definition is_blank (p : pre_acct) : bool :=
  let '(_, ex, _, n, b, c, st, _) := p in negb ex && (n =? 0) && (b =? 0) && (c =? 0) && match st with [] => true | _ => false end.

Fixpoint g_objs_of (l : list pre_acct) : Z -> option gobj :=
  match l with
  | [] => fun _ => None
  | p :: r =>
      let '(a, ex, _, n, b, c, st, _) := p in
      if is_blank p then g_objs_of r
      else upd (g_objs_of r) a (Some (mkGobj n b c (stor_fn st) (stor_fn st) false))
  end.

Fixpoint e_store_of (l : list pre_acct) (mods : list Z) (next : Z) : estore :=
  match l with
  | [] => mkEstore (fun _ => None) zf (fun _ => false) zf (fun _ => []) next (fun a => memZ a mods)
  | p :: r =>
      let '(a, ex, num, n, b, c, st, ot) := p in
      let s := e_store_of r mods next in
      mkEstore (if ex then upd (e_acc s) a (Some (num, n)) else e_acc s) (upd (e_bal s) a b) (upd (e_other s) a ot)
               (upd (e_ch s) a c) (upd (e_st s) a st) (e_next s) (e_module s)
  end.

Definition obs_eqb (x y : obs) : bool :=
  match x, y with
  | ObNone, ObNone => true
  | ObZ a, ObZ b => a =? b
  | ObB a, ObB b => Bool.eqb a b
  | ObBB a b, ObBB c d => Bool.eqb a c && Bool.eqb b d
  | ObHash a b, ObHash c d => Bool.eqb a c && (b =? d)
  | _, _ => false
  end.

(* replay; returns the number of the first operation whose observation differs (0 = all equal), and the final state *)
Fixpoint replay {St : Type} (step : op -> St -> option (St * obs)) (s : St) (l : list (op * obs)) (i : nat) : nat * option St :=
  match l with
  | [] => (O, Some s)
  | (o, x) :: r =>
      match step o s with
      | None => (S i, None)
      | Some (s', y) => if obs_eqb x y then replay step s' r (S i) else (S i, Some s')
      end
  end.

Definition probe_ok (f : Z -> Z) (l : list (Z * Z)) : bool := forallb (fun kv => f (fst kv) =? snd kv) l.

Definition g_post_ok (s : gst) (p : post_acct) : bool :=
  let '(a, n, b, c, st) := p in
  let v := gview (g_objs (g_cur s) a) in
  (a_nonce v =? n) && (a_bal v =? b) && (a_code v =? c) && probe_ok (a_stor v) st.

Definition e_post_ok (s : est) (p : post_acct) : bool :=
  let '(a, n, b, c, st) := p in
  let v := eview (e_orig s) (e_cur s) a in
  (a_nonce v =? n) && (a_bal v =? b) && (a_code v =? c) && probe_ok (a_stor v) st.

(* geth's first revision id of the trace: Copy()/earlier transactions leave nextRevisionId where it was *)
Definition first_snapshot_id (l : list (op * obs)) : Z :=
  match find (fun ox => match fst ox with OSnapshot => true | _ => false end) l with
  | Some (_, ObZ z) => z
  | _ => 0
  end.

Inductive gd_case :=
| CTrans (m : msg) (e : env) (paid : bool) (snd_e snd_g : sender) (o_e o_g : oracle)
         (moved_e moved_g : Z) (obs_e obs_g : tobs)
| COpsGeth (extra : list Z) (pre : list pre_acct) (ops : list (op * obs)) (post : list post_acct)
| COpsEvm (extra : list Z) (mods : list Z) (next : Z) (pre : list pre_acct) (ops : list (op * obs)) (post : list post_acct)
(* random interface-operation sequences (no interpreter): as above, and [panic] = the operation at which the
   implementation panicked after [ops] (the model must fail there too); [post] is then the view at that point *)
| CRandGeth (extra : list Z) (pre : list pre_acct) (ops : list (op * obs)) (panic : option op) (post : list post_acct)
| CRandEvm (extra : list Z) (mods : list Z) (next : Z) (pre : list pre_acct) (ops : list (op * obs)) (panic : option op) (post : list post_acct).

Definition gd_ok (c : gd_case) : bool :=
  match c with
  | CTrans m e paid se sg oe og me mg xe xg =>
      tres_matches (evermint_transition paid m e se oe) se xe me (m_create m)
      && tres_matches (geth_transition m e sg og) sg xg mg (m_create m)
  | COpsGeth extra pre ops post =>
      let s0 := ginit (g_objs_of pre) in
      let s0 := mkGst (g_cur s0) [] (first_snapshot_id ops) [] false true in
      match replay (gstep_x extra) s0 ops O with
      | (O, Some s) => forallb (g_post_ok s) post
      | _ => false
      end
  | COpsEvm extra mods next pre ops post =>
      match replay (estep_x extra) (einit (e_store_of pre mods next)) ops O with
      | (O, Some s) => forallb (e_post_ok s) post
      | _ => false
      end
  | CRandGeth extra pre ops panic post =>
      let s0 := ginit (g_objs_of pre) in
      let s0 := mkGst (g_cur s0) [] (first_snapshot_id ops) [] false true in
      match replay (gstep_x extra) s0 ops O with
      | (O, Some s) =>
          forallb (g_post_ok s) post
          && match panic with None => true | Some o => match gstep_x extra o s with None => true | Some _ => false end end
      | _ => false
      end
  | CRandEvm extra mods next pre ops panic post =>
      match replay (estep_x extra) (einit (e_store_of pre mods next)) ops O with
      | (O, Some s) =>
          forallb (e_post_ok s) post
          && match panic with None => true | Some o => match estep_x extra o s with None => true | Some _ => false end end
      | _ => false
      end
  end.

Definition gd_mismatches (off : nat) (l : list gd_case) : list nat := mism gd_ok off l.
