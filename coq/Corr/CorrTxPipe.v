(* Correspondence checker for the `blocks` driver: one case = one block.
   The harness supplies the committed state of the address universe before the block, the consensus max_gas,
   the transactions (descriptor + what the interpreter did + the observed consensus result / receipt fields)
   and the committed state after the block.  The model (TxPipe.run from begin_block) must reproduce every
   per-transaction observation (consensus result, receipt fields, reported contract address, receipt bloom), every
   balance and sequence after the block, the supply, the block bloom and the next base fee.
   Multi-denomination layer (Model/TxPipeDenom.v): the harness also supplies the balances of the universe and the total
   supply in every OTHER denomination before and after the block, per Ethereum transaction the accounts created and the
   accounts deleted by a successful execution (predicted by its reference interpreter), per Cosmos transaction whether
   its messages were committed and the coins of its bank sends; the model (TxPipeDenom.ddeliver / dstep) must reproduce
   every balance and every supply of every denomination after the block.
   Aborted executions (Model/TxPipeExt.v deliver_panic): for a transaction whose execution, by the harness's reference
   interpreter, credits a module account or leaves a touched empty module account to the commit, the harness supplies the
   consensus gas used it observed; the model must reproduce the class (aborted, or the earlier failure that prevents the
   execution from being reached), the consensus result, the index, and through the post-state the balances (fee for the
   whole limit), the sequence, the supply, the cumulative gas of the later receipts and the next base fee. *)
From Evm Require Import TxPipe TxPipeExt CorrBase.
From Evm Require Export TxPipeDenom.
Open Scope Z_scope.

(* other denominations: (denomination, account, balance) with absent = 0; (denomination, supply) *)
Record dsnap := mkDSnap { dn_bal : list (Z * Z * Z); dn_supply : list (Z * Z) }.

Record snap := mkSnap {
  sn_bal : list (Z * Z); sn_seq : list (Z * Z); sn_exists : list Z; sn_code : list Z;
  sn_supply : Z; sn_base : Z; sn_gmin : Z
}.

Inductive oclass := OExec (vmerr : bool) | ODropped | ORej (code : Z) | OFailed | OPanic | OOther.
Record obs := mkObs { ob_class : oclass; ob_gw : Z; ob_gu : Z; ob_idx : Z; ob_rgas : Z; ob_cum : Z; ob_logidx : Z; ob_status : Z }.

(* receipt extension (Model/TxPipeExt.v): inputs = CREATE address of (sender, nonce) and the bloom bit positions of each
   log of the receipt; observed = address reported by the receipt event, bits set in the receipt's bloom *)
Record ext := mkExt { xi_ca : Z; xi_logs : list (list Z);
  xi_refund : option (Z * Z * Z);   (* calls to the driver's storage contract: bounds of the gas consumed before the refund and the refund counter, from the SSTORE cost table *)
  xo_ca : option Z; xo_bloom : list Z }.

Inductive citem :=
| IEth (t : txd) (o : evm_out) (ob : obs) (x : ext) (dx : devm)
| IEthPanic (t : txd) (gu : Z) (ob : obs) (x : ext)       (* execution aborted by a panic; gu = consensus gas used, observed *)
| ICosmos (g payer fee : Z) (inc : bool) (ok : bool) (sends : list send).
Record block := mkBlock { b_pre : snap; b_maxgas : Z; b_items : list citem; b_post : snap; b_bloom : list Z;
                          b_dpre : dsnap; b_dpost : dsnap;
                          b_distr : Z   (* x/distribution's module account *) }.

Fixpoint lookupD (l : list (Z * Z * Z)) (d a : Z) : Z :=
  match l with [] => 0 | (d', a', v) :: r => if (d' =? d) && (a' =? a) then v else lookupD r d a end.

Fixpoint lookupZ (l : list (Z * Z)) (k : Z) : Z :=
  match l with [] => 0 | (a, v) :: r => if a =? k then v else lookupZ r k end.
Fixpoint memZ (l : list Z) (k : Z) : bool :=
  match l with [] => false | a :: r => (a =? k) || memZ r k end.

(* TxPipe.begin_block empties the fee collector ("x/distribution BeginBlock sweeps the fee collector into the
   distribution module account"); the module accounts being part of the address universe now, the other half of
   AllocateTokens' SendCoinsFromModuleToModule is applied here: the distribution account gains what the collector held *)
Definition core_of (s : snap) (maxgas distr : Z) : st :=
  let s0 := mkSt (lookupZ (sn_bal s)) (lookupZ (sn_seq s)) (memZ (sn_exists s)) (memZ (sn_code s))
                 (sn_supply s) (sn_base s) (sn_gmin s) (if 0 <? maxgas then maxgas else 0) 0 0 0 0 false false in
  let s1 := begin_block s0 in
  set_bal s1 (add_to (bal s1) distr (bal s0 FEE_COLLECTOR)).

(* x/distribution's BeginBlock sweep of the fee collector moves whatever it holds in ANY denomination into the
   distribution module account; the fee collector never holds another denomination here (fees are paid in the EVM
   denomination), which the comparison of its post-block balances confirms *)
Definition ledger_of (s : dsnap) : ledger := mkLedger (lookupD (dn_bal s)) (lookupZ (dn_supply s)).
Definition st_of (b : block) : dst := mkDst (core_of (b_pre b) (b_maxgas b) (b_distr b)) (ledger_of (b_dpre b)).

Definition class_of (o : outcome) : oclass :=
  match o with
  | Dropped => ODropped
  | RejAnte c => ORej c
  | CoreErr => OFailed
  | BlockGasExceeded => OFailed
  | Executed v => OExec v
  end.

Definition oclass_eqb (a b : oclass) : bool :=
  match a, b with
  | OExec x, OExec y => Bool.eqb x y
  | ODropped, ODropped => true
  | ORej x, ORej y => x =? y
  | OFailed, OFailed => true
  | OPanic, OPanic => true
  | _, _ => false
  end.

(* log start index is only shown when the receipt has logs *)
Definition res_matches_class (c : oclass) (r : txres) (nlogs : Z) (ob : obs) : bool :=
  oclass_eqb c (ob_class ob)
  && (r_gas_wanted r =? ob_gw ob) && (r_gas_used r =? ob_gu ob)
  && (r_tx_index r =? ob_idx ob) && (r_receipt_gas r =? ob_rgas ob) && (r_cum_gas r =? ob_cum ob)
  && ((if 0 <? nlogs then r_log_start r else -1) =? ob_logidx ob)
  && (r_status r =? ob_status ob).
Definition res_matches (r : txres) (nlogs : Z) (ob : obs) : bool := res_matches_class (class_of (r_out r)) r nlogs ob.

Definition subsetZ (a b : list Z) : bool := forallb (memZ b) a.
Definition seteqZ (a b : list Z) : bool := subsetZ a b && subsetZ b a.
Definition optZ_eqb (a b : option Z) : bool :=
  match a, b with Some x, Some y => x =? y | None, None => true | _, _ => false end.

Definition ext_matches (t : txd) (r : txres) (x : ext) : bool :=
  match receipt_ext t (xi_ca x) (xi_logs x) r with
  | Some rx => optZ_eqb (x_contract rx) (xo_ca x) && seteqZ (x_bloom rx) (xo_bloom x)
  | None => optZ_eqb None (xo_ca x) && match xo_bloom x with [] => true | _ => false end
  end.

(* an aborted execution is shown as such exactly when the execution was reached; otherwise the earlier outcome *)
Definition panic_class (s : st) (t : txd) (r : txres) : oclass :=
  if panic_reached s t then OPanic else class_of (r_out r).
(* no receipt: no reported address, no bloom *)
Definition ext_none (x : ext) : bool :=
  optZ_eqb None (xo_ca x) && match xo_bloom x with [] => true | _ => false end.

(* the interpreter's own movements net to minus what it destroyed (hypothesis of C04_balances_sum_to_minus_burns),
   and the number of logs is the number of logs *)
Definition oracle_consistent (o : evm_out) (x : ext) : bool :=
  (sum_moves (e_moves o) =? - e_burn o) && (0 <=? e_burn o) && (Z.of_nat (length (xi_logs x)) =? e_logs o)
  (* the refund rule of the model (TxPipe.gas_after_refund = refundGas with the London quotient) explains the observed gas used *)
  && match xi_refund x with
     | Some (lb, ub, counter) => (gas_after_refund lb counter <=? e_used o) && (e_used o <=? gas_after_refund ub counter)
     | None => true
     end.

(* the deleted accounts are a set; sends concern the other denominations only (the EVM-denomination part of a Cosmos
   transaction is its observed fee) *)
Fixpoint nodupZ (l : list Z) : bool :=
  match l with [] => true | a :: r => negb (memZ r a) && nodupZ r end.
Definition denom_consistent (dx : devm) : bool := nodupZ (x_destroyed dx).
Definition sends_wf (l : list send) : bool := forallb (fun m => negb (s_denom m =? EVM_DENOM)) l.

Fixpoint run_items (s : dst) (l : list citem) : dst * bool * list (option rext) :=
  match l with
  | [] => (s, true, [])
  | IEth t o ob x dx :: r =>
      let '(s1, res) := ddeliver s t o dx in
      let okr := res_matches res (match r_out res with Executed _ => e_logs o | _ => 0 end) ob
                 && ext_matches t res x && oracle_consistent o x && denom_consistent dx in
      let '(s2, ok2, rx) := run_items s1 r in (s2, okr && ok2, receipt_ext t (xi_ca x) (xi_logs x) res :: rx)
  | IEthPanic t gu ob x :: r =>
      let '(s1, rs) := xstep s (XPanic t gu) in
      let okr := match rs with
                 | [res] => res_matches_class (panic_class (d_core s) t res) res 0 ob && ext_none x
                            && (0 <=? gu) && (gu <=? t_gas t)
                 | _ => false
                 end in
      let '(s2, ok2, rx) := run_items s1 r in (s2, okr && ok2, None :: rx)
  | ICosmos g payer fee inc ok sends :: r =>
      let okc := sends_wf sends && cosmos_consistent (d_other s) ok sends in
      let '(s1, _) := dstep s (DCosmos g payer fee inc ok sends) in
      let '(s2, ok2, rx) := run_items s1 r in (s2, okc && ok2, rx)
  end.

Fixpoint all_dkeys_ok (f : Z -> Z -> Z) (l : list (Z * Z * Z)) : bool :=
  match l with [] => true | (d, k, v) :: r => (f d k =? v) && all_dkeys_ok f r end.

Fixpoint all_keys_ok (f : Z -> Z) (l : list (Z * Z)) : bool :=
  match l with [] => true | (k, v) :: r => (f k =? v) && all_keys_ok f r end.

Definition next_base_ok (s : st) (maxgas : Z) (post : snap) : bool :=
  match calc_base_fee (base_fee s) (blk_used_to_limit s) maxgas (gmin_dec s) with
  | Ok z => z =? sn_base post
  | _ => false
  end.

Definition block_ok (b : block) : bool :=
  let s0 := st_of b in
  let '(d1, okr, rxs) := run_items s0 (b_items b) in
  let s1 := d_core d1 in
  okr
  && all_keys_ok (bal s1) (sn_bal (b_post b))
  && all_keys_ok (sqn s1) (sn_seq (b_post b))
  && (supply s1 =? sn_supply (b_post b))
  && seteqZ (block_bloom_bits rxs) (b_bloom b)
  && next_base_ok s1 (b_maxgas b) (b_post b)
  && all_dkeys_ok (l_bal (d_other d1)) (dn_bal (b_dpost b))
  && all_keys_ok (l_supply (d_other d1)) (dn_supply (b_dpost b)).

Definition tp_mismatches (off : nat) (l : list block) : list nat := mism block_ok off l.

(* finer diagnosis for replay files: which component failed *)
Definition block_diag (b : block) : list bool :=
  let s0 := st_of b in
  let '(d1, okr, rxs) := run_items s0 (b_items b) in
  let s1 := d_core d1 in
  [okr; all_keys_ok (bal s1) (sn_bal (b_post b)); all_keys_ok (sqn s1) (sn_seq (b_post b));
   supply s1 =? sn_supply (b_post b); seteqZ (block_bloom_bits rxs) (b_bloom b); next_base_ok s1 (b_maxgas b) (b_post b);
   all_dkeys_ok (l_bal (d_other d1)) (dn_bal (b_dpost b)); all_keys_ok (l_supply (d_other d1)) (dn_supply (b_dpost b))].

(* which transactions of the block fail which part: (result, extension, oracle consistency) *)
Fixpoint items_diag (s : dst) (l : list citem) : list (bool * bool * bool) :=
  match l with
  | [] => []
  | IEth t o ob x dx :: r =>
      let '(s1, res) := ddeliver s t o dx in
      (res_matches res (match r_out res with Executed _ => e_logs o | _ => 0 end) ob, ext_matches t res x,
       oracle_consistent o x && denom_consistent dx)
      :: items_diag s1 r
  | IEthPanic t gu ob x :: r =>
      let '(s1, rs) := xstep s (XPanic t gu) in
      (match rs with [res] => res_matches_class (panic_class (d_core s) t res) res 0 ob | _ => false end, ext_none x,
       (0 <=? gu) && (gu <=? t_gas t))
      :: items_diag s1 r
  | ICosmos g payer fee inc ok sends :: r =>
      let '(s1, _) := dstep s (DCosmos g payer fee inc ok sends) in
      (true, sends_wf sends, cosmos_consistent (d_other s) ok sends) :: items_diag s1 r
  end.
Definition block_items_diag (b : block) := items_diag (st_of b) (b_items b).

Fixpoint predicted (s : dst) (l : list citem) : list txres :=
  match l with
  | [] => []
  | IEth t o ob _ dx :: r => let '(s1, res) := ddeliver s t o dx in res :: predicted s1 r
  | IEthPanic t gu _ _ :: r => let '(s1, rs) := xstep s (XPanic t gu) in rs ++ predicted s1 r
  | ICosmos g payer fee inc ok sends :: r => let '(s1, _) := dstep s (DCosmos g payer fee inc ok sends) in predicted s1 r
  end.
Definition block_pred (b : block) := predicted (st_of b) (b_items b).
Definition block_post (b : block) :=
  let '(d1, _, _) := run_items (st_of b) (b_items b) in
  let s1 := d_core d1 in
  (map (fun kv => (fst kv, bal s1 (fst kv), snd kv)) (sn_bal (b_post b)),
   map (fun kv => (fst kv, sqn s1 (fst kv), snd kv)) (sn_seq (b_post b)), supply s1, blk_used s1,
   map (fun kv => (kv, l_bal (d_other d1) (fst (fst kv)) (snd (fst kv)))) (dn_bal (b_dpost b)),
   map (fun kv => (kv, l_supply (d_other d1) (fst kv))) (dn_supply (b_dpost b))).

(* the items as the histories of Proofs/TxPipeDenomProofs.v see them *)
Definition xitem_of (c : citem) : xitem :=
  match c with
  | IEth t o _ _ dx => XItem (DEth t o dx)
  | IEthPanic t gu _ _ => XPanic t gu
  | ICosmos g payer fee inc ok sends => XItem (DCosmos g payer fee inc ok sends)
  end.

(* the state the checker compares with the committed post-state is the final state of the model's history
   (TxPipeDenom.xrun) over the block's items: the theorems of Properties/C04.v .. C13.v about xfinal / xrun / xtrace speak
   about it *)
Lemma run_items_is_xrun : forall l s, fst (fst (run_items s l)) = fst (xrun s (map xitem_of l)).
Proof.
  induction l as [|c r IH]; intros s; [reflexivity|].
  destruct c as [t o ob x dx|t gu ob x|g payer fee inc ok sends]; cbn [run_items map xitem_of xrun].
  - cbn [xstep dstep]. destruct (ddeliver s t o dx) as [s1 res]. specialize (IH s1).
    destruct (run_items s1 r) as [[s2 ok2] rx]. destruct (xrun s1 (map xitem_of r)) as [s3 r3].
    cbn [fst] in *. exact IH.
  - destruct (xstep s (XPanic t gu)) as [s1 rs]. specialize (IH s1).
    destruct (run_items s1 r) as [[s2 ok2] rx]. destruct (xrun s1 (map xitem_of r)) as [s3 r3].
    cbn [fst] in *. exact IH.
  - cbn [xstep]. destruct (dstep s (DCosmos g payer fee inc ok sends)) as [s1 rs]. specialize (IH s1).
    destruct (run_items s1 r) as [[s2 ok2] rx]. destruct (xrun s1 (map xitem_of r)) as [s3 r3].
    cbn [fst] in *. exact IH.
Qed.
