(* Correspondence checker for the `basefeehist` driver (C09).
   CHist  : one block history of the real application.  Inputs: the fee market / consensus state the
            history starts from and, per block, the gas the block consumed and the proposals gov
            executed in its EndBlock; observed: (base fee, min gas price x 1e18, max_gas) committed by
            every block.  The model must reproduce the whole sequence (run_hist).
   CProbe : one transaction offered in one mode against one committed state; observed: admitted or
            not.  is_eth = Ethereum lane (else Cosmos lane, where `cap` is fee/gas and `dyn` the
            dynamic-fee extension option). *)
From Evm Require Import BaseFee BaseFeeHist CorrBase.
Open Scope Z_scope.

Inductive hcase :=
| CHist (b md mg : Z) (blocks : list (Z * list (list govop))) (obs : list (Z * Z * Z))
| CProbe (m : mode) (is_eth dyn : bool) (base gmin nmin tip cap price : Z) (admitted : bool).

Fixpoint obs_eqb (tr : list fstate) (o : list (Z * Z * Z)) : bool :=
  match tr, o with
  | [], [] => true
  | s :: tr', (b, md, mg) :: o' =>
      (f_base s =? b) && (f_min s =? md) && (f_mg s =? mg) && (f_mg_next s =? mg) && obs_eqb tr' o'
  | _, _ => false
  end.

Definition hcase_ok (c : hcase) : bool :=
  match c with
  | CHist b md mg blocks obs =>
      let l := map (fun x => mkB (fst x) (snd x) []) blocks in
      match run_hist (mkF b md mg mg) l with
      | (tr, None) => obs_eqb tr obs
      | (_, Some _) => false          (* the driver stays away from the 2^256 overflow *)
      end
  | CProbe Simulate is_eth dyn base gmin nmin tip cap price adm =>
      Bool.eqb (sim_admit is_eth dyn base cap price) adm
  | CProbe m is_eth dyn base gmin nmin tip cap price adm =>
      (* Cosmos lane without the extension option: the price is fee/gas, carried in `price` *)
      Bool.eqb (admit_price m dyn base gmin nmin tip cap price) adm
  end.

Definition bfh_mismatches (off : nat) (l : list hcase) : list nat := mism hcase_ok off l.
