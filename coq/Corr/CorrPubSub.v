(* Correspondence checker for the `pubsub` driver: sequential histories on the real memEventBus /
   EventSystem against the sequential runs of the transition systems (Model/PubSub.v, Model/FilterSys.v),
   and the deterministic replay of the uninstall-during-send schedule. *)
From Evm Require Import Conc PubSub FilterSys FilterApi Total TotalProofs CorrBase.
Local Open Scope nat_scope.

Fixpoint ins (x : nat) (l : list nat) : list nat :=
  match l with [] => [x] | h :: t => if Nat.leb x h then x :: l else h :: ins x t end.
Definition sortn (l : list nat) : list nat := fold_right ins [] l.

Fixpoint listn_eqb (a b : list nat) : bool :=
  match a, b with
  | [], [] => true
  | x :: a', y :: b' => Nat.eqb x y && listn_eqb a' b'
  | _, _ => false
  end.

Fixpoint list_eqb {A B} (f : A -> B -> bool) (a : list A) (b : list B) : bool :=
  match a, b with
  | [], [] => true
  | x :: a', y :: b' => f x y && list_eqb f a' b'
  | _, _ => false
  end.

Definition chan_eqb (a b : bool * list nat) : bool := Bool.eqb (fst a) (fst b) && listn_eqb (snd a) (snd b).

Definition snap_eqb (m o : snap) : bool :=
  Nat.eqb (sn_res m) (sn_res o) && listn_eqb (sortn (sn_topics m)) (sortn (sn_topics o))
  && list_eqb chan_eqb (sn_chans m) (sn_chans o) && Bool.eqb (sn_crashed m) (sn_crashed o).

(* observed EventSystem subscription: (bus.Subscribe succeeded, event channel closed, topics of the events received, err closed) *)
Definition fobs := (bool * bool * list nat * bool)%type.
Definition fsub_eqb (m : bool * bool * list nat * bool * bool) (o : fobs) : bool :=
  let '(ok, cl, ms, _, ec) := m in
  let '(ok', cl', ms', ec') := o in
  Bool.eqb ok ok' && Bool.eqb cl cl' && listn_eqb ms ms' && Bool.eqb ec ec'.
Definition fsnap_eqb (m : fsnap) (o : list fobs * bool) : bool :=
  list_eqb fsub_eqb (fs_subs m) (fst o) && Bool.eqb (fs_crashed m) (snd o).

(* the replayed schedule on the model of the code as it is (hold = true): subscribe, event, consumeEvents runs up to
   the send, Unsubscribe is issued and eventLoop runs as far as it can, then consumeEvents continues *)
Definition replay_model : bool * bool :=
  let s0 := fs_quiesce true (fspawn fs_init (CS_new 4 7)) in
  let s1 := fwith s0 (set_resp_q (dat s0) (Some 7)) in
  let s2 := run_thread fpc fdata fmx ferr fmx_eqb (fcode true) FBadUnlock 3 s1 1 in      (* recv, RLock, lookup *)
  let s3 := fspawn s2 (U_offer 0 4 7) in
  let s4 := run_thread fpc fdata fmx ferr fmx_eqb (fcode true) FBadUnlock 8 s3 3 in
  let s5 := run_thread fpc fdata fmx ferr fmx_eqb (fcode true) FBadUnlock 32 s4 0 in     (* eventLoop: as far as it gets *)
  let completed := Nat.eqb (getp (f_uphase (dat s5)) 0) 4 in
  let s6 := fs_quiesce true s5 in
  (completed, match err s6 with Some _ => true | None => false end).

(* PublicFilterAPI histories: result of the call, installed filters (as a set), CometBFT Subscribe calls per event type *)
Definition asnap_eqb (m o : asnap) : bool :=
  Nat.eqb (as_res m) (as_res o) && listn_eqb (sortn (as_filters m)) (sortn (as_filters o))
  && listn_eqb (as_wssub m) (as_wssub o) && Bool.eqb (as_crashed m) (as_crashed o).

Inductive pcase :=
| PBus (ops : list op) (obs : list snap)
| PFs (ops : list fop) (obs : list (list fobs * bool))
| PReplay (completed_during_pause crashed : bool)
(* a Tx event for a decodable transaction delivered to an installed pending-transaction filter *)
| PPending (has_msgs valid_basic : bool) (survived : bool)
(* a sequential history on the real PublicFilterAPI (filter cap, ops, per-op observations) *)
| PApi (cap : nat) (ops : list aop) (obs : list asnap)
(* the concurrent stress of the real PublicFilterAPI in a child process: did the process survive
   (Proofs/FilterApiProofs.v filterapi_safe: no interleaving of the modelled code crashes) *)
| PApiStress (survived : bool)
(* the real websocket server (rpc/websockets.go) under concurrent clients in a child process: its subscriptions sit on
   the EventSystem of section 5 and never call Unsubscribe; the consumers' event handling is Total.rpc_pending *)
| PWsStress (survived : bool)
(* one modelled function of api.go: does its lock skeleton (order of filtersMu.Lock / Unlock, api.filters accesses,
   EventSystem calls, timer operations, read off the source) equal the one Model/FilterApi.v splits the call at *)
| PSkel (matches : bool)
(* log filters: filters.FilterLogs on the product criteria shape x log shape returned without a panic; the real
   eth_newFilter / websocket logs consumers survived the delivery of every log shape (child process). The consumers are
   unrecovered goroutines (Total.within None): a panic there is a crash *)
| PLogFilter (no_panic : bool).

Definition ps_ok (c : pcase) : bool :=
  match c with
  | PBus ops obs => list_eqb snap_eqb (run_ops ps_init ops) obs
  | PFs ops obs => list_eqb fsnap_eqb (frun true fs_init ops) obs
  | PReplay a b => Bool.eqb (fst replay_model) a && Bool.eqb (snd replay_model) b
  | PPending hm vb survived => Bool.eqb survived (negb (is_crash (rpc_pending true hm true vb)))
  | PApi cap ops obs => list_eqb asnap_eqb (arun false (fa_init cap) [] ops) obs
  | PApiStress survived => survived
  | PWsStress survived => survived
  | PSkel matches => matches
  | PLogFilter ok => ok
  end.

Definition ps_mismatches (off : nat) (l : list pcase) : list nat := mism ps_ok off l.
