(* Correspondence checker for the driver `vauth` (C16): one case = one block of the real chain.  The harness emits the
   state it read before the block (proof store, balances of the tracked accounts, supply, vesting / existence flags
   of the addresses involved), the operations of the block in order (what x/mint minted in BeginBlock as OMint, then
   one operation per transaction), what CheckTx said about every transaction, what FinalizeBlock said, and the state
   it read after the commit.  [vauth_ok] replays the block on Model/Vauth.v and compares everything.
   [verifies] is instantiated by a table filled by calling the real vauthutils.VerifySignature. *)
From Evm Require Import Lane Vauth CorrBase.
Open Scope Z_scope.

(* what FinalizeBlock answered for a transaction: did the ante handler pass (fee events present), ABCI code (codespace sdk / undefined) *)
Inductive vobs :=
| XSubmit (ante_passed : bool) (code : Z)
| XVesting (r : vtx)
| XIca (code : Z)                          (* a submission carried by an ICA host packet: 0 = success acknowledgement, else the ABCI
                                              code of the error acknowledgement, 111222 = OnRecvPacket panicked *)
| XNone.                                   (* not a transaction (mint) *)

Definition sres_obs (r : sres) : bool * Z :=
  match r with
  | SOk => (true, 0)
  | SRejBasic => (false, 18)               (* ErrInvalidRequest *)
  | SRejAnte => (false, 5)                 (* ErrInsufficientFunds *)
  | SRejDepth => (false, 4)                (* ErrUnauthorized *)
  | SRejBasicNested => (true, 18)
  | SRejConflict => (true, 36)             (* ErrConflict *)
  | SRejFunds => (true, 5)
  | SPanicSave => (true, 111222)           (* ErrPanic *)
  end.

Definition vtx_eqb (a b : vtx) : bool :=
  match a, b with VOk, VOk | VAnteRej, VAnteRej | VExecFail, VExecFail => true | _, _ => false end.

Definition res_matches (r : vres) (o : vobs) : bool :=
  match r, o with
  | RSubmit s, XSubmit a c => let (a', c') := sres_obs s in Bool.eqb a a' && (c =? c')
  | RSubmit s, XIca c => c =? snd (sres_obs s)
  | RVesting v, XVesting v' => vtx_eqb v v'
  | ROtherOp, XNone => true
  | RIca, XNone => true
  | _, _ => false
  end.

Fixpoint vall2 {A B} (f : A -> B -> bool) (a : list A) (b : list B) : bool :=
  match a, b with
  | [], [] => true
  | x :: a', y :: b' => f x y && vall2 f a' b'
  | _, _ => false
  end.

Fixpoint lookupN {V} (l : list (N * V)) (a : N) : option V :=
  match l with
  | [] => None
  | (k, v) :: r => if N.eqb k a then Some v else lookupN r a
  end.

Definition ver_of (tbl : list (N * N * bool)) (a : N) (b : N) : bool :=
  existsb (fun e => match e with (a', b', v) => N.eqb a a' && N.eqb b b' && v end) tbl.

Definition optN_eqb (a b : option N) : bool :=
  match a, b with
  | Some x, Some y => N.eqb x y
  | None, None => true
  | _, _ => false
  end.

Record vcase := {
  k_univ     : list N;                  (* addresses whose proof / vesting flags are compared *)
  k_proofs   : list (N * N);            (* before: address -> id of the stored signature string *)
  k_bal      : list (N * Z);            (* before: balances of the tracked accounts (submitters, fee payers) *)
  k_supply   : Z;
  k_vested   : list N;                  (* before: addresses holding a vesting account *)
  k_acct     : list N;                  (* before: addresses at which an auth account exists *)
  k_ver      : list (N * N * bool);     (* (account, bytes id, VerifySignature result) *)
  k_ops      : list vop;
  k_check    : list bool;               (* CheckTx accepted, per operation (true for non-transactions) *)
  k_obs      : list vobs;               (* FinalizeBlock, per operation *)
  k_proofs'  : list (option N);         (* after, aligned with k_univ *)
  k_bal'     : list Z;                  (* after, aligned with k_bal *)
  k_supply'  : Z;
  k_vested'  : list bool                (* after, aligned with k_univ *)
}.

Definition stored (id : N) : sigstr := {| s_str := id; s_bytes := 0; s_prefix := true; s_hex_ok := true; s_lower := true |}.

Definition state_of (c : vcase) : vstate :=
  {| proofs := fun a => option_map stored (lookupN (k_proofs c) a);
     bal := fun a => match lookupN (k_bal c) a with Some z => z | None => 0 end;
     supply := k_supply c;
     vested := fun a => memN a (k_vested c);
     acct := fun a => memN a (k_acct c) |}.

(* ICA host packets of a case are delivered between the previous commit and this block's CheckTx calls: CheckTx sees their effect *)
Fixpoint after_ica (ver : N -> N -> bool) (st : vstate) (l : list vop) : vstate :=
  match l with
  | OIcaPacket p ok m :: r => after_ica ver (fst (step ver st (OIcaPacket p ok m))) r
  | OIcaSubmit sub acc ok g :: r => after_ica ver (fst (step ver st (OIcaSubmit sub acc ok g))) r
  | _ => st
  end.

Definition vauth_ok (c : vcase) : bool :=
  let ver := ver_of (k_ver c) in
  let st := state_of c in
  let (st', rs) := run_res ver st (k_ops c) in
  vall2 res_matches rs (k_obs c) &&
  vall2 Bool.eqb (map (check_ok ver (after_ica ver st (k_ops c))) (k_ops c)) (k_check c) &&
  vall2 optN_eqb (map (fun a => option_map s_str (proofs st' a)) (k_univ c)) (k_proofs' c) &&
  vall2 Z.eqb (map (fun e => bal st' (fst e)) (k_bal c)) (k_bal' c) &&
  (supply st' =? k_supply' c) &&
  vall2 Bool.eqb (map (vested st') (k_univ c)) (k_vested' c).

Definition vauth_mismatches (off : nat) (cases : list vcase) : list nat := mism vauth_ok off cases.
