(* Correspondence checker for the `staking` driver (C11), twin chains.
   OpCase: one precompile call on chain A.  The Section variables of Model/StakingCpc.v are instantiated with what the
   NATIVE modules did on the twin chain B for the driver's own translation of the call: a script of (message, result)
   in order — result = events (as the precompile's filter sees them) and the caller's bank balance afterwards, or
   rejection — plus the native queries on the common pre-state.  The model must predict chain A's outcome: success,
   returned boolean, the receipt's Delegate/Undelegate/WithdrawReward logs in order, and it must have issued exactly
   the scripted messages (a message the driver did not foresee makes the scripted native step fail).
   ViewCase: a view method on A against the native queries.
   KMulti: one transaction whose contract makes several precompile calls, views among them: every item carries the native
   side as chain B showed it AT THAT POINT (after the native submissions of the items before it); the model's [item_A] must
   predict every call's success and every view's number, and the receipt's logs as a whole. *)
From Coq Require Import List ZArith Bool.
From Evm Require Import StakingCpc CorrBase.
Import ListNotations.
Open Scope Z_scope.

Definition nmsg_eqb (a b : nmsg) : bool :=
  match a, b with
  | MsgDelegate d v x, MsgDelegate d' v' x' => (d =? d') && (v =? v') && (x =? x')
  | MsgUndelegate d v x, MsgUndelegate d' v' x' => (d =? d') && (v =? v') && (x =? x')
  | MsgBeginRedelegate d s t x, MsgBeginRedelegate d' s' t' x' => (d =? d') && (s =? s') && (t =? t') && (x =? x')
  | MsgWithdrawDelegatorReward d v, MsgWithdrawDelegatorReward d' v' => (d =? d') && (v =? v')
  | _, _ => false
  end.

Definition log_eqb (a b : log) : bool :=
  match a, b with
  | LDelegate d v x, LDelegate d' v' x' => (d =? d') && (v =? v') && (x =? x')
  | LUndelegate d v x, LUndelegate d' v' x' => (d =? d') && (v =? v') && (x =? x')
  | LWithdrawReward d v x, LWithdrawReward d' v' x' => (d =? d') && (v =? v') && (x =? x')
  | _, _ => false
  end.

Fixpoint logs_eqb (a b : list log) : bool :=
  match a, b with
  | [], [] => true
  | x :: a', y :: b' => log_eqb x y && logs_eqb a' b'
  | _, _ => false
  end.

(* scripted native side *)
Record ostate := OState { o_script : list (nmsg * option (list nevent * Z)); o_bal : Z }.

Definition o_native (s : ostate) (m : nmsg) : option (ostate * list nevent) :=
  match o_script s with
  | (m', r) :: rest =>
      if nmsg_eqb m m' then
        match r with
        | Some (evs, bal) => Some (OState rest bal, evs)
        | None => None
        end
      else None
  | [] => None
  end.

Record op_case := OpCase {
  k_sender : Z; k_path : list hop; k_call : call;
  k_rec : option Z;                      (* signer recovered (independently) from the signature for THIS chain's id *)
  k_rewards : list (Z * coins); k_total_zero : bool;
  k_delegated : list vinfo; k_bonded : list vinfo;
  k_bal0 : Z;
  k_script : list (nmsg * option (list nevent * Z));
  obs_ok : bool; obs_ret : bool; obs_logs : list log }.

Definition model_step (k : op_case) :=
  cpc_step ostate o_native
    (fun _ _ => (k_rewards k, k_total_zero k)) (fun s _ => o_bal s)
    (fun _ _ => k_delegated k) (fun _ => k_bonded k)
    0 (fun _ _ => 0) (fun _ _ => k_rec k)
    (OState (k_script k) (k_bal0 k)) (precompile_caller (k_sender k) (k_path k)) (k_call k).

Definition op_ok (k : op_case) : bool :=
  match model_step k with
  | Some (s', logs, ret, _) =>
      obs_ok k && Bool.eqb ret (obs_ret k) && logs_eqb logs (obs_logs k) &&
      (match o_script s' with [] => true | _ => false end)
  | None => negb (obs_ok k)
  end.

Record view_case := ViewCase {
  w_view : view; w_deleg_tokens : qres; w_bonded_total : qres; w_reward : qresc; w_rewards_total : qresc; w_balance : Z;
  w_obs : option Z }.   (* None = the view call failed *)

Definition optz_eqb (a b : option Z) : bool :=
  match a, b with Some x, Some y => x =? y | None, None => true | _, _ => false end.

Definition view_ok (w : view_case) : bool :=
  optz_eqb (view_step unit (fun _ _ => w_balance w) (fun _ _ _ => w_deleg_tokens w) (fun _ _ => w_bonded_total w)
                      (fun _ _ _ => w_reward w) (fun _ _ => w_rewards_total w) tt (w_view w)) (w_obs w).

(* several calls in one transaction (the contract does not revert when a call fails), views among them.  Every item is
   run through the model's [item_A] with the native side of THAT point of the transaction: a call must succeed exactly
   when observed (its scripted messages consumed, the returned flag as observed), a view must return the observed number;
   the receipt's logs are the concatenation of the items' logs in order *)
Inductive multi_item := MOp (k : op_case) | MView (w : view_case).

Definition item_model (i : multi_item) : ostate * tobs * list nmsg :=
  match i with
  | MOp k =>
      item_A ostate o_native
        (fun _ _ => (k_rewards k, k_total_zero k)) (fun s _ => o_bal s)
        (fun _ _ => k_delegated k) (fun _ => k_bonded k)
        0 (fun _ _ => 0) (fun _ _ => k_rec k)
        (fun _ _ _ => QErr) (fun _ _ => QErr) (fun _ _ _ => QcErr) (fun _ _ => QcErr)
        (OState (k_script k) (k_bal0 k)) (precompile_caller (k_sender k) (k_path k)) (ICall (k_call k))
  | MView w =>
      item_A ostate o_native
        (fun _ _ => ([], true)) (fun _ _ => w_balance w) (fun _ _ => []) (fun _ => [])
        0 (fun _ _ => 0) (fun _ _ => None)
        (fun _ _ _ => w_deleg_tokens w) (fun _ _ => w_bonded_total w) (fun _ _ _ => w_reward w) (fun _ _ => w_rewards_total w)
        (OState [] 0) 0 (IView (w_view w))
  end.

Definition item_logs (i : multi_item) : option (list log) :=
  match i, item_model i with
  | MOp k, (s', TCall ok logs, _) =>
      if Bool.eqb ok (obs_ok k) &&
         (negb ok || (match o_script s' with [] => true | _ => false end) &&
                     (match model_step k with Some (_, _, ret, _) => Bool.eqb ret (obs_ret k) | None => false end))
      then Some logs else None
  | MView w, (_, TView r, _) => if optz_eqb r (w_obs w) then Some [] else None
  | _, _ => None
  end.

Fixpoint multi_logs (l : list multi_item) : option (list log) :=
  match l with
  | [] => Some []
  | k :: r => match item_logs k, multi_logs r with Some a, Some b => Some (a ++ b) | _, _ => None end
  end.

Definition multi_ok (items : list multi_item) (logs : list log) : bool :=
  match multi_logs items with Some l => logs_eqb l logs | None => false end.

Inductive sk_case := KOp (k : op_case) | KView (w : view_case) | KMulti (items : list multi_item) (logs : list log).

Definition sk_ok (c : sk_case) : bool :=
  match c with KOp k => op_ok k | KView w => view_ok w | KMulti items logs => multi_ok items logs end.

Definition sk_mismatches (off : nat) (l : list sk_case) : list nat := mism sk_ok off l.
