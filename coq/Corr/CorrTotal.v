(* Correspondence checker for the `bytes` driver: observed outcome classes of the real ABCI entry points
   against the verdict classes of Model/Total.v.
   classes: 0 accepted/executed, 1 error returned (out of gas included), 2 panic recovered (ErrPanic), 4 escaped panic. *)
From Evm Require Import BaseFee TxPipe Total TraceCfg CorrBase.
Open Scope Z_scope.

Definition non_crash (c : Z) : bool := (0 <=? c) && (c <=? 3).

Definition dummy_out : evm_out := mkOut 0 false 0 [] 0 false.
Definition mk_txd (gas : Z) (dyn : bool) (price tip cap : Z) : txd :=
  mkTx 0 (Some 0) true dyn price tip cap gas 0 0 false 0.

Definition mk_eth (from_ok payload_ok fields_ok envelope_ok : bool) (fee_len : Z) (denom_ok : bool)
                  (gas : Z) (dyn : bool) (price tip cap : Z) : eth_in :=
  mkEth from_ok payload_ok fields_ok envelope_ok fee_len denom_ok (mk_txd gas dyn price tip cap) dummy_out false.

(* the class the stages in front of the state-dependent part decide, if they decide *)
Definition eth_pre_class (m : xmode) (base : Z) (e : eth_in) : option Z :=
  match eth_pre m base e with
  | Cont _ => None
  | Rej _ => Some 1
  | Pan S_OutOfGas => Some 1
  | Pan _ => Some 2
  end.
Definition agrees (p : option Z) (obs : Z) : bool :=
  match p with Some c => c =? obs | None => non_crash obs end.

Definition cos_class (m : xmode) (c : cos_in) : Z := class_of (within (Some B_runTx) (cos_run m c)).

Inductive tcase :=
(* a byte string: decodes?, classes seen at CheckTx / PrepareProposal / ProcessProposal / FinalizeBlock *)
| TRaw (decodes : bool) (c_check c_prepare c_process c_final : Z)
| TCos (c : cos_in) (c_check c_final : Z)
| TEth (e : eth_in) (base : Z) (c_check c_final : Z)
(* a call of a custom precompile by a valid transaction: length of the call data, selector known?, arguments decodable?;
   observed: receipt failed?, class *)
| TCpc (len : Z) (known args_ok : bool) (obs_failed : bool) (cls : Z)
| TQuery (q : query_in) (cls : Z)
(* a trace query probed in a child process: entry point (TraceBlock?), negative limit?, class of the timeout and of the
   tracer option; observed: class of the answer, did the process survive the probe *)
| TTrace (block limit_neg : bool) (timeout : timeout_k) (tracer : tracer_k) (cls : Z) (survived : bool)
| TEnd (l : list bool) (base used mg md : Z) (survived : bool).

Definition raw_of (decodes : bool) : raw_in := mkRaw decodes (LOpaque (VOk false)).
Definition st0 : st := mkSt (fun _ => 0) (fun _ => 0) (fun _ => false) (fun _ => false) 0 0 0 0 0 0 0 0 false false.

Definition total_ok (c : tcase) : bool :=
  match c with
  | TRaw dec a b p f =>
      if dec then non_crash a && non_crash b && non_crash p && non_crash f
      else (class_of (phase_tx PCheckTx st0 (raw_of false)) =? a)
           && non_crash b        (* the default handler returns an error, PrepareProposal falls back to the request's txs *)
           && (class_of (phase_tx PProcess st0 (raw_of false)) =? p)
           && (class_of (phase_tx PFinalize st0 (raw_of false)) =? f)
  | TCos ci a f => (cos_class MCheck ci =? a) && (cos_class MDeliver ci =? f)
  | TEth e base a f => agrees (eth_pre_class MCheck base e) a && agrees (eth_pre_class MDeliver base e) f
  | TCpc len known args_ok failed cls =>
      (cls =? 0) &&
      match cpc_call len known args_ok true with
      | Cont must_fail => if must_fail then failed else true     (* a decodable call may still fail in the method *)
      | _ => false
      end
  | TQuery q cls => class_of (query q) =? cls
  | TTrace block ln to tr cls survived =>
      let c := mkTraceCfg ln to tr in
      Bool.eqb survived (negb (watchdog_crashes false c)) && (if survived then agrees (trace_class block c) cls else true)
  | TEnd l base used mg md survived =>
      Bool.eqb survived (match end_block (fold_left blk_step l blk0) base used mg md with VOk _ => true | _ => false end)
  end.

Definition total_mismatches (off : nat) (l : list tcase) : list nat := mism total_ok off l.
