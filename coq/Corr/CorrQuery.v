(* Correspondence checker for the `query` driver (C08).
   QGas: the gas limit an eth_call really runs with (TransactionArgs.ToMessage: request gas capped by the node's cap).
   QEst: one run of the real EstimateGas (x/evm/keeper/grpc_query.go).  The executable of that request is
         given as the finite table of (gas -> outcome) the harness measured with the real
         ApplyMessageWithConfig(commit=false) on the same committed state; the model's search must stay inside
         the table (every probe it makes was measured) and must return what EstimateGas returned.
   QBin: one run of the real evmtypes.BinSearch driven directly with a synthetic executable (a step function of
         gas, arbitrary -- not monotone, bounds up to 2^64-1): same probes in the same order, same result. *)
From Evm Require Import CacheStack Query CorrBase.
Open Scope N_scope.

Definition exres_eqb (a b : exres) : bool :=
  match a, b with
  | ExOk, ExOk | ExOOG, ExOOG | ExRevert, ExRevert | ExVmOther, ExVmOther
  | ExIntrinsic, ExIntrinsic | ExErr, ExErr => true
  | _, _ => false
  end.

Definition estres_eqb (a b : estres) : bool :=
  match a, b with
  | EstOk x, EstOk y => x =? y
  | EstInvalidArg, EstInvalidArg | EstBail, EstBail | EstVmError, EstVmError
  | EstAllowance, EstAllowance => true
  | _, _ => false                      (* EstFuel never matches an observation *)
  end.

Definition bres_eqb (a b : bres) : bool :=
  match a, b with
  | BErr, BErr => true
  | BHi x, BHi y => x =? y
  | _, _ => false
  end.

Fixpoint listN_eqb (a b : list N) : bool :=
  match a, b with
  | [], [] => true
  | x :: a', y :: b' => (x =? y) && listN_eqb a' b'
  | _, _ => false
  end.

(* measured table: exact lookup *)
Fixpoint tab_get (t : list (N * exres)) (g : N) : option exres :=
  match t with
  | [] => None
  | (g', r) :: rest => if g' =? g then Some r else tab_get rest g
  end.
Definition ex_tab (t : list (N * exres)) (g : N) : exres :=
  match tab_get t g with Some r => r | None => ExErr end.
Definition measured (t : list (N * exres)) (g : N) : bool :=
  match tab_get t g with Some _ => true | None => false end.

(* every gas value the model's EstimateGas hands to the executable, in order *)
Definition est_probes (ex : N -> exres) (gas_cap : N) (args_gas : option N) (max_gas : Z) : list N :=
  if gas_cap <? TxGas then []
  else
    let lo := TxGas - 1 in
    let cap := est_hi gas_cap args_gas max_gas in
    bin_probes est_fuel ex lo cap ++
    match bin_search est_fuel ex lo cap with
    | BHi hi => if hi =? cap then [hi] else []
    | _ => []
    end.

(* step function: outcome of the last breakpoint <= g, [d] before the first (breakpoints ascending) *)
Fixpoint ex_steps (steps : list (N * exres)) (d : exres) (g : N) : exres :=
  match steps with
  | [] => d
  | (b, r) :: rest => if b <=? g then ex_steps rest r g else d
  end.

Inductive qcase :=
| QEst (gas_cap : N) (args_gas : option N) (max_gas : Z) (tab : list (N * exres)) (obs : estres)
| QBin (lo hi : N) (steps : list (N * exres)) (d : exres) (probes : list N) (obs : bres)
(* eth_call of a contract whose first instruction is GAS: obs = the value it returned (None: the call failed).
   Intrinsic gas of a call without data is 21000 and GAS itself costs 2; the rest of the reporter
   (PUSH1 MSTORE PUSH1 PUSH1 RETURN, one word of memory) needs 15 more. *)
| QGas (gas_cap : N) (args_gas : option N) (obs : option N).

Definition q_ok (c : qcase) : bool :=
  match c with
  | QEst gas_cap args_gas max_gas tab obs =>
      forallb (measured tab) (est_probes (ex_tab tab) gas_cap args_gas max_gas) &&
      estres_eqb (estimate_gas (ex_tab tab) gas_cap args_gas max_gas) obs
  | QBin lo hi steps d probes obs =>
      listN_eqb (bin_probes est_fuel (ex_steps steps d) lo hi) probes &&
      bres_eqb (bin_search est_fuel (ex_steps steps d) lo hi) obs
  | QGas gas_cap args_gas obs =>
      match obs with
      | Some o => call_gas gas_cap args_gas =? o + 21002
      | None => call_gas gas_cap args_gas <? 21017
      end
  end.

Definition query_mismatches (off : nat) (l : list qcase) : list nat := mism q_ok off l.
