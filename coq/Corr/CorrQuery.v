(* Correspondence checker for the `query` driver (C08).
   QGas: the gas limit an eth_call really runs with (TransactionArgs.ToMessage: request gas capped by the node's cap).
   QEst: one run of the real EstimateGas (x/evm/keeper/grpc_query.go).  The executable of that request is
         given as the finite table of (gas -> outcome) the harness measured with the real
         ApplyMessageWithConfig(commit=false) on the same committed state; the model's search must stay inside
         the table (every probe it makes was measured) and must return what EstimateGas returned.
   QBin: one run of the real evmtypes.BinSearch driven directly with a synthetic executable (a step function of
         gas, arbitrary -- not monotone, bounds up to 2^64-1): same probes in the same order, same result. *)
From Evm Require Import CacheStack Query CorrBase.
Open Scope N_scope.

Definition exres_eqb (a b : exres) : bool :=
  match a, b with
  | ExOk, ExOk | ExOOG, ExOOG | ExRevert, ExRevert | ExVmOther, ExVmOther
  | ExIntrinsic, ExIntrinsic | ExErr, ExErr => true
  | _, _ => false
  end.

Definition estres_eqb (a b : estres) : bool :=
  match a, b with
  | EstOk x, EstOk y => x =? y
  | EstInvalidArg, EstInvalidArg | EstBail, EstBail | EstVmError, EstVmError
  | EstAllowance, EstAllowance => true
  | _, _ => false                      (* EstFuel never matches an observation *)
  end.

Definition bres_eqb (a b : bres) : bool :=
  match a, b with
  | BErr, BErr => true
  | BHi x, BHi y => x =? y
  | _, _ => false
  end.

Fixpoint listN_eqb (a b : list N) : bool :=
  match a, b with
  | [], [] => true
  | x :: a', y :: b' => (x =? y) && listN_eqb a' b'
  | _, _ => false
  end.

(* measured table: exact lookup *)
Fixpoint tab_get (t : list (N * exres)) (g : N) : option exres :=
  match t with
  | [] => None
  | (g', r) :: rest => if g' =? g then Some r else tab_get rest g
  end.
Definition ex_tab (t : list (N * exres)) (g : N) : exres :=
  match tab_get t g with Some r => r | None => ExErr end.
Definition measured (t : list (N * exres)) (g : N) : bool :=
  match tab_get t g with Some _ => true | None => false end.

(* every gas value the model's EstimateGas hands to the executable, in order *)
Definition est_probes (ex : N -> exres) (gas_cap : N) (args_gas : option N) (max_gas : Z) : list N :=
  if gas_cap <? TxGas then []
  else
    let lo := TxGas - 1 in
    let cap := est_hi gas_cap args_gas max_gas in
    bin_probes est_fuel ex lo cap ++
    match bin_search est_fuel ex lo cap with
    | BHi hi => if hi =? cap then [hi] else []
    | _ => []
    end.

(* step function: outcome of the last breakpoint <= g, [d] before the first (breakpoints ascending) *)
Fixpoint ex_steps (steps : list (N * exres)) (d : exres) (g : N) : exres :=
  match steps with
  | [] => d
  | (b, r) :: rest => if b <=? g then ex_steps rest r g else d
  end.

Inductive qcase :=
| QEst (gas_cap : N) (args_gas : option N) (max_gas : Z) (tab : list (N * exres)) (obs : estres)
| QBin (lo hi : N) (steps : list (N * exres)) (d : exres) (probes : list N) (obs : bres)
(* eth_call of a contract whose first instruction is GAS: obs = the value it returned (None: the call failed).
   Intrinsic gas of a call without data is 21000 and GAS itself costs 2; the rest of the reporter
   (PUSH1 MSTORE PUSH1 PUSH1 RETURN, one word of memory) needs 15 more. *)
| QGas (gas_cap : N) (args_gas : option N) (obs : option N)
(* one block with several transactions of the same sender, some failing in the EVM or refused by the state
   transition: m = the senders' nonces before the block, txs = its nonce skeleton (what the block did with each
   transaction), obs_tx[i] = Query/TraceTx of transaction i with transactions 0..i-1 as predecessors produced a trace,
   obs_block[i] = Query/TraceBlock produced a trace for transaction i.  The model's TraceTx / TraceBlock
   (Model/Query.v trace_tx / trace_block over skel_apply) must say the same for every transaction that got through
   the ante handler. *)
| QTrace (m : nmap) (txs : list btx) (obs_tx obs_block : list bool)
(* CheckTx of consecutive transactions of one sender between two commits: n = committed sequence, obs = the sender's
   sequence read from the CHECK STATE after each admitted transaction.  The model runs a trial execution that even
   overwrites the sequence key: the branch is dropped, the check state keeps the ante handler's increment only. *)
| QTrial (n : N) (obs : list N).

Definition is_some {A} (o : option A) : bool := match o with Some _ => true | None => false end.

Definition trace_case_ok (m : nmap) (txs : list btx) (obs_tx obs_block : list bool) (i : nat) : bool :=
  match nth_error txs i, nth_error obs_tx i, nth_error obs_block i with
  | Some t, Some ot, Some ob =>
      match b_class t with
      | BAnte => true
      | _ => Bool.eqb (is_some (trace_tx skel_apply m (firstn i txs) t)) ot &&
             Bool.eqb (match nth_error (trace_block skel_apply m txs) i with Some o => is_some o | None => false end) ob
      end
  | _, _, _ => false
  end.

Definition q_ok (c : qcase) : bool :=
  match c with
  | QEst gas_cap args_gas max_gas tab obs =>
      forallb (measured tab) (est_probes (ex_tab tab) gas_cap args_gas max_gas) &&
      estres_eqb (estimate_gas (ex_tab tab) gas_cap args_gas max_gas) obs
  | QBin lo hi steps d probes obs =>
      listN_eqb (bin_probes est_fuel (ex_steps steps d) lo hi) probes &&
      bres_eqb (bin_search est_fuel (ex_steps steps d) lo hi) obs
  | QGas gas_cap args_gas obs =>
      match obs with
      | Some o => call_gas gas_cap args_gas =? o + 21002
      | None => call_gas gas_cap args_gas <? 21017
      end
  | QTrial n obs =>
      listN_eqb (checktx_seqs (length obs) (fun k => if k =? 0 then Some n else None) 0
                   (PDo (KvSet 0 999) (fun _ => PRead 0 (fun v => PRet v)))) obs
  | QTrace m txs obs_tx obs_block =>
      Nat.eqb (length obs_tx) (length txs) && Nat.eqb (length obs_block) (length txs) &&
      forallb (trace_case_ok m txs obs_tx obs_block) (seq 0 (length txs))
  end.

Definition query_mismatches (off : nat) (l : list qcase) : list nat := mism q_ok off l.
