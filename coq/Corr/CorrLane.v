(* Correspondence checker for the drivers `ante` and `routes` (C07, C16): the harness emits, per generated
   transaction, its shape, the environment facts it constructed, and what the real code did; [lane_ok]
   recomputes everything from Model/Lane.v and compares. *)
From Evm Require Import Lane LaneWire CorrBase.
Open Scope Z_scope.

(* what baseapp answered: accepted by the ante handler, or rejected with ABCI (codespace id, code);
   attr says which Cosmos-only decorator refuses the same tx when called on its own (1 = 992c, 2 = 993c, 0 = neither) *)
Inductive obs :=
| OAccept                              (* reached message execution and (simulate, deliver) the messages succeeded *)
| OExecFail                            (* deliver: the ante handler passed (ante events present) but a message handler failed *)
| OReject (cs code : Z) (attr : Z).

Definition code_matches (r : reason) (cs c : Z) : bool :=
  match code_of r with
  | Some (cs', c') => (cs =? cs') && (c =? c')
  | None => true
  end.

Definition attr_matches (r : reason) (attr : Z) : bool :=
  match class_of r with
  | CAuthz => attr =? 1
  | CVesting => attr =? 2
  | _ => true
  end.

(* check / re-check do not execute messages; simulate and deliver do, and simulate cannot tell an ante
   rejection from a failed message (both are an error), deliver can (ante events). *)
Definition verdict_matches (m : mode) (msgs_ok : bool) (v : verdict) (o : obs) : bool :=
  match v, o with
  | Accept, OAccept => match m with MCheck | MReCheck => true | _ => msgs_ok end
  | Accept, OExecFail => match m with MDeliver => negb msgs_ok | _ => false end
  | Accept, OReject _ _ _ => match m with MSimulate => negb msgs_ok | _ => false end
  | Reject r, OReject cs c a => code_matches r cs c && attr_matches r a
  | _, _ => false
  end.

(* single decorators called with a terminal `next`: None = called next *)
Definition dec_matches (r : option reason) (o : option (Z * Z)) : bool :=
  match r, o with
  | None, None => true
  | Some r, Some (cs, c) => code_matches r cs c
  | _, _ => false
  end.

Definition all_modes : list mode := [MCheck; MReCheck; MSimulate; MDeliver].

(* the lane-specific decorators observed one by one, in this order *)
Definition observed_decs (tbl : list N) : list dec :=
  [d02_ext; d03_validate_basic; d04_timeout; d05_memo; d991c_reject_eth; d992c_authz tbl; d993c_vesting].

Fixpoint all2 {A B} (f : A -> B -> bool) (a : list A) (b : list B) : bool :=
  match a, b with
  | [], [] => true
  | x :: a', y :: b' => f x y && all2 f a' b'
  | _, _ => false
  end.

Definition is_eth_b (m : msg) : bool := match m with MEth _ => true | _ => false end.
Definition count_eth (l : list (route * msg)) : Z := Z.of_nat (length (filter (fun rm => is_eth_b (snd rm)) l)).
Fixpoint vesting_targets (l : list (route * msg)) : list N :=
  match l with
  | [] => []
  | (_, MVesting _ a) :: r => a :: vesting_targets r
  | _ :: r => vesting_targets r
  end.

Fixpoint insertN (x : N) (l : list N) : list N :=
  match l with [] => [x] | y :: r => if (x <=? y)%N then x :: l else y :: insertN x r end.
Definition sortN (l : list N) : list N := fold_right insertN [] l.
Fixpoint listN_eqb (a b : list N) : bool :=
  match a, b with
  | [], [] => true
  | x :: a', y :: b' => N.eqb x y && listN_eqb a' b'
  | _, _ => false
  end.

Record txcase := {
  c_sh      : shape;
  c_proven  : list N;                 (* vesting targets with a stored proof *)
  c_sdk_vb  : option Z;
  c_sdk_rest : list (option Z);       (* per all_modes *)
  c_payer_can_pay : bool;
  c_granter_allows : bool;
  c_obs     : list (mode * obs);      (* baseapp verdicts, for the modes that were run *)
  c_decs    : list (mode * list (option (Z * Z)));   (* single-decorator verdicts, per mode run, per observed_decs *)
  c_exec    : option (Z * list N * Z)     (* deliver, ante passed: (#Ethereum handler runs, vesting accounts created (sorted), #top-level messages executed) *)
}.

Definition nth_mode (m : mode) : nat := match m with MCheck => 0 | MReCheck => 1 | MSimulate => 2 | MDeliver => 3 end.

Definition env_of (c : txcase) : env :=
  {| has_proof := fun a => memN a (c_proven c);
     sdk_vb := c_sdk_vb c;
     sdk_rest := fun m => nth (nth_mode m) (c_sdk_rest c) None;
     payer_can_pay := c_payer_can_pay c;
     granter_allows := c_granter_allows c |}.

Definition tx_ok (c : txcase) : bool :=
  let e := env_of c in
  let sh := c_sh c in
  let tbl := default_disabled in
  forallb (fun mo => verdict_matches (fst mo) (run_msgs_ok sh) (runtx tbl (fst mo) e sh) (snd mo)) (c_obs c) &&
  forallb (fun md => all2 (fun (d : dec) o => dec_matches (d (fst md) e sh) o) (observed_decs tbl) (snd md)) (c_decs c) &&
  match c_exec c with
  | None => true
  | Some (neth, ves, ntop) =>
      let ex := executed_tx tbl e sh in
      (count_eth ex =? neth) && listN_eqb (sortN (vesting_targets ex)) ves &&
      (Z.of_nat (length (filter (fun rm => match fst rm with TopLevel => true | _ => false end) ex)) =? ntop)
  end.

(* ---- transactions given by their WIRE VALUES (Model/LaneWire.v).  The harness emits the values it encoded (byte
   lengths of signatures / memo / payer / granter, the uint64 timeout height and gas limit, the fee coins) next to the
   case; the shape the model is evaluated on is recomputed here from those values, and must agree with the shape the
   harness derived on its own (which is what its direct oracle reads). *)
Definition value_fields_eqb (a b : shape) : bool :=
  Nat.eqb (n_sigs a) (n_sigs b) && Nat.eqb (n_infos a) (n_infos b) &&
  Bool.eqb (payer a) (payer b) && Bool.eqb (granter a) (granter b) &&
  memo_eqb (s_memo a) (s_memo b) && tmo_eqb (s_timeout a) (s_timeout b) &&
  coins_eqb (fee a) (fee b) && (gas_limit a =? gas_limit b).

Definition wire_of_case (v : wvals) (c : txcase) : wire :=
  {| w_msgs := msgs (c_sh c); w_ext := ext_opts (c_sh c); w_noncrit := noncrit (c_sh c); w_vals := v |}.

Definition with_shape (sh : shape) (c : txcase) : txcase :=
  {| c_sh := sh; c_proven := c_proven c; c_sdk_vb := c_sdk_vb c; c_sdk_rest := c_sdk_rest c;
     c_payer_can_pay := c_payer_can_pay c; c_granter_allows := c_granter_allows c;
     c_obs := c_obs c; c_decs := c_decs c; c_exec := c_exec c |}.

(* [cur] = last committed height when the transaction was built.  The driver runs simulate and check at height cur,
   the single decorators and re-check at cur+1, deliver at cur+2: a transaction that takes the Cosmos branch of the
   decorators must have a timeout that reads the same at all of them (the Ethereum branch refuses every non-zero value,
   whatever the height); the shape is taken at the deliver height. *)
Definition txw_ok (max_memo cur : Z) (v : wvals) (c : txcase) : bool :=
  let w := wire_of_case v c in
  let sh := abstract max_memo (cur + 2) w in
  value_fields_eqb sh (c_sh c) &&
  (has_single_eth (w_msgs w) || tmo_eqb (tmo_of cur (v_timeout v)) (tmo_of (cur + 2) (v_timeout v))) &&
  tx_ok (with_shape sh c).

Inductive lcase :=
| CTable (tbl : list N)                      (* HandlerOptions.WithDefaultDisabledNestedMsgs() as type ids *)
| CTx (c : txcase)
| CTxW (max_memo cur : Z) (v : wvals) (c : txcase)
| CIca (enabled allow_all : bool) (allow : list N) (signers_ok : bool) (l : list msg) (neth : Z) (ves : list N)   (* ICA host OnRecvPacket *)
| CGov (passed : bool) (l : list msg) (neth : Z) (ves : list N).                        (* gov proposal execution *)

Definition lane_ok (c : lcase) : bool :=
  match c with
  | CTable tbl =>
      (* the regenerated table is the table the theorems are about, and the table-dependent facts hold of it *)
      listN_eqb (sortN tbl) (sortN default_disabled) &&
      memN TID_ETH tbl && forallb (fun k => memN (tid_vesting k) tbl) [VCreate; VPeriodic; VPermanent]
  | CTx c => tx_ok c
  | CTxW mx cur v c => txw_ok mx cur v c
  | CIca en all allow ok l neth ves =>
      let ex := executed_ica {| ica_enabled := en; ica_allow_all := all; ica_allow := allow |} ok l in
      (count_eth ex =? neth) && listN_eqb (sortN (vesting_targets ex)) ves
  | CGov passed l neth ves =>
      let ex := executed_gov passed l in
      (count_eth ex =? neth) && listN_eqb (sortN (vesting_targets ex)) ves
  end.

Definition lane_mismatches (off : nat) (l : list lcase) : list nat := mism lane_ok off l.
