(* Correspondence checker for the `statedb` driver (C03, also the discard half of C08).
   A case = the initial values of every key the case touches + a list of (macro op, observation).
   Macro ops are calls on the real CStateDB / real keepers; they are expanded here into the primitive
   ops of Model/CacheStack.v:
   - raw part: the observed diff of the whole multistore view (keys 2i+1, numbered by the driver) --
     this is an input for writing ops (what a keeper writes is not the property) and a PREDICTION that
     is compared for Snapshot / RevertToSnapshot / CommitMultiStore / side ops / panicking ops;
   - logical part (even keys): storage, nonce, code, balance, account existence of a small address
     universe, written as x/evm/vm/state_db.go writes them; compared with the concrete getters;
   - side part: touched / refund / selfDestructed / access list / logs / transient storage, predicted
     and compared in full after every step, as are the events of the current cache context and the
     snapshot depth. *)
From Evm Require Import CacheStack CorrBase.
Open Scope N_scope.

Definition kL (kind a s : N) : key := 2 * (kind + 8 * (a + 64 * s)).
Definition kSt (a s : N) := kL 0 a s.
Definition kNonce (a : N) := kL 1 a 0.
Definition kCode (a : N) := kL 2 a 0.
Definition kBal (a : N) := kL 3 a 0.
Definition kAcct (a : N) := kL 4 a 0.
Definition SLOTS : list N := [0; 1; 2; 3].          (* storage slots the driver uses *)
Definition ADDRS : list N := [0; 1; 2; 3; 4; 5; 6; 7].
Definition TKEYS : list N := [0; 1; 2].

Definition rd (s : sdb) (k : key) : N := match view s k with Some v => v | None => 0 end.
Definition has (s : sdb) (k : key) : bool := match view s k with Some _ => true | None => false end.

Inductive mop :=
| MSetState (a sl v : N) (raw : overlay)
| MSetNonce (a n : N) (raw : overlay)
| MSetCode (a c : N) (raw : overlay)
| MAddBalance (a x : N) (raw : overlay)
| MSubBalance (a x : N) (raw : overlay)
| MSuicide (a : N) (raw : overlay)
| MCreateAccount (a : N) (raw : overlay)
| MDestroy (a : N) (raw : overlay)                   (* CStateDB.DestroyAccount called directly *)
| MBankSend (a b x : N) (raw : overlay)              (* bank keeper SendCoins through the current context *)
| MForeign (raw : overlay)                           (* cpc allowance / staking / distribution through the current context *)
| MFrame (ok : bool) (extra : nat) (raw : overlay) (sd : side)
    (* a real evm.Call: Snapshot; callee (extra nested frames whose layers stay); RevertToSnapshot iff it failed *)
| MSide (o : op)
| MSnapshot
| MRevert (id : Z)
| MCommit (destroyed : list N) (raw : overlay) (dev : list N)   (* destroy loop: logical, raw writes, events *)
| MNop.

Inductive mout := MoOk | MoId (z : Z) | MoPanic | MoBool (b : bool).

Definition raws (raw : overlay) : list op :=
  map (fun kvp : key * option val => match snd kvp with Some x => KvSet (fst kvp) x | None => KvDel (fst kvp) end) raw.
Definition ensure (s : sdb) (a : N) : list op := if has s (kAcct a) then [] else [KvSet (kAcct a) 1].
Definition clr_storage (a : N) : list op := map (fun sl => KvDel (kSt a sl)) SLOTS.
Definition destroy_ov (a : N) : overlay :=
  [(kAcct a, None); (kNonce a, None); (kCode a, None); (kBal a, Some 0)] ++ map (fun sl => (kSt a sl, None)) SLOTS.

Definition out_to_mout (o : out) : mout := match o with OutOk => MoOk | OutId z => MoId z | OutPanic => MoPanic end.

Definition mstep (s : sdb) (m : mop) : sdb * mout :=
  match m with
  | MSetState a sl v raw => (run s (Touch a :: ensure s a ++ [KvSet (kSt a sl) v] ++ raws raw), MoOk)
  | MSetNonce a n raw => (run s (Touch a :: ensure s a ++ [KvSet (kNonce a) n] ++ raws raw), MoOk)
  | MSetCode a c raw => (run s (Touch a :: ensure s a ++ [KvSet (kCode a) c] ++ raws raw), MoOk)
  | MAddBalance a x raw =>
      (* SendCoinsFromModuleToAccount creates the recipient account *)
      (run s (Touch a :: (if x =? 0 then [] else ensure s a ++ [KvSet (kBal a) (rd s (kBal a) + x)]) ++ raws raw), MoOk)
  | MSubBalance a x raw =>
      if x =? 0 then (run s [Touch a], MoOk)
      else if rd s (kBal a) <? x then (run s [Touch a], MoPanic)      (* burnCoins panics after touched.Add *)
      else (run s (Touch a :: KvSet (kBal a) (rd s (kBal a) - x) :: raws raw), MoOk)
  | MSuicide a raw =>
      if has s (kAcct a)
      then (run s (Touch a :: SdAdd a :: (if rd s (kBal a) =? 0 then [] else [KvSet (kBal a) 0]) ++ raws raw), MoBool true)
      else (run s [Touch a], MoBool false)
  | MCreateAccount a raw =>
      (run s (Touch a :: KvDel (kNonce a) :: KvDel (kCode a) :: clr_storage a ++ [KvSet (kAcct a) 1] ++ raws raw), MoOk)
  | MDestroy a raw =>
      (run s (KvDel (kAcct a) :: KvDel (kNonce a) :: KvDel (kCode a) :: KvSet (kBal a) 0 :: clr_storage a ++ raws raw), MoOk)
  | MBankSend a b x raw =>
      (run s ([KvSet (kBal a) (rd s (kBal a) - x); KvSet (kBal b) (rd s (kBal b) + x)] ++ ensure s b ++ raws raw), MoOk)
  | MForeign raw => (run s (raws raw), MoOk)
  | MFrame ok extra raw sd =>
      let id := (Z.of_nat (depth s) - 1)%Z in
      let s1 := run s (repeat Snapshot (S extra)) in
      if ok then (set_cur (run s1 (raws raw)) sd, MoBool true)
      else (fst (step (set_cur (run s1 (raws raw)) sd) (RevertTo id)), MoBool false)
  | MSide o => let '(s', r) := step s o in (s', out_to_mout r)
  | MSnapshot => let '(s', r) := step s Snapshot in (s', out_to_mout r)
  | MRevert id => let '(s', r) := step s (RevertTo id) in (s', out_to_mout r)
  | MCommit destroyed raw dev =>
      (* the destroy loop writes and emits through the current context, then the layers are flushed *)
      let s0 := if committed s then s else run s (map EmitEvent dev) in
      let '(s', r) := step s0 (Commit (flat_map destroy_ov destroyed ++ raw)) in (s', out_to_mout r)
  | MNop => (s, MoOk)
  end.

(* is the raw diff of this macro op an input (true) or a prediction to be compared (false)? *)
Definition raw_is_input (m : mop) (o : mout) : bool :=
  match m with
  | MSide _ | MSnapshot | MRevert _ | MCommit _ _ _ | MNop => false
  | MFrame ok _ _ _ => ok
  | MSubBalance _ _ _ => match o with MoPanic => false | _ => true end
  | MSuicide _ _ => match o with MoBool true => true | _ => false end
  | _ => true
  end.

Inductive getter :=
| GState (a sl : N) | GNonce (a : N) | GCode (a : N) | GBal (a : N) | GExist (a : N) | GSuicided (a : N)
| GRefund | GAlAddr (a : N) | GAlSlot (a sl : N) | GTs (a k : N) | GLogsLen.

Definition b2n (b : bool) : N := if b then 1 else 0.

Definition geval (s : sdb) (g : getter) : N :=
  match g with
  | GState a sl => rd s (kSt a sl)
  | GNonce a => rd s (kNonce a)
  | GCode a => rd s (kCode a)
  | GBal a => rd s (kBal a)
  | GExist a => b2n (has_suicided s a || has s (kAcct a))
  | GSuicided a => b2n (has_suicided s a)
  | GRefund => get_refund s
  | GAlAddr a => b2n (address_in_access_list s a)
  | GAlSlot a sl => let '(x, y) := slot_in_access_list s a sl in 2 * b2n x + b2n y
  | GTs a k => get_transient s a k
  | GLogsLen => N.of_nat (length (get_logs s))
  end.

(* observed side state: sets as duplicate-free lists, transient storage as the non-zero entries of
   the universe ADDRS x TKEYS in that order *)
Record oside := mkOSide {
  os_touched : list N; os_refund : N; os_sd : list N; os_al_addrs : list N; os_al_slots : list (N * N);
  os_logs : list N; os_ts : list (N * N * N)
}.

Fixpoint listN_eqb (a b : list N) : bool :=
  match a, b with
  | [], [] => true
  | x :: a', y :: b' => N.eqb x y && listN_eqb a' b'
  | _, _ => false
  end.

Definition setN_eqb (a b : list N) : bool := Nat.eqb (length a) (length b) && forallb (fun x => memN x b) a.
Definition setNN_eqb (a b : list (N * N)) : bool :=
  Nat.eqb (length a) (length b) && forallb (fun p : N * N => memNN (fst p) (snd p) b) a.

Definition ts_dump (c : side) : list (N * N * N) :=
  flat_map (fun a => flat_map (fun k => let v := ts_get (transient c) a k in if v =? 0 then [] else [(a, k, v)]) TKEYS) ADDRS.

Fixpoint ts_eqb (a b : list (N * N * N)) : bool :=
  match a, b with
  | [], [] => true
  | (x1, y1, z1) :: a', (x2, y2, z2) :: b' => N.eqb x1 x2 && N.eqb y1 y2 && N.eqb z1 z2 && ts_eqb a' b'
  | _, _ => false
  end.

Definition side_ok (c : side) (o : oside) : bool :=
  setN_eqb (os_touched o) (touched c) && N.eqb (os_refund o) (refund c) && setN_eqb (os_sd o) (selfdestructed c) &&
  setN_eqb (os_al_addrs o) (al_addrs c) && setNN_eqb (os_al_slots o) (al_slots c) &&
  listN_eqb (os_logs o) (logs c) && ts_eqb (os_ts o) (ts_dump c).

(* model side from an observed one (MFrame: the callee's side effects are an input when it succeeds) *)
Definition side_of (o : oside) : side :=
  mkSide (os_touched o) (os_refund o) (os_sd o) (os_al_addrs o) (os_al_slots o) (os_logs o)
         (map (fun t : N * N * N => t) (os_ts o)).

Record sobs := mkObs {
  so_out : mout;
  so_diff : overlay;        (* observed diff of the whole multistore view through the current context *)
  so_newev : list N;        (* events this op appended to the current context's manager (input for writing ops) *)
  so_topev : list N;        (* all events in the current context's manager afterwards *)
  so_depth : nat;           (* len(ForTest_GetSnapshots()) *)
  so_side : oside;
  so_reads : list (getter * N);
  so_commit : option (overlay * list N)   (* after CommitMultiStore: diff (committed store vs last view), events of the original context *)
}.

Definition mout_eqb (a b : mout) : bool :=
  match a, b with
  | MoOk, MoOk => true
  | MoId x, MoId y => Z.eqb x y
  | MoPanic, MoPanic => true
  | MoBool x, MoBool y => Bool.eqb x y
  | _, _ => false
  end.

Definition optN_eqb (a b : option N) : bool :=
  match a, b with Some x, Some y => N.eqb x y | None, None => true | _, _ => false end.

Definition raw_keys (ls : list layer) : list key :=
  filter N.odd (flat_map (fun l => map fst (l_ov l)) ls).

(* does [after] equal [before] patched with the observed diff, on the candidate keys and the diff's keys? *)
Definition diff_ok (before after : kv) (cand : list key) (d : overlay) : bool :=
  forallb (fun k => optN_eqb (after k) (match ov_get d k with Some v => v | None => before k end)) (cand ++ map fst d).

(* layers a RevertTo id discards or re-branches: everything above and including position id+1 *)
Definition dropped (s : sdb) (id : Z) : list layer :=
  firstn (depth s - Z.to_nat (id + 1)) (top s :: below s).

Definition emit (s : sdb) (evs : list N) : sdb := run s (map EmitEvent evs).

Definition check_step (s : sdb) (m : mop) (o : sobs) : option sdb :=
  let '(s1, r) := mstep s m in
  let inp := raw_is_input m r in
  let s2 := if inp then emit s1 (so_newev o) else s1 in
  let cand := match m with
              | MRevert id => raw_keys (dropped s id)
              | MFrame _ _ raw _ => filter N.odd (map fst raw)
              | MCommit _ _ _ => raw_keys (top s :: below s)
              | _ => []
              end in
  let kv_ok :=
    if inp then true
    else match m, so_commit o with
         | MCommit _ _ _, Some (cd, cev) =>
             match r with
             | MoOk => diff_ok (view s) (orig s2) cand cd && diff_ok (view s) (view s2) cand cd && listN_eqb cev (orig_ev s2)
             | _ => false
             end
         | MCommit _ _ _, None => match r with MoPanic => diff_ok (view s) (view s2) cand (so_diff o) | _ => false end
         | _, _ => diff_ok (view s) (view s2) cand (so_diff o) && match so_newev o with [] => true | _ => false end
         end in
  if mout_eqb r (so_out o) && kv_ok && side_ok (cur s2) (so_side o) && listN_eqb (so_topev o) (l_ev (top s2)) &&
     Nat.eqb (depth s2) (so_depth o) && forallb (fun gr : getter * N => N.eqb (geval s2 (fst gr)) (snd gr)) (so_reads o)
  then Some s2 else None.

Fixpoint check_steps (s : sdb) (l : list (mop * sobs)) : bool :=
  match l with
  | [] => true
  | (m, o) :: r => match check_step s m o with Some s' => check_steps s' r | None => false end
  end.

Record sdb_case := mkCase { c_base : overlay; c_steps : list (mop * sobs) }.

Definition sdb_ok (c : sdb_case) : bool := check_steps (init (kv_over (c_base c) (fun _ => None)) []) (c_steps c).

Definition sdb_mismatches (off : nat) (l : list sdb_case) : list nat := mism sdb_ok off l.
