(* Correspondence checker for the `static` driver (C12).
   TreeCase: a generated call tree executed as a real transaction (EOA --CALL--> root code); observed: receipt status,
     the 32-byte word returned by the root (bit i set iff the call of leaf i succeeded and was not reverted), and whether
     any non-fee state changed or any log was emitted (the auth module's global account number counter aside; accounts
     created by a method that took effect are state changes like any other), and whether an account number was drawn
     that no account holds afterwards (the trace of evm.Call creating an account for an account-less precompile
     address; a number held by a newly created account is a method's effect and does not count).
   TableCase: the method table of one registered contract, regenerated from the running code
     (NewCustomPrecompiledContractMethod over GetMethodExecutors): must equal the model's expected table for that
     contract type and satisfy "state-changing methods charge a non-zero gas cost".
   TypesCase: the contract types registered on the chain the driver ran on (all three must have been exercised). *)
From Evm Require Import StaticCtx CorrBase.
Open Scope Z_scope.

Inductive sc_case :=
| TreeCase (root : frame) (obs_ok : bool) (obs_mask : Z) (obs_changed : bool) (obs_accnum : bool)
| TableCase (ctype : Z) (rows : list method)
| TypesCase (types : list Z).

Definition is_nil {A} (l : list A) : bool := match l with [] => true | _ => false end.

Definition sc_ok (c : sc_case) : bool :=
  match c with
  | TreeCase root o m ch an =>
      let r := run_tx root in
      Bool.eqb (ok_of r) o && (mask_of r =? m) && Bool.eqb (negb (is_nil (eff_of r))) ch
      && Bool.eqb (accnum_consumed root) an
  | TableCase ct rows =>
      table_eqb rows (filter (fun m => m_ctype m =? ct) expected_table) && table_rw_cost_gas rows
  | TypesCase ts => listZ_eqb ts [1; 2; 3]
  end.

Definition sc_mismatches (off : nat) (l : list sc_case) : list nat := mism sc_ok off l.
