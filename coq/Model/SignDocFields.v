(* Model of the field handling of ethereum/eip712/encoding.go decodeProtobufSignDoc (C19): which fields of a
   SIGN_MODE_DIRECT sign document (cosmos.tx.v1beta1.SignDoc = TxBody + AuthInfo + chain id + account number) reach the
   legacy sign document the EIP-712 typed data is rendered from (legacytx.StdSignBytes), and which make the document
   refused.  Payloads the step does not look into are opaque: A = google.protobuf.Any (type url, value),
   MI = cosmos.tx.v1beta1.ModeInfo.

   The fields are enumerated ([pbfield]) under the paths the driver reads by reflection from the message descriptors
   the SDK registers (harness/crypto/fields_test.go reflectPbFields); each run checks that the reflected list IS
   [pb_table] (paths and kinds) and that every field behaves on the real code as its class says. *)
From Coq Require Import String Ascii.
From Coq Require Import List NArith Bool.
From Evm Require Import SigWrap.
Import ListNotations.
Open Scope N_scope.

Record coin := mkCoin { c_denom : bytes; c_amount : bytes }.

Section PbDoc.
  Variable A : Type.
  Variable MI : Type.

  Record signer_info := mkSI { si_public_key : option A; si_mode_info : option MI; si_sequence : N }.
  Record fee := mkFee { fee_amount : list coin; fee_gas_limit : N; fee_payer : bytes; fee_granter : bytes }.
  Record tip := mkTip { tip_amount : list coin; tip_tipper : bytes }.
  Record pbdoc := mkPb {
    pb_messages : list A; pb_memo : bytes; pb_timeout_height : N;
    pb_ext : list A;                 (* body.extension_options *)
    pb_ncext : list A;               (* body.non_critical_extension_options *)
    pb_signer_infos : list signer_info; pb_fee : option fee; pb_tip : option tip;
    pb_chain_id : bytes; pb_account_number : N }.

  (* the arguments of legacytx.StdSignBytes(chainID, accnum, sequence, timeout, StdFee{Amount, Gas}, msgs, memo) *)
  Record stddoc := mkStd {
    sd_chain_id : bytes; sd_account_number : N; sd_sequence : N; sd_timeout : N;
    sd_fee_amount : list coin; sd_gas : N; sd_msgs : list A; sd_memo : bytes }.

  Definition is_nil {X} (l : list X) : bool := match l with [] => true | _ => false end.
  Definition is_set {X} (o : option X) : bool := match o with Some _ => true | None => false end.

  (* UnpackAny + validatePayloadMessages (at least one message, one common signer) and ParseChainID may refuse more *)
  Variable msgs_ok : list A -> bool.
  Variable chain_ok : bytes -> bool.

  Definition pb_decode (d : pbdoc) : option stddoc :=
    (* if body.TimeoutHeight != 0 || len(body.ExtensionOptions) != 0 || len(body.NonCriticalExtensionOptions) != 0 *)
    if negb (pb_timeout_height d =? 0) || negb (is_nil (pb_ext d)) || negb (is_nil (pb_ncext d)) then None else
    (* if len(authInfo.SignerInfos) != 1 *)
    match pb_signer_infos d with
    | [si] =>
        (* if authInfo.Fee == nil *)
        match pb_fee d with
        | None => None
        | Some f =>
            (* if authInfo.Fee.Payer != "" || authInfo.Fee.Granter != "" || authInfo.GetTip() != nil *)
            if negb (is_nil (fee_payer f)) || negb (is_nil (fee_granter f)) || is_set (pb_tip d) then None else
            if msgs_ok (pb_messages d) && chain_ok (pb_chain_id d) then
              Some (mkStd (pb_chain_id d) (pb_account_number d) (si_sequence si) (pb_timeout_height d)
                          (fee_amount f) (fee_gas_limit f) (pb_messages d) (pb_memo d))
            else None
        end
    | _ => None
    end.

  (* the same step without the extension-options term of the first guard (not the code: refuted in the proofs) *)
  Definition pb_decode_without_ext_guard (d : pbdoc) : option stddoc :=
    if negb (pb_timeout_height d =? 0) || negb (is_nil (pb_ncext d)) then None else
    match pb_signer_infos d with
    | [si] =>
        match pb_fee d with
        | None => None
        | Some f =>
            if negb (is_nil (fee_payer f)) || negb (is_nil (fee_granter f)) || is_set (pb_tip d) then None else
            if msgs_ok (pb_messages d) && chain_ok (pb_chain_id d) then
              Some (mkStd (pb_chain_id d) (pb_account_number d) (si_sequence si) (pb_timeout_height d)
                          (fee_amount f) (fee_gas_limit f) (pb_messages d) (pb_memo d))
            else None
        end
    | _ => None
    end.

  (* ---------------------------------------------------------------- the fields, one by one *)

  Inductive pbfield :=
  | F_account_number | F_fee | F_fee_amount | F_fee_gas_limit | F_fee_granter | F_fee_payer
  | F_signer_infos | F_si_mode_info | F_si_public_key | F_si_sequence
  | F_tip | F_tip_amount | F_tip_tipper
  | F_ext | F_memo | F_messages | F_ncext | F_timeout_height | F_chain_id.

  Definition all_fields : list pbfield :=
    [F_account_number; F_fee; F_fee_amount; F_fee_gas_limit; F_fee_granter; F_fee_payer;
     F_signer_infos; F_si_mode_info; F_si_public_key; F_si_sequence;
     F_tip; F_tip_amount; F_tip_tipper;
     F_ext; F_memo; F_messages; F_ncext; F_timeout_height; F_chain_id].

  Inductive pval :=
  | VN (n : N) | VB (b : bytes) | VBool (b : bool) | VAnys (l : list A) | VCoins (l : list coin)
  | VNs (l : list N) | VOptAs (l : list (option A)) | VOptMIs (l : list (option MI)).

  (* the content of a field (for fields below a repeated / optional message: the column / the value when present) *)
  Definition pb_get (f : pbfield) (d : pbdoc) : pval :=
    match f with
    | F_account_number => VN (pb_account_number d)
    | F_fee => VBool (is_set (pb_fee d))
    | F_fee_amount => VCoins (match pb_fee d with Some x => fee_amount x | None => [] end)
    | F_fee_gas_limit => VN (match pb_fee d with Some x => fee_gas_limit x | None => 0 end)
    | F_fee_granter => VB (match pb_fee d with Some x => fee_granter x | None => [] end)
    | F_fee_payer => VB (match pb_fee d with Some x => fee_payer x | None => [] end)
    | F_signer_infos => VN (N.of_nat (length (pb_signer_infos d)))
    | F_si_mode_info => VOptMIs (map si_mode_info (pb_signer_infos d))
    | F_si_public_key => VOptAs (map si_public_key (pb_signer_infos d))
    | F_si_sequence => VNs (map si_sequence (pb_signer_infos d))
    | F_tip => VBool (is_set (pb_tip d))
    | F_tip_amount => VCoins (match pb_tip d with Some x => tip_amount x | None => [] end)
    | F_tip_tipper => VB (match pb_tip d with Some x => tip_tipper x | None => [] end)
    | F_ext => VAnys (pb_ext d)
    | F_memo => VB (pb_memo d)
    | F_messages => VAnys (pb_messages d)
    | F_ncext => VAnys (pb_ncext d)
    | F_timeout_height => VN (pb_timeout_height d)
    | F_chain_id => VB (pb_chain_id d)
    end.

  (* what the guards make of a field *)
  Inductive pclass :=
  | PRendered    (* copied into the legacy sign document: whenever the document is accepted, the rendering depends on it *)
  | PRefused     (* every value but one makes the document refused *)
  | PSame        (* ignored: the envelope of the signature (public key, sign mode) *)
  | PUntouched.  (* (observation only: the driver found no way to change the field) *)

  Definition pb_class (f : pbfield) : pclass :=
    match f with
    | F_account_number | F_fee_amount | F_fee_gas_limit | F_si_sequence | F_memo | F_messages | F_chain_id => PRendered
    | F_si_mode_info | F_si_public_key => PSame
    | _ => PRefused
    end.

  (* rendered fields: where they are in the legacy document *)
  Definition sd_get (f : pbfield) (s : stddoc) : option pval :=
    match f with
    | F_account_number => Some (VN (sd_account_number s))
    | F_fee_amount => Some (VCoins (sd_fee_amount s))
    | F_fee_gas_limit => Some (VN (sd_gas s))
    | F_si_sequence => Some (VNs [sd_sequence s])
    | F_memo => Some (VB (sd_memo s))
    | F_messages => Some (VAnys (sd_msgs s))
    | F_chain_id => Some (VB (sd_chain_id s))
    | _ => None
    end.

  (* refused fields: the one value an accepted document has *)
  Definition pb_forced (f : pbfield) : option pval :=
    match f with
    | F_fee => Some (VBool true)
    | F_fee_granter | F_fee_payer | F_tip_tipper => Some (VB [])
    | F_signer_infos => Some (VN 1)
    | F_tip => Some (VBool false)
    | F_tip_amount => Some (VCoins [])
    | F_ext | F_ncext => Some (VAnys [])
    | F_timeout_height => Some (VN 0)
    | _ => None
    end.

  (* a document without the envelope fields *)
  Definition strip_envelope (d : pbdoc) : pbdoc :=
    mkPb (pb_messages d) (pb_memo d) (pb_timeout_height d) (pb_ext d) (pb_ncext d)
         (map (fun si => mkSI None None (si_sequence si)) (pb_signer_infos d)) (pb_fee d) (pb_tip d)
         (pb_chain_id d) (pb_account_number d).
End PbDoc.

Arguments mkSI {A MI}.
Arguments mkPb {A MI}.
Arguments mkStd {A}.
Arguments VN {A MI}.
Arguments VB {A MI}.
Arguments VBool {A MI}.
Arguments VAnys {A MI}.
Arguments VCoins {A MI}.
Arguments VNs {A MI}.
Arguments VOptAs {A MI}.
Arguments VOptMIs {A MI}.

(* ------------------------------------------------------------------ the table the driver's reflection is checked against *)

(* path as the driver prints it: TxBody fields under "body.", AuthInfo fields under "auth_info.", SignDoc's own fields bare;
   kind = protoreflect kind, "message:<full name>" / "enum:<full name>" for those, "repeated " in front of lists *)
Definition pb_path (f : pbfield) : bytes :=
  match f with
  | F_account_number => bs "account_number"
  | F_fee => bs "auth_info.fee"
  | F_fee_amount => bs "auth_info.fee.amount"
  | F_fee_gas_limit => bs "auth_info.fee.gas_limit"
  | F_fee_granter => bs "auth_info.fee.granter"
  | F_fee_payer => bs "auth_info.fee.payer"
  | F_signer_infos => bs "auth_info.signer_infos"
  | F_si_mode_info => bs "auth_info.signer_infos.mode_info"
  | F_si_public_key => bs "auth_info.signer_infos.public_key"
  | F_si_sequence => bs "auth_info.signer_infos.sequence"
  | F_tip => bs "auth_info.tip"
  | F_tip_amount => bs "auth_info.tip.amount"
  | F_tip_tipper => bs "auth_info.tip.tipper"
  | F_ext => bs "body.extension_options"
  | F_memo => bs "body.memo"
  | F_messages => bs "body.messages"
  | F_ncext => bs "body.non_critical_extension_options"
  | F_timeout_height => bs "body.timeout_height"
  | F_chain_id => bs "chain_id"
  end.

Definition pb_kind (f : pbfield) : bytes :=
  match f with
  | F_account_number | F_fee_gas_limit | F_si_sequence | F_timeout_height => bs "uint64"
  | F_fee => bs "message:cosmos.tx.v1beta1.Fee"
  | F_fee_amount | F_tip_amount => bs "repeated message:cosmos.base.v1beta1.Coin"
  | F_fee_granter | F_fee_payer | F_tip_tipper | F_memo | F_chain_id => bs "string"
  | F_signer_infos => bs "repeated message:cosmos.tx.v1beta1.SignerInfo"
  | F_si_mode_info => bs "message:cosmos.tx.v1beta1.ModeInfo"
  | F_si_public_key => bs "message:google.protobuf.Any"
  | F_tip => bs "message:cosmos.tx.v1beta1.Tip"
  | F_ext | F_messages | F_ncext => bs "repeated message:google.protobuf.Any"
  end.

Definition pb_table : list (bytes * bytes) := map (fun f => (pb_path f, pb_kind f)) all_fields.

Fixpoint field_of_path (fs : list pbfield) (p : bytes) : option pbfield :=
  match fs with
  | [] => None
  | f :: r => if beqb (pb_path f) p then Some f else field_of_path r p
  end.

(* keys of the legacy (amino JSON) sign document and its fee object, as Go reflection reads them from the json tags of
   legacytx.StdSignDoc and legacytx.StdFee *)
Definition amino_keys : list bytes :=
  [bs "account_number"; bs "chain_id"; bs "fee"; bs "fee.amount"; bs "fee.gas"; bs "fee.granter"; bs "fee.payer";
   bs "memo"; bs "msgs"; bs "sequence"; bs "timeout_height"].
