(* Model of /repo/rpc/ethereum/pubsub/pubsub.go (memEventBus) as a transition system over
   goroutine program counters, the two sync.RWMutex (topicsMux, subscribersMux), the source channels
   handed to AddTopic (owned by the caller = environment) and the subscriber channels made by Subscribe.
   Instance of Model/Conc.v.  Executable Gallina only; statements and proofs are in Proofs/PubSubProofs.v.

   Representation choices (none affects the safety statements, all are visible to the driver):
   - m.subscribers (name -> id -> chan) is a flat list of (name, id, chan) in insertion order; Go ranges over
     the map in random order, the model in list order;
   - make(chan) in Subscribe is done in the step that stores the channel (a local action that commutes);
   - an unbuffered send by the environment on a source channel is "put the message into the channel's
     hand-over slot" + "publishTopic takes it"; the slot holds at most one message;
   - `select { case sub <- msg: default: }` delivers iff a receiver is parked on the channel ([ready]),
     which the environment switches on and off at any time. *)
From Evm Require Export Conc.

Inductive mx := TMux | SMux.
Definition mx_eqb (a b : mx) : bool :=
  match a, b with TMux, TMux => true | SMux, SMux => true | _, _ => false end.

Inductive perr :=
| SendOnClosed (c : nat)      (* panic: send on closed channel *)
| DoubleClose (c : nat)       (* panic: close of closed channel *)
| BadUnlock.                  (* fatal error: sync: Unlock of unlocked RWMutex *)

Record data := mkD {
  topics : list (nat * nat);          (* m.topics: name -> source channel *)
  subs : list (nat * nat * nat);      (* m.subscribers: (name, id, subscriber channel) *)
  next_id : nat;                      (* m.currentUniqueID *)
  nsub : nat;                         (* subscriber channels made so far (they are numbered 0 .. nsub-1) *)
  sub_closed : list nat;              (* closed subscriber channels *)
  src_closed : list nat;              (* source channels closed by their owner *)
  src_box : list (nat * nat);         (* source channel -> message being handed over *)
  ready : list nat;                   (* subscriber channels with a parked receiver *)
  inbox : list (nat * nat)            (* deliveries (subscriber channel, message), newest first *)
}.

Definition d0 : data := mkD [] [] 0 0 [] [] [] [] [].

Definition set_topics d v := mkD v (subs d) (next_id d) (nsub d) (sub_closed d) (src_closed d) (src_box d) (ready d) (inbox d).
Definition set_subs d v := mkD (topics d) v (next_id d) (nsub d) (sub_closed d) (src_closed d) (src_box d) (ready d) (inbox d).
Definition set_sub_closed d v := mkD (topics d) (subs d) (next_id d) (nsub d) v (src_closed d) (src_box d) (ready d) (inbox d).
Definition set_src_closed d v := mkD (topics d) (subs d) (next_id d) (nsub d) (sub_closed d) v (src_box d) (ready d) (inbox d).
Definition set_src_box d v := mkD (topics d) (subs d) (next_id d) (nsub d) (sub_closed d) (src_closed d) v (ready d) (inbox d).
Definition set_ready d v := mkD (topics d) (subs d) (next_id d) (nsub d) (sub_closed d) (src_closed d) (src_box d) v (inbox d).
Definition set_inbox d v := mkD (topics d) (subs d) (next_id d) (nsub d) (sub_closed d) (src_closed d) (src_box d) (ready d) v.

Definition memb (x : nat) (l : list nat) : bool := existsb (Nat.eqb x) l.
Fixpoint lookup (k : nat) (l : list (nat * nat)) : option nat :=
  match l with
  | [] => None
  | (a, b) :: t => if Nat.eqb a k then Some b else lookup k t
  end.
Definition remove_key (k : nat) (l : list (nat * nat)) : list (nat * nat) :=
  filter (fun e => negb (Nat.eqb (fst e) k)) l.
Definition has_topic (d : data) (n : nat) : bool :=
  match lookup n (topics d) with Some _ => true | None => false end.

Definition s_name (t : nat * nat * nat) : nat := fst (fst t).
Definition s_id (t : nat * nat * nat) : nat := snd (fst t).
Definition s_chan (t : nat * nat * nat) : nat := snd t.
Definition chans_of (n : nat) (l : list (nat * nat * nat)) : list nat :=
  map s_chan (filter (fun t => Nat.eqb (s_name t) n) l).
Definition drop_name (n : nat) (l : list (nat * nat * nat)) : list (nat * nat * nat) :=
  filter (fun t => negb (Nat.eqb (s_name t) n)) l.
Definition drop_sub (n id : nat) (l : list (nat * nat * nat)) : list (nat * nat * nat) :=
  filter (fun t => negb (Nat.eqb (s_name t) n && Nat.eqb (s_id t) id)) l.

(* ---------------------------------------------------------------- program counters *)
Inductive pc :=
(* AddTopic(name, src) *)
| AT_rl (n src : nat) | AT_rd (n src : nat) | AT_ru (n src : nat) (ok : bool)
| AT_wl (n src : nat) | AT_wr (n src : nat) | AT_wu (n src : nat) | AT_go (n src : nat)
(* RemoveTopic(name) *)
| RT_wl (n : nat) | RT_del (n : nat) | RT_wu (n : nat)
(* Topics() *)
| TO_rl | TO_rd | TO_ru
(* Subscribe(name) *)
| SU_rl (n : nat) | SU_rd (n : nat) | SU_ru (n : nat) (ok : bool)
| SU_wl (n : nat) | SU_ins (n : nat) | SU_wu (n : nat)
(* the unsubscribe closure returned by Subscribe *)
| US_wl (n id : nat) | US_del (n id : nat) | US_wu (n id : nat)
(* go publishTopic(name, src) *)
| PT_recv (n src : nat)
| PT_cl_wl (n : nat) | PT_cl_take (n : nat) | PT_cl_loop (n : nat) (rest : list nat)       (* closeAllSubscribers *)
| PT_del_wl (n : nat) | PT_del (n : nat) | PT_del_wu (n : nat)
| PT_pub_rl (n src msg : nat) | PT_pub_take (n src msg : nat) | PT_pub_loop (n src msg : nat) (rest : list nat)
| Done.

Definition always : data -> bool := fun _ => true.
Definition ret (d : data) (k : pc) : data * pc * list pc * option perr := (d, k, [], None).

Definition code (p : pc) : instr pc data mx perr :=
  match p with
  (* AddTopic: check under the read lock, store under the write lock (two critical sections), start the publisher *)
  | AT_rl n src => Acq TMux MR (AT_rd n src)
  | AT_rd n src => Act always (fun d => ret d (AT_ru n src (has_topic d n)))
  | AT_ru n src ok => Rel TMux MR (if ok then Done (* "topic already registered" *) else AT_wl n src)
  | AT_wl n src => Acq TMux MW (AT_wr n src)
  | AT_wr n src => Act always (fun d => ret (set_topics d ((n, src) :: remove_key n (topics d))) (AT_wu n src))
  | AT_wu n src => Rel TMux MW (AT_go n src)
  | AT_go n src => Act always (fun d => (d, Done, [PT_recv n src], None))
  (* RemoveTopic *)
  | RT_wl n => Acq TMux MW (RT_del n)
  | RT_del n => Act always (fun d => ret (set_topics d (remove_key n (topics d))) (RT_wu n))
  | RT_wu n => Rel TMux MW Done
  (* Topics *)
  | TO_rl => Acq TMux MR TO_rd
  | TO_rd => Act always (fun d => ret d TO_ru)
  | TO_ru => Rel TMux MR Done
  (* Subscribe *)
  | SU_rl n => Acq TMux MR (SU_rd n)
  | SU_rd n => Act always (fun d => ret d (SU_ru n (has_topic d n)))
  | SU_ru n ok => Rel TMux MR (if ok then SU_wl n else Done (* "topic not found" *))
  | SU_wl n => Acq SMux MW (SU_ins n)
  | SU_ins n => Act always (fun d =>
      let id := S (next_id d) in
      ret (mkD (topics d) (subs d ++ [(n, id, nsub d)]) id (S (nsub d)) (sub_closed d)
               (src_closed d) (src_box d) (ready d) (inbox d)) (SU_wu n))
  | SU_wu n => Rel SMux MW Done
  (* unsubscribe: delete(m.subscribers[name], id); the channel is NOT closed *)
  | US_wl n id => Acq SMux MW (US_del n id)
  | US_del n id => Act always (fun d => ret (set_subs d (drop_sub n id (subs d))) (US_wu n id))
  | US_wu n id => Rel SMux MW Done
  (* publishTopic: msg, ok := <-src *)
  | PT_recv n src =>
      Act (fun d => match lookup src (src_box d) with Some _ => true | None => memb src (src_closed d) end)
          (fun d => match lookup src (src_box d) with
                    | Some msg => ret (set_src_box d (remove_key src (src_box d))) (PT_pub_rl n src msg)
                    | None => ret d (PT_cl_wl n)
                    end)
  (* closeAllSubscribers(name) *)
  | PT_cl_wl n => Acq SMux MW (PT_cl_take n)
  | PT_cl_take n => Act always (fun d => ret (set_subs d (drop_name n (subs d))) (PT_cl_loop n (chans_of n (subs d))))
  | PT_cl_loop n (c :: rest) => Act always (fun d =>
      if memb c (sub_closed d) then (d, PT_cl_loop n (c :: rest), [], Some (DoubleClose c))
      else ret (set_sub_closed d (c :: sub_closed d)) (PT_cl_loop n rest))
  | PT_cl_loop n [] => Rel SMux MW (PT_del_wl n)
  | PT_del_wl n => Acq TMux MW (PT_del n)
  | PT_del n => Act always (fun d => ret (set_topics d (remove_key n (topics d))) (PT_del_wu n))
  | PT_del_wu n => Rel TMux MW Done
  (* publishAllSubscribers(name, msg) *)
  | PT_pub_rl n src msg => Acq SMux MR (PT_pub_take n src msg)
  | PT_pub_take n src msg => Act always (fun d => ret d (PT_pub_loop n src msg (chans_of n (subs d))))
  | PT_pub_loop n src msg (c :: rest) => Act always (fun d =>
      if memb c (sub_closed d) then (d, PT_pub_loop n src msg (c :: rest), [], Some (SendOnClosed c))
      else ret (if memb c (ready d) then set_inbox d ((c, msg) :: inbox d) else d) (PT_pub_loop n src msg rest))
  | PT_pub_loop n src msg [] => Rel SMux MR (PT_recv n src)
  | Done => Halt
  end.

(* which lock a goroutine at pc holds *)
Definition holds (p : pc) (m : mx) : option mode :=
  match p, m with
  | AT_rd _ _, TMux | AT_ru _ _ _, TMux | TO_rd, TMux | TO_ru, TMux | SU_rd _, TMux | SU_ru _ _, TMux => Some MR
  | AT_wr _ _, TMux | AT_wu _ _, TMux | RT_del _, TMux | RT_wu _, TMux | PT_del _, TMux | PT_del_wu _, TMux => Some MW
  | SU_ins _, SMux | SU_wu _, SMux | US_del _ _, SMux | US_wu _ _, SMux
  | PT_cl_take _, SMux | PT_cl_loop _ _, SMux => Some MW
  | PT_pub_take _ _ _, SMux | PT_pub_loop _ _ _ _, SMux => Some MR
  | _, _ => None
  end.

(* goroutines entering from outside: any call of the EventBus interface, any unsubscribe closure *)
Inductive client : pc -> Prop :=
| cl_add n src : client (AT_rl n src)
| cl_remove n : client (RT_wl n)
| cl_topics : client TO_rl
| cl_subscribe n : client (SU_rl n)
| cl_unsubscribe n id : client (US_wl n id).

(* the environment: the owner of a source channel sends on it only while it is open and closes it at most once
   (never while a send is in flight); receivers on subscriber channels come and go *)
Definition env_send (d : data) (src msg : nat) : option data :=
  if memb src (src_closed d) then None
  else match lookup src (src_box d) with
       | Some _ => None
       | None => Some (set_src_box d ((src, msg) :: src_box d))
       end.
Definition env_close (d : data) (src : nat) : option data :=
  if memb src (src_closed d) then None
  else match lookup src (src_box d) with
       | Some _ => None
       | None => Some (set_src_closed d (src :: src_closed d))
       end.
Definition env_listen (d : data) (c : nat) (on : bool) : data :=
  set_ready d (if on then c :: ready d else filter (fun x => negb (Nat.eqb x c)) (ready d)).

Inductive env : data -> data -> Prop :=
| e_send d src msg d' : env_send d src msg = Some d' -> env d d'
| e_close d src d' : env_close d src = Some d' -> env d d'
| e_listen d c on : env d (env_listen d c on).

Definition pstate := state pc data mx perr.
Definition ps_tstep := tstep pc data mx perr mx_eqb code BadUnlock.
Definition ps_step := step pc data mx perr mx_eqb code BadUnlock env client.
Definition ps_init : pstate := mkSt d0 (fun _ => rw0) [] None.
Definition ps_reach := reach pc data mx perr mx_eqb code BadUnlock env client ps_init.
Definition ps_waits_for := waits_for pc data mx perr code.

(* ---------------------------------------------------------------- sequential histories (driver `pubsub`) *)
Inductive op :=
| OAddTopic (n src : nat)
| ORemoveTopic (n : nat)
| OSubscribe (n : nat)
| OUnsub (n id : nat)
| OSend (src msg : nat)
| OClose (src : nat)
| OListen (c : nat) (on : bool)
| OTopics.

Definition ps_quiesce (s : pstate) : pstate := quiesce pc data mx perr mx_eqb code BadUnlock 4 64 s.
Definition spawn (s : pstate) (p : pc) : pstate := mkSt (dat s) (mux s) (thr s ++ [p]) (err s).
Definition with_dat (s : pstate) (d : data) : pstate := mkSt d (mux s) (thr s) (err s).

(* result of an op: 0 = ok, 1 = error return, 2 = the environment precondition does not hold (driver must not generate it) *)
Definition apply_op (s : pstate) (o : op) : pstate * nat :=
  match o with
  | OAddTopic n src => (ps_quiesce (spawn s (AT_rl n src)), if has_topic (dat s) n then 1 else 0)
  | ORemoveTopic n => (ps_quiesce (spawn s (RT_wl n)), 0)
  | OSubscribe n => (ps_quiesce (spawn s (SU_rl n)), if has_topic (dat s) n then 0 else 1)
  | OUnsub n id => (ps_quiesce (spawn s (US_wl n id)), 0)
  | OSend src msg => match env_send (dat s) src msg with
                     | Some d => (ps_quiesce (with_dat s d), 0)
                     | None => (s, 2)
                     end
  | OClose src => match env_close (dat s) src with
                  | Some d => (ps_quiesce (with_dat s d), 0)
                  | None => (s, 2)
                  end
  | OListen c on => (with_dat s (env_listen (dat s) c on), 0)
  | OTopics => (ps_quiesce (spawn s TO_rl), 0)
  end.

(* observation after an op: result code, registered topic names (sorted by the checker), per subscriber channel
   (closed?, messages received oldest first), crashed? *)
Record snap := mkSnap {
  sn_res : nat;
  sn_topics : list nat;
  sn_chans : list (bool * list nat);
  sn_crashed : bool
}.

Definition msgs_of (c : nat) (l : list (nat * nat)) : list nat :=
  rev (map snd (filter (fun e => Nat.eqb (fst e) c) l)).

Definition observe (s : pstate) (res : nat) : snap :=
  mkSnap res (map fst (topics (dat s)))
         (map (fun c => (memb c (sub_closed (dat s)), msgs_of c (inbox (dat s)))) (seq 0 (nsub (dat s))))
         (match err s with Some _ => true | None => false end).

Fixpoint run_ops (s : pstate) (l : list op) : list snap :=
  match l with
  | [] => []
  | o :: r => let '(s', res) := apply_op s o in observe s' res :: run_ops s' r
  end.
