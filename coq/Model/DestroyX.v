(* DestroyX.v — extension of Model/Destroy.v (C15), add-only: Destroy.v is shared with C01 and stays as it is.

   Part 1: writes of OTHER MODULES inside the StateDB life of one transaction.
     The custom precompiled contracts of x/cpc (ERC-20: transfer / transferFrom / burn / burnFrom; staking: delegate)
     take the StateDB's current context (GetCurrentContext) and change x/bank and x/auth through the keepers,
     behind the back of the StateDB: no StateDB method runs, nothing is added to the touched set.  They are
     operations of their own here ([xop]); a transaction is any interleaving of StateDB operations and such writes.
       x/cpc/keeper/precompiles_erc20.go   transfer(): bankKeeper.SendCoins(from, to, coins)   (amount <> 0, from <> to)
                                           burn:       SendCoinsFromAccountToModule(from, cpc) + BurnCoins(cpc)
       x/cpc/keeper/precompiles_staking.go delegate(): staking msg server Delegate -> bank DelegateCoinsFromAccountToModule
       cosmos-sdk v0.50.10 x/bank          SendCoins = subUnlockedCoins + addCoins + "create account if recipient does not
                                           exist"; DelegateCoins = balance check, setBalance, trackDelegation, addCoins
       cosmos-sdk x/auth/vesting           BaseVestingAccount.TrackDelegation
     An error returned by the keeper makes the precompile return an error: the interpreter reverts the call frame
     (a RevertToSnapshot of the recorded trace), nothing was written: [FRefused].  A Go panic (sdkmath overflow,
     negative coin) is [FPanic] = the transaction fails as a whole.

   Part 2: the raw key-value store of x/evm under the per-address maps [w_code] / [w_stor].
       x/evm/types/key.go       prefixStorage = 2, prefixCodeHash = 4; StateKey = 2 ++ address(20) ++ slot(32)
       x/evm/keeper/statedb.go  ForEachStorage = KVStorePrefixIterator(store, 2 ++ address); DeleteCodeHash;
                                SetState(addr, key, nil) = delete
       cosmossdk.io/store/types PrefixEndBytes (increment WITH carry; nil = no upper bound when every byte is 0xff)
       x/evm/vm/state_db.go     DestroyAccount: DeleteCodeHash; ForEachStorage(addr, SetState(addr, key, nil))

   Executable Gallina only; theorems are in Proofs/DestroyXProofs.v and Properties/C15.v. *)
From Coq Require Import ZArith List Bool.
From Evm Require Import Destroy.
Import ListNotations.
Open Scope Z_scope.

(* ================================================================== part 1: foreign writes *)

Inductive fres := FDone (w : world) | FRefused | FPanic.

(* bank addCoins, then SendCoins' "create account if recipient does not exist" (no blocked-address check: that one
   lives in the bank message server and in SendCoinsFromModuleToAccount, not in SendCoins) *)
Definition credit (w : world) (a : addr) (d : denom) (v : Z) : world :=
  ensure_account (mkWorld (w_acc w) (upd (w_bal w) a (set_amt (w_bal w a) d (amt (w_bal w a) d + v))) (w_code w) (w_stor w) (w_next w)) a.

(* bank SendCoins(from, to, [v d]).  sdk.NewCoin panics on a negative amount; sdk.NewCoins drops a zero coin and
   SendCoins of no coins moves nothing but still creates the recipient account; subUnlockedCoins returns an
   error (before anything is written) when the spendable balance is too small. *)
Definition send_world (e : env) (w : world) (from to : addr) (d : denom) (v : Z) : fres :=
  if v <? 0 then FPanic
  else if v =? 0 then FDone (ensure_account w to)
  else match bank_sub e w from d v with
       | Panic => FRefused
       | Ok w1 => if MAX256 <? amt (w_bal w1 to) d + v then FPanic else FDone (credit w1 to d v)
       end.

(* ERC-20 burn: SendCoinsFromAccountToModule(from, cpc, coins) + BurnCoins(cpc, coins): the coins leave [from] (locked
   coins enforced), the cpc module account (it exists: the precompile addresses are derived from its sequence) ends
   with what it had. *)
Definition burn_world (e : env) (w : world) (from : addr) (d : denom) (v : Z) : fres :=
  if v <? 0 then FPanic
  else if v =? 0 then FDone w
  else match bank_sub e w from d v with
       | Panic => FRefused
       | Ok w1 => FDone w1
       end.

(* BaseVestingAccount.TrackDelegation for one coin: X := min(max(V - DV, 0), D); DelegatedVesting += X
   (DelegatedFree += D - X is not part of the model's schedule: LockedCoins does not read it).
   A raw BaseVestingAccount is not a bank VestingAccount: nothing is tracked. *)
Definition track_delegation (sc : sched) (t : Z) (d : denom) (v : Z) : sched :=
  match s_kind sc with
  | VRaw => sc
  | _ =>
      let dv := amt (s_delv sc) d in
      let x := Z.min (Z.max (vesting_amt sc t d - dv) 0) v in
      if x =? 0 then sc
      else mkSched (s_kind sc) (s_start sc) (s_end sc) (s_orig sc) (set_amt (s_delv sc) d (dv + x)) (s_periods sc)
  end.

(* bank DelegateCoinsFromAccountToModule(a, pool, [v d]) as the staking keeper calls it: the module account must
   exist, the balance (locked or not) must cover the amount, the delegator must have an account (trackDelegation) *)
Definition delegate_world (e : env) (w : world) (a pool : addr) (d : denom) (v : Z) : fres :=
  if v <=? 0 then FRefused
  else match w_acc w pool, w_acc w a with
       | None, _ => FRefused
       | _, None => FRefused
       | Some _, Some ac =>
           let b := amt (w_bal w a) d in
           if b <? v then FRefused
           else
             let ac' := match a_kind ac with
                        | Vesting sc => mkAcc (Vesting (track_delegation sc (e_now e) d v)) (a_nonce ac) (a_num ac)
                        | _ => ac
                        end in
             let w1 := mkWorld (upd (w_acc w) a (Some ac')) (upd (w_bal w) a (set_amt (w_bal w a) d (b - v))) (w_code w) (w_stor w) (w_next w) in
             let bp := amt (w_bal w1 pool) d in
             if MAX256 <? bp + v then FPanic
             else FDone (mkWorld (w_acc w1) (upd (w_bal w1) pool (set_amt (w_bal w1 pool) d (bp + v))) (w_code w1) (w_stor w1) (w_next w1))
       end.

(* [ok] = what the implementation did (true: the write went through; false: the keeper refused).  The model decides
   by itself; [xagree] compares. *)
Inductive xop :=
| XOp (o : op)
| XSend (from to : addr) (d : denom) (v : Z) (ok : bool)
| XBurn (from : addr) (d : denom) (v : Z) (ok : bool)
| XDelegate (a pool : addr) (d : denom) (v : Z) (ok : bool).

Definition foreign (e : env) (w : world) (x : xop) : fres :=
  match x with
  | XOp _ => FDone w
  | XSend from to d v _ => send_world e w from to d v
  | XBurn from d v _ => burn_world e w from d v
  | XDelegate a pool d v _ => delegate_world e w a pool d v
  end.

(* a foreign write changes the world of the current frame and NOTHING else: not touched, not self-destructed *)
Definition xfstep (e : env) (f : frame) (x : xop) : res frame :=
  match x with
  | XOp o => fstep e f o
  | _ => match foreign e (f_w f) x with
         | FDone w => Ok (with_w f w)
         | FRefused => Ok f
         | FPanic => Panic
         end
  end.

Definition xstep (e : env) (s : sdb) (x : xop) : res sdb :=
  match x with
  | XOp o => step e s o
  | _ => match xfstep e (cur s) x with
         | Ok f => Ok (mkSdb f (snaps s))
         | Panic => Panic
         end
  end.

Fixpoint run_xops (e : env) (s : sdb) (l : list xop) : res sdb :=
  match l with
  | [] => Ok s
  | x :: r => bind (xstep e s x) (fun s' => run_xops e s' r)
  end.

Definition xflag (x : xop) : option bool :=
  match x with
  | XOp _ => None
  | XSend _ _ _ _ ok | XBurn _ _ _ ok | XDelegate _ _ _ _ ok => Some ok
  end.

Definition xagree_step (e : env) (f : frame) (x : xop) : bool :=
  match xflag x with
  | None => true
  | Some ok => match foreign e (f_w f) x with
               | FDone _ => ok
               | FRefused => negb ok
               | FPanic => true
               end
  end.

(* the model's verdict on every foreign write of a trace agrees with the recorded one *)
Fixpoint xagree (e : env) (s : sdb) (l : list xop) : bool :=
  match l with
  | [] => true
  | x :: r => xagree_step e (cur s) x &&
              match xstep e s x with
              | Ok s' => xagree e s' r
              | Panic => true
              end
  end.

Definition xevm_step_ok (f : frame) (x : xop) : bool :=
  match x with
  | XOp o => evm_step_ok f o
  | _ => true
  end.

Fixpoint xevm_trace (e : env) (s : sdb) (l : list xop) : bool :=
  match l with
  | [] => true
  | x :: r => xevm_step_ok (cur s) x &&
              match xstep e s x with
              | Ok s' => xevm_trace e s' r
              | Panic => true
              end
  end.

(* the whole transaction: operations of the StateDB and of other modules in any interleaving, then the commit, which
   reads the world AS IT IS THEN *)
Definition run_xtx (e : env) (w : world) (l : list xop) : txres :=
  match run_xops e (init_sdb w) l with
  | Panic => TxFailed
  | Ok s => match commit e (cur s) with
            | Panic => TxFailed
            | Ok (w', b) => TxOk w' b
            end
  end.

(* the addresses the commit loop destroys, in loop order (meaningful when the loop does not panic) *)
Fixpoint destroyed_loop (e : env) (sd : list addr) (w : world) (l : list addr) : list addr :=
  match l with
  | [] => []
  | a :: r =>
      if mem a sd || is_empty w a then
        match destroy e w a with
        | Ok w' => a :: destroyed_loop e sd w' r
        | Panic => []
        end
      else destroyed_loop e sd w r
  end.

Definition destroyed_at_commit (e : env) (f : frame) : list addr :=
  destroyed_loop e (f_sd f) (f_w f) (sort_addrs (f_touched f)).

(* ================================================================== part 2: the raw store *)

Definition bytes := list Z.

Definition byte_ok (b : Z) : Prop := 0 <= b < 256.
Definition byte_okb (b : Z) : bool := (0 <=? b) && (b <? 256).

(* bytes.Compare(a, b) < 0 *)
Fixpoint lex_lt (a b : bytes) : bool :=
  match a, b with
  | _, [] => false
  | [], _ :: _ => true
  | x :: a', y :: b' => (x <? y) || ((x =? y) && lex_lt a' b')
  end.

Fixpoint has_prefix (p k : bytes) : bool :=
  match p, k with
  | [], _ => true
  | _ :: _, [] => false
  | x :: p', y :: k' => (x =? y) && has_prefix p' k'
  end.

Fixpoint bytes_eqb (a b : bytes) : bool :=
  match a, b with
  | [], [] => true
  | x :: a', y :: b' => (x =? y) && bytes_eqb a' b'
  | _, _ => false
  end.

(* storetypes.PrefixEndBytes: copy the prefix; from the last byte backwards: a byte below 0xff is incremented and
   everything after it cut off; a 0xff byte is cut off and the carry goes on; nothing left = nil = no upper bound *)
Fixpoint prefix_end (p : bytes) : option bytes :=
  match p with
  | [] => None
  | x :: r => match prefix_end r with
              | Some e => Some (x :: e)
              | None => if x <? 255 then Some [x + 1] else None
              end
  end.

(* Iterator(start, end): start <= key < end *)
Definition in_range (start : bytes) (end_ : option bytes) (k : bytes) : bool :=
  negb (lex_lt k start) && match end_ with None => true | Some e => lex_lt k e end.

Definition raw := list (bytes * Z).    (* key, value (storage: the 32-byte value as a number; code hash: id of the code) *)

(* KVStorePrefixIterator(store, p) *)
Definition iter_prefix (r : raw) (p : bytes) : raw :=
  filter (fun kv => in_range p (prefix_end p) (fst kv)) r.

Definition raw_delete (r : raw) (k : bytes) : raw := filter (fun kv => negb (bytes_eqb (fst kv) k)) r.

Fixpoint raw_get (r : raw) (k : bytes) : option Z :=
  match r with
  | [] => None
  | (k', v) :: t => if bytes_eqb k' k then Some v else raw_get t k
  end.

(* big-endian, fixed width (shift and mask: z / 256 and z mod 256, see DestroyXProofs.be_bytes_step) *)
Fixpoint be_bytes (n : nat) (z : Z) : bytes :=
  match n with
  | O => []
  | S m => be_bytes m (Z.shiftr z 8) ++ [Z.land z 255]
  end.

Definition be_val (b : bytes) : Z := fold_left (fun acc x => acc * 256 + x) b 0.

Definition PFX_STORAGE : Z := 2.
Definition PFX_CODEHASH : Z := 4.

Definition stor_prefix (a : addr) : bytes := PFX_STORAGE :: be_bytes 20 a.       (* AddressStoragePrefix *)
Definition codehash_key (a : addr) : bytes := PFX_CODEHASH :: be_bytes 20 a.

(* common.BytesToHash(iterator.Key()): the iterator runs over the un-prefixed store, the key is the full key,
   BytesToHash keeps its LAST 32 bytes *)
Definition slot_of (k : bytes) : bytes := skipn (length k - 32) k.

(* ForEachStorage(a) as (slot, value) pairs in iteration order *)
Definition abs_stor (r : raw) (a : addr) : storage :=
  map (fun kv => (be_val (slot_of (fst kv)), snd kv)) (iter_prefix r (stor_prefix a)).

Definition abs_code (r : raw) (a : addr) : Z :=
  match raw_get r (codehash_key a) with Some v => v | None => 0 end.

(* the x/evm part of DestroyAccount: DeleteCodeHash(a); ForEachStorage(a, fun key => SetState(a, key, nil)) where
   SetState deletes StateKey(a, key) = 2 ++ a ++ key *)
Definition raw_wipe (r : raw) (a : addr) : raw :=
  fold_left (fun r' kv => raw_delete r' (stor_prefix a ++ slot_of (fst kv)))
            (iter_prefix r (stor_prefix a))
            (raw_delete r (codehash_key a)).

(* keys of the two prefixes have their fixed lengths, bytes are bytes, a stored code hash is never "no code" *)
Definition wf_entry (kv : bytes * Z) : bool :=
  forallb byte_okb (fst kv) &&
  match fst kv with
  | p :: _ => if p =? PFX_STORAGE then Nat.eqb (length (fst kv)) 53
              else if p =? PFX_CODEHASH then Nat.eqb (length (fst kv)) 21 && negb (snd kv =? 0)
              else true
  | [] => true
  end.

Definition wf_raw (r : raw) : bool := forallb wf_entry r.

Definition addr_ok (a : addr) : Prop := 0 <= a < 2 ^ 160.

(* the variant of the seeded defect: the end bound is the prefix with its last byte incremented, no carry
   (an address ending in 0xff gives an end bound below the start: the range is empty) *)
Fixpoint prefix_end_nocarry (p : bytes) : bytes :=
  match p with
  | [] => []
  | [x] => [(x + 1) mod 256]
  | x :: r => x :: prefix_end_nocarry r
  end.

Fixpoint stor_get (s : storage) (k : Z) : option Z :=
  match s with
  | [] => None
  | (k', v) :: r => if k' =? k then Some v else stor_get r k
  end.

(* the seeded iteration: Iterator(prefix, prefix with its last byte incremented) *)
Definition iter_nocarry (r : raw) (p : bytes) : raw :=
  filter (fun kv => in_range p (Some (prefix_end_nocarry p)) (fst kv)) r.
