(* The envelope of a transaction AS IT IS ON THE WIRE, and its abstraction to Lane.shape (C07).

   Lane.shape records, for the value-carrying envelope fields, only what the decorators of app/antedl look at:
   whether the field is set (its value differs from the proto3 default) and, for the two fields the Cosmos SDK's
   decorators bound, on which side of the bound the value lies.  This file states that reading explicitly, as a
   total function from the wire values - the whole type of each field: any uint64 timeout height, any byte string
   as memo / payer / granter / signature, any coin list - to the shape, so that the theorems about shapes become
   theorems about values, and the correspondence checker recomputes the shape of every generated transaction from
   the values the harness encoded (Corr/CorrLane.v, case CTxW).  Executable Gallina only. *)
From Evm Require Export Lane.
Open Scope Z_scope.

(* the value-carrying fields *)
Record wvals := {
  v_sigs    : list Z;         (* tx.signatures: the byte length of every entry (an entry may be the empty byte string) *)
  v_infos   : list bool;      (* auth_info.signer_infos: for every entry, whether it carries a public key *)
  v_payer   : Z;              (* auth_info.fee.payer: byte length of the string (0: absent, or present and empty - proto3
                                 decoding cannot tell the two apart) *)
  v_granter : Z;              (* auth_info.fee.granter: likewise *)
  v_memo    : Z;              (* body.memo: byte length (the SDK counts bytes, not characters; any bytes decode) *)
  v_timeout : Z;              (* body.timeout_height, 0 <= . < 2^64 *)
  v_fee     : list (N * Z);   (* auth_info.fee.amount, denomination id 0 = the EVM denomination byte for byte *)
  v_gas     : Z               (* auth_info.fee.gas_limit, 0 <= . < 2^64 *)
}.

Record wire := {
  w_msgs    : list msg;
  w_ext     : list xopt;
  w_noncrit : list xopt;
  w_vals    : wvals
}.

(* x/auth/ante TxTimeoutHeightDecorator: `timeoutHeight > 0 && uint64(ctx.BlockHeight()) > timeoutHeight` is the SDK's
   "passed"; 04_timeout_height.go (Ethereum lane): `TimeoutHeight != 0` *)
Definition tmo_of (height v : Z) : tmo :=
  if v =? 0 then TNone else if v <? height then TPast else TFuture.

(* x/auth/ante ValidateMemoDecorator: `len(memo) > 0 && uint64(len(memo)) > params.MaxMemoCharacters` is the SDK's
   "too large"; 05_memo.go (Ethereum lane): `Memo != ""` *)
Definition memo_of (max_memo len : Z) : memo :=
  if len =? 0 then MemoNone else if len <=? max_memo then MemoShort else MemoLong.

Definition abstract (max_memo height : Z) (w : wire) : shape :=
  let v := w_vals w in
  {| msgs := w_msgs w; ext_opts := w_ext w; noncrit := w_noncrit w;
     n_sigs := length (v_sigs v); n_infos := length (v_infos v);
     payer := negb (v_payer v =? 0); granter := negb (v_granter v =? 0);
     s_memo := memo_of max_memo (v_memo v); s_timeout := tmo_of height (v_timeout v);
     fee := v_fee v; gas_limit := v_gas v |}.

(* what the property demands of the wire values of a transaction that lists an Ethereum message *)
Definition eth_wire_ok (w : wire) (p : ethp) : Prop :=
  let v := w_vals w in
  w_msgs w = [MEth p] /\ v_sigs v = [] /\ v_infos v = [] /\ v_payer v = 0 /\ v_granter v = 0 /\
  v_memo v = 0 /\ v_timeout v = 0 /\
  (w_noncrit w = [] /\ (w_ext w = [] \/ w_ext w = [XEth])) /\
  v_fee v = fee_coins_of (e_fee p) /\ v_gas v = e_gas p.

(* the same transaction seen at two heights has the same shape (used by the correspondence checker for Cosmos-lane
   transactions, which the modes execute at different heights) *)
Definition tmo_eqb (a b : tmo) : bool :=
  match a, b with TNone, TNone | TFuture, TFuture | TPast, TPast => true | _, _ => false end.
Definition memo_eqb (a b : memo) : bool :=
  match a, b with MemoNone, MemoNone | MemoShort, MemoShort | MemoLong, MemoLong => true | _, _ => false end.
