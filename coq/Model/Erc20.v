(* Model of the ERC-20 custom precompiled contract:
     /repo/x/cpc/keeper/precompiles_erc20.go   (executors, spendAllowance, transfer, allowance store)
     /repo/x/cpc/types/keys.go                 (Erc20CustomPrecompiledContractAllowanceKey = prefix|owner|spender)
     go-ethereum core/vm/evm.go Call           (snapshot before a precompile runs, RevertToSnapshot on any error)
     cosmos-sdk x/bank keeper SendCoins / SendCoinsFromAccountToModule / BurnCoins / msgServer.Send
   Executable Gallina only.  The model is of the code AS IT IS: in particular the allowance table is keyed
   by (owner, spender) only - it is shared by every ERC-20 precompile (finding C10/erc20/allowance-shared-across-tokens). *)
From Coq Require Export ZArith List Bool.
Export ListNotations.
Open Scope Z_scope.

Definition MAXU256 : Z := 2 ^ 256 - 1.            (* cpctypes.BigMaxUint256 = "unlimited" allowance *)

(* ABI decoding of one 32-byte calldata word (go-ethereum accounts/abi): uint256 = the word,
   address = the low 20 bytes (dirty high bytes are ignored).  A calldata word is always in [0,2^256). *)
Definition u256 (w : Z) : Z := w mod 2 ^ 256.
Definition addr_of (w : Z) : Z := w mod 2 ^ 160.

(* strings (name, symbol) are opaque identifiers here: the driver encodes them injectively as numbers *)
Record tokmeta := { tk_denom : Z; tk_name : Z; tk_symbol : Z; tk_decimals : Z }.

(* configuration that no ERC-20 call changes *)
Record env := {
  e_token : Z -> option tokmeta;   (* address -> metadata of the ERC-20 precompile registered there *)
  e_blocked : Z -> bool;           (* x/bank blockedAddrs: consulted by MsgSend only, NOT by keeper SendCoins *)
  e_module : Z                     (* address of the cpc module account (burner) *)
}.

Record state := {
  bal : Z -> Z -> Z;       (* x/bank balance: address -> denom -> amount *)
  locked : Z -> Z -> Z;    (* x/bank LockedCoins (vesting): spendable = bal - locked; never written here *)
  supply : Z -> Z;         (* x/bank supply per denom *)
  allow : Z -> Z -> Z      (* cpc store: owner -> spender -> allowance; absent key = 0; NOT per token *)
}.

Definition upd1 (f : Z -> Z) (a v : Z) : Z -> Z := fun x => if x =? a then v else f x.
Definition upd2 (f : Z -> Z -> Z) (a b v : Z) : Z -> Z -> Z :=
  fun x y => if (x =? a) && (y =? b) then v else f x y.

Definition set_bal (s : state) (a d v : Z) : state :=
  {| bal := upd2 (bal s) a d v; locked := locked s; supply := supply s; allow := allow s |}.
Definition set_supply (s : state) (d v : Z) : state :=
  {| bal := bal s; locked := locked s; supply := upd1 (supply s) d v; allow := allow s |}.
Definition set_allow (s : state) (o sp v : Z) : state :=
  {| bal := bal s; locked := locked s; supply := supply s; allow := upd2 (allow s) o sp v |}.

(* ---------------------------------------------------------------- x/bank *)

(* keeper.subUnlockedCoins: fails if locked > balance or spendable < amt; then balance - amt *)
Definition sub_unlocked (s : state) (a d amt : Z) : option state :=
  if bal s a d - locked s a d <? amt then None else Some (set_bal s a d (bal s a d - amt)).

(* keeper.addCoins *)
Definition add_coins (s : state) (a d amt : Z) : state := set_bal s a d (bal s a d + amt).

(* keeper.SendCoins (no send restriction is configured in app/keepers; the blocked-address list is not consulted) *)
Definition send_coins (s : state) (from to d amt : Z) : option state :=
  match sub_unlocked s from d amt with
  | None => None
  | Some s1 => Some (add_coins s1 to d amt)
  end.

(* keeper.BurnCoins from a module account with the Burner permission (app/modules.go: cpc has it) *)
Definition burn_coins (s : state) (m d amt : Z) : option state :=
  match sub_unlocked s m d amt with
  | None => None
  | Some s1 => Some (set_supply s1 d (supply s1 d - amt))
  end.

(* ---------------------------------------------------------------- calls *)

Inductive log :=
| LTransfer (token from to amount : Z)       (* topic0 = Transfer(address,address,uint256) *)
| LApproval (token owner spender amount : Z).

Inductive ret := RNone | RBool (b : bool) | RUint (z : Z) | RStr (id : Z).

Inductive out :=
| OOk (r : ret) (logs : list log)
| OErr                                        (* the call frame failed (any vm error) *)
| ONotToken.                                  (* target is not an ERC-20 precompile: outside this model *)

(* arguments are raw calldata words *)
Inductive call :=
| Name | Symbol | Decimals | TotalSupply
| BalanceOf (w : Z)
| Allowance (wo ws : Z)
| Transfer (wto wamt : Z)
| TransferFrom (wfrom wto wamt : Z)
| Approve (wsp wamt : Z)
| Burn (wamt : Z)
| BurnFrom (wfrom wamt : Z)
| Malformed.                                  (* known selector, arguments do not ABI-decode *)

Definition xres : Type := (state * out)%type.

(* erc20CustomPrecompiledContractRwTransferFrom.spendAllowance *)
Definition spend_allowance (s : state) (owner spender amount : Z) : option state :=
  let cur := allow s owner spender in
  if cur =? MAXU256 then Some s
  else if cur <? amount then None
  else Some (set_allow s owner spender (cur - amount)).

(* erc20CustomPrecompiledContractRwTransferFrom.transfer; [s0] is what the state is on entry, partial writes stay
   in the returned state when the method fails (the EVM frame reverts them, see evm_call) *)
Definition do_transfer (e : env) (s : state) (tok : Z) (tm : tokmeta) (from to amount : Z) : xres :=
  let d := tk_denom tm in
  if bal s from d <? amount then (s, OErr)
  else
    let okres (s' : state) := (s', OOk (RBool true) [LTransfer tok from to amount]) in
    if negb (amount =? 0) && negb (from =? to) then
      if to =? 0 then
        (* burn: SendCoinsFromAccountToModule(from, cpc) then BurnCoins(cpc) *)
        match send_coins s from (e_module e) d amount with
        | None => (s, OErr)
        | Some s1 =>
            match burn_coins s1 (e_module e) d amount with
            | None => (s1, OErr)
            | Some s2 => okres s2
            end
        end
      else
        match send_coins s from to d amount with
        | None => (s, OErr)
        | Some s1 => okres s1
        end
    else okres s.

(* Execute of each method executor: (state after the writes done so far, outcome) *)
Definition exec_method (e : env) (s : state) (caller tok : Z) (tm : tokmeta) (c : call) : xres :=
  match c with
  | Name => (s, OOk (RStr (tk_name tm)) [])
  | Symbol => (s, OOk (RStr (tk_symbol tm)) [])
  | Decimals => (s, OOk (RUint (tk_decimals tm)) [])
  | TotalSupply => (s, OOk (RUint (supply s (tk_denom tm))) [])
  | BalanceOf w => (s, OOk (RUint (bal s (addr_of w) (tk_denom tm))) [])
  | Allowance wo ws => (s, OOk (RUint (allow s (addr_of wo) (addr_of ws))) [])
  | Transfer wto wamt =>
      let from := caller in let to := addr_of wto in
      if from =? 0 then (s, OErr) else if to =? 0 then (s, OErr)
      else do_transfer e s tok tm from to (u256 wamt)
  | TransferFrom wfrom wto wamt =>
      let from := addr_of wfrom in let to := addr_of wto in let amount := u256 wamt in
      if from =? 0 then (s, OErr) else if to =? 0 then (s, OErr)
      else if from =? caller then do_transfer e s tok tm from to amount
      else match spend_allowance s from caller amount with
           | None => (s, OErr)
           | Some s1 => do_transfer e s1 tok tm from to amount
           end
  | Approve wsp wamt =>
      let owner := caller in let spender := addr_of wsp in let value := u256 wamt in
      if owner =? 0 then (s, OErr) else if spender =? 0 then (s, OErr)
      else (set_allow s owner spender value, OOk (RBool true) [LApproval tok owner spender value])
  | Burn wamt =>
      let from := caller in
      if from =? 0 then (s, OErr) else do_transfer e s tok tm from 0 (u256 wamt)
  | BurnFrom wfrom wamt =>
      let from := addr_of wfrom in let amount := u256 wamt in
      if from =? 0 then (s, OErr)
      else if from =? caller then do_transfer e s tok tm from 0 amount
      else match spend_allowance s from caller amount with
           | None => (s, OErr)
           | Some s1 => do_transfer e s1 tok tm from 0 amount
           end
  | Malformed => (s, OErr)
  end.

(* core/vm/evm.go Call on a precompile address: snapshot := StateDB.Snapshot(); run; on ANY error
   StateDB.RevertToSnapshot(snapshot) - the context-based StateDB restores every module's store. *)
Definition evm_call (e : env) (s : state) (caller tok : Z) (c : call) : xres :=
  match e_token e tok with
  | None => (s, ONotToken)
  | Some tm =>
      let '(s', o) := exec_method e s caller tok tm c in
      match o with
      | OOk _ _ => (s', o)
      | _ => (s, OErr)
      end
  end.

(* ---------------------------------------------------------------- operations of a history *)

Inductive op :=
| Call (caller tok : Z) (c : call)            (* EVM call frame into an ERC-20 precompile, msg.value = 0 *)
| BankSend (from to d amt : Z)                (* native x/bank MsgSend{from,to,[amt d]} *)
| EnvSupply (d delta : Z).                    (* other modules mint (+) / burn (-) coins of denom d on accounts that are not
                                                 part of the history (inflation, fee handling): only the supply is visible *)

(* x/bank msgServer.Send: coins must be valid and positive; recipient must not be blocked; SendCoins.
   (send-enabled is the default for every denom and is not modelled) *)
Definition bank_send (e : env) (s : state) (from to d amt : Z) : xres :=
  if amt <=? 0 then (s, OErr)
  else if e_blocked e to then (s, OErr)
  else match send_coins s from to d amt with
       | None => (s, OErr)
       | Some s1 => (s1, OOk RNone [])
       end.

Definition step (e : env) (s : state) (o : op) : xres :=
  match o with
  | Call caller tok c => evm_call e s caller tok c
  | BankSend from to d amt => bank_send e s from to d amt
  | EnvSupply d delta => (set_supply s d (supply s d + delta), OOk RNone [])
  end.

(* the whole history: final state and the trace of (operation, outcome) *)
Fixpoint run (e : env) (s : state) (ops : list op) : state * list (op * out) :=
  match ops with
  | [] => (s, [])
  | o :: r =>
      let '(s1, x) := step e s o in
      let '(s2, t) := run e s1 r in
      (s2, (o, x) :: t)
  end.

(* ---------------------------------------------------------------- vocabulary of the property text *)

(* the (from, to, amount) a transfer-like call states; to = 0 means "destroy" *)
Definition moves (caller : Z) (c : call) : option (Z * Z * Z) :=
  match c with
  | Transfer wto wamt => Some (caller, addr_of wto, u256 wamt)
  | TransferFrom wfrom wto wamt => Some (addr_of wfrom, addr_of wto, u256 wamt)
  | Burn wamt => Some (caller, 0, u256 wamt)
  | BurnFrom wfrom wamt => Some (addr_of wfrom, 0, u256 wamt)
  | _ => None
  end.

Definition is_ok (o : out) : bool := match o with OOk _ _ => true | _ => false end.

Definition tok_denom (e : env) (tok : Z) : option Z :=
  match e_token e tok with Some tm => Some (tk_denom tm) | None => None end.

(* amount destroyed in denom d by one executed operation *)
Definition burned_by (e : env) (d : Z) (x : op * out) : Z :=
  match x with
  | (Call caller tok c, OOk _ _) =>
      match tok_denom e tok, moves caller c with
      | Some d', Some (_, to, amount) => if (d' =? d) && (to =? 0) then amount else 0
      | _, _ => 0
      end
  | _ => 0
  end.

(* amount of owner's coins that spender (<> owner) moved or burned through token [tok] (any token if tokf says so) *)
Definition spent_by (tokf : Z -> bool) (owner spender : Z) (x : op * out) : Z :=
  match x with
  | (Call caller tok c, OOk _ _) =>
      if (caller =? spender) && tokf tok then
        match c with
        | TransferFrom wfrom _ wamt => if addr_of wfrom =? owner then u256 wamt else 0
        | BurnFrom wfrom wamt => if addr_of wfrom =? owner then u256 wamt else 0
        | _ => 0
        end
      else 0
  | _ => 0
  end.

(* amount owner approved to spender through token [tok] *)
Definition approved_by (tokf : Z -> bool) (owner spender : Z) (x : op * out) : Z :=
  match x with
  | (Call caller tok (Approve wsp wamt), OOk _ _) =>
      if (caller =? owner) && (addr_of wsp =? spender) && tokf tok then u256 wamt else 0
  | _ => 0
  end.

Definition sumZ {A} (f : A -> Z) (l : list A) : Z := fold_right (fun x acc => f x + acc) 0 l.

(* "owner never gives spender an unlimited approval" *)
Definition not_unlimited_approve (owner spender : Z) (o : op) : bool :=
  match o with
  | Call caller _ (Approve wsp wamt) =>
      negb ((caller =? owner) && (addr_of wsp =? spender) && (u256 wamt =? MAXU256))
  | _ => true
  end.

(* every address an operation names lies in L (used to state conservation over a finite holder list) *)
Definition op_addrs (o : op) : list Z :=
  match o with
  | Call caller _ c =>
      caller :: match c with
                | Transfer wto _ => [addr_of wto]
                | TransferFrom wfrom wto _ => [addr_of wfrom; addr_of wto]
                | BurnFrom wfrom _ => [addr_of wfrom]
                | _ => []
                end
  | BankSend from to _ _ => [from; to]
  | EnvSupply _ _ => []
  end.

(* supply change of denom d made by other modules *)
Definition env_delta (d : Z) (x : op * out) : Z :=
  match x with
  | (EnvSupply d' delta, _) => if d' =? d then delta else 0
  | _ => 0
  end.

(* ---------------------------------------------------------------- contract call trees *)

(* One transaction whose contract code makes SEVERAL ERC-20 calls from nested call frames, some of which fail
   (REVERT / INVALID / out of gas).  A leaf is one call frame into a precompile (evm_call: its own snapshot / revert);
   a node is a contract frame: its children run in order on the state the previous one left, and when the frame
   does not complete ([keep] = false) go-ethereum's RevertToSnapshot puts every module's store back to what it was
   when the frame was entered (x/evm/vm/state_db.go) and the logs emitted below it are dropped.
   Returned: state, logs kept, success mask (bit i = the i-th leaf in program order succeeded and no frame around it
   failed: what the driver's interpreter contract returns), index of the next leaf. *)
Inductive ftree :=
| FLeaf (caller tok : Z) (c : call)
| FNode (keep : bool) (kids : list ftree).

Fixpoint exec_tree (e : env) (t : ftree) (s : state) (i : Z) : state * list log * Z * Z :=
  match t with
  | FLeaf caller tok c =>
      match evm_call e s caller tok c with
      | (s', OOk _ lg) => (s', lg, 2 ^ i, i + 1)
      | (s', _) => (s', [], 0, i + 1)
      end
  | FNode keep kids =>
      let '(s', lg, m, i') :=
        (fix go (l : list ftree) (s : state) (i : Z) : state * list log * Z * Z :=
           match l with
           | [] => (s, [], 0, i)
           | k :: r =>
               let '(s1, l1, m1, i1) := exec_tree e k s i in
               let '(s2, l2, m2, i2) := go r s1 i1 in
               (s2, l1 ++ l2, m1 + m2, i2)
           end) kids s i in
      if keep then (s', lg, m, i') else (s, [], 0, i')
  end.

(* the children loop of a frame, named (convertible with the inner fix of exec_tree) *)
Definition exec_kids (e : env) : list ftree -> state -> Z -> state * list log * Z * Z :=
  fix go (l : list ftree) (s : state) (i : Z) : state * list log * Z * Z :=
    match l with
    | [] => (s, [], 0, i)
    | k :: r =>
        let '(s1, l1, m1, i1) := exec_tree e k s i in
        let '(s2, l2, m2, i2) := go r s1 i1 in
        (s2, l1 ++ l2, m1 + m2, i2)
    end.

(* the calls whose frame and all frames around it completed, in program order *)
Fixpoint survivors (t : ftree) : list op :=
  match t with
  | FLeaf caller tok c => [Call caller tok c]
  | FNode keep kids =>
      if keep then
        (fix go (l : list ftree) : list op := match l with [] => [] | k :: r => survivors k ++ go r end) kids
      else []
  end.

Definition survivors_kids : list ftree -> list op :=
  fix go (l : list ftree) : list op := match l with [] => [] | k :: r => survivors k ++ go r end.

(* the transaction ends with a VM error when its top frame fails *)
Definition tree_keep (t : ftree) : bool := match t with FNode false _ => false | _ => true end.

(* histories whose steps are plain operations or such transactions *)
Inductive xop :=
| XOp (o : op)
| XTx (t : ftree).

Definition xstep (e : env) (s : state) (x : xop) : xres :=
  match x with
  | XOp o => step e s o
  | XTx t =>
      let '(s', lg, m, _) := exec_tree e t s 0 in
      if tree_keep t then (s', OOk (RUint m) lg) else (s', OErr)
  end.

Fixpoint xrun (e : env) (s : state) (xs : list xop) : state * list (xop * out) :=
  match xs with
  | [] => (s, [])
  | x :: r =>
      let '(s1, o) := xstep e s x in
      let '(s2, t) := xrun e s1 r in
      (s2, (x, o) :: t)
  end.

(* the plain history a history with contract transactions amounts to *)
Fixpoint flatten (xs : list xop) : list op :=
  match xs with
  | [] => []
  | XOp o :: r => o :: flatten r
  | XTx t :: r => survivors t ++ flatten r
  end.

(* logs of the successful operations of a trace, in order *)
Fixpoint ok_logs (tr : list (op * out)) : list log :=
  match tr with
  | [] => []
  | (_, OOk _ lg) :: r => lg ++ ok_logs r
  | _ :: r => ok_logs r
  end.
