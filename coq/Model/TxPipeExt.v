(* Extension of Model/TxPipe.v (which stays as it is: Model/Total.v builds on it): the receipt fields that do not
   feed back into the state — the created-contract address and the bloom filters.

     x/evm/keeper/msg_server.go EthereumTx:
        if ethTx.To() == nil && !response.Failed() { receipt.ContractAddress = crypto.CreateAddress(sender, ethTx.Nonce()) }
     x/evm/types/events.go GetSdkEventForReceipt: the contractAddr attribute is the hex address, "" for the zero address
     x/evm/keeper/state_transition.go ApplyMessageWithConfig:
        receipt.Logs = stateDB.GetTransactionLogs(); receipt.Bloom = CreateBloom(Receipts{&receipt})
     x/evm/keeper/abci.go EndBlock: bloom := CreateBloom(all transient receipts of the block)
     go-ethereum core/types/bloom9.go: CreateBloom ORs, for every log, bloom9(address) and bloom9(topic) for each topic;
        bloom9 sets three bits taken from keccak256 of the item.

   A log is represented by the list of bit positions (0..2047) go-ethereum derives from it (three per item); keccak is
   not modelled: the harness computes the positions from the observed logs.  The CREATE address function is an oracle
   argument [ca] (crypto.CreateAddress(sender, nonce) computed by the harness); Proofs/TxPipeProofs.v states the
   theorem for an arbitrary function create_addr with [ca = create_addr (t_from t) (t_nonce t)].
   Executable Gallina only. *)
From Evm Require Export TxPipe.
Open Scope Z_scope.

Definition logbits := list Z.

Record rext := mkRext {
  x_contract : option addr;    (* contract address shown by the receipt event, None = not shown *)
  x_bloom : list Z             (* bits set in the receipt's bloom *)
}.

Definition bloom_of_logs (ls : list logbits) : list Z := flat_map (fun l => l) ls.

(* the receipt of a transaction whose result in the pipeline is [r]: only committed executions have one *)
Definition receipt_ext (t : txd) (ca : addr) (ls : list logbits) (r : txres) : option rext :=
  match r_out r with
  | Executed vmerr => Some (mkRext (if t_create t && negb vmerr then Some ca else None) (bloom_of_logs ls))
  | _ => None
  end.

(* EndBlock: the block bloom over the receipts of the block (transactions without a committed execution left an
   assumed-failed receipt without logs in the transient store: they contribute nothing) *)
Definition block_bloom_bits (rs : list (option rext)) : list Z :=
  flat_map (fun r => match r with Some x => x_bloom x | None => [] end) rs.
