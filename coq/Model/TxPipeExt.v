(* Extension of Model/TxPipe.v (which stays as it is: Model/Total.v builds on it): the receipt fields that do not
   feed back into the state — the created-contract address and the bloom filters.

     x/evm/keeper/msg_server.go EthereumTx:
        if ethTx.To() == nil && !response.Failed() { receipt.ContractAddress = crypto.CreateAddress(sender, ethTx.Nonce()) }
     x/evm/types/events.go GetSdkEventForReceipt: the contractAddr attribute is the hex address, "" for the zero address
     x/evm/keeper/state_transition.go ApplyMessageWithConfig:
        receipt.Logs = stateDB.GetTransactionLogs(); receipt.Bloom = CreateBloom(Receipts{&receipt})
     x/evm/keeper/abci.go EndBlock: bloom := CreateBloom(all transient receipts of the block)
     go-ethereum core/types/bloom9.go: CreateBloom ORs, for every log, bloom9(address) and bloom9(topic) for each topic;
        bloom9 sets three bits taken from keccak256 of the item.

   A log is represented by the list of bit positions (0..2047) go-ethereum derives from it (three per item); keccak is
   not modelled: the harness computes the positions from the observed logs.  The CREATE address function is an oracle
   argument [ca] (crypto.CreateAddress(sender, nonce) computed by the harness); Proofs/TxPipeProofs.v states the
   theorem for an arbitrary function create_addr with [ca = create_addr (t_from t) (t_nonce t)].
   Executable Gallina only. *)
From Evm Require Export TxPipe.
Open Scope Z_scope.

Definition logbits := list Z.

Record rext := mkRext {
  x_contract : option addr;    (* contract address shown by the receipt event, None = not shown *)
  x_bloom : list Z             (* bits set in the receipt's bloom *)
}.

Definition bloom_of_logs (ls : list logbits) : list Z := flat_map (fun l => l) ls.

(* the receipt of a transaction whose result in the pipeline is [r]: only committed executions have one *)
Definition receipt_ext (t : txd) (ca : addr) (ls : list logbits) (r : txres) : option rext :=
  match r_out r with
  | Executed vmerr => Some (mkRext (if t_create t && negb vmerr then Some ca else None) (bloom_of_logs ls))
  | _ => None
  end.

(* EndBlock: the block bloom over the receipts of the block (transactions without a committed execution left an
   assumed-failed receipt without logs in the transient store: they contribute nothing) *)
Definition block_bloom_bits (rs : list (option rext)) : list Z :=
  flat_map (fun r => match r with Some x => x_bloom x | None => [] end) rs.

(* ---------------------------------------------------------------- execution aborted by a panic inside the handler
   x/evm/vm/state_db.go has no error channel towards the interpreter: AddBalance -> mintCoins PANICS when the bank refuses
   the credit (SendCoinsFromModuleToAccount towards a blocked address: every module account, app.BlockedModuleAccountAddrs)
   and CommitMultiStore -> DestroyAccount PANICS on a touched, empty module account (CheckIfAccountIsSuitableForDestroyingAt).
   Nothing between the interpreter and baseapp.runTx recovers: runTx's deferred recover turns the panic into
   errorsmod.ErrPanic (codespace "undefined", code 111222), and

     * the ante handler's cache had already been written (fee for the whole gas limit moved to the fee collector,
       sequence + 1, transient tx count + 1, per-index gas := gas limit, the assumed-failed receipt),
     * the message cache is dropped: the handler's undoing of the nonce increment, every balance movement of the
       interpreter up to the panic, the refund - nothing of it remains,
     * neither ApplyTransaction's "consume the whole limit" (error path) nor its reset to the EVM's gas used (success path)
       ran: the gas meter holds what it held when the panic was raised, [gu], an OBSERVED figure (0 in practice: the
       Ethereum lane's meter is only written by those two resets); runTx's deferred consumeBlockGas adds exactly that
       figure to the block gas meter,
     * the transaction keeps its Ethereum index (ethereum_tx event of the ante handler), there is no receipt event.

   WHETHER the execution reaches such a panic is the interpreter's business (oracle, like evm_out: the harness's reference
   interpreter predicts it); but it can only be reached once the state transition's own checks have passed
   (state_transition_core.go TransitionDb: intrinsic gas, CanTransfer for the top-level value) - before them the
   transaction fails as TxPipe.deliver says (CoreErr: gas used = limit).  TxPipe.deliver is not touched: this is an
   outcome handled beside it. *)

Definition no_exec : evm_out := mkOut 0 false 0 [] 0 false.

(* the checks of TransitionDb that precede the interpreter (as in TxPipe.deliver's core_err, without the commit error) *)
Definition pre_exec_err (sa : st) (t : txd) : bool :=
  (t_gas t <? t_intrinsic t) || ((0 <? t_value t) && (bal sa (t_from t) <? t_value t)).

(* is the interpreter (and so the panic) reached at all? *)
Definition panic_reached (s : st) (t : txd) : bool :=
  negb (blk_out_of_gas s) &&
  match ante s t with inl _ => false | inr sa => negb (pre_exec_err sa t) end.

(* one Ethereum transaction whose execution panics; [gu] = consensus gas used as observed *)
Definition deliver_panic (s : st) (t : txd) (gu : Z) : st * txres :=
  if blk_out_of_gas s then deliver s t no_exec
  else match ante s t with
  | inl _ => deliver s t no_exec
  | inr sa =>
      if pre_exec_err sa t then deliver s t no_exec
      else (set_blk_used sa (blk_used sa + gu), no_receipt CoreErr (t_gas t) gu (tx_count sa - 1))
  end.
