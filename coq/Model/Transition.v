(* C02 -- the state-transition wrapper around the interpreter, on both sides:
     go-ethereum  core/state_transition.go   (preCheck, buyGas, IntrinsicGas, TransitionDb, refundGas)
     evermint     x/evm/keeper/state_transition_core.go (the copy with buyGas / coinbase payment disabled),
                  x/evm/keeper/state_transition.go ApplyMessageWithConfig (gas pool = message gas) and
                  ApplyTransaction (refunded fee taken back out of the fee collector).
   The interpreter run is an oracle argument: gas consumed by the top-level frame and the refund counter
   at its end.  Numbers are Z; uint64 overflow of the intrinsic-gas computation is explicit. *)
From Coq Require Export List ZArith Bool.
Export ListNotations.
Open Scope Z_scope.

Record msg := mkMsg {
  m_nonce : Z; m_gas : Z;
  m_price : Z;                  (* msg.GasPrice(): effective price (min(feeCap, baseFee + tip) for dynamic-fee txs) *)
  m_feecap : Z; m_tipcap : Z; m_value : Z;
  m_nz : Z; m_z : Z;            (* non-zero / zero bytes of the data *)
  m_create : bool;
  m_al_addrs : Z; m_al_keys : Z;
  m_fake : bool
}.

Record env := mkEnv {
  v_basefee : Z; v_london : bool; v_nobasefee : bool;
  v_gaspool : Z                 (* gas available in the pool handed to ApplyMessage *)
}.

(* sender as the state database reports it when the transition starts *)
Record sender := mkSender { s_nonce : Z; s_code : Z (* -1 zero hash, 0 empty-code hash, else code *); s_bal : Z }.

Inductive core_err :=
| ENonceTooHigh | ENonceTooLow | ENonceMax | ESenderNoEOA
| EFeeCapVeryHigh | ETipVeryHigh | ETipAboveFeeCap | EFeeCapTooLow
| EInsufficientFunds | EGasLimitReached | EGasUintOverflow | EIntrinsicGas | EInsufficientFundsForTransfer.

Inductive tres :=
| TErr (e : core_err)
| TOk (used : Z)               (* ExecutionResult.UsedGas *)
      (evm_gas : Z)            (* gas handed to evm.Call / evm.Create *)
      (sender_delta : Z)       (* balance change of the sender made by the wrapper (gas purchase and refund), value transfer excluded *)
      (coinbase_fee : Z)       (* AddBalance(coinbase, ..) *)
      (nonce_bumped : bool).   (* the wrapper's SetNonce(sender, nonce+1) (calls only; evm.Create bumps it itself) *)

Definition TMAXU64 : Z := 18446744073709551615.
Definition TxGas := 21000.
Definition TxGasContractCreation := 53000.
Definition TxDataNonZeroGasEIP2028 := 16.
Definition TxDataZeroGas := 4.
Definition TxAccessListAddressGas := 2400.
Definition TxAccessListStorageKeyGas := 1900.
Definition RefundQuotientEIP3529 := 5.
Definition RefundQuotient := 2.

(* core.IntrinsicGas (Homestead, Istanbul active) *)
Definition intrinsic_gas (m : msg) : option Z :=
  let g0 := if m_create m then TxGasContractCreation else TxGas in
  let r1 :=
    if 0 <? m_nz m + m_z m then
      if (TMAXU64 - g0) / TxDataNonZeroGasEIP2028 <? m_nz m then None
      else let g1 := g0 + m_nz m * TxDataNonZeroGasEIP2028 in
           if (TMAXU64 - g1) / TxDataZeroGas <? m_z m then None
           else Some (g1 + m_z m * TxDataZeroGas)
    else Some g0 in
  match r1 with
  | None => None
  | Some g => Some (g + m_al_addrs m * TxAccessListAddressGas + m_al_keys m * TxAccessListStorageKeyGas)
  end.

Definition bitlen_le_256 (x : Z) : bool := x <? 2 ^ 256.

(* preCheck without buyGas: identical text on both sides *)
Definition pre_check (m : msg) (e : env) (s : sender) : option core_err :=
  let r :=
    if m_fake m then None
    else if s_nonce s <? m_nonce m then Some ENonceTooHigh
    else if m_nonce m <? s_nonce s then Some ENonceTooLow
    else if s_nonce s =? TMAXU64 then Some ENonceMax
    else if (0 <? s_code s) then Some ESenderNoEOA
    else None in
  match r with
  | Some x => Some x
  | None =>
      if v_london e && (negb (v_nobasefee e) || (0 <? m_feecap m) || (0 <? m_tipcap m)) then
        if negb (bitlen_le_256 (m_feecap m)) then Some EFeeCapVeryHigh
        else if negb (bitlen_le_256 (m_tipcap m)) then Some ETipVeryHigh
        else if m_feecap m <? m_tipcap m then Some ETipAboveFeeCap
        else if m_feecap m <? v_basefee e then Some EFeeCapTooLow
        else None
      else None
  end.

(* refundGas: the capped refund *)
Definition refund_amount (e : env) (used_before counter : Z) : Z :=
  Z.min (used_before / (if v_london e then RefundQuotientEIP3529 else RefundQuotient)) counter.

(* the interpreter oracle: gas consumed by the top-level frame (<= gas handed over), refund counter *)
Record oracle := mkOracle { o_evm_used : Z; o_refund : Z }.

Definition effective_tip (m : msg) (e : env) : Z :=
  if v_london e then Z.min (m_tipcap m) (m_feecap m - v_basefee e) else m_price m.

(* go-ethereum: TransitionDb *)
Definition geth_transition (m : msg) (e : env) (s : sender) (o : oracle) : tres :=
  match pre_check m e s with
  | Some x => TErr x
  | None =>
      (* buyGas *)
      if s_bal s <? m_gas m * m_feecap m + m_value m then TErr EInsufficientFunds
      else if v_gaspool e <? m_gas m then TErr EGasLimitReached
      else
        let bal1 := s_bal s - m_gas m * m_price m in
        match intrinsic_gas m with
        | None => TErr EGasUintOverflow
        | Some ig =>
            if m_gas m <? ig then TErr EIntrinsicGas
            else if (0 <? m_value m) && (bal1 <? m_value m) then TErr EInsufficientFundsForTransfer
            else
              let given := m_gas m - ig in
              let left := given - o_evm_used o in
              let left' := left + refund_amount e (m_gas m - left) (o_refund o) in
              let used := m_gas m - left' in
              let fee := if v_nobasefee e && (m_feecap m =? 0) && (m_tipcap m =? 0) then 0 else used * effective_tip m e in
              TOk used given (left' * m_price m - m_gas m * m_price m) fee (negb (m_create m))
        end
  end.

(* evermint: the fee gas x price has been moved to the fee collector by the ante handler
   ([paid] = flag sender-paid-fee); ApplyMessageWithConfig hands over a pool of exactly the message gas *)
Definition evermint_transition (paid : bool) (m : msg) (e : env) (s : sender) (o : oracle) : tres :=
  match pre_check m e s with
  | Some x => TErr x
  | None =>
      match intrinsic_gas m with
      | None => TErr EGasUintOverflow
      | Some ig =>
          if m_gas m <? ig then TErr EIntrinsicGas
          else if (0 <? m_value m) && (s_bal s <? m_value m) then TErr EInsufficientFundsForTransfer
          else
            let given := m_gas m - ig in
            let left := given - o_evm_used o in
            let left' := left + refund_amount e (m_gas m - left) (o_refund o) in
            let used := m_gas m - left' in
            TOk used given (if paid then left' * m_price m else 0) 0 (negb (m_create m))
      end
  end.

(* ApplyTransaction: what leaves the fee collector again (burnt) after the transition *)
Definition fee_collector_refund (paid : bool) (m : msg) (used : Z) : Z :=
  if paid then (m_gas m - used) * m_price m else 0.

(* ------------------------------------------------------------------ the initial access list *)
Definition std_precompiles : list Z := [1; 2; 3; 4; 5; 6; 7; 8; 9].    (* vm.ActivePrecompiles(rules), Berlin *)

(* TransitionDb on the evermint side after the repair: the EVM's list of custom precompile addresses is
   padded with one zero-valued entry per contract (make(len) + append); zero entries are dropped *)
Definition cpc_list_from_evm (cpcs : list Z) : list Z := map (fun _ => 0) cpcs ++ cpcs.
Definition evermint_precompiles (cpcs : list Z) : list Z :=
  std_precompiles ++ filter (fun a => negb (a =? 0)) (cpc_list_from_evm cpcs).
(* before the repair (commit 6ed9b4a) the padded list was passed on as it was *)
Definition evermint_precompiles_before_fix (cpcs : list Z) : list Z := std_precompiles ++ cpc_list_from_evm cpcs.
