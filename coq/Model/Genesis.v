(* Model of genesis export / import of the custom modules, as coded:
     x/evm/genesis.go        ExportGenesis (IterateContracts over the code-hash store, then the owners of storage
                             that hold no code: repaired behaviour, see known_findings.d/C18.json), InitGenesis
     x/feemarket/genesis.go  params only (the base fee is a param)
     x/cpc/genesis.go        ExportGenesis = params + two booleans; InitGenesis re-deploys from the booleans
     x/vauth/module.go       ExportGenesis = DefaultGenesis() (empty), InitGenesis does nothing
   State is the content of the module stores (sorted key/value lists, as the IAVL iterators yield them).
   Executable Gallina only; no proofs here. *)
From Coq Require Export ZArith List Bool.
Export ListNotations.
Open Scope Z_scope.

(* ------------------------------------------------------------------ sorted maps with Z keys (a KV store prefix) *)
Definition zmap (V : Type) := list (Z * V).

Fixpoint zget {V} (k : Z) (m : zmap V) : option V :=
  match m with
  | [] => None
  | (k', v) :: r => if k =? k' then Some v else zget k r
  end.

Fixpoint zset {V} (k : Z) (v : V) (m : zmap V) : zmap V :=
  match m with
  | [] => [(k, v)]
  | (k', v') :: r =>
      if k <? k' then (k, v) :: m
      else if k =? k' then (k, v) :: r
      else (k', v') :: zset k v r
  end.

Definition zhas {V} (k : Z) (m : zmap V) : bool := match zget k m with Some _ => true | None => false end.

(* ------------------------------------------------------------------ module stores *)
(* keccak256 of the empty byte string: evmtypes.EmptyCodeHash *)
Definition EMPTYH : Z := 0xc5d2460186f7233c927e7db2dcc703c0e500b653ca82273b7bfad8045d85a470.
Definition CODE_EMPTY : Z := 0.            (* identifier of the empty byte string; other codes are identified by a non-zero number *)
Definition SLOT : Z := 2 ^ 256.
Definition ADDR : Z := 2 ^ 160.
(* storage key = 20 address bytes ++ 32 slot bytes: lexicographic byte order = numeric order of this number *)
Definition skey (addr slot : Z) : Z := addr * SLOT + slot.
(* allowance key = owner ++ spender *)
Definition akey (owner spender : Z) : Z := owner * ADDR + spender.

Record evm_state := Evm {
  e_params : Z;               (* identifier of the whole Params value *)
  e_codehash : zmap Z;        (* prefixCodeHash: address -> code hash (entries with the empty code hash are never stored) *)
  e_code : zmap Z;            (* prefixCode: code hash -> code *)
  e_storage : zmap Z          (* prefixStorage: skey address slot -> 32-byte value (a stored zero stays a present slot) *)
}.

(* x/feemarket Params: base_fee (sdkmath.Int) and min_gas_price (sdkmath.LegacyDec, carried as the underlying integer
   value * 10^18, so fractional prices such as 1000000000.5 are exact) *)
Record fm_state := Fm { f_base_fee : Z; f_min_gas_price : Z }.
Definition DEC : Z := 10 ^ 18.
(* feemarkettypes.Params.Validate: base fee not negative, min gas price not negative *)
Definition fm_valid (f : fm_state) : bool := (0 <=? f_base_fee f) && (0 <=? f_min_gas_price f).
(* MinGasPrice.TruncateInt(): the floor Keeper.CalculateBaseFee applies in EndBlock *)
Definition fm_floor (f : fm_state) : Z := f_min_gas_price f / DEC.

Record meta := Meta { m_type : Z; m_digest : Z }.   (* precompile type; identifier of name + typed meta + disabled flag *)

Record cpc_state := Cpc {
  c_params : Z;
  c_metas : zmap meta;        (* address -> metadata *)
  c_denoms : zmap Z;          (* min denom -> ERC-20 precompile address *)
  c_allow : zmap Z            (* akey owner spender -> allowance *)
}.

Record cstate := St {
  s_evm : evm_state;
  s_fm : fm_state;
  s_cpc : cpc_state;
  s_proofs : zmap Z           (* vauth: address -> proof *)
}.

(* ------------------------------------------------------------------ genesis documents of the four modules *)
Record gen_acct := GA { ga_addr : Z; ga_code : Z; ga_storage : list (Z * Z) }.

Record gen := Gen {
  g_evm_params : Z;
  g_accounts : list gen_acct;
  g_fm : fm_state;
  g_cpc_params : Z;
  g_erc20_native : bool;
  g_staking : bool
  (* vauth: GenesisState has no fields *)
}.

(* ------------------------------------------------------------------ export *)
Definition in_addr (addr k : Z) : bool := (addr * SLOT <=? k) && (k <? (addr + 1) * SLOT).

(* Keeper.GetAccountStorage: all slots under the address prefix, in key order *)
Definition slots_of (addr : Z) (st : zmap Z) : list (Z * Z) :=
  map (fun kv => (fst kv - addr * SLOT, snd kv)) (filter (fun kv => in_addr addr (fst kv)) st).

Definition code_of (h : Z) (code : zmap Z) : Z := match zget h code with Some c => c | None => CODE_EMPTY end.

(* Keeper.IterateStorageOwners: the owner (first 20 key bytes) of every stored slot, in key order, an owner equal to
   the one reported just before is skipped *)
Fixpoint owners (prev : option Z) (st : zmap Z) : list Z :=
  match st with
  | [] => []
  | (k, _) :: r =>
      let a := k / SLOT in
      if (match prev with Some p => p =? a | None => false end) then owners (Some a) r else a :: owners (Some a) r
  end.

(* first loop of x/evm ExportGenesis: one account per entry of the code-hash store with a non-empty hash *)
Definition export_contracts (e : evm_state) : list gen_acct :=
  flat_map (fun ah => let '(a, h) := ah in
              if h =? EMPTYH then [] else [GA a (code_of h (e_code e)) (slots_of a (e_storage e))])
           (e_codehash e).

(* exportedContracts of ExportGenesis *)
Definition is_exported_contract (e : evm_state) (a : Z) : bool :=
  existsb (fun ah => (fst ah =? a) && negb (snd ah =? EMPTYH)) (e_codehash e).

(* second loop: owners of storage that were not exported as contracts, with empty code *)
Definition export_storage_only (e : evm_state) : list gen_acct :=
  map (fun a => GA a CODE_EMPTY (slots_of a (e_storage e)))
      (filter (fun a => negb (is_exported_contract e a)) (owners None (e_storage e))).

Definition export_evm (e : evm_state) : list gen_acct := export_contracts e ++ export_storage_only e.

(* fixed addresses of x/cpc/types *)
Record cpc_consts := CC {
  k_staking_addr : Z; k_bech32_addr : Z;
  k_native_meta : meta; k_staking_meta : meta; k_bech32_meta : meta;   (* what InitGenesis deploys *)
  k_bond_denom : Z;
  k_module_addr : Z            (* cpctypes.CpcModuleAddress: address of the cpc module account *)
}.

Definition export (k : cpc_consts) (s : cstate) : gen :=
  Gen (e_params (s_evm s)) (export_evm (s_evm s)) (s_fm s)
      (c_params (s_cpc s))
      false                                            (* DeployErc20Native: constant false *)
      (zhas (k_staking_addr k) (c_metas (s_cpc s))).   (* DeployStakingContract: HasCustomPrecompiledContract(fixed address) *)

(* ------------------------------------------------------------------ import (InitGenesis on a fresh application) *)
(* what the rest of the fresh application provides while the custom modules initialise.  x/auth and x/bank are
   initialised BEFORE the custom modules (app/modules.go orderInitBlockers), so every account of the exported chain is
   already there: also accounts sitting at addresses the custom modules use (somebody sent coins to a precompile
   address, to a predicted contract address, a genesis file lists a vesting account there ...) *)
Inductive acct_kind :=
| ANone                        (* x/auth holds no account at the address *)
| ABase                        (* *authtypes.BaseAccount (any sequence, any balances) *)
| AVesting                     (* any of the vesting account types *)
| AModule.                     (* *authtypes.ModuleAccount *)

Record env := Env {
  v_hash : Z -> Z;            (* keccak256 on code identifiers *)
  v_acct : Z -> acct_kind;    (* the account x/auth holds at an address *)
  v_next_dyn : Z;             (* address GetNextDynamicCustomPrecompiledContractAddress would hand out
                                 (CREATE address of the cpc module account at its current sequence) *)
  v_bond_supply_pos : bool    (* bank supply of the bond denom is positive *)
}.

(* x/evm InitGenesis: GetAccount must return a *BaseAccount *)
Definition v_base_acct (v : env) (a : Z) : bool := match v_acct v a with ABase => true | _ => false end.

(* AccountKeeper.GetModuleAccount(cpc) (called by GetNextDynamicCustomPrecompiledContractAddress): creates the module
   account if there is none, returns it if it is a module account, and panics ("account is not a module account")
   on any other account type at the module address *)
Definition macc_ok (k : cpc_consts) (v : env) : bool :=
  match v_acct v (k_module_addr k) with ANone | AModule => true | _ => false end.

Inductive res (A : Type) := Ok (a : A) | Panic.
Arguments Ok {A} a.
Arguments Panic {A}.

Definition import_acct (v : env) (e : evm_state) (a : gen_acct) : res evm_state :=
  if negb (v_base_acct v (ga_addr a)) then Panic            (* "account not found" / "must be BaseAccount" *)
  else
    let h := v_hash v (ga_code a) in
    (* SetCodeHash is only called for a non-empty hash *)
    let ch := if h =? EMPTYH then e_codehash e else zset (ga_addr a) h (e_codehash e) in
    let cd := if ga_code a =? CODE_EMPTY then e_code e else zset h (ga_code a) (e_code e) in
    let st := fold_left (fun st kv => zset (skey (ga_addr a) (fst kv)) (snd kv) st) (ga_storage a) (e_storage e) in
    Ok (Evm (e_params e) ch cd st).

Fixpoint import_accts (v : env) (e : evm_state) (l : list gen_acct) : res evm_state :=
  match l with
  | [] => Ok e
  | a :: r => match import_acct v e a with Ok e' => import_accts v e' r | Panic => Panic end
  end.

(* SetCustomPrecompiledContractMeta(newDeployment = true): refused only if a PRECOMPILE is registered at the address;
   whether x/auth holds an account there (of any type, with any balance) plays no role *)
Definition deploy (addr : Z) (m : meta) (c : cpc_state) : res cpc_state :=
  if zhas addr (c_metas c) then Panic else Ok (Cpc (c_params c) (zset addr m (c_metas c)) (c_denoms c) (c_allow c)).

Definition import_cpc (k : cpc_consts) (v : env) (g : gen) : res cpc_state :=
  let c0 := Cpc (g_cpc_params g) [] [] [] in
  let r1 :=
    if g_erc20_native g then
      if zhas (k_bond_denom k) (c_denoms c0) then Panic
      else if negb (v_bond_supply_pos v) then Panic
      else if negb (macc_ok k v) then Panic
      else match deploy (v_next_dyn v) (k_native_meta k) c0 with
           | Ok c => Ok (Cpc (c_params c) (c_metas c) (zset (k_bond_denom k) (v_next_dyn v) (c_denoms c)) (c_allow c))
           | Panic => Panic
           end
    else Ok c0 in
  match r1 with
  | Panic => Panic
  | Ok c1 =>
      match (if g_staking g then deploy (k_staking_addr k) (k_staking_meta k) c1 else Ok c1) with
      | Panic => Panic
      | Ok c2 => deploy (k_bech32_addr k) (k_bech32_meta k) c2       (* always *)
      end
  end.

(* x/feemarket InitGenesis: Keeper.SetParams(data.Params), which validates and stores the params AS THEY ARE: no
   clamping, no rounding of the base fee against the min gas price; an invalid document panics *)
Definition import_fm (f : fm_state) : res fm_state := if fm_valid f then Ok f else Panic.

Definition import (k : cpc_consts) (v : env) (g : gen) : res cstate :=
  match import_accts v (Evm (g_evm_params g) [] [] []) (g_accounts g) with
  | Panic => Panic
  | Ok e =>
      match import_cpc k v g with
      | Panic => Panic
      | Ok c =>
          match import_fm (g_fm g) with
          | Panic => Panic
          | Ok f => Ok (St e f c [])             (* vauth InitGenesis: nothing *)
          end
      end
  end.

(* ------------------------------------------------------------------ what a user can ask the evm module *)
(* gRPC Code / eth_getCode: code under the account's code hash *)
Definition q_code (e : evm_state) (a : Z) : Z :=
  match zget a (e_codehash e) with Some h => code_of h (e_code e) | None => CODE_EMPTY end.
(* gRPC Storage / eth_getStorageAt (None reads as the zero word; kept apart because the export lists present slots) *)
Definition q_storage (e : evm_state) (a slot : Z) : option Z := zget (skey a slot) (e_storage e).

(* ------------------------------------------------------------------ invariant of the stores (decidable; evaluated on
   every store content the driver reads from a real application) *)
Fixpoint sortedb {V} (m : zmap V) : bool :=
  match m with
  | [] => true
  | (k, _) :: r => match r with [] => true | (k', _) :: _ => (k <? k') && sortedb r end
  end.

(* every entry of the code-hash store has a non-empty hash and its code is in the code store under that hash *)
Definition code_okb (v : env) (e : evm_state) : bool :=
  forallb (fun ah => negb (snd ah =? EMPTYH) &&
                     match zget (snd ah) (e_code e) with
                     | Some c => negb (c =? CODE_EMPTY) && (v_hash v c =? snd ah)
                     | None => false
                     end) (e_codehash e).

Definition wfb_evm (v : env) (e : evm_state) : bool :=
  (v_hash v CODE_EMPTY =? EMPTYH) && sortedb (e_codehash e) && sortedb (e_storage e) && code_okb v e.

Definition wfb (v : env) (s : cstate) : bool :=
  fm_valid (s_fm s) && wfb_evm v (s_evm s) && sortedb (c_metas (s_cpc s)) && sortedb (c_denoms (s_cpc s)) && sortedb (c_allow (s_cpc s))
  && sortedb (s_proofs s).

(* ------------------------------------------------------------------ store-level operations a block history is made of *)
Fixpoint zdel {V} (k : Z) (m : zmap V) : zmap V :=
  match m with
  | [] => []
  | (k', v') :: r => if k =? k' then r else (k', v') :: zdel k r
  end.

Inductive op :=
| OSetCode (a c : Z)                 (* commit of a created contract: Keeper.SetCodeHash a (keccak c) ; Keeper.SetCode (keccak c) c *)
| OSetState (a slot val : Z)         (* Keeper.SetState with a 32-byte value: a zero word is stored, not deleted *)
| ODestroy (a : Z)                   (* cStateDb.DestroyAccount: DeleteCodeHash and every slot of the account deleted *)
| OEvmParams (p : Z)
| OFm (f : fm_state)                 (* fee market MsgUpdateParams -> Keeper.SetParams: an invalid value is refused *)
| OEndBlock (next : Z)               (* fee market EndBlock: SetBaseFee (max next trunc(MinGasPrice)); next = outcome of the
                                        EIP-1559 formula for the block (never negative; a negative one would panic) *)
| OCpcParams (p : Z)
| ODeployErc20 (addr denom : Z) (m : meta)   (* Keeper.DeployErc20CustomPrecompiledContract at the next dynamic address *)
| ODeployStaking (m : meta)          (* Keeper.DeployStakingCustomPrecompiledContract (message or genesis) *)
| OApprove (owner spender amt : Z)   (* Keeper.SetErc20CpcAllowance: zero deletes *)
| OProof (a p : Z).                  (* vauth Keeper.SaveProofExternalOwnedAccount *)

Definition apply_op (k : cpc_consts) (v : env) (s : cstate) (o : op) : cstate :=
  let e := s_evm s in
  let c := s_cpc s in
  match o with
  | OSetCode a cd =>
      let h := v_hash v cd in
      let ch := if h =? EMPTYH then zdel a (e_codehash e) else zset a h (e_codehash e) in
      let co := if cd =? CODE_EMPTY then zdel h (e_code e) else zset h cd (e_code e) in
      St (Evm (e_params e) ch co (e_storage e)) (s_fm s) c (s_proofs s)
  | OSetState a slot val =>
      St (Evm (e_params e) (e_codehash e) (e_code e) (zset (skey a slot) val (e_storage e))) (s_fm s) c (s_proofs s)
  | ODestroy a =>
      St (Evm (e_params e) (zdel a (e_codehash e)) (e_code e) (filter (fun kv => negb (in_addr a (fst kv))) (e_storage e)))
         (s_fm s) c (s_proofs s)
  | OEvmParams p => St (Evm p (e_codehash e) (e_code e) (e_storage e)) (s_fm s) c (s_proofs s)
  | OFm f => if fm_valid f then St e f c (s_proofs s) else s
  | OEndBlock next =>
      if next <? 0 then s
      else St e (Fm (Z.max next (fm_floor (s_fm s))) (f_min_gas_price (s_fm s))) c (s_proofs s)
  | OCpcParams p => St e (s_fm s) (Cpc p (c_metas c) (c_denoms c) (c_allow c)) (s_proofs s)
  | ODeployErc20 addr denom m =>
      if zhas denom (c_denoms c) then s
      else match deploy addr m c with
           | Ok c' => St e (s_fm s) (Cpc (c_params c') (c_metas c') (zset denom addr (c_denoms c')) (c_allow c')) (s_proofs s)
           | Panic => s
           end
  | ODeployStaking m =>
      match deploy (k_staking_addr k) m c with Ok c' => St e (s_fm s) c' (s_proofs s) | Panic => s end
  | OApprove owner spender amt =>
      St e (s_fm s) (Cpc (c_params c) (c_metas c) (c_denoms c)
                         (if amt =? 0 then zdel (akey owner spender) (c_allow c) else zset (akey owner spender) amt (c_allow c)))
         (s_proofs s)
  | OProof a p => St e (s_fm s) c (zset a p (s_proofs s))
  end.

Definition run (k : cpc_consts) (v : env) (ops : list op) (s : cstate) : cstate := fold_left (apply_op k v) ops s.
