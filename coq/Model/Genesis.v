(* Model of genesis export / import of the custom modules, as coded:
     x/evm/genesis.go        ExportGenesis (IterateContracts over the code-hash store), InitGenesis
     x/feemarket/genesis.go  params only (the base fee is a param)
     x/cpc/genesis.go        ExportGenesis = params + two booleans; InitGenesis re-deploys from the booleans
     x/vauth/module.go       ExportGenesis = DefaultGenesis() (empty), InitGenesis does nothing
   State is the content of the module stores (sorted key/value lists, as the IAVL iterators yield them).
   Executable Gallina only; no proofs here. *)
From Coq Require Export ZArith List Bool.
Export ListNotations.
Open Scope Z_scope.

(* ------------------------------------------------------------------ sorted maps with Z keys (a KV store prefix) *)
Definition zmap (V : Type) := list (Z * V).

Fixpoint zget {V} (k : Z) (m : zmap V) : option V :=
  match m with
  | [] => None
  | (k', v) :: r => if k =? k' then Some v else zget k r
  end.

Fixpoint zset {V} (k : Z) (v : V) (m : zmap V) : zmap V :=
  match m with
  | [] => [(k, v)]
  | (k', v') :: r =>
      if k <? k' then (k, v) :: m
      else if k =? k' then (k, v) :: r
      else (k', v') :: zset k v r
  end.

Definition zhas {V} (k : Z) (m : zmap V) : bool := match zget k m with Some _ => true | None => false end.

(* ------------------------------------------------------------------ module stores *)
(* keccak256 of the empty byte string: evmtypes.EmptyCodeHash *)
Definition EMPTYH : Z := 0xc5d2460186f7233c927e7db2dcc703c0e500b653ca82273b7bfad8045d85a470.
Definition CODE_EMPTY : Z := 0.            (* identifier of the empty byte string; other codes are identified by a non-zero number *)
Definition SLOT : Z := 2 ^ 256.
Definition ADDR : Z := 2 ^ 160.
(* storage key = 20 address bytes ++ 32 slot bytes: lexicographic byte order = numeric order of this number *)
Definition skey (addr slot : Z) : Z := addr * SLOT + slot.
(* allowance key = owner ++ spender *)
Definition akey (owner spender : Z) : Z := owner * ADDR + spender.

Record evm_state := Evm {
  e_params : Z;               (* identifier of the whole Params value *)
  e_codehash : zmap Z;        (* prefixCodeHash: address -> code hash (entries with the empty code hash are never stored) *)
  e_code : zmap Z;            (* prefixCode: code hash -> code *)
  e_storage : zmap Z          (* prefixStorage: skey address slot -> 32-byte value (a stored zero stays a present slot) *)
}.

Record fm_state := Fm { f_base_fee : Z; f_min_gas_price : Z }.

Record meta := Meta { m_type : Z; m_digest : Z }.   (* precompile type; identifier of name + typed meta + disabled flag *)

Record cpc_state := Cpc {
  c_params : Z;
  c_metas : zmap meta;        (* address -> metadata *)
  c_denoms : zmap Z;          (* min denom -> ERC-20 precompile address *)
  c_allow : zmap Z            (* akey owner spender -> allowance *)
}.

Record cstate := St {
  s_evm : evm_state;
  s_fm : fm_state;
  s_cpc : cpc_state;
  s_proofs : zmap Z           (* vauth: address -> proof *)
}.

(* ------------------------------------------------------------------ genesis documents of the four modules *)
Record gen_acct := GA { ga_addr : Z; ga_code : Z; ga_storage : list (Z * Z) }.

Record gen := Gen {
  g_evm_params : Z;
  g_accounts : list gen_acct;
  g_fm : fm_state;
  g_cpc_params : Z;
  g_erc20_native : bool;
  g_staking : bool
  (* vauth: GenesisState has no fields *)
}.

(* ------------------------------------------------------------------ export *)
Definition in_addr (addr k : Z) : bool := (addr * SLOT <=? k) && (k <? (addr + 1) * SLOT).

(* Keeper.GetAccountStorage: all slots under the address prefix, in key order *)
Definition slots_of (addr : Z) (st : zmap Z) : list (Z * Z) :=
  map (fun kv => (fst kv - addr * SLOT, snd kv)) (filter (fun kv => in_addr addr (fst kv)) st).

Definition code_of (h : Z) (code : zmap Z) : Z := match zget h code with Some c => c | None => CODE_EMPTY end.

(* x/evm ExportGenesis: one account per entry of the code-hash store (non-contract accounts are ignored,
   so storage held by an address without code is not exported) *)
Definition export_evm (e : evm_state) : list gen_acct :=
  flat_map (fun ah => let '(a, h) := ah in
              if h =? EMPTYH then [] else [GA a (code_of h (e_code e)) (slots_of a (e_storage e))])
           (e_codehash e).

(* fixed addresses of x/cpc/types *)
Record cpc_consts := CC {
  k_staking_addr : Z; k_bech32_addr : Z;
  k_native_meta : meta; k_staking_meta : meta; k_bech32_meta : meta;   (* what InitGenesis deploys *)
  k_bond_denom : Z
}.

Definition export (k : cpc_consts) (s : cstate) : gen :=
  Gen (e_params (s_evm s)) (export_evm (s_evm s)) (s_fm s)
      (c_params (s_cpc s))
      false                                            (* DeployErc20Native: constant false *)
      (zhas (k_staking_addr k) (c_metas (s_cpc s))).   (* DeployStakingContract: HasCustomPrecompiledContract(fixed address) *)

(* ------------------------------------------------------------------ import (InitGenesis on a fresh application) *)
(* what the rest of the fresh application provides while the custom modules initialise *)
Record env := Env {
  v_hash : Z -> Z;            (* keccak256 on code identifiers *)
  v_base_acct : Z -> bool;    (* x/auth (initialised before x/evm) holds a BaseAccount at the address *)
  v_next_dyn : Z;             (* address GetNextDynamicCustomPrecompiledContractAddress would hand out *)
  v_bond_supply_pos : bool    (* bank supply of the bond denom is positive *)
}.

Inductive res (A : Type) := Ok (a : A) | Panic.
Arguments Ok {A} a.
Arguments Panic {A}.

Definition import_acct (v : env) (e : evm_state) (a : gen_acct) : res evm_state :=
  if negb (v_base_acct v (ga_addr a)) then Panic            (* "account not found" / "must be BaseAccount" *)
  else
    let h := v_hash v (ga_code a) in
    (* SetCodeHash is only called for a non-empty hash *)
    let ch := if h =? EMPTYH then e_codehash e else zset (ga_addr a) h (e_codehash e) in
    let cd := if ga_code a =? CODE_EMPTY then e_code e else zset h (ga_code a) (e_code e) in
    let st := fold_left (fun st kv => zset (skey (ga_addr a) (fst kv)) (snd kv) st) (ga_storage a) (e_storage e) in
    Ok (Evm (e_params e) ch cd st).

Fixpoint import_accts (v : env) (e : evm_state) (l : list gen_acct) : res evm_state :=
  match l with
  | [] => Ok e
  | a :: r => match import_acct v e a with Ok e' => import_accts v e' r | Panic => Panic end
  end.

(* SetCustomPrecompiledContractMeta(newDeployment = true) *)
Definition deploy (addr : Z) (m : meta) (c : cpc_state) : res cpc_state :=
  if zhas addr (c_metas c) then Panic else Ok (Cpc (c_params c) (zset addr m (c_metas c)) (c_denoms c) (c_allow c)).

Definition import_cpc (k : cpc_consts) (v : env) (g : gen) : res cpc_state :=
  let c0 := Cpc (g_cpc_params g) [] [] [] in
  let r1 :=
    if g_erc20_native g then
      if zhas (k_bond_denom k) (c_denoms c0) then Panic
      else if negb (v_bond_supply_pos v) then Panic
      else match deploy (v_next_dyn v) (k_native_meta k) c0 with
           | Ok c => Ok (Cpc (c_params c) (c_metas c) (zset (k_bond_denom k) (v_next_dyn v) (c_denoms c)) (c_allow c))
           | Panic => Panic
           end
    else Ok c0 in
  match r1 with
  | Panic => Panic
  | Ok c1 =>
      match (if g_staking g then deploy (k_staking_addr k) (k_staking_meta k) c1 else Ok c1) with
      | Panic => Panic
      | Ok c2 => deploy (k_bech32_addr k) (k_bech32_meta k) c2       (* always *)
      end
  end.

Definition import (k : cpc_consts) (v : env) (g : gen) : res cstate :=
  match import_accts v (Evm (g_evm_params g) [] [] []) (g_accounts g) with
  | Panic => Panic
  | Ok e =>
      match import_cpc k v g with
      | Panic => Panic
      | Ok c => Ok (St e (g_fm g) c [])          (* vauth InitGenesis: nothing *)
      end
  end.
