(* Destroy.v — executable model of the account-destroying paths of evermint's context-based StateDB
   (C15; the commit loop order also serves C01).

   Modelled code, as it is after the /repo commits 295ed89 (guard at block time), 9f5ef70 (permanent
   locked accounts never expire) and 133c300 (commit loop in address order):
     x/evm/vm/state_db.go        CreateAccount, DestroyAccount, createAccountIfNotExists, SubBalance/burnCoins,
                                 AddBalance/mintCoins, SetNonce, SetCode, SetState, Suicide, Exist, Empty,
                                 Snapshot, RevertToSnapshot, CommitMultiStore
     x/evm/utils/validation.go   CheckIfAccountIsSuitableForDestroyingAt
     x/evm/keeper/keeper.go      IsEmptyAccount
     x/evm/keeper/statedb.go     SetState / SetCodeHash / DeleteCodeHash / ForEachStorage (as maps)
     cosmos-sdk v0.50.10 x/bank  subUnlockedCoins (locked coins), SendCoinsFromModuleToAccount (blocked
                                 addresses), SendCoins (creates the recipient account)
     cosmos-sdk x/auth/vesting   LockedCoins of Delayed / Continuous / Periodic / PermanentLocked accounts
     go-ethereum fork core/vm    NOT modelled: the interpreter is external behaviour; the harness records the
                                 StateDB calls it makes (a list of [op]) and [evm_trace] states the one fact
                                 about them that C15 needs (CreateAccount only on a non-existing address or on
                                 a code-less nonce-0 address: evm.Call / evm.create), re-checked on every trace
   Panics of the Go code are the constructor [Panic]: a panic anywhere in a transaction propagates to
   BaseApp.runTx, which drops the message cache, i.e. the transaction fails as a whole.

   Executable Gallina only; theorems are in Proofs/DestroyProofs.v and Properties/C15.v. *)
From Coq Require Import ZArith List Bool.
Import ListNotations.
Open Scope Z_scope.

(* ------------------------------------------------------------------ basic data *)

Definition addr := Z.      (* a 20-byte address as a big-endian number: byte order = numeric order *)
Definition denom := Z.     (* index of a denomination; [evm_denom] is the EVM denomination *)
Definition evm_denom : denom := 0.
Definition MAX256 : Z := 2 ^ 256 - 1.

(* sdk.Coins as an association list; a missing denomination is zero. *)
Definition coins := list (denom * Z).

Fixpoint amt (c : coins) (d : denom) : Z :=
  match c with
  | [] => 0
  | (d', v) :: r => if d' =? d then v else amt r d
  end.

Fixpoint set_amt (c : coins) (d : denom) (v : Z) : coins :=
  match c with
  | [] => [(d, v)]
  | (d', v') :: r => if d' =? d then (d, v) :: r else (d', v') :: set_amt r d v
  end.

(* Coins.IsZero of GetAllBalances: every denomination that has an entry reads zero *)
Definition all_zero (c : coins) : bool := forallb (fun p => amt c (fst p) =? 0) c.

(* ------------------------------------------------------------------ accounts *)

(* BaseVestingAccount itself is a registered sdk.AccountI (VRaw): it has an end time but is not a
   bank VestingAccount, so bank locks nothing for it. *)
Inductive vkind := VRaw | VDelayed | VContinuous | VPeriodic | VPermanent.

Record sched := mkSched {
  s_kind : vkind;
  s_start : Z;                     (* unix seconds; 0 for delayed / permanent *)
  s_end : Z;                       (* BaseVestingAccount.EndTime; 0 for permanent locked *)
  s_orig : coins;                  (* OriginalVesting *)
  s_delv : coins;                  (* DelegatedVesting *)
  s_periods : list (Z * coins)     (* periodic: (length, amount) *)
}.

Inductive kind := Base | Module | Vesting (sc : sched).

Record account := mkAcc { a_kind : kind; a_nonce : Z; a_num : Z }.

(* --- cosmossdk.io/math LegacyDec: 18 decimals, banker's rounding (chopPrecisionAndRound) *)
Definition PREC : Z := 10 ^ 18.
Definition chop_round (x : Z) : Z :=
  let q := x / PREC in
  let r := x mod PREC in
  if r =? 0 then q
  else if r <? 5 * 10 ^ 17 then q
  else if 5 * 10 ^ 17 <? r then q + 1
  else if Z.even q then q else q + 1.

(* ContinuousVestingAccount.GetVestedCoins for one denomination, start < t < end:
   s := Dec(x).Quo(Dec(y)); vested := Dec(amount).Mul(s).RoundInt() *)
Definition continuous_vested (o x y : Z) : Z :=
  let s := chop_round ((x * PREC * (PREC * PREC)) / (y * PREC)) in
  chop_round (chop_round (o * PREC * s)).

(* PeriodicVestingAccount.GetVestedCoins loop *)
Fixpoint periodic_vested (ps : list (Z * coins)) (cur t : Z) (d : denom) : Z :=
  match ps with
  | [] => 0
  | (len, c) :: r => if (t - cur) <? len then 0 else amt c d + periodic_vested r (cur + len) t d
  end.

Definition vested_amt (sc : sched) (t : Z) (d : denom) : Z :=
  let o := amt (s_orig sc) d in
  match s_kind sc with
  | VRaw => 0
  | VPermanent => 0
  | VDelayed => if s_end sc <=? t then o else 0
  | VContinuous =>
      if t <=? s_start sc then 0
      else if s_end sc <=? t then o
      else continuous_vested o (t - s_start sc) (s_end sc - s_start sc)
  | VPeriodic =>
      if t <=? s_start sc then 0
      else if s_end sc <=? t then o
      else periodic_vested (s_periods sc) (s_start sc) t d
  end.

(* GetVestingCoins = OriginalVesting - vested *)
Definition vesting_amt (sc : sched) (t : Z) (d : denom) : Z := amt (s_orig sc) d - vested_amt sc t d.

(* LockedCoins(blockTime) = LockedCoinsFromVesting(vesting) = vesting - min(vesting, DelegatedVesting) *)
Definition locked_sched (sc : sched) (t : Z) (d : denom) : Z :=
  match s_kind sc with
  | VRaw => 0
  | _ => let v := vesting_amt sc t d in v - Z.min v (amt (s_delv sc) d)
  end.

Definition locked_kind (k : kind) (t : Z) (d : denom) : Z :=
  match k with
  | Vesting sc => locked_sched sc t d
  | _ => 0
  end.

(* CheckIfAccountIsSuitableForDestroyingAt(acc, blockTime) = false, i.e. the account is protected *)
Definition protected_kind (k : kind) (t : Z) : bool :=
  match k with
  | Base => false
  | Module => true
  | Vesting sc =>
      match s_kind sc with
      | VPermanent => true
      | _ => t <? s_end sc
      end
  end.

(* ------------------------------------------------------------------ world state *)

Definition storage := list (Z * Z).

Fixpoint set_slot (s : storage) (k v : Z) : storage :=
  match s with
  | [] => [(k, v)]
  | (k', v') :: r => if k' =? k then (k, v) :: r else (k', v') :: set_slot r k v
  end.

Record world := mkWorld {
  w_acc : addr -> option account;   (* x/auth account store *)
  w_bal : addr -> coins;            (* x/bank balances *)
  w_code : addr -> Z;               (* x/evm code-hash entry; 0 = no entry *)
  w_stor : addr -> storage;         (* x/evm storage prefix of the address *)
  w_next : Z                        (* x/auth global account number *)
}.

Definition upd {A} (f : addr -> A) (a : addr) (v : A) : addr -> A :=
  fun x => if x =? a then v else f x.

(* environment: block time and bank's blocked addresses (module account addresses of the app) *)
Record env := mkEnv { e_now : Z; e_blocked : addr -> bool }.

(* transaction-local StateDB state *)
Record frame := mkFrame {
  f_w : world;
  f_touched : list addr;
  f_sd : list addr
}.

Record sdb := mkSdb { cur : frame; snaps : list frame }.

Inductive res (A : Type) := Ok (x : A) | Panic.
Arguments Ok {A} x.
Arguments Panic {A}.

Definition bind {A B} (r : res A) (f : A -> res B) : res B :=
  match r with Ok x => f x | Panic => Panic end.

Definition mem (a : addr) (l : list addr) : bool := existsb (fun x => x =? a) l.

Definition touch (f : frame) (a : addr) : frame :=
  mkFrame (f_w f) (a :: f_touched f) (f_sd f).

Definition with_w (f : frame) (w : world) : frame := mkFrame w (f_touched f) (f_sd f).

(* createAccountIfNotExists: NewAccountWithAddress takes the next account number *)
Definition ensure_account (w : world) (a : addr) : world :=
  match w_acc w a with
  | Some _ => w
  | None => mkWorld (upd (w_acc w) a (Some (mkAcc Base 0 (w_next w)))) (w_bal w) (w_code w) (w_stor w) (w_next w + 1)
  end.

Definition kind_at (w : world) (a : addr) : kind :=
  match w_acc w a with Some ac => a_kind ac | None => Base end.

(* bank subUnlockedCoins for one coin: error (-> panic in burnCoins) if the locked amount exceeds the
   balance or the spendable balance is smaller than v *)
Definition bank_sub (e : env) (w : world) (a : addr) (d : denom) (v : Z) : res world :=
  let b := amt (w_bal w a) d in
  let l := locked_kind (kind_at w a) (e_now e) d in
  if b <? l then Panic
  else if b - l <? v then Panic
  else Ok (mkWorld (w_acc w) (upd (w_bal w) a (set_amt (w_bal w a) d (b - v))) (w_code w) (w_stor w) (w_next w)).

(* mintCoins of one coin: MintCoins(evm) then SendCoinsFromModuleToAccount: refused for blocked
   addresses; SendCoins creates the recipient account when it does not exist; sdkmath.Int overflow panics *)
Definition bank_add (e : env) (w : world) (a : addr) (d : denom) (v : Z) : res world :=
  if e_blocked e a then Panic
  else
    let b := amt (w_bal w a) d in
    if MAX256 <? b + v then Panic
    else Ok (ensure_account (mkWorld (w_acc w) (upd (w_bal w) a (set_amt (w_bal w a) d (b + v))) (w_code w) (w_stor w) (w_next w)) a).

(* DestroyAccount *)
Definition destroy (e : env) (w : world) (a : addr) : res world :=
  let removed :=
    match w_acc w a with
    | Some ac => if protected_kind (a_kind ac) (e_now e) then Panic else Ok (upd (w_acc w) a None)
    | None => Ok (w_acc w)
    end in
  bind removed (fun acc' =>
    (* burn every balance (the auth account is already gone, nothing is locked); delete code hash; delete all slots *)
    Ok (mkWorld acc' (upd (w_bal w) a []) (upd (w_code w) a 0) (upd (w_stor w) a []) (w_next w))).

(* CreateAccount *)
Definition create_account (e : env) (f : frame) (a : addr) : res frame :=
  let f := touch f a in
  let existing := w_bal (f_w f) a in
  bind (destroy e (f_w f) a) (fun w1 =>
    let w2 := ensure_account w1 a in
    if all_zero existing then Ok (with_w f w2)
    else if e_blocked e a then Panic
    else Ok (with_w f (mkWorld (w_acc w2) (upd (w_bal w2) a existing) (w_code w2) (w_stor w2) (w_next w2)))).

(* sdkmath.NewIntFromBigInt / sdk.NewCoin panic outside 0..2^256-1 *)
Definition amount_ok (v : Z) : bool := (0 <=? v) && (v <=? MAX256).

Definition sub_balance (e : env) (f : frame) (a : addr) (v : Z) : res frame :=
  let f := touch f a in
  if v =? 0 then Ok f
  else if negb (amount_ok v) then Panic
  else bind (bank_sub e (f_w f) a evm_denom v) (fun w => Ok (with_w f w)).

Definition add_balance (e : env) (f : frame) (a : addr) (v : Z) : res frame :=
  let f := touch f a in
  if v =? 0 then Ok f
  else if negb (amount_ok v) then Panic
  else bind (bank_add e (f_w f) a evm_denom v) (fun w => Ok (with_w f w)).

Definition set_acc (w : world) (a : addr) (ac : account) : world :=
  mkWorld (upd (w_acc w) a (Some ac)) (w_bal w) (w_code w) (w_stor w) (w_next w).

Definition set_nonce (f : frame) (a : addr) (n : Z) : frame :=
  let f := touch f a in
  let w := ensure_account (f_w f) a in
  match w_acc w a with
  | Some ac => with_w f (set_acc w a (mkAcc (a_kind ac) n (a_num ac)))
  | None => with_w f w (* unreachable: ensure_account *)
  end.

Definition set_code (f : frame) (a : addr) (c : Z) : frame :=
  let f := touch f a in
  let w := ensure_account (f_w f) a in
  with_w f (mkWorld (w_acc w) (w_bal w) (upd (w_code w) a c) (w_stor w) (w_next w)).

Definition set_state (f : frame) (a : addr) (k v : Z) : frame :=
  let f := touch f a in
  let w := ensure_account (f_w f) a in
  with_w f (mkWorld (w_acc w) (w_bal w) (w_code w) (upd (w_stor w) a (set_slot (w_stor w a) k v)) (w_next w)).

Definition suicide (e : env) (f : frame) (a : addr) : res frame :=
  let f := touch f a in
  match w_acc (f_w f) a with
  | None => Ok f
  | Some _ =>
      let f := mkFrame (f_w f) (f_touched f) (a :: f_sd f) in
      let b := amt (w_bal (f_w f) a) evm_denom in
      if b =? 0 then Ok f else sub_balance e f a b
  end.

Definition nonce_at (w : world) (a : addr) : Z :=
  match w_acc w a with Some ac => a_nonce ac | None => 0 end.

Definition exist (f : frame) (a : addr) : bool :=
  mem a (f_sd f) || match w_acc (f_w f) a with Some _ => true | None => false end.

(* IsEmptyAccount: no code, every balance zero, sequence zero (or no account), no storage slot *)
Definition is_empty (w : world) (a : addr) : bool :=
  (w_code w a =? 0) && all_zero (w_bal w a) && (nonce_at w a =? 0)
  && match w_stor w a with [] => true | _ => false end.

(* ------------------------------------------------------------------ operations *)

Inductive op :=
| CreateAccount (a : addr)
| DestroyAccount (a : addr)                 (* exported on CStateDB; not called by the EVM *)
| AddBalance (a : addr) (v : Z)
| SubBalance (a : addr) (v : Z)
| SetNonce (a : addr) (n : Z)
| SetCode (a : addr) (c : Z)
| SetState (a : addr) (k v : Z)
| Suicide (a : addr)
| Snapshot
| RevertTo (i : Z).

(* operations on the current frame (everything except Snapshot / RevertToSnapshot) *)
Definition fstep (e : env) (f : frame) (o : op) : res frame :=
  match o with
  | CreateAccount a => create_account e f a
  | DestroyAccount a => bind (destroy e (f_w f) a) (fun w => Ok (with_w f w))
  | AddBalance a v => add_balance e f a v
  | SubBalance a v => sub_balance e f a v
  | SetNonce a n => Ok (set_nonce f a n)
  | SetCode a c => Ok (set_code f a c)
  | SetState a k v => Ok (set_state f a k v)
  | Suicide a => suicide e f a
  | Snapshot | RevertTo _ => Ok f
  end.

Definition step (e : env) (s : sdb) (o : op) : res sdb :=
  match o with
  | Snapshot => Ok (mkSdb (cur s) (snaps s ++ [cur s]))
  | RevertTo i =>
      (* snapshot i stays valid after the revert; an unknown id panics (index out of range / id < 0) *)
      if i <? 0 then Panic
      else match nth_error (snaps s) (Z.to_nat i) with
           | Some f' => Ok (mkSdb f' (firstn (S (Z.to_nat i)) (snaps s)))
           | None => Panic
           end
  | _ => match fstep e (cur s) o with
         | Ok f => Ok (mkSdb f (snaps s))
         | Panic => Panic
         end
  end.

Fixpoint run_ops (e : env) (s : sdb) (l : list op) : res sdb :=
  match l with
  | [] => Ok s
  | o :: r => bind (step e s o) (fun s' => run_ops e s' r)
  end.

(* What the EVM interpreter guarantees about its StateDB calls (go-ethereum fork core/vm/evm.go):
   CreateAccount(a) is called by evm.Call only when !Exist(a), and by evm.create only after the collision
   check (nonce 0 and no code); DestroyAccount is never called by the interpreter. *)
Definition create_guard (f : frame) (a : addr) : bool :=
  negb (exist f a) || ((nonce_at (f_w f) a =? 0) && (w_code (f_w f) a =? 0)).

Definition evm_step_ok (f : frame) (o : op) : bool :=
  match o with
  | CreateAccount a => create_guard f a
  | DestroyAccount _ => false
  | _ => true
  end.

Fixpoint evm_trace (e : env) (s : sdb) (l : list op) : bool :=
  match l with
  | [] => true
  | o :: r => evm_step_ok (cur s) o &&
              match step e s o with
              | Ok s' => evm_trace e s' r
              | Panic => true
              end
  end.

(* ------------------------------------------------------------------ commit *)

Fixpoint insert_sorted (a : addr) (l : list addr) : list addr :=
  match l with
  | [] => [a]
  | x :: r => if a <? x then a :: l else if a =? x then l else x :: insert_sorted a r
  end.

(* the distinct touched addresses in ascending order *)
Definition sort_addrs (l : list addr) : list addr := fold_right insert_sorted [] l.

(* CommitMultiStore(deleteEmptyObjects = true): the loop; every destroyed account with a balance emits
   one bank burn ([burns]: address and coins, in loop order) *)
Fixpoint commit_loop (e : env) (sd : list addr) (w : world) (burns : list (addr * coins)) (l : list addr)
  : res (world * list (addr * coins)) :=
  match l with
  | [] => Ok (w, burns)
  | a :: r =>
      if mem a sd || is_empty w a then
        bind (destroy e w a) (fun w' =>
          commit_loop e sd w' (if all_zero (w_bal w a) then burns else burns ++ [(a, w_bal w a)]) r)
      else commit_loop e sd w burns r
  end.

Definition commit (e : env) (f : frame) : res (world * list (addr * coins)) :=
  commit_loop e (f_sd f) (f_w f) [] (sort_addrs (f_touched f)).

Definition init_sdb (w : world) : sdb := mkSdb (mkFrame w [] []) [].

(* a whole transaction at the StateDB level: operations, then commit; a panic anywhere fails the
   transaction as a whole (BaseApp drops the message cache: the world is unchanged) *)
Inductive txres := TxOk (w : world) (burns : list (addr * coins)) | TxFailed.

Definition run_tx (e : env) (w : world) (l : list op) : txres :=
  match run_ops e (init_sdb w) l with
  | Panic => TxFailed
  | Ok s => match commit e (cur s) with
            | Panic => TxFailed
            | Ok (w', b) => TxOk w' b
            end
  end.
