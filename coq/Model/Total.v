(* C20 — the map of panic sites reachable from user input, the guards that precede them and the recover
   boundaries around them, as an executable pipeline per ABCI phase.

   Boundaries (cosmos-sdk v0.50.10 baseapp): runTx recovers everything from the tx decoder to the post handler
   (baseapp.go:839); PrepareProposal (abci.go:418), ProcessProposal (abci.go:507) and Query (abci.go:155) recover;
   FinalizeBlock / internalFinalizeBlock do NOT: preBlock, beginBlock, the outer txDecoder call per raw tx
   (abci.go:801) and endBlock run unrecovered.  A panic in the ante handler drops the ante cache (no fee, no
   nonce, no transient counters); a panic in message execution drops the message cache only.

   A stage returns Cont / Rej code / Pan site.  Every [Pan] constructor below is a place where the Go code
   panics (explicit panic, Must..., unchecked index, nil dereference, big.Int division); the stage code shows
   the guards in front of it in program order.  External results (does the byte string decode, does the embedded
   payload decode, what did the EVM do) are fields of the input: oracle arguments, observed by the driver.
   The Ethereum lane after basic validation is Model/TxPipe.v (read-only reuse).  Executable Gallina only. *)
From Evm Require Export BaseFee TxPipe.

Inductive site :=
| S_Decoder              (* tx decoder (SDK code; assumed to return errors, exercised by the driver) *)
| S_AsTransaction        (* x/evm/types/msg.go:278 AsTransaction on undecodable MarshalledTx *)
| S_MustBech32From       (* msg.go:271 GetFrom / msg_server.go:38 MustAccAddressFromBech32(msg.From) *)
| S_FeeTipNil            (* duallane/07_deduct_fee.go:106 gasTipCap.IsNegative() on a nil Int *)
| S_FeeQuoZeroGas        (* 07_deduct_fee.go:110 / :248 division by gas = 0 *)
| S_FeesIndex            (* 07_deduct_fee.go:245 fees[0] on empty coins (effective fee zero) *)
| S_VestingBech32        (* cosmoslane/993c:47 MustAccAddressFromBech32(ToAddress) *)
| S_VauthProofSave       (* x/vauth msg server :54 panic(err) (upper-case hex signature) *)
| S_StateDbBank          (* x/evm/vm/state_db.go bank-error panics during EVM execution *)
| S_CpcShortInput        (* x/cpc/keeper/precompiles.go:193 input shorter than 4 bytes *)
| S_CpcSelector          (* precompiles.go:196 selector mismatch *)
| S_TraceNilMsg          (* grpc_query.go:447 req.Msg.AsTransaction() with nil Msg *)
| S_TraceDecode          (* grpc_query.go:422/447/516 AsTransaction on unvalidated messages *)
| S_OutOfGas             (* store gas meter ErrorOutOfGas (recovered into ErrOutOfGas, code 11) *)
| S_ReceiptMissing       (* x/evm/keeper/keeper.go:276 receipt not found for a counted tx (EndBlock) *)
| S_BaseFeeDivZero       (* x/feemarket EndBlock: gas target zero (removed by 97319a9) *)
| S_BaseFeeOverflow.     (* x/feemarket/keeper/eip1559.go:91 NewIntFromBigInt above 2^256-1 (EndBlock) *)

Inductive boundary := B_runTx | B_Query | B_Prepare | B_Process.

Inductive verdict :=
| VOk (failed : bool)                         (* accepted / executed; failed = the EVM execution reverted *)
| VRejected (code : Z)                        (* an error was returned *)
| VPanicRecovered (s : site) (b : boundary)   (* a panic, turned into an error by the boundary around it *)
| VCrash (s : site).                          (* a panic outside every boundary: node crash / chain halt *)

Inductive sres (A : Type) := Cont (a : A) | Rej (code : Z) | Pan (s : site).
Arguments Cont {A}. Arguments Rej {A}. Arguments Pan {A}.

Definition bind {A B} (r : sres A) (f : A -> sres B) : sres B :=
  match r with Cont a => f a | Rej c => Rej c | Pan s => Pan s end.
Notation "x <- r ;; k" := (bind r (fun x => k)) (at level 61, r at next level, right associativity).
Definition guard (b : bool) (code : Z) : sres unit := if b then Cont tt else Rej code.
Definition site_if (b : bool) (s : site) : sres unit := if b then Pan s else Cont tt.

(* what a boundary makes of a stage result *)
Definition within (b : option boundary) (r : sres verdict) : verdict :=
  match r with
  | Cont v => v
  | Rej c => VRejected c
  | Pan s => match b with Some bd => VPanicRecovered s bd | None => VCrash s end
  end.

Inductive xmode := MCheck | MReCheck | MDeliver | MSimulate.

(* ------------------------------------------------------------------ Ethereum lane *)
Record eth_in := mkEth {
  e_from_ok : bool;          (* From is valid bech32 *)
  e_payload_ok : bool;       (* MarshalledTx decodes (UnmarshalBinary) *)
  e_fields_ok : bool;        (* msg.go validateBasic: gas bounds, price / cap / tip / value ranges, fee <= 2^256-1, chain id *)
  e_envelope_ok : bool;      (* dual-lane 02/03: extension option, no signer infos / signatures / payer, fee = NewCoins(EthTxFee), gas limit *)
  e_env_fee_len : Z;         (* number of coins in the envelope fee *)
  e_denom_ok : bool;
  e_tx : txd;                (* the decoded transaction (meaningful when the three checks above pass) *)
  e_out : evm_out;           (* what the interpreter did (oracle) *)
  e_exec_panic : bool        (* the execution hit a StateDB bank-error panic *)
}.

(* MsgEthereumTx.ValidateBasic, run by baseapp validateBasicTxMsgs before the ante handler in every mode *)
Definition eth_validate_basic (e : eth_in) : sres unit :=
  _ <- guard (e_from_ok e) 7 ;;          (* sdk.AccAddressFromBech32 returns an error: invalid address *)
  _ <- guard (e_payload_ok e) 2 ;;       (* ethTx.UnmarshalBinary error *)
  guard (e_fields_ok e) 18.

(* the panicking accessors, as the later stages call them *)
Definition as_transaction (e : eth_in) : sres unit := site_if (negb (e_payload_ok e)) S_AsTransaction.
Definition get_from (e : eth_in) : sres unit := site_if (negb (e_from_ok e)) S_MustBech32From.

(* EthereumTxFeeChecker (07_deduct_fee.go:167): validateSingleFee, AsTransaction, NewCoins(effective fee), getTxPriority *)
Definition eth_fee_checker (base : Z) (e : eth_in) : sres unit :=
  _ <- guard (e_env_fee_len e =? 1) 10 ;;
  _ <- guard (e_denom_ok e) 10 ;;
  _ <- as_transaction e ;;
  let t := e_tx e in
  let eff_fee := t_gas t * eff_price (t_dyn t) base (t_tip t) (t_cap t) (t_price t) in
  _ <- site_if (eff_fee =? 0) S_FeesIndex ;;      (* sdk.NewCoins drops a zero coin; fees[0] *)
  _ <- site_if (t_gas t =? 0) S_FeeQuoZeroGas ;;  (* QuoRaw(gas) *)
  Cont tt.

Definition class_of_outcome (o : outcome) : verdict :=
  match o with
  | Dropped => VRejected 11
  | RejAnte c => VRejected c
  | CoreErr => VRejected 0                (* a consensus-level error of the state transition; the code is not modelled *)
  | BlockGasExceeded => VRejected 11
  | Executed vmerr => VOk vmerr
  end.

(* the stages in front of the state-dependent part: validateBasicTxMsgs and the ante decorators 03, 03e, 07 (fee checker) *)
Definition eth_pre (m : xmode) (base : Z) (e : eth_in) : sres unit :=
  _ <- eth_validate_basic e ;;
  (* ante: 03 (skipped on recheck) *)
  _ <- (match m with MReCheck => Cont tt | _ => _ <- guard (e_envelope_ok e) 18 ;; as_transaction e end) ;;
  (* 03e *)
  _ <- get_from e ;;
  (* 07 fee checker runs before the price / balance rejections of the SDK decorator *)
  (match m with MSimulate => Cont tt | _ => eth_fee_checker base e end).

(* one Ethereum-lane transaction inside runTx (decode already done) *)
Definition eth_run (m : xmode) (s : st) (e : eth_in) : sres verdict :=
  _ <- eth_pre m (base_fee s) e ;;
  (* 11, 12, 991e, 992e, message server: accessors again, then the pipeline of TxPipe *)
  _ <- get_from e ;;
  _ <- as_transaction e ;;
  let '(_, r) := deliver s (e_tx e) (e_out e) in
  match r_out r with
  | Executed _ => _ <- site_if (e_exec_panic e) S_StateDbBank ;; Cont (class_of_outcome (r_out r))
  | o => Cont (class_of_outcome o)
  end.

(* ------------------------------------------------------------------ Cosmos lane *)
Inductive cmsg :=
| MPlain (ok : bool)                      (* any message whose handler returns (ok) or returns an error *)
| MVesting (to_ok : bool) (ok : bool)     (* MsgCreate*VestingAccount: ToAddress valid bech32? *)
| MVauth (sig_lower : bool) (ok : bool).  (* MsgSubmitProofExternalOwnedAccount: signature hex in lower case? *)

Record cos_in := mkCos {
  c_basic_ok : bool;         (* validateBasicTxMsgs + tx.ValidateBasic (messages non-empty and valid, gas <= 2^63-1, fee coins non-negative, signatures present) *)
  c_ext_ok : bool;           (* extension options accepted by the checker *)
  c_gas : Z;                 (* gas limit *)
  c_block_max_gas : Z;       (* consensus max_gas *)
  c_size_gas : Z;            (* gas consumed up to and including the tx-size decorator *)
  c_fees_len : Z;
  c_denom_ok : bool;
  c_fee : Z;                 (* amount of the single fee coin *)
  c_dyn : option (option Z); (* ExtensionOptionDynamicFeeTx: absent / present with nil tip / present with tip *)
  c_min_price : Z;           (* minimum gas price allowed in this mode *)
  c_base : Z;                (* base fee *)
  c_payer_ok : bool;         (* fee payer exists and can pay *)
  c_sigs_ok : bool;          (* pubkey / signature count / signature / sequence decorators pass *)
  c_ante_gas_ok : bool;      (* the ante handler's remaining gas consumption fits the limit *)
  c_msg : cmsg;
  c_msg_gas_ok : bool        (* message execution fits the gas limit *)
}.

(* CosmosTxFeeChecker (07_deduct_fee.go:64) *)
Definition cos_fee_checker (c : cos_in) : sres unit :=
  _ <- guard (c_fees_len c =? 1) 10 ;;
  _ <- guard (c_denom_ok c) 10 ;;
  eff <- (match c_dyn c with
          | None => Cont (c_fee c)
          | Some None => Pan S_FeeTipNil
          | Some (Some tip) =>
              _ <- guard (0 <=? tip) 13 ;;
              _ <- site_if (c_gas c =? 0) S_FeeQuoZeroGas ;;
              let cap := c_fee c / c_gas c in
              Cont (Z.min (tip + c_base c) cap * c_gas c)
          end) ;;
  _ <- site_if ((eff =? 0) && (match c_dyn c with None => false | _ => true end)) S_FeesIndex ;;
  _ <- site_if (c_gas c =? 0) S_FeeQuoZeroGas ;;
  guard (c_min_price c <=? eff / c_gas c) 13.

Definition cos_msg (c : cos_in) : sres verdict :=
  match c_msg c with
  | MPlain ok => if ok then Cont (VOk false) else Rej 1
  | MVesting _ ok => if ok then Cont (VOk false) else Rej 1
  | MVauth lower ok => if ok then (_ <- site_if (negb lower) S_VauthProofSave ;; Cont (VOk false)) else Rej 1
  end.

Definition cos_run (m : xmode) (c : cos_in) : sres verdict :=
  _ <- guard (c_basic_ok c) 18 ;;
  (* 01 setup: gas limit against the block *)
  _ <- guard (negb ((0 <? c_block_max_gas c) && (c_block_max_gas c <? c_gas c))) 41 ;;
  _ <- guard (c_ext_ok c) 31 ;;
  (* 06 tx size *)
  _ <- site_if (match m with MSimulate => false | _ => c_gas c <? c_size_gas c end) S_OutOfGas ;;
  (* 07: gas must be positive, then the fee checker *)
  _ <- (match m with MSimulate => Cont tt | _ => _ <- guard (0 <? c_gas c) 41 ;; cos_fee_checker c end) ;;
  _ <- guard (c_payer_ok c) 5 ;;
  _ <- guard (c_sigs_ok c) 4 ;;
  _ <- site_if (negb (c_ante_gas_ok c)) S_OutOfGas ;;
  (* 993c vesting authorization *)
  _ <- (match c_msg c with MVesting to_ok _ => site_if (negb to_ok) S_VestingBech32 | _ => Cont tt end) ;;
  match m with
  | MCheck | MReCheck => Cont (VOk false)          (* messages are not executed in check mode *)
  | _ => _ <- site_if (negb (c_msg_gas_ok c)) S_OutOfGas ;; cos_msg c
  end.

(* ------------------------------------------------------------------ raw transactions and phases *)
Inductive lane_in :=
| LEth (e : eth_in)
| LCosmos (c : cos_in)
| LOpaque (v : verdict).     (* decodable, but of no modelled shape: the verdict is whatever runTx returned (observed) *)

Record raw_in := mkRaw { r_decodes : bool; r_lane : lane_in }.

Definition decode (r : raw_in) : sres lane_in := if r_decodes r then Cont (r_lane r) else Rej 2.

Definition lane_run (m : xmode) (s : st) (l : lane_in) : sres verdict :=
  match l with
  | LEth e => eth_run m s e
  | LCosmos c => cos_run m c
  | LOpaque v => match v with VCrash x => Pan x | _ => Cont v end   (* a panic inside runTx is recovered, whatever it is *)
  end.

(* baseapp.runTx: decoder, validation, ante and messages under one recover *)
Definition run_tx (m : xmode) (s : st) (r : raw_in) : verdict :=
  within (Some B_runTx) (l <- decode r ;; lane_run m s l).

Inductive phase := PCheckTx | PReCheckTx | PPrepare | PProcess | PFinalize | PSimulate.

(* verdict for one raw transaction offered in a phase *)
Definition phase_tx (p : phase) (s : st) (r : raw_in) : verdict :=
  match p with
  | PCheckTx => run_tx MCheck s r
  | PReCheckTx => run_tx MReCheck s r
  | PSimulate => run_tx MSimulate s r
  | PPrepare =>     (* DefaultProposalHandler with the no-op mempool: decode and select; under PrepareProposal's recover *)
      within (Some B_Prepare) (_ <- decode r ;; Cont (VOk false))
  | PProcess =>     (* NoOpProcessProposal: accept; under ProcessProposal's recover *)
      within (Some B_Process) (Cont (VOk false))
  | PFinalize =>    (* internalFinalizeBlock: decode OUTSIDE any recover, then deliverTx = runTx *)
      match decode r with
      | Rej c => VRejected c
      | Pan x => VCrash x
      | Cont _ => run_tx MDeliver s r
      end
  end.

(* ------------------------------------------------------------------ queries *)
Inductive query_in :=
| QPlain (ok : bool)                                  (* handlers that validate their arguments and return errors *)
| QTraceTx (msg_present msg_decodes preds_decode : bool) (ok : bool)
| QEthCall (args_ok : bool) (exec_panic : bool) (ok : bool).

Definition query_run (q : query_in) : sres verdict :=
  match q with
  | QPlain ok => if ok then Cont (VOk false) else Rej 1
  | QTraceTx present dec preds ok =>
      _ <- site_if (negb preds) S_TraceDecode ;;
      _ <- site_if (negb present) S_TraceNilMsg ;;
      _ <- site_if (negb dec) S_TraceDecode ;;
      if ok then Cont (VOk false) else Rej 1
  | QEthCall args_ok pan ok =>
      _ <- guard args_ok 3 ;;
      _ <- site_if pan S_StateDbBank ;;
      if ok then Cont (VOk false) else Rej 1
  end.
Definition query (q : query_in) : verdict := within (Some B_Query) (query_run q).

(* ------------------------------------------------------------------ custom precompile call (inside the EVM, inside runTx/Query) *)
(* go-ethereum fork core/vm/interpreter_evermint.go: len(input) < 4 -> revert; unknown selector -> revert;
   then x/cpc/keeper/precompiles.go:190 re-checks both with panics *)
Definition cpc_call (input_len : Z) (selector_known : bool) (args_ok : bool) (method_ok : bool) : sres bool :=
  if input_len <? 4 then Cont true                        (* ErrExecutionReverted *)
  else if negb selector_known then Cont true
  else
    _ <- site_if (input_len <? 4) S_CpcShortInput ;;
    _ <- site_if (negb selector_known) S_CpcSelector ;;
    if negb args_ok then Cont true                        (* ABI unpack error -> vm error *)
    else Cont (negb method_ok).

(* ------------------------------------------------------------------ pending-transaction consumers (goroutines, NO recover) *)
(* rpc/namespaces/ethereum/eth/filters/api.go (NewPendingTransactionFilter, NewPendingTransactions) and
   rpc/websockets.go (subscribePendingTransactions) receive CometBFT's Tx event for EVERY transaction of a committed
   block, also for those that failed in FinalizeBlock; since 2da7e09 they look at the first message only if there is
   one and call AsTransaction only after ValidateBasic succeeded *)
Definition rpc_pending (decodes has_msgs is_eth valid_basic : bool) : verdict :=
  within None (
    _ <- guard decodes 2 ;;
    _ <- guard has_msgs 0 ;;
    _ <- guard is_eth 0 ;;
    _ <- guard valid_basic 0 ;;
    _ <- site_if (negb valid_basic) S_AsTransaction ;;
    Cont (VOk false)).

(* ------------------------------------------------------------------ begin / end of block (NO recover) *)
(* transient bookkeeping of x/evm: 991e SetupExecutionContext increments the tx counter and stores the assumed-failed
   receipt in the same (ante) cache; the cache is written only when the whole ante handler succeeded *)
Record blk := mkBlk { b_count : nat; b_receipts : list nat }.
Definition blk0 : blk := mkBlk 0 [].
Definition setup_exec (b : blk) : blk := mkBlk (S (b_count b)) (b_count b :: b_receipts b).

(* effect of one transaction on the transient bookkeeping: only a committed Ethereum-lane ante reaches 991e *)
Definition ante_committed (v : verdict) (is_eth : bool) (ante_passed : bool) : bool := is_eth && ante_passed.
Definition blk_step (b : blk) (eth_ante_committed : bool) : blk := if eth_ante_committed then setup_exec b else b.

Definition evm_end_block (b : blk) : sres unit :=
  if forallb (fun i => existsb (Nat.eqb i) (b_receipts b)) (seq 0 (b_count b)) then Cont tt else Pan S_ReceiptMissing.

Definition feemarket_end_block (base used max_gas min_dec : Z) : sres Z :=
  match calc_base_fee base used max_gas min_dec with
  | Ok z => Cont z
  | PanicDivZero => Pan S_BaseFeeDivZero
  | PanicOverflow => Pan S_BaseFeeOverflow
  end.

Definition end_block (b : blk) (base used max_gas min_dec : Z) : verdict :=
  within None (_ <- evm_end_block b ;; z <- feemarket_end_block base used max_gas min_dec ;; Cont (VOk false)).

(* ------------------------------------------------------------------ observable classes (driver) *)
(* 0 accepted/executed, 1 error returned (the SDK turns the gas meter's out-of-gas panic into ErrOutOfGas: an error),
   2 panic recovered (SDK ErrPanic 111222), 4 crash *)
Definition class_of (v : verdict) : Z :=
  match v with
  | VOk _ => 0
  | VRejected _ => 1
  | VPanicRecovered S_OutOfGas _ => 1
  | VPanicRecovered _ _ => 2
  | VCrash _ => 4
  end.
