(* Generic executable semantics of goroutines over shared data, sync.RWMutex locks and a crash flag.
   Used by Model/PubSub.v (rpc/ethereum/pubsub/pubsub.go) and Model/FilterSys.v
   (rpc/namespaces/ethereum/eth/filters/filter_system.go).

   A thread is a program counter [PC]; [code pc] is the instruction it executes next:
     Acq m md k   sync.RWMutex m .Lock() (md = MW) / .RLock() (md = MR); blocks while the lock is not available
     Rel m md k   .Unlock() / .RUnlock(); releasing a lock that is not held is Go's fatal error (a crash)
     Act g f      an action on the shared data, enabled iff the guard [g] holds (blocking channel operations
                  are guards); [f] returns the new data, the next pc, the goroutines it starts (go f())
                  and possibly a crash (send on closed channel, close of closed channel)
     Halt         the goroutine returned.
   The scheduler is the step RELATION below: any thread whose instruction is enabled may move, the
   environment may change the data (instance-specific relation) and may start client goroutines at any time.
   Go's RWMutex blocks new readers while a writer waits; that only removes schedules, so every safety
   statement proved for this relation holds for Go's. A crashed process makes no further step. *)
From Coq Require Export List Arith Bool.
Export ListNotations.

Inductive mode := MR | MW.
Record rw := mkRw { wr : option nat; rd : list nat }.
Definition rw0 : rw := mkRw None [].

Definition acquire (r : rw) (md : mode) (i : nat) : option rw :=
  match md with
  | MW => match wr r, rd r with None, [] => Some (mkRw (Some i) []) | _, _ => None end
  | MR => match wr r with None => Some (mkRw None (i :: rd r)) | Some _ => None end
  end.

Fixpoint remove1 (i : nat) (l : list nat) : option (list nat) :=
  match l with
  | [] => None
  | h :: t => if Nat.eqb h i then Some t else option_map (cons h) (remove1 i t)
  end.

Definition release (r : rw) (md : mode) (i : nat) : option rw :=
  match md with
  | MW => match wr r with
          | Some j => if Nat.eqb j i then Some (mkRw None (rd r)) else None
          | None => None
          end
  | MR => option_map (mkRw (wr r)) (remove1 i (rd r))
  end.

Fixpoint upd {A} (l : list A) (i : nat) (p : A) : list A :=
  match l, i with
  | [], _ => []
  | _ :: t, O => p :: t
  | h :: t, S j => h :: upd t j p
  end.

Section Conc.
  Variables PC D M E : Type.
  Variable M_eqb : M -> M -> bool.

  Inductive instr :=
  | Acq (m : M) (md : mode) (k : PC)
  | Rel (m : M) (md : mode) (k : PC)
  | Act (g : D -> bool) (f : D -> D * PC * list PC * option E)
  | Halt.

  Variable code : PC -> instr.
  Variable bad_unlock : E.

  Record state := mkSt { dat : D; mux : M -> rw; thr : list PC; err : option E }.

  Definition setm (f : M -> rw) (m : M) (r : rw) : M -> rw := fun x => if M_eqb x m then r else f x.

  (* one move of thread i; None = not enabled (blocked, finished, no such thread, or the process crashed) *)
  Definition tstep (s : state) (i : nat) : option state :=
    match err s with
    | Some _ => None
    | None =>
      match nth_error (thr s) i with
      | None => None
      | Some p =>
        match code p with
        | Acq m md k =>
            match acquire (mux s m) md i with
            | Some r => Some (mkSt (dat s) (setm (mux s) m r) (upd (thr s) i k) None)
            | None => None
            end
        | Rel m md k =>
            match release (mux s m) md i with
            | Some r => Some (mkSt (dat s) (setm (mux s) m r) (upd (thr s) i k) None)
            | None => Some (mkSt (dat s) (mux s) (thr s) (Some bad_unlock))
            end
        | Act g f =>
            if g (dat s) then
              match f (dat s) with
              | (d, k, sp, e) => Some (mkSt d (mux s) (upd (thr s) i k ++ sp) e)
              end
            else None
        | Halt => None
        end
      end
    end.

  (* environment: data changes made by code outside the modelled component (instance-specific relation)
     and client goroutines entering at any time *)
  Variable env : D -> D -> Prop.
  Variable client : PC -> Prop.

  Inductive step : state -> state -> Prop :=
  | step_thread : forall s i s', tstep s i = Some s' -> step s s'
  | step_env : forall s d', err s = None -> env (dat s) d' -> step s (mkSt d' (mux s) (thr s) None)
  | step_spawn : forall s p, err s = None -> client p -> step s (mkSt (dat s) (mux s) (thr s ++ [p]) None).

  Inductive reach (s0 : state) : state -> Prop :=
  | reach_refl : reach s0 s0
  | reach_step : forall s s', reach s0 s -> step s s' -> reach s0 s'.

  (* thread i waits for a lock that thread j holds *)
  Definition waits_for (s : state) (i j : nat) : Prop :=
    exists p m md k, nth_error (thr s) i = Some p /\ code p = Acq m md k /\
      acquire (mux s m) md i = None /\ (wr (mux s m) = Some j \/ In j (rd (mux s m))).

  (* deterministic scheduler used for sequential histories: run thread i until it is no longer enabled *)
  Fixpoint run_thread (fuel : nat) (s : state) (i : nat) : state :=
    match fuel with
    | O => s
    | S f => match tstep s i with Some s' => run_thread f s' i | None => s end
    end.

  (* round-robin over all threads until nobody moved during a whole round (or fuel is exhausted) *)
  Fixpoint round (s : state) (i n : nat) (fuel : nat) : state :=
    match n with
    | O => s
    | S n' => round (run_thread fuel s i) (S i) n' fuel
    end.

  Fixpoint quiesce (rounds : nat) (fuel : nat) (s : state) : state :=
    match rounds with
    | O => s
    | S r => quiesce r fuel (round s 0 (length (thr s)) fuel)
    end.
End Conc.

Arguments Acq {PC D M E}.
Arguments Rel {PC D M E}.
Arguments Act {PC D M E}.
Arguments Halt {PC D M E}.
Arguments mkSt {PC D M E}.
Arguments dat {PC D M E}.
Arguments mux {PC D M E}.
Arguments thr {PC D M E}.
Arguments err {PC D M E}.
