(* C11 — the staking precompile (ESIP-179) as a wrapper around the native staking and distribution message servers.

   Modelled, following x/cpc/keeper/precompiles_staking.go (+ x/cpc/abi/precompiled_info.go Validate, x/cpc/eip712/typed.go
   VerifySignature) line by line where it matters:
     - who the `caller` of a precompile call is (go-ethereum fork: opCall/opCallCode/opDelegateCall/opStaticCall all pass
       scope.Contract, whose Address() is the executing frame's context address),
     - decode -> guards -> native message(s) with delegator := caller -> logs from the NEW module events
       (autoEmitEventsFromSdkEvents), "all or nothing" (an error anywhere reverts the whole call),
     - withdrawRewards' filter (only validators whose truncated reward >= 10^decimals/1000), transfer's validator choice,
     - amounts as COIN LISTS: the `amount` attribute of a module event and the rewards the distribution queriers report
       may hold several denominations (a validator's rewards pool is filled by block rewards in the bond denom and, with
       the permissionless MsgDepositValidatorRewardsPool, in any other denom); the precompile parses the whole list
       (sdk.ParseCoinsNormalized) and speaks of the bond denom's amount only (Coins.AmountOf(bondDenom)),
     - view methods as functions of the state AT THE POINT of the call, also between the state-changing calls of one
       transaction (the contract object keeps nothing between calls but the constant metadata).
   NOT modelled (Section variables, tied to the real modules by the twin-chain driver): x/staking, x/distribution and x/bank
   themselves ([native_step], the queries), ecrecover/keccak/EIP-712 encoding ([recover], [typed_hash]), ABI decoding
   (a call arrives decoded; malformed calldata is covered by the driver's outcome classes only), gas. *)
From Coq Require Import List ZArith Bool.
Import ListNotations.
Open Scope Z_scope.

(* addresses (accounts, validators: the 20 bytes) are numbers *)

(* ---------------------------------------------------------------- who is the caller *)

(* One frame entered on the way from the transaction sender to the precompile call: the opcode used and the address
   whose code runs. CALL / STATICCALL switch the context address to the callee; DELEGATECALL / CALLCODE run the callee's
   code in the current context. *)
Inductive hop := HCall (callee : Z) | HStatic (callee : Z) | HDelegate (code_at : Z) | HCallCode (code_at : Z).

Definition ctx_step (ctx : Z) (h : hop) : Z :=
  match h with HCall a | HStatic a => a | HDelegate _ | HCallCode _ => ctx end.

(* evm.go: every one of Call/CallCode/DelegateCall/StaticCall hands `caller` = the executing contract object to
   RunPrecompiledContract, whatever opcode reaches the precompile; its Address() is the frame's context address. *)
Definition precompile_caller (tx_sender : Z) (path : list hop) : Z := fold_left ctx_step path tx_sender.

(* ---------------------------------------------------------------- coins *)

(* sdk.Coins as sdk.ParseCoinsNormalized returns them: (denomination, amount) pairs with pairwise distinct denominations.
   Denominations are numbers; the bond denom is 0. *)
Definition coins := list (Z * Z).
Definition BOND : Z := 0.

(* Coins.AmountOf(denom): the amount of that denomination, 0 if absent *)
Fixpoint amount_of (d : Z) (c : coins) : Z :=
  match c with
  | [] => 0
  | (d', a) :: r => if d' =? d then a else amount_of d r
  end.

(* ---------------------------------------------------------------- native side *)

Inductive nmsg :=
| MsgDelegate (del val amt : Z)
| MsgUndelegate (del val amt : Z)
| MsgBeginRedelegate (del src dst amt : Z)
| MsgWithdrawDelegatorReward (del val : Z).

Definition msg_delegator (m : nmsg) : Z :=
  match m with
  | MsgDelegate d _ _ | MsgUndelegate d _ _ | MsgBeginRedelegate d _ _ _ | MsgWithdrawDelegatorReward d _ => d
  end.

(* module events as getSdkEventsFromEventManager sees them (type + wanted attributes; the `amount` attribute parsed as
   a coin list: a withdraw_rewards event carries every denomination paid out); EvOther = anything the filter drops *)
Inductive nevent :=
| EvDelegate (val del : Z) (amt : coins)
| EvUnbond (val del : Z) (amt : coins)
| EvRedelegate (src dst : Z) (amt : coins)  (* the SDK's redelegate event carries no delegator *)
| EvWithdrawRewards (val del : Z) (amt : coins)
| EvOther.

Definition counted (e : nevent) : bool := match e with EvOther => false | _ => true end.

Inductive log :=
| LDelegate (del val amt : Z)
| LUndelegate (del val amt : Z)
| LWithdrawReward (del val amt : Z).

(* autoEmitEventsFromSdkEvents, per event; [d] is the `delegator` argument (used for redelegate events only).
   `coins.AmountOf(bondDenom)`: a log carries the bond denom's amount of the event, whatever else the event carries, and
   is left out when that amount is not positive (e.g. a withdrawal that paid out other denominations only) *)
Definition logs_of_event (d : Z) (e : nevent) : list log :=
  match e with
  | EvDelegate v del c => let a := amount_of BOND c in if 0 <? a then [LDelegate del v a] else []
  | EvUnbond v del c => let a := amount_of BOND c in if 0 <? a then [LUndelegate del v a] else []
  | EvRedelegate s t c => let a := amount_of BOND c in if 0 <? a then [LUndelegate d s a; LDelegate d t a] else []
  | EvWithdrawRewards v del c => let a := amount_of BOND c in if 0 <? a then [LWithdrawReward del v a] else []
  | EvOther => []
  end.

(* autoEmitEventsFromSdkEvents as a whole: `if len(events) <= originalEventCounts` => error "no old-event found" *)
Definition emit (d : Z) (evs : list nevent) : option (list log) :=
  if existsb counted evs then Some (flat_map (logs_of_event d) evs) else None.

(* ---------------------------------------------------------------- calls, decoded *)

Inductive action := ADelegate | AUndelegate | ARedelegate | AUnknown.
Inductive oldval := OldDash | OldVal (v : Z) | OldOther.    (* "-", a valid validator address, anything else *)

(* abi.StakingMessage; sm_validator = None when the string is not a valid validator address *)
Record staking_message := StakingMessage {
  sm_action : action; sm_delegator : Z; sm_validator : option Z; sm_amount : Z; sm_denom_ok : bool; sm_old : oldval }.

Inductive fromval := FromAll | FromVal (v : Z) | FromOther.
Record withdraw_message := WithdrawMessage { wm_delegator : Z; wm_from : fromval }.

Inductive typed := TStaking (m : staking_message) | TWithdraw (m : withdraw_message).

Inductive call :=
| CDelegate (val amt : Z)
| CUndelegate (val amt : Z)
| CRedelegate (src dst amt : Z)
| CDelegateByMessage (m : staking_message) (sig : Z)
| CWithdrawReward (val : Z)
| CWithdrawRewards
| CWithdrawRewardsByMessage (m : withdraw_message) (sig : Z)
| CTransfer (to amt : Z).

(* validator as transfer() looks at it *)
Record vinfo := VInfo { v_addr : Z; v_tokens : Z; v_opkey : Z }.  (* v_opkey: rank of the operator STRING (strings.Compare) *)

Definition v_le (a b : vinfo) : bool :=
  (v_tokens a <? v_tokens b) || ((v_tokens a =? v_tokens b) && (v_opkey a <=? v_opkey b)).

Fixpoint v_insert (x : vinfo) (l : list vinfo) : list vinfo :=
  match l with
  | [] => [x]
  | y :: r => if v_le x y then x :: l else y :: v_insert x r
  end.
Definition v_sort (l : list vinfo) : list vinfo := fold_right v_insert [] l.

(* transfer(): Case 1 none delegated -> the middle of all bonded validators sorted by (tokens, operator);
   Case 2 one -> it; Case 3 several -> the lowest of the delegated ones *)
Definition pick_validator (delegated bonded : list vinfo) : option Z :=
  match delegated with
  | [] => match bonded with
          | [] => None
          | _ => option_map v_addr (nth_error (v_sort bonded) (Nat.div (length bonded) 2))
          end
  | [v] => Some (v_addr v)
  | _ => option_map v_addr (nth_error (v_sort delegated) 0)
  end.

Inductive qres := QOk (z : Z) | QNoDelegation | QErr.
(* answer of a distribution querier: the (truncated) rewards in every denomination *)
Inductive qresc := QcOk (c : coins) | QcNoDelegation | QcErr.
(* `.AmountOf(bondDenom).TruncateInt()` of the answer *)
Definition bond_of (r : qresc) : qres :=
  match r with QcOk c => QOk (amount_of BOND c) | QcNoDelegation => QNoDelegation | QcErr => QErr end.

Inductive view := VDelegationOf (a v : Z) | VTotalDelegationOf (a : Z) | VRewardOf (a v : Z) | VRewardsOf (a : Z) | VBalanceOf (a : Z).

(* one precompile call made by a contract in the course of a transaction: state-changing or view *)
Inductive titem := ICall (c : call) | IView (w : view).
(* what the transaction shows of it: whether a state-changing call succeeded and the receipt's logs it left (none when it
   failed); the number a view call returned (None = the view call failed) *)
Inductive tobs := TCall (ok : bool) (l : list log) | TView (r : option Z).

Definition MIN_WITHDRAW : Z := 10 ^ 15.   (* minimumRewardWithdrawalAmount: 10^18 / 1000, decimals = 18 *)

(* result of a precompile call: new state, logs, the boolean it returns, and (for the theorems) the native messages it
   handed to the message servers, in order. None = the call fails and everything it did is reverted. *)
Definition cres (nstate : Type) : Type := option (nstate * list log * bool * list nmsg).

Section Cpc.
  Variable nstate : Type.
  (* the native message servers: None = the message is rejected *)
  Variable native_step : nstate -> nmsg -> option (nstate * list nevent).
  (* distribution querier DelegationTotalRewards as withdrawRewards() reads it: per validator the truncated rewards in
     every denomination, in the order returned, and whether the (untruncated) total is zero *)
  Variable q_rewards : nstate -> Z -> list (Z * coins) * bool.
  (* (the querier itself writes — it ends the current reward period of every validator the delegator is bonded to —
     but withdrawRewards() evaluates it on a discarded branch of the state, so it is a pure function of the state) *)
  Variable q_balance : nstate -> Z -> Z.                 (* bank balance, bond denom *)
  Variable q_delegated_bonded : nstate -> Z -> list vinfo. (* GetAllDelegatorDelegations filtered by IsBonded *)
  Variable q_bonded : nstate -> list vinfo.               (* IterateLastValidators *)
  Variable chain_id : Z.
  Variable typed_hash : Z -> typed -> Z.                  (* EIP712HashingTypedMessage *)
  Variable recover : Z -> Z -> option Z.                  (* hash, signature (r,s,v) -> signer; None = invalid signature *)

  (* run native messages in order; all or nothing *)
  Fixpoint run_native (s : nstate) (ms : list nmsg) : option (nstate * list nevent) :=
    match ms with
    | [] => Some (s, [])
    | m :: r =>
        match native_step s m with
        | None => None
        | Some (s1, e1) =>
            match run_native s1 r with
            | None => None
            | Some (s2, e2) => Some (s2, e1 ++ e2)
            end
        end
    end.

  (* StakingMessage.Validate *)
  Definition sm_valid (m : staking_message) : bool :=
    match sm_action m with
    | AUnknown => false
    | a =>
        negb (sm_delegator m =? 0) &&
        (match sm_validator m with Some _ => true | None => false end) &&
        (0 <? sm_amount m) && sm_denom_ok m &&
        (match a, sm_old m with
         | ARedelegate, OldVal _ => true
         | ARedelegate, _ => false
         | _, OldDash => true
         | _, _ => false
         end)
    end.

  Definition wm_valid (m : withdraw_message) : bool :=
    negb (wm_delegator m =? 0) && (match wm_from m with FromOther => false | _ => true end).

  (* `caller.Address() != message.Delegator` => error; then eip712.VerifySignature(delegator, message, r, s, v, chainId) *)
  Definition sig_ok (caller delegator : Z) (t : typed) (sig : Z) : bool :=
    (caller =? delegator) &&
    (match recover (typed_hash chain_id t) sig with Some a => a =? delegator | None => false end).

  (* withdrawRewards(ctx, delegator): the messages it issues *)
  Definition withdraw_all_msgs (s : nstate) (del : Z) : list nmsg :=
    let '(rs, total_zero) := q_rewards s del in
    match rs with
    | [] => []
    | _ => if total_zero then []
           else map (fun va => MsgWithdrawDelegatorReward del (fst va))
                    (filter (fun va => MIN_WITHDRAW <=? amount_of BOND (snd va)) rs)
    end.

  (* finish a call: state, events of everything it ran, logs or failure *)
  Definition finish (d : Z) (ret : bool) (ms : list nmsg) (r : option (nstate * list nevent)) : cres nstate :=
    match r with
    | None => None
    | Some (s', evs) =>
        match emit d evs with
        | None => None
        | Some logs => Some (s', logs, ret, ms)
        end
    end.

  Definition simple (s : nstate) (d : Z) (m : nmsg) : cres nstate := finish d true [m] (run_native s [m]).

  Definition cpc_step (s : nstate) (caller : Z) (c : call) : cres nstate :=
    match c with
    | CDelegate v a => if 0 <? a then simple s caller (MsgDelegate caller v a) else None
    | CUndelegate v a => if 0 <? a then simple s caller (MsgUndelegate caller v a) else None
    | CRedelegate src dst a => if 0 <? a then simple s caller (MsgBeginRedelegate caller src dst a) else None
    | CDelegateByMessage m sig =>
        if sm_valid m && sig_ok caller (sm_delegator m) (TStaking m) sig then
          let d := sm_delegator m in
          match sm_action m, sm_validator m, sm_old m with
          | ADelegate, Some v, _ => simple s d (MsgDelegate d v (sm_amount m))
          | AUndelegate, Some v, _ => simple s d (MsgUndelegate d v (sm_amount m))
          | ARedelegate, Some v, OldVal o => simple s d (MsgBeginRedelegate d o v (sm_amount m))
          | _, _, _ => None
          end
        else None
    | CWithdrawReward v => simple s caller (MsgWithdrawDelegatorReward caller v)
    | CWithdrawRewards =>
        let ms := withdraw_all_msgs s caller in
        (* with nothing to withdraw no event is emitted and the call fails in autoEmitEventsFromSdkEvents *)
        finish caller true ms (run_native s ms)
    | CWithdrawRewardsByMessage m sig =>
        if wm_valid m && sig_ok caller (wm_delegator m) (TWithdraw m) sig then
          let d := wm_delegator m in
          match wm_from m with
          | FromAll => let ms := withdraw_all_msgs s d in finish d true ms (run_native s ms)
          | FromVal v => simple s d (MsgWithdrawDelegatorReward d v)
          | FromOther => None
          end
        else None
    | CTransfer to a =>
        if negb (caller =? 0) && negb (to =? 0) && (caller =? to) && (0 <? a) then
          let ms := withdraw_all_msgs s caller in
          match run_native s ms with
          | None => None
          | Some (s1, e1) =>
              if q_balance s1 caller <? a then None
              else
                match pick_validator (q_delegated_bonded s1 caller) (q_bonded s1) with
                | None => None
                | Some v =>
                    let m := MsgDelegate caller v a in
                    match native_step s1 m with
                    | None => None
                    | Some (s2, e2) => finish caller true (ms ++ [m]) (Some (s2, e1 ++ e2))
                    end
                end
          end
        else None
    end.

  (* ---------------------------------------------------------------- the corresponding native submission *)
  (* What a user [d] would submit natively instead of the call, written down independently of [cpc_step] (this is
     what the twin-chain driver runs on chain B): admissibility of the call, a first batch of messages, and — for
     transfer() only — a second batch chosen on the state the first batch left; one transaction, all or nothing. *)
  Definition guard (d : Z) (c : call) : bool :=
    match c with
    | CDelegate _ a | CUndelegate _ a | CRedelegate _ _ a => 0 <? a
    | CDelegateByMessage m sig => sm_valid m && sig_ok d (sm_delegator m) (TStaking m) sig
    | CWithdrawReward _ | CWithdrawRewards => true
    | CWithdrawRewardsByMessage m sig => wm_valid m && sig_ok d (wm_delegator m) (TWithdraw m) sig
    | CTransfer to a => negb (d =? 0) && negb (to =? 0) && (d =? to) && (0 <? a)
    end.

  Definition first_msgs (s : nstate) (d : Z) (c : call) : option (list nmsg) :=
    match c with
    | CDelegate v a => Some [MsgDelegate d v a]
    | CUndelegate v a => Some [MsgUndelegate d v a]
    | CRedelegate src dst a => Some [MsgBeginRedelegate d src dst a]
    | CDelegateByMessage m _ =>
        match sm_action m, sm_validator m, sm_old m with
        | ADelegate, Some v, _ => Some [MsgDelegate d v (sm_amount m)]
        | AUndelegate, Some v, _ => Some [MsgUndelegate d v (sm_amount m)]
        | ARedelegate, Some v, OldVal o => Some [MsgBeginRedelegate d o v (sm_amount m)]
        | _, _, _ => None
        end
    | CWithdrawReward v => Some [MsgWithdrawDelegatorReward d v]
    | CWithdrawRewards | CTransfer _ _ => Some (withdraw_all_msgs s d)
    | CWithdrawRewardsByMessage m _ =>
        match wm_from m with
        | FromAll => Some (withdraw_all_msgs s d)
        | FromVal v => Some [MsgWithdrawDelegatorReward d v]
        | FromOther => None
        end
    end.

  Definition second_msgs (s1 : nstate) (d : Z) (c : call) : option (list nmsg) :=
    match c with
    | CTransfer _ a =>
        if q_balance s1 d <? a then None
        else option_map (fun v => [MsgDelegate d v a]) (pick_validator (q_delegated_bonded s1 d) (q_bonded s1))
    | _ => Some []
    end.

  Definition native_prog (s : nstate) (d : Z) (c : call) : option (nstate * list nevent * list nmsg) :=
    if guard d c then
      match first_msgs s d c with
      | None => None
      | Some m1 =>
          match run_native s m1 with
          | None => None
          | Some (s1, e1) =>
              match second_msgs s1 d c with
              | None => None
              | Some m2 =>
                  match run_native s1 m2 with
                  | None => None
                  | Some (s2, e2) => Some (s2, e1 ++ e2, m1 ++ m2)
                  end
              end
          end
      end
    else None.

  (* ---------------------------------------------------------------- views *)
  (* a native query's answer: a number (coins for the distribution queriers), the staking module's "no delegation"
     error, any other error *)
  Variable q_delegation_tokens : nstate -> Z -> Z -> qres. (* GetDelegation + Validator.TokensFromShares(shares).TruncateInt() *)
  Variable q_bonded_total : nstate -> Z -> qres.            (* GetDelegatorBonded *)
  Variable q_reward : nstate -> Z -> Z -> qresc.            (* distribution querier DelegationRewards, truncated *)
  Variable q_rewards_total : nstate -> Z -> qresc.          (* distribution querier DelegationTotalRewards total, truncated *)
  (* (both distribution queriers write — they end reward periods — but the view methods evaluate them on a branch of the
     state at the point of the call which is discarded afterwards, a fresh one per call) *)

  (* delegationOf and rewardOf answer 0 where the native query says "no delegation"; any other error fails the call *)
  Definition zero_if_none (r : qres) : option Z :=
    match r with QOk z => Some z | QNoDelegation => Some 0 | QErr => None end.
  Definition strict (r : qres) : option Z := match r with QOk z => Some z | _ => None end.

  (* None = the view call fails *)
  Definition view_step (s : nstate) (w : view) : option Z :=
    match w with
    | VDelegationOf a v => zero_if_none (q_delegation_tokens s a v)
    | VTotalDelegationOf a => strict (q_bonded_total s a)
    | VRewardOf a v => zero_if_none (bond_of (q_reward s a v))
    | VRewardsOf a => strict (bond_of (q_rewards_total s a))
    | VBalanceOf a => option_map (Z.add (q_balance s a)) (strict (bond_of (q_rewards_total s a)))
    end.

  (* what the native queries say, written down independently of [view_step] (this is what the twin-chain driver asks
     the gRPC queriers of chain B): the bond denom's amount of the answer *)
  Definition native_view (s : nstate) (w : view) : option Z :=
    match w with
    | VDelegationOf a v => match q_delegation_tokens s a v with QOk z => Some z | QNoDelegation => Some 0 | QErr => None end
    | VTotalDelegationOf a => match q_bonded_total s a with QOk z => Some z | _ => None end
    | VRewardOf a v => match q_reward s a v with QcOk c => Some (amount_of BOND c) | QcNoDelegation => Some 0 | QcErr => None end
    | VRewardsOf a => match q_rewards_total s a with QcOk c => Some (amount_of BOND c) | _ => None end
    | VBalanceOf a => match q_rewards_total s a with QcOk c => Some (q_balance s a + amount_of BOND c) | _ => None end
    end.

  (* ---------------------------------------------------------------- several calls in one transaction *)
  (* A contract (the precompile's caller) makes the calls of [items] in order and does not revert when one fails.
     Chain A: every call runs on the state its predecessors left; a failed call leaves the state as it was; a view
     reads the state at that point and changes nothing. *)
  Definition item_A (s : nstate) (caller : Z) (i : titem) : nstate * tobs * list nmsg :=
    match i with
    | ICall c =>
        match cpc_step s caller c with
        | Some (s', logs, _, ms) => (s', TCall true logs, ms)
        | None => (s, TCall false [], [])
        end
    | IView w => (s, TView (view_step s w), [])
    end.

  (* Chain B: the native submissions one by one, and between them the native queries; a submission counts as
     successful when it was executed and announced by at least one staking / distribution event *)
  Definition item_B (s : nstate) (caller : Z) (i : titem) : nstate * tobs :=
    match i with
    | ICall c =>
        match native_prog s caller c with
        | Some (s', evs, _) => (s', TCall (existsb counted evs) (flat_map (logs_of_event caller) evs))
        | None => (s, TCall false [])
        end
    | IView w => (s, TView (native_view s w))
    end.

  Fixpoint tx_A (s : nstate) (caller : Z) (items : list titem) : nstate * list tobs * list nmsg :=
    match items with
    | [] => (s, [], [])
    | i :: r =>
        let '(s1, o1, m1) := item_A s caller i in
        let '(s2, o2, m2) := tx_A s1 caller r in (s2, o1 :: o2, m1 ++ m2)
    end.

  Fixpoint tx_B (s : nstate) (caller : Z) (items : list titem) : nstate * list tobs :=
    match items with
    | [] => (s, [])
    | i :: r =>
        let '(s1, o1) := item_B s caller i in
        let '(s2, o2) := tx_B s1 caller r in (s2, o1 :: o2)
    end.

  Definition tx_state_A (s : nstate) (caller : Z) (items : list titem) : nstate := fst (fst (tx_A s caller items)).
  Definition tx_obs_A (s : nstate) (caller : Z) (items : list titem) : list tobs := snd (fst (tx_A s caller items)).
  Definition tx_msgs_A (s : nstate) (caller : Z) (items : list titem) : list nmsg := snd (tx_A s caller items).

  Definition obs_logs (o : tobs) : list log := match o with TCall _ l => l | TView _ => [] end.

  (* ---------------------------------------------------------------- histories, twin chains *)
  (* a precompile call reached from a transaction of [sender] through [path]; a transaction in which the contract
     reached through [path] makes several precompile calls, views among them; a native message submitted directly;
     anything else that happens identically on both chains (block progression, reward accrual, deposits into rewards
     pools, maturing entries) *)
  Inductive op :=
  | OCall (sender : Z) (path : list hop) (c : call)
  | OTx (sender : Z) (path : list hop) (items : list titem)
  | ONative (m : nmsg)
  | OOther (f : nstate -> nstate).

  (* chain A: the precompile; a failed call leaves the state as it was *)
  Definition step_A (s : nstate) (o : op) : nstate :=
    match o with
    | OCall sender path c =>
        match cpc_step s (precompile_caller sender path) c with Some (s', _, _, _) => s' | None => s end
    | OTx sender path items => tx_state_A s (precompile_caller sender path) items
    | ONative m => match native_step s m with Some (s', _) => s' | None => s end
    | OOther f => f s
    end.

  (* chain B: the native submission by the same account; a failed transaction leaves the state as it was *)
  Definition step_B (s : nstate) (o : op) : nstate :=
    match o with
    | OCall sender path c =>
        match native_prog s (precompile_caller sender path) c with Some (s', _, _) => s' | None => s end
    | OTx sender path items => fst (tx_B s (precompile_caller sender path) items)
    | ONative m => match native_step s m with Some (s', _) => s' | None => s end
    | OOther f => f s
    end.

  Definition run_A (s : nstate) (ops : list op) : nstate := fold_left step_A ops s.
  Definition run_B (s : nstate) (ops : list op) : nstate := fold_left step_B ops s.

  (* the Delegate / Undelegate / WithdrawReward logs of one step: the receipt on chain A; on chain B the image of the
     module events the native submission produced *)
  Definition logs_A (s : nstate) (o : op) : list log :=
    match o with
    | OCall sender path c =>
        match cpc_step s (precompile_caller sender path) c with Some (_, logs, _, _) => logs | None => [] end
    | OTx sender path items => flat_map obs_logs (tx_obs_A s (precompile_caller sender path) items)
    | _ => []
    end.

  Definition logs_B (s : nstate) (o : op) : list log :=
    match o with
    | OCall sender path c =>
        let caller := precompile_caller sender path in
        match native_prog s caller c with Some (_, evs, _) => flat_map (logs_of_event caller) evs | None => [] end
    | OTx sender path items => flat_map obs_logs (snd (tx_B s (precompile_caller sender path) items))
    | _ => []
    end.

  Fixpoint trace (logs : nstate -> op -> list log) (step : nstate -> op -> nstate) (s : nstate) (ops : list op) : list (list log) :=
    match ops with
    | [] => []
    | o :: r => logs s o :: trace logs step (step s o) r
    end.

  (* every native message chain A's history hands to the message servers on behalf of a precompile call, with the
     immediate caller of that call *)
  Fixpoint issued_A (s : nstate) (ops : list op) : list (Z * nmsg) :=
    match ops with
    | [] => []
    | o :: r =>
        (match o with
         | OCall sender path c =>
             let caller := precompile_caller sender path in
             match cpc_step s caller c with Some (_, _, _, ms) => map (pair caller) ms | None => [] end
         | OTx sender path items =>
             let caller := precompile_caller sender path in map (pair caller) (tx_msgs_A s caller items)
         | _ => []
         end) ++ issued_A (step_A s o) r
    end.
End Cpc.
