(* C19 — HD derivation: derivation-path syntax and BIP-32 private child derivation as coded.

   Modelled code (read line by line):
     /repo/crypto/hd/algorithm.go  ethSecp256k1Algo.Derive:
        accounts.ParseDerivationPath(path)            (go-ethereum accounts/hd.go, incl. math/big Int.SetString(_, 0))
        bip39.NewSeedWithErrorChecking                (Section variable: PBKDF2 is not logic)
        hdkeychain.NewMaster(seed) ; key.Derive(n) for each path element ; key.ECPrivKey ; crypto.FromECDSA
        (btcutil/hdkeychain/extendedkey.go: the byte-level handling of keys whose big-endian form has
         leading zero bytes -- stripped after every step, right-aligned again for hardened children)
     go-ethereum accounts.DerivationPath.String     (canonical printing)

   HMAC-SHA512 and scalar-times-generator are Section variables.  Executable Gallina only. *)
From Coq Require Import String Ascii.
From Coq Require Import List NArith ZArith Bool Lia.
From Evm Require Import SigWrap.
Import ListNotations.
Open Scope N_scope.

(* ------------------------------------------------------------------ text helpers *)

(* strings.TrimSpace on ASCII input: ' ', \t \n \v \f \r.  (U+0085 / U+00A0 and other non-ASCII
   white space are outside the model: any byte >= 0x80 makes the path [PUnmodelled].) *)
Definition is_space (c : N) : bool := (c =? 32) || ((9 <=? c) && (c <=? 13)).

Fixpoint trim_left (s : bytes) : bytes :=
  match s with
  | c :: r => if is_space c then trim_left r else s
  | [] => []
  end.
Definition trim (s : bytes) : bytes := rev (trim_left (rev (trim_left s))).

(* strings.Split(s, "/"): never empty *)
Fixpoint split_on (sep : N) (s : bytes) : list bytes :=
  match s with
  | [] => [[]]
  | c :: r =>
    if c =? sep then [] :: split_on sep r
    else match split_on sep r with
         | h :: t => (c :: h) :: t
         | [] => [[c]]
         end
  end.

(* ------------------------------------------------------------------ math/big Int.SetString(s, 0) *)

Inductive prevc := PDot | PDigit | PUnder.

(* digit value as in nat.scan for bases <= 36; 63 = MaxBase+1 for a non-digit *)
Definition digit_val (c : N) : N :=
  if (48 <=? c) && (c <=? 57) then c - 48
  else if (97 <=? c) && (c <=? 122) then c - 97 + 10
  else if (65 <=? c) && (c <=? 90) then c - 65 + 10
  else 63.

(* the digit loop of nat.scan with base argument 0; None = a character that does not belong to the
   number was met (SetString then fails because input is left over) *)
Fixpoint scan_loop (b : N) (s : bytes) (prev : prevc) (inval : bool) (count acc : N)
  : option (prevc * bool * N * N) :=
  match s with
  | [] => Some (prev, inval, count, acc)
  | ch :: r =>
    if ch =? 95 (* '_' *) then
      scan_loop b r PUnder (inval || match prev with PDigit => false | _ => true end) count acc
    else
      let d := digit_val ch in
      if b <=? d then None
      else scan_loop b r PDigit inval (count + 1) (acc * b + d)
  end.

(* nat.scan(r, 0, false) followed by the "whole string consumed" test of SetString *)
Definition scan_mantissa (s : bytes) : option N :=
  let finish (prefix0 : bool) (st : option (prevc * bool * N * N)) : option N :=
    match st with
    | None => None
    | Some (prev, inval, count, acc) =>
      if inval || match prev with PUnder => true | _ => false end then None
      else if count =? 0 then (if prefix0 then Some 0 else None)
      else Some acc
    end in
  match s with
  | 48 :: rest =>                      (* leading '0' *)
    match rest with
    | [] => Some 0
    | ch :: rest' =>
      if (ch =? 98) || (ch =? 66) then finish false (scan_loop 2 rest' PDigit false 0 0)
      else if (ch =? 111) || (ch =? 79) then finish false (scan_loop 8 rest' PDigit false 0 0)
      else if (ch =? 120) || (ch =? 88) then finish false (scan_loop 16 rest' PDigit false 0 0)
      else finish true (scan_loop 8 rest PDigit false 0 0)
    end
  | _ => finish false (scan_loop 10 s PDot false 0 0)
  end.

Definition set_string0 (s : bytes) : option Z :=
  match s with
  | [] => None
  | 45 :: r => option_map (fun n => (- Z.of_N n)%Z) (scan_mantissa r)     (* '-' *)
  | 43 :: r => option_map Z.of_N (scan_mantissa r)                        (* '+' *)
  | _ => option_map Z.of_N (scan_mantissa s)
  end.

(* ------------------------------------------------------------------ accounts.ParseDerivationPath *)

Definition HARD : N := 0x80000000.
Definition MAXU32 : N := 0xFFFFFFFF.
Definition default_root : list N := [HARD + 44; HARD + 60; HARD + 0; 0].

Definition has_suffix_quote (s : bytes) : bool :=
  match rev s with 39 :: _ => true | _ => false end.
Definition drop_last (s : bytes) : bytes := removelast s.

Definition parse_component (c : bytes) : option N :=
  let c := trim c in
  let '(value, c) := if has_suffix_quote c then (HARD, trim (drop_last c)) else (0, c) in
  match set_string0 c with
  | None => None
  | Some z =>
    if (z <? 0)%Z || (Z.of_N (MAXU32 - value) <? z)%Z then None
    else Some (value + Z.to_N z)
  end.

Fixpoint parse_components (cs : list bytes) : option (list N) :=
  match cs with
  | [] => Some []
  | c :: r =>
    match parse_component c, parse_components r with
    | Some v, Some vs => Some (v :: vs)
    | _, _ => None
    end
  end.

Inductive path_res := POk (p : list N) | PErr | PUnmodelled.

Definition parse_path (s : bytes) : path_res :=
  if existsb (fun c => 128 <=? c) s then PUnmodelled else
  match split_on 47 s with
  | [] => PErr
  | c0 :: rest =>
    let t0 := trim c0 in
    match t0 with
    | [] => PErr                                           (* ambiguous path *)
    | _ =>
      let '(pre, comps) := if beqb t0 [109] (* "m" *) then ([], rest) else (default_root, c0 :: rest) in
      match comps with
      | [] => PErr                                         (* empty derivation path *)
      | _ => match parse_components comps with
             | Some vs => POk (pre ++ vs)
             | None => PErr
             end
      end
    end
  end.

(* ------------------------------------------------------------------ DerivationPath.String *)

Fixpoint dec_digits_f (f : nat) (n : N) : bytes :=
  match f with
  | O => []
  | S k => if n <? 10 then [48 + n] else dec_digits_f k (n / 10) ++ [48 + n mod 10]
  end.
(* fuel: a number with b bits has at most b decimal digits *)
Definition dec_digits (n : N) : bytes := dec_digits_f (S (N.to_nat (N.size n))) n.

Definition print_component (c : N) : bytes :=
  if HARD <=? c then dec_digits (c - HARD) ++ [39] else dec_digits c.

Definition print_path (p : list N) : bytes :=
  109 :: flat_map (fun c => 47 :: print_component c) p.

(* ------------------------------------------------------------------ BIP-32 as coded in hdkeychain *)

Definition CURVE_N : N := 0xFFFFFFFFFFFFFFFFFFFFFFFFFFFFFFFEBAAEDCE6AF48A03BBFD25E8CD0364141.

Fixpoint parse_be (b : bytes) (acc : N) : N :=
  match b with
  | [] => acc
  | x :: r => parse_be r (acc * 256 + x)
  end.
Definition parse256 (b : bytes) : N := parse_be b 0.
Definition ser_be (n : nat) (v : N) : bytes := be_bytes n v [].
Definition ser256 (v : N) : bytes := ser_be 32 v.
Definition ser32 (v : N) : bytes := ser_be 4 v.

Fixpoint strip0 (b : bytes) : bytes :=
  match b with
  | 0 :: r => strip0 r
  | _ => b
  end.

Inductive hd_res (A : Type) := HOk (a : A) | HErrSeedLen | HErrUnusableSeed | HErrInvalidChild | HErrDepth
                             | HErrPath | HErrMnemonic | HUnmodelled.
Arguments HOk {A} a.
Arguments HErrSeedLen {A}. Arguments HErrUnusableSeed {A}. Arguments HErrInvalidChild {A}.
Arguments HErrDepth {A}. Arguments HErrPath {A}. Arguments HErrMnemonic {A}. Arguments HUnmodelled {A}.

(* extended private key: key bytes exactly as hdkeychain keeps them, chain code, depth *)
Record xkey := { xk_key : bytes; xk_chain : bytes; xk_depth : N }.

Section Bip32.
  Variable hmac512 : bytes -> bytes -> bytes.      (* key, data -> 64 bytes *)
  Variable point : bytes -> bytes.                 (* 32-byte big-endian scalar k -> SEC1 compressed k*G (33 bytes) *)
  Variable bip39_seed : bytes -> bytes -> option bytes.   (* mnemonic, passphrase -> 64-byte seed; None = invalid mnemonic *)

  Definition bitcoin_seed : bytes := bs "Bitcoin seed".

  (* hdkeychain.NewMaster *)
  Definition new_master (seed : bytes) : hd_res xkey :=
    if (length seed <? 16)%nat || (64 <? length seed)%nat then HErrSeedLen else
    let lr := hmac512 bitcoin_seed seed in
    let secret := firstn 32 lr in
    let k := parse256 secret in
    if (CURVE_N <=? k) || (k =? 0) then HErrUnusableSeed
    else HOk {| xk_key := secret; xk_chain := skipn 32 lr; xk_depth := 0 |}.

  (* pubKeyBytes of a private extended key: PrivKeyFromBytes(k.key).PubKey().SerializeCompressed() *)
  Definition pub_of_key (key : bytes) : bytes := point (ser256 (parse256 key mod CURVE_N)).

  (* ExtendedKey.Derive, private parent *)
  Definition derive_child (k : xkey) (i : N) : hd_res xkey :=
    if xk_depth k =? 255 then HErrDepth else
    let data :=
      (if HARD <=? i
       then repeat 0 (33 - length (xk_key k)) ++ xk_key k          (* offset := 33 - len(k.key); copy(data[offset:], k.key) *)
       else pub_of_key (xk_key k))
      ++ ser32 i in
    let ilr := hmac512 (xk_chain k) data in
    let il := parse256 (firstn 32 ilr) in
    if CURVE_N <=? il then HErrInvalidChild else
    let kn := parse256 (xk_key k) in
    if CURVE_N <=? kn then HErrInvalidChild else
    let child := strip0 (ser256 ((il + kn) mod CURVE_N)) in     (* "Strip leading zeroes from childKey" *)
    HOk {| xk_key := child; xk_chain := skipn 32 ilr; xk_depth := xk_depth k + 1 |}.

  Fixpoint derive_path (k : xkey) (p : list N) : hd_res xkey :=
    match p with
    | [] => HOk k
    | i :: r => match derive_child k i with
                | HOk k' => derive_path k' r
                | HErrSeedLen => HErrSeedLen | HErrUnusableSeed => HErrUnusableSeed
                | HErrInvalidChild => HErrInvalidChild | HErrDepth => HErrDepth
                | HErrPath => HErrPath | HErrMnemonic => HErrMnemonic | HUnmodelled => HUnmodelled
                end
    end.

  (* key.ECPrivKey().ToECDSA() ; crypto.FromECDSA: 32 bytes, left padded *)
  Definition final_key (k : xkey) : bytes := ser256 (parse256 (xk_key k) mod CURVE_N).

  (* Derive from a seed along parsed indices *)
  Definition derive_seed (seed : bytes) (p : list N) : hd_res bytes :=
    match new_master seed with
    | HOk m => match derive_path m p with
               | HOk k => HOk (final_key k)
               | HErrSeedLen => HErrSeedLen | HErrUnusableSeed => HErrUnusableSeed
               | HErrInvalidChild => HErrInvalidChild | HErrDepth => HErrDepth
               | HErrPath => HErrPath | HErrMnemonic => HErrMnemonic | HUnmodelled => HUnmodelled
               end
    | HErrSeedLen => HErrSeedLen | HErrUnusableSeed => HErrUnusableSeed
    | HErrInvalidChild => HErrInvalidChild | HErrDepth => HErrDepth
    | HErrPath => HErrPath | HErrMnemonic => HErrMnemonic | HUnmodelled => HUnmodelled
    end.

  (* ethSecp256k1Algo.Derive()(mnemonic, passphrase, path): path first, then the mnemonic *)
  Definition derive (mnemonic pass path : bytes) : hd_res bytes :=
    match parse_path path with
    | PUnmodelled => HUnmodelled
    | PErr => HErrPath
    | POk p =>
      match bip39_seed mnemonic pass with
      | None => HErrMnemonic
      | Some seed => derive_seed seed p
      end
    end.

  (* ---------------------------------------------------------------- BIP-32 as specified, over numbers *)

  (* CKDpriv((k_par, c_par), i) -> (k_i, c_i); None = "the resulting key is invalid" (parse256(I_L) >= n).
     (BIP-32 also declares k_i = 0 invalid; see HdPathProofs.spec_zero_gap.) *)
  Definition ckd_spec (kc : N * bytes) (i : N) : option (N * bytes) :=
    let '(k, c) := kc in
    let data := (if HARD <=? i then 0 :: ser256 k else point (ser256 k)) ++ ser32 i in
    let I := hmac512 c data in
    let il := parse256 (firstn 32 I) in
    if CURVE_N <=? il then None else Some ((il + k) mod CURVE_N, skipn 32 I).

  Definition master_spec (seed : bytes) : option (N * bytes) :=
    let I := hmac512 bitcoin_seed seed in
    let k := parse256 (firstn 32 I) in
    if (k =? 0) || (CURVE_N <=? k) then None else Some (k, skipn 32 I).

  Fixpoint fold_ckd (kc : N * bytes) (p : list N) : option (N * bytes) :=
    match p with
    | [] => Some kc
    | i :: r => match ckd_spec kc i with Some kc' => fold_ckd kc' r | None => None end
    end.

  Definition bip32_spec (seed : bytes) (p : list N) : option bytes :=
    match master_spec seed with
    | None => None
    | Some kc => option_map (fun kc' => ser256 (fst kc')) (fold_ckd kc p)
    end.
End Bip32.
