(* Model of x/feemarket/keeper/eip1559.go CalculateBaseFee (+ go-ethereum consensus/misc
   CalcBaseFee, London active) and of the admission price floor.  Executable Gallina only. *)
From Coq Require Export ZArith List Bool.
Export ListNotations.
Open Scope Z_scope.

Definition MAXU64 : Z := 18446744073709551615.
Definition MAX256 : Z := 2 ^ 256 - 1.          (* sdkmath.Int: |x| < 2^256 else panic *)
Definition E18 : Z := 10 ^ 18.                  (* LegacyDec precision *)

Inductive res : Type :=
| Ok (z : Z)
| PanicDivZero            (* big.Int Div by zero *)
| PanicOverflow.          (* sdkmath.NewIntFromBigInt out of bound *)

(* consensus Block.MaxGas > -1 is taken literally, otherwise "unlimited" = MaxUint64 *)
Definition gas_limit (max_gas : Z) : Z := if max_gas >? -1 then max_gas else MAXU64.
Definition gas_target (max_gas : Z) : Z := gas_limit max_gas / 2.

(* go-ethereum CalcBaseFee, with the division made explicit about a zero divisor *)
Definition geth_calc (b used target : Z) : res :=
  if used =? target then Ok b
  else if used >? target then
    if target =? 0 then PanicDivZero
    else Ok (b + Z.max ((used - target) * b / target / 8) 1)
  else
    if target =? 0 then PanicDivZero
    else Ok (Z.max (b - (target - used) * b / target / 8) 0).

(* evermint: zero target keeps the base fee (fix 97319a9); then floor with trunc(min gas price) *)
Definition calc_base_fee (b used max_gas min_dec : Z) : res :=
  let target := gas_target max_gas in
  let next := if target =? 0 then Ok b else geth_calc b used target in
  match next with
  | Ok nb =>
      let r := Z.max nb (min_dec / E18) in
      if r <=? MAX256 then Ok r else PanicOverflow
  | e => e
  end.

(* The EIP-1559 specification as the property states it (no reference to the code's control flow). *)
Definition eip1559_spec (b used target : Z) : Z :=
  if used =? target then b
  else if target <? used then b + Z.max (b * (used - target) / target / 8) 1
  else Z.max 0 (b - b * (target - used) / target / 8).

(* ---- admission floor (app/antedl/duallane/07_deduct_fee.go, state_transition_core.go) ---- *)
Inductive mode := Check | ReCheck | Simulate | Deliver.

Definition min_allowed (m : mode) (base global_min_dec node_min_dec : Z) : Z :=
  let f := Z.max base (global_min_dec / E18) in
  match m with
  | Check => Z.max f (node_min_dec / E18)
  | _ => f
  end.

(* effective price of an Ethereum tx: dynamic-fee = min(tip + base, cap), legacy = gas price *)
Definition eff_price (dynamic : bool) (base tip cap price : Z) : Z :=
  if dynamic then Z.min (tip + base) cap else price.

Definition admit_price (m : mode) (dynamic : bool) (base gmin nmin tip cap price : Z) : bool :=
  min_allowed m base gmin nmin <=? eff_price dynamic base tip cap price.
