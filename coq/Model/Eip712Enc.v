(* C19 — EIP-712: typed-data hashing and the rendering of a Cosmos sign document as typed data.

   Modelled code (read line by line):
     go-ethereum fork signer/core/apitypes/types.go (what /repo calls):
        TypedDataAndHash, HashStruct, EncodeData, EncodeType, Dependencies, TypeHash,
        EncodePrimitiveValue (string, bool, address, intN/uintN), parseInteger, Types.validate
     /repo/ethereum/eip712/eip712.go   WrapTxToTypedData
     /repo/ethereum/eip712/message.go  createEIP712MessagePayload, FlattenPayloadMessages (msgs[i] -> "msg{i}")
     /repo/ethereum/eip712/types.go    createEIP712Types, addMsgTypesToRoot, msgRootType, recursivelyAddTypesToRoot,
                                       sortedJSONKeys (descending), typeDefForPrefix, addTypesToRoot (duplicate index),
                                       sanitizeTypedef, getEthTypeForJSON
     /repo/ethereum/eip712/domain.go   createEIP712Domain
     /repo/types/chain_id.go           ParseChainID
     /repo/x/cpc/eip712/typed.go       EIP712HashingTypedMessage (HashStruct of message and domain)

   The hash H (keccak256) is a Section variable.  Byte strings are concrete (lists of bytes, 32-byte words),
   so that injectivity of the ENCODING is a theorem (Proofs/Eip712EncProofs.v) and injectivity of the hash
   reduces to a collision of H.

   Input of the sign-doc rendering is the parsed JSON tree (the harness parses with encoding/json, the code
   with gjson).  Outside the model (the functions answer [None]/are never generated): object keys that are not
   [A-Za-z0-9_]+ (gjson path syntax, Unicode title-casing), duplicate keys, the primitive types bytes/bytesN.
   Executable Gallina only. *)
From Coq Require Import String Ascii.
From Coq Require Import List NArith ZArith Bool Lia.
From Evm Require Import SigWrap HdPath.
Import ListNotations.
Open Scope N_scope.

(* ------------------------------------------------------------------ JSON values as the encoder sees them *)

(* JNum z: a JSON number whose float64 value is integral and in int64 range (or, for typed data built by Go
   code, a *HexOrDecimal256); JFloat: any other number (the integer encoder refuses it) *)
Inductive json :=
| JNull | JBool (b : bool) | JNum (z : Z) | JFloat | JStr (s : bytes)
| JArr (l : list json) | JObj (l : list (bytes * json)).

Definition kv : Type := bytes * json.

Fixpoint assoc {A} (k : bytes) (l : list (bytes * A)) : option A :=
  match l with
  | [] => None
  | (k', v) :: r => if beqb k k' then Some v else assoc k r
  end.

Fixpoint jsize (j : json) : nat :=
  match j with
  | JArr l => S (fold_right (fun x a => jsize x + a)%nat 0%nat l)
  | JObj l => S (fold_right (fun x a => jsize (snd x) + a)%nat 0%nat l)
  | _ => 1%nat
  end.

(* ------------------------------------------------------------------ byte-string order, sorting *)

Fixpoint bcompare (a b : bytes) : comparison :=
  match a, b with
  | [], [] => Eq
  | [], _ => Lt
  | _, [] => Gt
  | x :: a', y :: b' => match x ?= y with Eq => bcompare a' b' | c => c end
  end.
Definition bleb (a b : bytes) : bool := match bcompare a b with Gt => false | _ => true end.

Fixpoint insert_sorted (x : bytes) (l : list bytes) : list bytes :=
  match l with
  | [] => [x]
  | y :: r => if bleb x y then x :: l else y :: insert_sorted x r
  end.
Definition sort_asc (l : list bytes) : list bytes := fold_right insert_sorted [] l.
Definition sort_desc (l : list bytes) : list bytes := rev (sort_asc l).

Definition mem (x : bytes) (l : list bytes) : bool := existsb (beqb x) l.

(* ------------------------------------------------------------------ type maps *)

Definition tydef : Type := list (bytes * bytes).        (* (Name, Type) in declaration order *)
Definition tymap : Type := list (bytes * tydef).        (* Go map: keys unique *)

Fixpoint tydef_eqb (a b : tydef) : bool :=               (* typesAreEqual *)
  match a, b with
  | [], [] => true
  | (n1, t1) :: a', (n2, t2) :: b' => beqb n1 n2 && beqb t1 t2 && tydef_eqb a' b'
  | _, _ => false
  end.

Definition has_suffix_arr (t : bytes) : bool :=          (* strings.HasSuffix(t, "[]") *)
  match rev t with 93 :: 91 :: _ => true | _ => false end.
Definition trim_arr (t : bytes) : bytes :=               (* strings.TrimSuffix(t, "[]") *)
  if has_suffix_arr t then firstn (length t - 2) t else t.
Definition ends_bracket (t : bytes) : bool :=            (* encType[len-1:] == "]" *)
  match rev t with 93 :: _ => true | _ => false end.
Fixpoint before_bracket (t : bytes) : bytes :=           (* strings.Split(t, "[")[0] *)
  match t with
  | [] => []
  | c :: r => if c =? 91 then [] else c :: before_bracket r
  end.

Definition is_digit (c : N) : bool := (48 <=? c) && (c <=? 57).
Definition is_lower (c : N) : bool := (97 <=? c) && (c <=? 122).
Definition is_upper (c : N) : bool := (65 <=? c) && (c <=? 90).
Definition is_word (c : N) : bool := is_digit c || is_lower c || is_upper c || (c =? 95).

(* typedDataReferenceTypeRegexp: an upper-case ASCII letter, then word characters, then optionally "[]" *)
Definition ref_regexp (t : bytes) : bool :=
  match trim_arr t with
  | c :: r => is_upper c && forallb is_word r
  | [] => false
  end.

Definition int_sizes : list N := [8; 16; 32; 64; 96; 128; 256].
Definition prim_base_names : list bytes :=
  [bs "address"; bs "bool"; bs "string"; bs "bytes"; bs "int"; bs "uint"]
  ++ map (fun n => bs "bytes" ++ dec_digits n) (map N.of_nat (seq 1 32))
  ++ map (fun n => bs "int" ++ dec_digits n) int_sizes
  ++ map (fun n => bs "uint" ++ dec_digits n) int_sizes.
(* isPrimitiveTypeValid *)
Definition prim_valid (t : bytes) : bool := mem (trim_arr t) prim_base_names.

(* Types.validate (first rune upper-case = ASCII upper case: type names are ASCII in the model) *)
Definition field_valid (T : tymap) (key : bytes) (f : bytes * bytes) : bool :=
  let '(name, ty) := f in
  negb (beqb ty []) && negb (beqb name []) && negb (beqb key ty) &&
  match ty with
  | c :: _ =>
    if is_upper c then
      match assoc (trim_arr ty) T with Some _ => ref_regexp ty | None => false end
    else prim_valid ty
  | [] => false
  end.
Definition types_valid (T : tymap) : bool :=
  forallb (fun e => negb (beqb (fst e) []) && forallb (field_valid T (fst e)) (snd e)) T.

(* ------------------------------------------------------------------ EncodeType *)

(* Dependencies(primaryType, found): depth-first, pre-order; fuel >= number of types + 1 *)
Fixpoint deps_f (f : nat) (T : tymap) (ty : bytes) (found : list bytes) : list bytes :=
  match f with
  | O => found
  | S k =>
    let ty := trim_arr ty in
    if mem ty found then found else
    match assoc ty T with
    | None => found
    | Some fs => fold_left (fun fnd fld => deps_f k T (snd fld) fnd) fs (found ++ [ty])
    end
  end.

(* one type with its members; the last byte written (a "," or, for a type without members, the "(") is
   removed by buffer.Truncate(buffer.Len() - 1) before ")" *)
Definition member_str (f : bytes * bytes) : bytes := snd f ++ [32] ++ fst f ++ [44].
Definition one_type_str (name : bytes) (fs : tydef) : bytes :=
  removelast (name ++ [40] ++ flat_map member_str fs) ++ [41].

Definition encode_type (T : tymap) (primary : bytes) : bytes :=
  match deps_f (S (length T)) T primary [] with
  | [] => []
  | _ :: rest =>
    flat_map (fun d => one_type_str d (match assoc d T with Some fs => fs | None => [] end))
             (primary :: sort_asc rest)
  end.

(* ------------------------------------------------------------------ primitive values *)

Definition TWO256 : Z := (2 ^ 256)%Z.
Definition word_of_Z (z : Z) : bytes := ser_be 32 (Z.to_N (z mod TWO256)).     (* math.U256Bytes *)

Definition bitlen (z : Z) : N := N.size (Z.to_N (Z.abs z)).                     (* big.Int.BitLen *)

(* SetString(s, base) for base 10 / 16: optional sign, at least one digit, nothing else *)
Fixpoint scan_digits (b : N) (s : bytes) (acc : N) : option N :=
  match s with
  | [] => Some acc
  | c :: r => let d := digit_val c in if b <=? d then None else scan_digits b r (acc * b + d)
  end.
Definition set_string_base (b : N) (s : bytes) : option Z :=
  let mant (m : bytes) := match m with [] => None | _ => scan_digits b m 0 end in
  match s with
  | 45 :: r => option_map (fun n => (- Z.of_N n)%Z) (mant r)
  | 43 :: r => option_map Z.of_N (mant r)
  | _ => option_map Z.of_N (mant s)
  end.
(* math.ParseBig256 *)
Definition parse_big256 (s : bytes) : option Z :=
  match s with
  | [] => Some 0%Z
  | _ =>
    let r := match s with
             | 48 :: x :: r' => if (x =? 120) || (x =? 88) then set_string_base 16 r' else set_string_base 10 s
             | _ => set_string_base 10 s
             end in
    match r with
    | Some z => if 256 <? bitlen z then None else Some z
    | None => None
    end
  end.

(* size of an int/uint type name: "int"/"uint" = 256, else strconv.Atoi of the suffix *)
Definition int_type (t : bytes) : option (bool * N) :=
  let parse (signed : bool) (suffix : bytes) :=
    match suffix with
    | [] => Some (signed, 256)
    | _ => match scan_digits 10 suffix 0 with Some n => Some (signed, n) | None => None end
    end in
  match t with
  | 117 :: 105 :: 110 :: 116 :: r => parse false r       (* "uint" *)
  | 105 :: 110 :: 116 :: r => parse true r               (* "int" *)
  | _ => None
  end.

(* parseInteger + U256Bytes *)
Definition enc_int (signed : bool) (size : N) (v : json) : option bytes :=
  let zo := match v with
            | JNum z => Some z
            | JStr s => parse_big256 s
            | _ => None
            end in
  match zo with
  | None => None
  | Some z =>
    if size <? bitlen z then None
    else if negb signed && (z <? 0)%Z then None
    else Some (word_of_Z z)
  end.

Definition is_hex (c : N) : bool := is_digit c || ((97 <=? c) && (c <=? 102)) || ((65 <=? c) && (c <=? 70)).
Definition strip_0x (s : bytes) : bytes :=
  match s with
  | 48 :: x :: r => if (x =? 120) || (x =? 88) then r else s
  | _ => s
  end.
Fixpoint hex_pairs (s : bytes) : bytes :=
  match s with
  | a :: b :: r => (digit_val a * 16 + digit_val b) :: hex_pairs r
  | _ => []
  end.
(* common.IsHexAddress / HexToAddress, left-padded to 32 bytes *)
Definition enc_address (v : json) : option bytes :=
  match v with
  | JStr s => let h := strip_0x s in
              if (length h =? 40)%nat && forallb is_hex h then Some (repeat 0 12 ++ hex_pairs h) else None
  | _ => None
  end.

(* ------------------------------------------------------------------ typed reading of dynamic data *)

(* The data as EncodeData reads it under a type: atoms already as 32-byte words, strings kept (they are
   hashed), structures with the members in declaration order together with their names and types and the
   type string that is hashed into the type hash, arrays. *)
Inductive tval :=
| VWord (w : bytes)
| VStr (s : bytes)
| VStruct (name : bytes) (tystr : bytes) (fields : list (bytes * bytes * tval))
| VArr (l : list tval).

Definition read_prim (ty : bytes) (v : json) : option tval :=
  if beqb ty (bs "string") then match v with JStr s => Some (VStr s) | _ => None end
  else if beqb ty (bs "bool") then match v with JBool b => Some (VWord (word_of_Z (if b then 1 else 0)%Z)) | _ => None end
  else if beqb ty (bs "address") then option_map VWord (enc_address v)
  else match int_type ty with
       | Some (signed, size) => option_map VWord (enc_int signed size v)
       | None => None                      (* bytes / bytesN: outside the model; anything else: unrecognized type *)
       end.

Fixpoint map_opt {A B} (f : A -> option B) (l : list A) : option (list B) :=
  match l with
  | [] => Some []
  | x :: r => match f x, map_opt f r with Some y, Some ys => Some (y :: ys) | _, _ => None end
  end.

(* EncodeData(primaryType, data) as a reader; fuel bounds the nesting of the data *)
Fixpoint read_struct (f : nat) (T : tymap) (ty : bytes) (d : list kv) : option tval :=
  match f with
  | O => None
  | S k =>
    match assoc ty T with
    | None => None
    | Some fs =>
      if (length fs <? length d)%nat then None          (* "there is extra data provided in the message" *)
      else
        let read_item (ety : bytes) (item : json) : option tval :=
          match assoc ety T with
          | Some _ => match item with JObj o => read_struct k T ety o | _ => None end
          | None => read_prim ety item
          end in
        let read_field (fld : bytes * bytes) : option (bytes * bytes * tval) :=
          let '(name, fty) := fld in
          let v := match assoc name d with Some v => v | None => JNull end in
          let r :=
            if ends_bracket fty then
              match v with
              | JArr items => option_map VArr (map_opt (read_item (before_bracket fty)) items)
              | _ => None
              end
            else read_item fty v in
          option_map (fun t => (name, fty, t)) r in
        option_map (VStruct ty (encode_type T ty)) (map_opt read_field fs)
    end
  end.

(* ------------------------------------------------------------------ encoding of typed values *)

Section Hash.
  Variable H : bytes -> bytes.

  Fixpoint enc_word (t : tval) : bytes :=
    match t with
    | VWord w => w
    | VStr s => H s
    | VStruct _ tystr fs => H (H tystr ++ flat_map (fun x => enc_word (snd x)) fs)
    | VArr l => H (flat_map enc_word l)
    end.

  (* EncodeData: typeHash || enc(member_1) || ... *)
  Definition enc_data (t : tval) : bytes :=
    match t with
    | VStruct _ tystr fs => H tystr ++ flat_map (fun x => enc_word (snd x)) fs
    | _ => []
    end.

  (* HashStruct(primaryType, data), with Types.validate as EncodeData runs it first *)
  Definition hash_struct (T : tymap) (ty : bytes) (d : list kv) : option bytes :=
    if negb (types_valid T) then None else
    match assoc ty T with
    | None => match d with [] => Some (H (H [])) | _ => None end    (* unknown primary type, empty data *)
    | Some _ => option_map (fun t => H (enc_data t)) (read_struct (S (jsize (JObj d))) T ty d)
    end.

  (* TypedDataAndHash: rawData = 0x19 0x01 || domainSeparator || hashStruct(message) *)
  Definition typed_data_bytes (T : tymap) (primary : bytes) (domain message : list kv) : option bytes :=
    match hash_struct T (bs "EIP712Domain") domain, hash_struct T primary message with
    | Some ds, Some hs => Some ([0x19; 0x01] ++ ds ++ hs)
    | _, _ => None
    end.

  (* x/cpc/eip712 EIP712HashingTypedMessage *)
  Definition typed_message_hash (T : tymap) (primary : bytes) (domain message : list kv) : option bytes :=
    match hash_struct T primary message, hash_struct T (bs "EIP712Domain") domain with
    | Some hs, Some ds => Some (H ([0x19; 0x01] ++ ds ++ hs))
    | _, _ => None
    end.
End Hash.

(* ------------------------------------------------------------------ sign doc -> typed data *)

(* keys the model covers: non-empty, [A-Za-z0-9_] only, no duplicates in one object *)
Definition key_ok (k : bytes) : bool := negb (beqb k []) && forallb is_word k.
Fixpoint nodupb (l : list bytes) : bool :=
  match l with [] => true | x :: r => negb (mem x r) && nodupb r end.
Fixpoint keys_ok_f (f : nat) (j : json) : bool :=
  match f with
  | O => false
  | S k =>
    match j with
    | JArr l => forallb (keys_ok_f k) l
    | JObj l => forallb (fun e => key_ok (fst e) && keys_ok_f k (snd e)) l && nodupb (map fst l)
    | _ => true
    end
  end.
Definition keys_ok (j : json) : bool := keys_ok_f (jsize j) j.

(* cases.Title(language.English, cases.NoLower) on [A-Za-z0-9]*: upper-case the first letter (digits before it stay) *)
Fixpoint title (s : bytes) : bytes :=
  match s with
  | [] => []
  | c :: r => if is_digit c then c :: title r else (if is_lower c then c - 32 else c) :: r
  end.

(* sanitizeTypedef *)
Definition sanitize (s : bytes) : bytes :=
  flat_map (fun part => if beqb part [95] then bs "Type" else flat_map title (split_on 95 part)) (split_on 46 s).

(* getEthTypeForJSON *)
Definition eth_type (j : json) : option bytes :=
  match j with
  | JBool _ => Some (bs "bool")
  | JNum _ | JFloat => Some (bs "int64")
  | JStr _ => Some (bs "string")
  | _ => None
  end.

(* addTypesToRoot: typeDef{idx} for the first idx whose entry is absent or identical; at most 1000 duplicates *)
Fixpoint add_types_f (f : nat) (T : tymap) (typeDef : bytes) (idx : N) (fs : tydef) : option (tymap * bytes) :=
  match f with
  | O => None
  | S k =>
    let key := typeDef ++ dec_digits idx in
    match assoc key T with
    | Some ex => if tydef_eqb fs ex then Some (T, key) else add_types_f k T typeDef (idx + 1) fs
    | None => Some (T ++ [(key, fs)], key)
    end
  end.
Definition add_types (T : tymap) (typeDef : bytes) (fs : tydef) : option (tymap * bytes) :=
  add_types_f 1000 T typeDef 0 fs.

Definition arr_suffix (coll : bool) : bytes := if coll then [91; 93] else [].

(* recursivelyAddTypesToRoot; fuel bounds the nesting of the payload *)
Fixpoint walk (f : nat) (T : tymap) (rootType prefix : bytes) (obj : list kv) : option (tymap * bytes) :=
  match f with
  | O => None
  | S k =>
    let step (acc : option (tymap * tydef)) (name : bytes) : option (tymap * tydef) :=
      match acc with
      | None => None
      | Some (T, fs) =>
        match assoc name obj with
        | None => Some (T, fs)
        | Some (JArr []) => Some (T, fs ++ [(name, bs "string[]")])
        | Some v =>
          let '(fld, coll) := match v with JArr (x :: _) => (x, true) | _ => (v, false) end in
          match eth_type fld with
          | Some t => Some (T, fs ++ [(name, t ++ arr_suffix coll)])
          | None =>
            match fld with
            | JObj o =>
              match walk k T rootType (prefix ++ [46] ++ name) o with
              | None => None
              | Some (T', td) => Some (T', fs ++ [(name, sanitize td ++ arr_suffix coll)])
              end
            | _ => Some (T, fs)                        (* null, array of arrays: no member is declared *)
            end
          end
        end
      end in
    match fold_left step (sort_desc (map fst obj)) (Some (T, [])) with
    | None => None
    | Some (T', fs) => add_types T' (if beqb prefix [95] then rootType else sanitize prefix) fs
    end
  end.

(* msgRootType: "Type" ++ last "/"-separated token of the string member "type" *)
Definition msg_root_type (msg : list kv) : option bytes :=
  match assoc (bs "type") msg with
  | Some (JStr s) => match s with [] => None | _ => Some (bs "Type" ++ last (split_on 47 s) []) end
  | _ => None
  end.

Definition msg_field (i : N) : bytes := bs "msg" ++ dec_digits i.

Definition base_types : tymap :=
  [ (bs "EIP712Domain", [(bs "name", bs "string"); (bs "version", bs "string"); (bs "chainId", bs "uint256");
                          (bs "verifyingContract", bs "string"); (bs "salt", bs "string")]);
    (bs "Tx", [(bs "account_number", bs "string"); (bs "chain_id", bs "string"); (bs "fee", bs "Fee");
                (bs "memo", bs "string"); (bs "sequence", bs "string")]);
    (bs "Fee", [(bs "amount", bs "Coin[]"); (bs "gas", bs "string")]);
    (bs "Coin", [(bs "denom", bs "string"); (bs "amount", bs "string")]) ].

Fixpoint update_assoc {A} (k : bytes) (g : A -> A) (l : list (bytes * A)) : list (bytes * A) :=
  match l with
  | [] => []
  | (k', v) :: r => if beqb k k' then (k', g v) :: r else (k', v) :: update_assoc k g r
  end.

(* createEIP712Types: one root type per message, appended to the Tx schema *)
Fixpoint types_of_msgs (T : tymap) (i : N) (msgs : list json) : option tymap :=
  match msgs with
  | [] => Some T
  | m :: r =>
    match m with
    | JObj o =>
      match msg_root_type o with
      | None => None
      | Some root =>
        match walk (jsize m) T root [95] o with
        | None => None
        | Some (T', td) =>
          types_of_msgs (update_assoc (bs "Tx") (fun fs => fs ++ [(msg_field i, td)]) T') (i + 1) r
        end
      end
    | _ => None
    end
  end.

(* FlattenPayloadMessages: "msgs":[m0,..] becomes "msg0":m0, ...; an existing member of that name is an error *)
Fixpoint flatten_msgs (doc : list kv) (i : N) (msgs : list json) : option (list kv) :=
  match msgs with
  | [] => Some doc
  | m :: r =>
    match assoc (msg_field i) doc, m with
    | None, JObj _ => flatten_msgs (doc ++ [(msg_field i, m)]) (i + 1) r
    | _, _ => None
    end
  end.

Fixpoint remove_key (k : bytes) (l : list kv) : list kv :=
  match l with
  | [] => []
  | (k', v) :: r => if beqb k k' then r else (k', v) :: remove_key k r
  end.

Definition flatten (doc : list kv) : option (list kv * list json) :=
  match assoc (bs "msgs") doc with
  | Some (JArr msgs) =>
    match flatten_msgs doc 0 msgs with
    | Some d => Some (remove_key (bs "msgs") d, msgs)
    | None => None
    end
  | _ => None
  end.

(* types.ParseChainID, then .Uint64() and int64() as in the callers of WrapTxToTypedData / createEIP712Domain *)
Definition chain_id_number (s : bytes) : option Z :=
  let s := trim s in
  if (48 <? length s)%nat then None else
  let fix letters (s : bytes) (n : nat) : option bytes :=       (* [a-z]{1,}_ *)
      match s with
      | c :: r => if is_lower c then letters r (S n)
                  else if (c =? 95) && negb (Nat.eqb n 0) then Some r else None
      | [] => None
      end in
  let fix number (s : bytes) (acc : N) (first : bool) : option (N * bytes) :=   (* [1-9][0-9]* , rest *)
      match s with
      | c :: r => if is_digit c then (if first && (c =? 48) then None else number r (acc * 10 + (c - 48)) false)
                  else if first then None else Some (acc, s)
      | [] => if first then None else Some (acc, [])
      end in
  match letters s 0%nat with
  | None => None
  | Some r =>
    match number r 0 true with
    | Some (n, 45 :: r') =>
      match number r' 0 true with
      | Some (_, []) =>
        let u := n mod (2 ^ 64) in
        Some (if u <? 2 ^ 63 then Z.of_N u else (Z.of_N u - 2 ^ 64)%Z)
      | _ => None
      end
    | _ => None
    end
  end.

Definition cosmos_domain (chain : Z) : list kv :=
  [ (bs "chainId", JNum chain); (bs "name", JStr (bs "Cosmos Web3")); (bs "version", JStr (bs "1.0.0"));
    (bs "verifyingContract", JStr (bs "cosmos")); (bs "salt", JStr (bs "0")) ].

Section Render.
  Variable H : bytes -> bytes.

  (* WrapTxToTypedData(chainID, doc) + TypedDataAndHash; the chain id is the one parsed from the doc's own
     "chain_id" member (decodeAminoSignDoc / decodeProtobufSignDoc) *)
  Definition render_with_chain (chain : Z) (doc : list kv) : option bytes :=
    match flatten doc with
    | None => None
    | Some (message, msgs) =>
      match types_of_msgs base_types 0 msgs with
      | None => None
      | Some T => typed_data_bytes H T (bs "Tx") (cosmos_domain chain) message
      end
    end.

  Definition render (j : json) : option bytes :=
    match j with
    | JObj doc =>
      match assoc (bs "chain_id") doc with
      | Some (JStr s) =>
        match chain_id_number s with
        | Some c => render_with_chain c doc
        | None => None
        end
      | _ => None
      end
    | _ => None
    end.
End Render.

(* ------------------------------------------------------------------ repeated members *)

(* ethereum/eip712/duplicate_keys.go rejectDuplicateKeys (called by unmarshalBytesToJSONObject before anything is built):
   a document in which some object repeats a member name, at any depth, is refused.  gjson reads the first occurrence
   of a repeated member and the Amino codec the last, so no typed data could describe such a document. *)
Fixpoint dup_free_f (f : nat) (j : json) : bool :=
  match f with
  | O => false
  | S k =>
    match j with
    | JArr l => forallb (dup_free_f k) l
    | JObj l => forallb (fun e => dup_free_f k (snd e)) l && nodupb (map fst l)
    | _ => true
    end
  end.
Definition dup_free (j : json) : bool := dup_free_f (jsize j) j.

(* the rendering as the code does it: refusal of repeated members first *)
Definition render_checked (H : bytes -> bytes) (j : json) : option bytes :=
  if dup_free j then render H j else None.
