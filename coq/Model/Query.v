(* Model of the simulation / query paths (C08):
   - x/evm/keeper/state_transition.go ApplyMessageWithConfig(commit): NewStateDB(ctx); run the EVM;
     CommitMultiStore only if commit -- EthCall, EstimateGas and traceTx(commit=false) pass false;
   - app/antedl/evmlane/993e_exec_without_error.go: the trial execution runs on ctx.CacheContext()
     whose write function is thrown away;
   - x/evm/types/utils.go BinSearch and the tail of x/evm/keeper/grpc_query.go EstimateGas.
   What the EVM interpreter, the precompiles and the keepers do is an arbitrary adaptive program over
   the StateDB interface and the current context ([prog]); nothing is assumed about it. *)
From Evm Require Import CacheStack.
Open Scope N_scope.

(* ------------------------------------------------------------------ arbitrary simulated code *)

Inductive prog (R : Type) : Type :=
| PRet (r : R)
| PRead (k : key) (cont : option val -> prog R)      (* any keeper / StateDB read through the current context *)
| PSide (cont : side -> prog R)                       (* any getter of the revertible side state *)
| PDo (o : op) (cont : out -> prog R).                (* any write, snapshot, revert (or commit) *)
Arguments PRet {R} r.
Arguments PRead {R} k cont.
Arguments PSide {R} cont.
Arguments PDo {R} o cont.

Fixpoint exec {R} (s : sdb) (p : prog R) : sdb * R :=
  match p with
  | PRet r => (s, r)
  | PRead k cont => exec s (cont (view s k))
  | PSide cont => exec s (cont (cur s))
  | PDo o cont => let '(s', r) := step s o in exec s' (cont r)
  end.

Inductive commit_free {R} : prog R -> Prop :=
| CF_Ret : forall r, commit_free (PRet r)
| CF_Read : forall k cont, (forall v, commit_free (cont v)) -> commit_free (PRead k cont)
| CF_Side : forall cont, (forall c, commit_free (cont c)) -> commit_free (PSide cont)
| CF_Do : forall o cont, is_commit o = false -> (forall r, commit_free (cont r)) -> commit_free (PDo o cont).

(* ApplyMessageWithConfig(ctx, msg, tracer, commit=false, ...): result only; the StateDB is dropped *)
Definition run_no_commit {R} (ctx : kv) (ev : list N) (p : prog R) : R := snd (exec (init ctx ev) p).
(* the context the caller still holds afterwards *)
Definition ctx_after_no_commit {R} (ctx : kv) (ev : list N) (p : prog R) : kv * list N :=
  let s := fst (exec (init ctx ev) p) in (orig s, orig_ev s).

(* ApplyMessageWithConfig(..., commit=true, ...): same execution, then CommitMultiStore *)
Definition run_commit {R} (ctx : kv) (ev : list N) (p : prog R) (destroy : overlay) : kv * R :=
  let '(s, r) := exec (init ctx ev) p in (orig (fst (step s (Commit destroy))), r).

(* 993e: simulationCtx, _ := ctx.CacheContext(); optional nonce rollback written to the branch;
   NewStateDB(simulationCtx); ApplyMessage; the branch is never written back; next(ctx, ...) *)
Definition trial_exec {R} (ctx : kv) (ev : list N) (rollback : overlay) (p : prog R) : (kv * list N) * R :=
  let branch := kv_over rollback ctx in
  ((ctx, ev), snd (exec (init branch []) p)).

(* ------------------------------------------------------------------ gas estimation *)

(* outcome of executable(gas) in EstimateGas *)
Inductive exres :=
| ExOk            (* no VM error *)
| ExOOG           (* VmError = out of gas *)
| ExRevert        (* VmError = execution reverted *)
| ExVmOther       (* any other VM error *)
| ExIntrinsic     (* core.ErrIntrinsicGas: (true, nil, nil) "raise gas limit" *)
| ExErr.          (* any other consensus error: bail out *)

Definition failed (r : exres) : bool := match r with ExOk => false | _ => true end.

Inductive bres := BFuel | BErr | BHi (hi : N).

Definition U64 : N := 18446744073709551616.

(* evmtypes.BinSearch (x/evm/types/utils.go, since /repo 81e4910): for lo+1 < hi { mid := lo + (hi-lo)/2; ... } with
   uint64 arithmetic: the sum hi+lo is no longer formed, so the midpoint cannot wrap around *)
Definition mid64 (lo hi : N) : N := (lo + ((hi + U64 - lo) mod U64) / 2) mod U64.
(* the midpoint before 81e4910: (hi + lo) / 2, the sum wrapping around uint64 *)
Definition mid64_wrapping (lo hi : N) : N := ((hi + lo) mod U64) / 2.

Section BinSearch.
  Variable mid : N -> N -> N.

  Fixpoint bin_search_with (fuel : nat) (ex : N -> exres) (lo hi : N) : bres :=
    match fuel with
    | O => BFuel
    | S f =>
        if (lo + 1) mod U64 <? hi then
          let m := mid lo hi in
          match ex m with
          | ExErr => BErr
          | ExOk => bin_search_with f ex lo m
          | _ => bin_search_with f ex m hi
          end
        else BHi hi
    end.

  (* probes made by the search, in order (observable when BinSearch is driven directly) *)
  Fixpoint bin_probes_with (fuel : nat) (ex : N -> exres) (lo hi : N) : list N :=
    match fuel with
    | O => []
    | S f =>
        if (lo + 1) mod U64 <? hi then
          let m := mid lo hi in
          m :: match ex m with
               | ExErr => []
               | ExOk => bin_probes_with f ex lo m
               | _ => bin_probes_with f ex m hi
               end
        else []
    end.
End BinSearch.

Definition bin_search := bin_search_with mid64.
Definition bin_probes := bin_probes_with mid64.
(* the search as it was before 81e4910 (for the statement of what the repair removed) *)
Definition bin_search_wrapping := bin_search_with mid64_wrapping.
Definition bin_probes_wrapping := bin_probes_with mid64_wrapping.

Inductive estres :=
| EstOk (g : N)
| EstInvalidArg        (* gas cap below 21000 *)
| EstBail              (* executable returned a consensus error *)
| EstVmError           (* fails at the cap with a VM error other than out of gas *)
| EstAllowance         (* "gas required exceeds allowance" *)
| EstFuel.             (* the model ran out of fuel (never on 64-bit inputs, see QueryProofs) *)

Definition TxGas : N := 21000.
Definition est_fuel : nat := 200.

(* the highest gas limit tried: args.Gas if >= 21000, else block max gas if > 0, else the cap; then capped *)
Definition est_hi (gas_cap : N) (args_gas : option N) (block_max_gas : Z) : N :=
  let hi0 := match args_gas with
             | Some g => if TxGas <=? g then Some g else None
             | None => None
             end in
  let hi1 := match hi0 with
             | Some g => g
             | None => if (0 <? block_max_gas)%Z then Z.to_N block_max_gas else gas_cap
             end in
  if negb (gas_cap =? 0) && (gas_cap <? hi1) then gas_cap else hi1.

Definition estimate_gas (ex : N -> exres) (gas_cap : N) (args_gas : option N) (block_max_gas : Z) : estres :=
  if gas_cap <? TxGas then EstInvalidArg
  else
    let lo := TxGas - 1 in
    let cap := est_hi gas_cap args_gas block_max_gas in
    match bin_search est_fuel ex lo cap with
    | BFuel => EstFuel
    | BErr => EstBail
    | BHi hi =>
        if hi =? cap then
          match ex hi with
          | ExErr => EstBail
          | ExOk => EstOk hi
          | ExRevert | ExVmOther => EstVmError
          | ExOOG | ExIntrinsic => EstAllowance
          end
        else EstOk hi
    end.

(* executable(gas) is a query on the same context every time *)
Definition exec_of (ctx : kv) (ev : list N) (call : N -> prog exres) : N -> exres :=
  fun g => run_no_commit ctx ev (call g).

(* ------------------------------------------------------------------ the gas limit a simulated call runs with *)

(* x/evm/types/tx_args.go TransactionArgs.ToMessage(globalGasCap, baseFee):
   gas := globalGasCap; if gas == 0 { gas = MaxUint64/2 }; if args.Gas != nil { gas = *args.Gas };
   if globalGasCap != 0 && globalGasCap < gas { gas = globalGasCap } *)
Definition HalfMaxU64 : N := 9223372036854775807.
Definition call_gas (gas_cap : N) (args_gas : option N) : N :=
  let g := match args_gas with
           | Some g => g
           | None => if gas_cap =? 0 then HalfMaxU64 else gas_cap
           end in
  if negb (gas_cap =? 0) && (gas_cap <? g) then gas_cap else g.

(* ------------------------------------------------------------------ histories *)

(* queries, check-tx trial executions and delivered transactions interleaved in any order *)
Inductive hop (R : Type) : Type :=
| HQuery (p : prog R)                     (* eth_call, an estimator probe, a traced transaction: commit=false *)
| HTrial (rollback : overlay) (p : prog R) (* mempool admission: trial execution on a dropped branch *)
| HDeliver (p : prog R) (destroy : overlay). (* a delivered transaction: commit=true *)
Arguments HQuery {R} p.
Arguments HTrial {R} rollback p.
Arguments HDeliver {R} p destroy.

Record hres (R : Type) := mkHres {
  h_state : kv;            (* the committed state after the history *)
  h_answers : list R;      (* answers of the queries and trial executions, in order *)
  h_delivered : list R     (* results of the delivered transactions, in order *)
}.
Arguments mkHres {R}.
Arguments h_state {R}.
Arguments h_answers {R}.
Arguments h_delivered {R}.

(* the state a query leaves behind is whatever its StateDB did to the context it was built on
   (ctx_after_no_commit), not "ctx" by definition: that it IS ctx is the theorem *)
Fixpoint run_hist {R} (ctx : kv) (h : list (hop R)) : hres R :=
  match h with
  | [] => mkHres ctx [] []
  | HQuery p :: r =>
      let x := run_no_commit ctx [] p in
      let rest := run_hist (fst (ctx_after_no_commit ctx [] p)) r in
      mkHres (h_state rest) (x :: h_answers rest) (h_delivered rest)
  | HTrial rb p :: r =>
      let '(c', x) := trial_exec ctx [] rb p in
      let rest := run_hist (fst c') r in
      mkHres (h_state rest) (x :: h_answers rest) (h_delivered rest)
  | HDeliver p d :: r =>
      let '(c', x) := run_commit ctx [] p d in
      let rest := run_hist c' r in
      mkHres (h_state rest) (h_answers rest) (x :: h_delivered rest)
  end.

Definition is_deliver {R} (o : hop R) : bool := match o with HDeliver _ _ => true | _ => false end.
Definition hop_commit_free {R} (o : hop R) : Prop := match o with HQuery p => commit_free p | _ => True end.

(* ------------------------------------------------------------------ tracing a transaction of a block *)

(* x/evm/keeper/grpc_query.go TraceTx / TraceBlock against the block they re-execute.
   [apply s t] is ApplyMessageWithConfig(ctx, msg, tracer, commit=true, ...) on the context the query owns:
   None = a consensus ("core") error of the state transition (nonce too high / too low, intrinsic gas, funds for
   the transfer, creation disabled ...): the context is untouched; Some (s', r) = executed -- whether the EVM
   succeeded, reverted or ran out of gas is part of r -- and committed to the context (sender nonce + 1 included). *)
Section TraceModel.
  Context {St T R : Type}.
  Variable apply : St -> T -> option (St * R).

  (* TraceTx, predecessor loop:  rsp, err := ApplyMessageWithConfig(ctx, msg, NoOpTracer, true, ...);
     if err != nil { continue }   ("TODO: simulate failed tx as this is possible") *)
  Fixpoint replay (s : St) (preds : list T) : St :=
    match preds with
    | [] => s
    | t :: r => match apply s t with
                | Some (s', _) => replay s' r
                | None => replay s r
                end
    end.

  (* ... then traceTx(ctx, ..., commitMessage=false) of the requested message: an error is the answer *)
  Definition trace_tx (s : St) (preds : list T) (t : T) : option R :=
    option_map snd (apply (replay s preds) t).

  (* TraceBlock: traceTx(ctx, ..., commitMessage=true) for every transaction; an error is recorded for that
     transaction and the context is left as it was *)
  Fixpoint trace_block (s : St) (txs : list T) : list (option R) :=
    match txs with
    | [] => []
    | t :: r => match apply s t with
                | Some (s', x) => Some x :: trace_block s' r
                | None => None :: trace_block s r
                end
    end.

  (* a variant that also leaves out predecessors whose EVM execution failed (not the code: refuted below) *)
  Variable vm_failed : R -> bool.
  Fixpoint replay_dropping_failed (s : St) (preds : list T) : St :=
    match preds with
    | [] => s
    | t :: r => match apply s t with
                | Some (s', x) => if vm_failed x then replay_dropping_failed s r else replay_dropping_failed s' r
                | None => replay_dropping_failed s r
                end
    end.
  Definition trace_tx_dropping_failed (s : St) (preds : list T) (t : T) : option R :=
    option_map snd (apply (replay_dropping_failed s preds) t).

  (* The block itself (baseapp runTx): the deliver-mode ante handler admits or refuses the transaction
     (refused: nothing happens); admitted: fee moved to the collector and sequence + 1 (12_increment_sequence.go);
     the msg server (x/evm/keeper/msg_server.go EthereumTx) takes the sequence back and runs the state transition
     on that state [pre_fx s t]; executed: committed plus the refund bookkeeping [post_fx]; refused with a core
     error: the message branch is dropped and what the ante handler did stays [core_fx s t]: the nonce IS consumed. *)
  Inductive bout := BkAnte | BkCore | BkExec (r : R).
  Variable admitted : St -> T -> bool.
  Variable pre_fx : St -> T -> St.
  Variable post_fx : St -> T -> R -> St.
  Variable core_fx : St -> T -> St.

  Definition block_step (s : St) (t : T) : St * bout :=
    if admitted s t then
      match apply (pre_fx s t) t with
      | Some (s', r) => (post_fx s' t r, BkExec r)
      | None => (core_fx s t, BkCore)
      end
    else (s, BkAnte).

  Fixpoint block_run (s : St) (txs : list T) : St * list bout :=
    match txs with
    | [] => (s, [])
    | t :: r => let '(s1, o) := block_step s t in
                let '(s2, os) := block_run s1 r in (s2, o :: os)
    end.

  (* a replay that is told what the block did with each predecessor and keeps the effects of the refused ones *)
  Fixpoint replay_with_outcomes (s : St) (preds : list (T * bout)) : St :=
    match preds with
    | [] => s
    | (t, BkExec _) :: r => match apply s t with
                            | Some (s', _) => replay_with_outcomes s' r
                            | None => replay_with_outcomes s r
                            end
    | (t, BkCore) :: r => replay_with_outcomes (core_fx s t) r
    | (t, BkAnte) :: r => replay_with_outcomes s r
    end.
  Definition trace_tx_with_outcomes (s : St) (preds : list (T * bout)) (t : T) : option R :=
    option_map snd (apply (replay_with_outcomes s preds) t).
End TraceModel.
Arguments BkAnte {R}.
Arguments BkCore {R}.
Arguments BkExec {R} r.

(* the nonce skeleton of a block: who sent each transaction, with which nonce, and what the block did with it *)
Inductive bclass :=
| BExec (vm_failed : bool)   (* executed (code 0); the EVM failed or not *)
| BCore                      (* admitted by the ante handler, refused by the state transition for a reason that
                                does not depend on the nonce (intrinsic gas, funds for the transfer) *)
| BAnte.                     (* refused by the ante handler *)
Record btx := mkBtx { b_sender : N; b_nonce : N; b_class : bclass }.

Definition nmap := list (N * N).     (* sender -> account nonce *)
Fixpoint nm_get (m : nmap) (a : N) : N :=
  match m with
  | [] => 0
  | (b, n) :: r => if b =? a then n else nm_get r a
  end.
Fixpoint nm_bump (m : nmap) (a : N) : nmap :=
  match m with
  | [] => [(a, 1)]
  | (b, n) :: r => if b =? a then (b, n + 1) :: r else (b, n) :: nm_bump r a
  end.

(* ApplyMessageWithConfig seen through nonces: preCheck compares the account nonce with the transaction's *)
Definition skel_apply (m : nmap) (t : btx) : option (nmap * bool) :=
  match b_class t with
  | BExec f => if nm_get m (b_sender t) =? b_nonce t then Some (nm_bump m (b_sender t), f) else None
  | _ => None
  end.
Definition skel_admitted (m : nmap) (t : btx) : bool :=
  match b_class t with BAnte => false | _ => nm_get m (b_sender t) =? b_nonce t end.
Definition skel_block_run : nmap -> list btx -> nmap * list bout :=
  block_run skel_apply skel_admitted (fun m _ => m) (fun m _ _ => m) (fun m t => nm_bump m (b_sender t)).

(* ------------------------------------------------------------------ mempool admission and the check state *)

(* CheckTx / ReCheckTx of an Ethereum transaction, as far as the sender's sequence in the CHECK STATE goes:
   duallane/12_increment_sequence.go bumps it in the context the ante handler was given; evmlane/993e takes
   simulationCtx := ctx.CacheContext(), rolls the sequence back THERE, runs the trial execution THERE and drops the
   branch (trial_exec); what stays in the check state is the bump.  [p] is the trial execution: arbitrary. *)
Definition seq_of (ctx : kv) (k : key) : N := match ctx k with Some v => v | None => 0 end.
Definition checktx_admit {R} (ctx : kv) (k : key) (p : prog R) : kv :=
  let cur := seq_of ctx k in
  let bumped := kv_over [(k, Some (cur + 1))] ctx in
  fst (fst (trial_exec bumped [] [(k, Some cur)] p)).

(* the sequences seen in the check state after each of m admitted transactions of one sender *)
Fixpoint checktx_seqs {R} (m : nat) (ctx : kv) (k : key) (p : prog R) : list N :=
  match m with
  | O => []
  | S m' => let ctx' := checktx_admit ctx k p in seq_of ctx' k :: checktx_seqs m' ctx' k p
  end.
