(* Nondet.v — block execution with every ambient input the anchored code could observe made explicit (C01).

   The sources of nondeterminism found by sweeping app/, x/, ethereum/, utils/, types/, crypto/ of /repo (a go/types
   pass listing every `range` over a map type, every `go` statement and `select`, plus greps for time.Now / rand /
   os.Getenv / viper / app options / ctx.MinGasPrices / IsCheckTx) and how each one is represented here:

     wall clock      x/evm/utils/validation.go CheckIfAccountIsSuitableForDestroying(time.Now())   [n_now]
                       until /repo 295ed89 the caller was cStateDb.DestroyAccount; now the guard gets ctx.BlockTime()
                       ([i_guard_wall_clock] = the old behaviour).  No other time.Now / time.Since in non-test,
                       non-CLI code of those trees.
     map iteration   x/evm/vm/state_db.go CommitMultiStore `for a := range d.touched`                [n_order .. (-1) 0]
                       until /repo 133c300 the loop body ran in that order; now the keys are collected and sorted
                       ([i_commit_map_order] = the old behaviour)
                     x/evm/vm/state_db_account_tracker.go Copy (touched, selfDestructed: Snapshot / RevertToSnapshot)
                                                                                                      [n_order .. k 0/1]
                     x/evm/vm/state_db_access_list*.go Copy, state_db_transient_store_geth.go Copy: map -> map copies,
                       read back only by key; same shape as the tracker copies, not modelled separately
                     app/app.go ModuleAccountAddrs / BlockedModuleAccountAddrs: map -> map, read by key ([c_blocked] is
                       a function); AutoCliOpts: CLI only
                     ethereum/eip712/types.go sortedJSONKeys: collect-then-sort, same shape as the commit loop
                     x/cpc/keeper/precompiles_util.go normalizedEvent.Attributes: a map that is never ranged over
                     go-ethereum fork core/vm/evm_evermint.go GetCustomPrecompiledContractsAddress (ranges over the map of
                       custom precompiles): its only consumer, TransitionDb in x/evm/keeper/state_transition_core.go, feeds
                       the list to PrepareAccessList, i.e. inserts every element into a set: again map -> set
     node config     minimum-gas-prices: app/antedl/duallane/07_deduct_fee.go getMinGasPricesAllowed reads
                       ctx.MinGasPrices() only under ctx.IsCheckTx() && !ctx.IsReCheckTx()               [n_min_gas]
                     evm.tracer: app/keepers/keepers.go -> evmkeeper.NewKeeper(tracer) -> x/evm/types/tracer.go
                       NewTracer, called by NewEVM for every message.  Until /repo 17e00a9 `access_list` dereferenced
                       msg.To(), nil for a contract creation: the transaction panicked on that node only
                       ([i_tracer_nil_to] = the old behaviour)                                            [n_tracer]
                     telemetry.enabled (with global labels, prometheus retention, hostname / service labels):
                       server/start.go startTelemetry -> telemetry.New sets a package-level switch of cosmos-sdk/telemetry
                       (so it is a property of the whole node process).  x/evm/keeper/msg_server.go EthereumTx emits its
                       counters in a deferred block registered AFTER the error check on ApplyTransaction; a variant that
                       registers it before the check and returns early when telemetry is off dereferences the missing
                       response on telemetry nodes only ([i_telemetry_nil_resp], seeded, never in /repo);
                       x/feemarket/keeper/abci.go sets a gauge (no result)                                [n_telemetry]
                     every other app.toml / flag setting cmd/evmd/root.go newApp, server/config and app.NewEvermint read
                       (pruning, halt-height/time ahead of the chain, min-retain-blocks, inter-block-cache, index-events,
                       IAVL cache / fast node, state-sync snapshots, json-rpc.*, api.*, grpc.*, trace, trace-store,
                       inv-check-period, log level / format, --metrics): consumed by BaseApp, the stores, the servers and
                       the logger, never by a message handler                                             [n_cfg_other]
     goroutines      the only `go` statement outside generated gateway code is in x/evm/keeper/grpc_query.go traceTx
                       (query path, never FinalizeBlock); optimistic execution is not enabled.  GOMAXPROCS is read
                       nowhere                                                                           [n_procs]
     sort stability  x/cpc/keeper/precompiles_staking.go transfer(): slices.SortFunc (unstable pdqsort) over validators
                       with comparison (tokens, operator string): a total order on distinct operators, so the sorted
                       list is unique ([sort_vals]; uniqueness is proved in NondetProofs)

   What is NOT in this model: IAVL and store hashing (same state => same hash is the stores' business), CometBFT, the
   Cosmos lane and the SDK modules' Begin/EndBlock, gas accounting (C05) and receipts (C13) — the interpreter's result
   (its StateDB calls, the gas figures, VM error) is the parameter [interp], a function of header, state and transaction
   but not of [nenv]: that the go-ethereum interpreter is such a function is an assumption, exercised by the twin run.

   Executable Gallina only.  Theorems: Proofs/NondetProofs.v, Properties/C01.v. *)
From Coq Require Import ZArith List Bool.
From Evm Require Import Destroy.
From Evm Require BaseFee.
Import ListNotations.
Open Scope Z_scope.

(* ------------------------------------------------------------------ ambient inputs *)

Inductive tracer := TrNone | TrJson | TrStruct | TrAccessList | TrMarkdown.

(* [n_order i k j l]: the order in which Go's runtime enumerates a map whose key set is [l], at the map-iteration
   site (transaction i of the block, StateDB operation k of that transaction or -1 for the commit loop,
   map j: 0 = touched, 1 = selfDestructed).  Every site may get another order. *)
Record nenv := mkNenv {
  n_now : Z;                                   (* wall clock, unix seconds *)
  n_order : Z -> Z -> Z -> list Z -> list Z;
  n_min_gas : Z;                               (* node's minimum-gas-prices for the EVM denom, x 10^18 *)
  n_tracer : tracer;                           (* node's evm.tracer *)
  n_procs : Z;                                 (* GOMAXPROCS *)
  n_telemetry : bool;                          (* telemetry.enabled of the node's app.toml (process-wide switch) *)
  n_cfg_other : Z                              (* stands for every other node-local setting (app.toml, config.toml, flags) *)
}.

(* which of the repaired defects an implementation has; /repo HEAD is [impl_head] *)
Record impl := mkImpl {
  i_guard_wall_clock : bool;     (* before 295ed89 *)
  i_commit_map_order : bool;     (* before 133c300 *)
  i_tracer_nil_to : bool;        (* before 17e00a9 *)
  i_telemetry_nil_resp : bool    (* never in /repo: seeded variant of msg_server.go EthereumTx (deferred telemetry block
                                    registered before the error check, skipped when telemetry is off) *)
}.
Definition impl_head : impl := mkImpl false false false false.

(* ------------------------------------------------------------------ StateDB life of one transaction *)

(* DestroyAccount with the vesting guard evaluated at [tg] (Destroy.destroy is this at the block time) *)
Definition destroy_at (tg : Z) (w : world) (a : addr) : res world :=
  let removed :=
    match w_acc w a with
    | Some ac => if protected_kind (a_kind ac) tg then Panic else Ok (upd (w_acc w) a None)
    | None => Ok (w_acc w)
    end in
  bind removed (fun acc' =>
    Ok (mkWorld acc' (upd (w_bal w) a []) (upd (w_code w) a 0) (upd (w_stor w) a []) (w_next w))).

(* the loop of CommitMultiStore(deleteEmptyObjects = true) over [l]; bank burn events in loop order *)
Fixpoint commit_loop_at (tg : Z) (sd : list addr) (w : world) (burns : list (addr * coins)) (l : list addr)
  : res (world * list (addr * coins)) :=
  match l with
  | [] => Ok (w, burns)
  | a :: r =>
      if mem a sd || is_empty w a then
        bind (destroy_at tg w a) (fun w' =>
          commit_loop_at tg sd w' (if all_zero (w_bal w a) then burns else burns ++ [(a, w_bal w a)]) r)
      else commit_loop_at tg sd w burns r
  end.

(* a Go map holds each key once *)
Fixpoint dedup (l : list addr) : list addr :=
  match l with
  | [] => []
  | a :: r => if mem a r then dedup r else a :: dedup r
  end.

Definition ncommit (im : impl) (e : nenv) (i : Z) (block_time : Z) (f : frame) : res (world * list (addr * coins)) :=
  let tg := if i_guard_wall_clock im then n_now e else block_time in
  let keys := n_order e i (-1) 0 (f_touched f) in              (* for touchedAddress := range d.touched *)
  let l := if i_commit_map_order im then dedup keys else sort_addrs keys in
  commit_loop_at tg (f_sd f) (f_w f) [] l.

(* AccountTracker.Copy(): a new map filled by ranging over the old one *)
Definition shuffle (e : nenv) (i k : Z) (f : frame) : frame :=
  mkFrame (f_w f) (n_order e i k 0 (f_touched f)) (n_order e i k 1 (f_sd f)).

(* Snapshot stores copies of the trackers; RevertToSnapshot installs copies of the stored ones *)
Definition nstep (e : nenv) (de : env) (i k : Z) (s : sdb) (o : op) : res sdb :=
  match o with
  | Snapshot => Ok (mkSdb (cur s) (snaps s ++ [shuffle e i k (cur s)]))
  | RevertTo _ =>
      match step de s o with
      | Ok s' => Ok (mkSdb (shuffle e i k (cur s')) (snaps s'))
      | Panic => Panic
      end
  | _ => step de s o
  end.

Fixpoint nrun_ops (e : nenv) (de : env) (i k : Z) (s : sdb) (l : list op) : res sdb :=
  match l with
  | [] => Ok s
  | o :: r => bind (nstep e de i k s o) (fun s' => nrun_ops e de i (k + 1) s' r)
  end.

(* operations, then commit; a panic anywhere fails the transaction as a whole (BaseApp drops the message cache) *)
Definition nrun_tx (im : impl) (e : nenv) (i : Z) (block_time : Z) (blocked : addr -> bool) (w : world) (l : list op) : txres :=
  match nrun_ops e (mkEnv block_time blocked) i 0 (init_sdb w) l with
  | Panic => TxFailed
  | Ok s => match ncommit im e i block_time (cur s) with
            | Panic => TxFailed
            | Ok (w', b) => TxOk w' b
            end
  end.

(* ------------------------------------------------------------------ staking precompile transfer(): validator choice *)

(* [v_op] = rank of the operator's bech32 string among all operators (strings.Compare order) *)
Record validator := mkVal { v_op : Z; v_tokens : Z; v_bonded : bool }.

(* validatorSortFunc: tokens, then operator *)
Definition val_lt (a b : validator) : bool :=
  (v_tokens a <? v_tokens b) || ((v_tokens a =? v_tokens b) && (v_op a <? v_op b)).

Fixpoint insert_val (v : validator) (l : list validator) : list validator :=
  match l with
  | [] => [v]
  | x :: r => if val_lt v x then v :: l else x :: insert_val v r
  end.

Definition sort_vals (l : list validator) : list validator := fold_right insert_val [] l.

Fixpoint find_val (vals : list validator) (op : Z) : option validator :=
  match vals with
  | [] => None
  | v :: r => if v_op v =? op then Some v else find_val r op
  end.

(* delegations of [who] in store order -> their validators, bonded ones only *)
Fixpoint my_bonded (vals : list validator) (dels : list (addr * Z * Z)) (who : addr) : list validator :=
  match dels with
  | [] => []
  | (d, op, _) :: r =>
      if d =? who then
        match find_val vals op with
        | Some v => if v_bonded v then v :: my_bonded vals r who else my_bonded vals r who
        | None => my_bonded vals r who
        end
      else my_bonded vals r who
  end.

(* Case 1: no bonded delegation -> the median of all bonded validators; Case 2: one -> that one;
   Case 3: several -> the one with the least tokens *)
Definition pick_validator (all_bonded mine : list validator) : option validator :=
  match mine with
  | [] => match all_bonded with
          | [] => None
          | _ => nth_error (sort_vals all_bonded) (Nat.div (length all_bonded) 2)
          end
  | [v] => Some v
  | _ => hd_error (sort_vals mine)
  end.

(* ------------------------------------------------------------------ chain state, transactions, results *)

Record header := mkHeader { h_height : Z; h_time : Z }.

Record cstate := mkC {
  c_w : world;
  c_blocked : addr -> bool;              (* bank's blocked addresses (app/app.go BlockedModuleAccountAddrs) *)
  c_base : Z;                            (* feemarket base fee *)
  c_gmin : Z;                            (* feemarket MinGasPrice x 10^18 *)
  c_vals : list validator;               (* x/staking validators *)
  c_dels : list (addr * Z * Z)           (* x/staking delegations (delegator, operator, amount), store order *)
}.

Definition set_w (s : cstate) (w : world) : cstate :=
  mkC w (c_blocked s) (c_base s) (c_gmin s) (c_vals s) (c_dels s).

Record txd := mkTxd {
  t_from : addr;
  t_create : bool;                       (* msg.To() == nil *)
  t_dyn : bool; t_price : Z; t_tip : Z; t_cap : Z;
  t_gas : Z;
  t_tag : Z;                             (* stands for recipient, calldata: input of the interpreter *)
  t_value : Z;                           (* msg.Value() *)
  t_stake : option Z                     (* Some amount: a direct call of the staking precompile's transfer(self, amount) *)
}.

Inductive event :=
| EvBurn (a : addr) (c : coins)                   (* bank burn of a destroyed account's coins *)
| EvDelegate (delegator : addr) (op : Z) (amount : Z).

Record txresult := mkRes { r_code : Z; r_gas_wanted : Z; r_gas_used : Z; r_events : list event }.

Definition CODE_INSUFFICIENT_FEE : Z := 13.
Definition CODE_PANIC : Z := 111222.
Definition CODE_APPLY_ERROR : Z := 1.     (* an unregistered error wrapped by errorsmod: codespace "undefined", code 1 *)

(* x/evm/types/tracer.go NewTracer, called by NewEVM before the interpreter runs *)
Definition new_tracer (im : impl) (tr : tracer) (t : txd) : res unit :=
  match tr with
  | TrAccessList => if i_tracer_nil_to im && t_create t then Panic else Ok tt
  | _ => Ok tt
  end.

(* the mempool's price floor (CheckTx); block execution uses [BaseFee.Deliver] below *)
Definition checktx_admits (e : nenv) (s : cstate) (t : txd) : bool :=
  BaseFee.admit_price BaseFee.Check (t_dyn t) (c_base s) (c_gmin s) (n_min_gas e) (t_tip t) (t_cap t) (t_price t).

Fixpoint add_tokens (vals : list validator) (op : Z) (d : Z) : list validator :=
  match vals with
  | [] => []
  | v :: r => if v_op v =? op then mkVal (v_op v) (v_tokens v + d) (v_bonded v) :: r else v :: add_tokens r op d
  end.

Fixpoint add_delegation (dels : list (addr * Z * Z)) (who : addr) (op : Z) (d : Z) : list (addr * Z * Z) :=
  match dels with
  | [] => [(who, op, d)]
  | (x, o, a) :: r => if (x =? who) && (o =? op) then (x, o, a + d) :: r else (x, o, a) :: add_delegation r who op d
  end.

Section Exec.
  (* the go-ethereum interpreter + TransitionDb as a function of header, state and transaction:
     (StateDB calls, gas used on success, gas reported on failure, VM error) *)
  Variable interp : header -> world -> txd -> list op * Z * Z * bool.
  Variable im : impl.

  (* transfer(self, amount) of the staking precompile (reward withdrawal not modelled) *)
  Definition stake_transfer (s : cstate) (t : txd) (amount : Z) : cstate * txresult :=
    let bal := amt (w_bal (c_w s) (t_from t)) evm_denom in
    if (amount <? 1) || (bal <? amount) then (s, mkRes 0 (t_gas t) (t_gas t) [])      (* VM error: executed, reverted *)
    else
      match pick_validator (filter v_bonded (c_vals s)) (my_bonded (c_vals s) (c_dels s) (t_from t)) with
      | None => (s, mkRes 0 (t_gas t) (t_gas t) [])
      | Some v =>
          let w := c_w s in
          let w' := mkWorld (w_acc w) (upd (w_bal w) (t_from t) (set_amt (w_bal w (t_from t)) evm_denom (bal - amount)))
                            (w_code w) (w_stor w) (w_next w) in
          (mkC w' (c_blocked s) (c_base s) (c_gmin s) (add_tokens (c_vals s) (v_op v) amount)
               (add_delegation (c_dels s) (t_from t) (v_op v) amount),
           mkRes 0 (t_gas t) (t_gas t) [EvDelegate (t_from t) (v_op v) amount])
      end.

  (* x/evm/keeper/state_transition_core.go TransitionDb, after preCheck and the intrinsic gas and before the interpreter:
     `msg.Value().Sign() > 0 && !CanTransfer(state, from, value)` -> ErrInsufficientFundsForTransfer: a consensus error,
     ApplyMessageWithConfig and ApplyTransaction return it with a nil response.  (The ante handler took the fee already;
     the balance here is what is left.) *)
  Definition core_refuses (s : cstate) (t : txd) : bool :=
    (0 <? t_value t) && (amt (w_bal (c_w s) (t_from t)) evm_denom <? t_value t).

  (* x/evm/keeper/msg_server.go EthereumTx when ApplyTransaction returned an error: `return nil, Wrap(err, ...)` —
     the transaction fails with the wrapped error.  The deferred telemetry block (counters with labels; it reads
     response.GasUsed) is registered after that return.  [i_telemetry_nil_resp]: registered before it and starting with
     `if !telemetry.IsTelemetryEnabled() { return }`: on a telemetry node the nil response is dereferenced, BaseApp
     recovers the panic (code 111222) *)
  Definition apply_error_result (e : nenv) (t : txd) (g_fail : Z) : txresult :=
    if i_telemetry_nil_resp im && n_telemetry e then mkRes CODE_PANIC (t_gas t) g_fail []
    else mkRes CODE_APPLY_ERROR (t_gas t) g_fail [].

  (* one Ethereum transaction in deliver mode, position [i] in the block *)
  Definition exec_tx (e : nenv) (h : header) (i : Z) (s : cstate) (t : txd) : cstate * txresult :=
    let floor := BaseFee.min_allowed BaseFee.Deliver (c_base s) (c_gmin s) (n_min_gas e) in
    let p := BaseFee.eff_price (t_dyn t) (c_base s) (t_tip t) (t_cap t) (t_price t) in
    if p <? floor then (s, mkRes CODE_INSUFFICIENT_FEE (-1) 0 [])
    else
      match new_tracer im (n_tracer e) t with
      | Panic => (s, mkRes CODE_PANIC (t_gas t) 0 [])
      | Ok _ =>
          match t_stake t with
          | Some amount => stake_transfer s t amount
          | None =>
              let '(ops, g_ok, g_fail, _) := interp h (c_w s) t in
              if core_refuses s t then (s, apply_error_result e t g_fail)
              else
              match nrun_tx im e i (h_time h) (c_blocked s) (c_w s) ops with
              | TxFailed => (s, mkRes CODE_PANIC (t_gas t) g_fail [])
              | TxOk w' burns => (set_w s w', mkRes 0 (t_gas t) g_ok (map (fun b => EvBurn (fst b) (snd b)) burns))
              end
          end
      end.

  Fixpoint exec_txs (e : nenv) (h : header) (i : Z) (s : cstate) (l : list txd) : cstate * list txresult :=
    match l with
    | [] => (s, [])
    | t :: r =>
        let '(s1, r1) := exec_tx e h i s t in
        let '(s2, r2) := exec_txs e h (i + 1) s1 r in
        (s2, r1 :: r2)
    end.

  (* x/staking EndBlock: validators whose consensus power (tokens / 10^18) changed in the block *)
  Definition power (v : validator) : Z := if v_bonded v then v_tokens v / BaseFee.E18 else 0.

  Fixpoint val_updates (before after : list validator) : list (Z * Z) :=
    match before, after with
    | b :: br, a :: ar =>
        if power b =? power a then val_updates br ar else (v_op a, power a) :: val_updates br ar
    | _, _ => []
    end.

  Definition block : Type := (header * list txd)%type.

  Definition exec_block (e : nenv) (s : cstate) (b : block) : cstate * list txresult * list (Z * Z) :=
    let '(s', rs) := exec_txs e (fst b) 0 s (snd b) in
    (s', rs, val_updates (c_vals s) (c_vals s')).

  (* a history; block number n runs under the ambient conditions [ef n] (another instant, another process,
     other map seeds, possibly another node configuration after a restart) *)
  Fixpoint exec_chain (ef : nat -> nenv) (n : nat) (s : cstate) (bs : list block)
    : cstate * list (list txresult * list (Z * Z)) :=
    match bs with
    | [] => (s, [])
    | b :: r =>
        let '(s1, rs, vu) := exec_block (ef n) s b in
        let '(s2, out) := exec_chain ef (S n) s1 r in
        (s2, (rs, vu) :: out)
    end.
End Exec.

(* ------------------------------------------------------------------ a node's life: blocks, local requests, restarts *)

(* Besides executing blocks a node process serves requests that are no consensus input, and is restarted now and then:
     - eth_call / eth_estimateGas / debug_trace* / module queries pinned to ANY committed height
       (BaseApp.CreateQueryContext(height): a read-only branch of the multistore at that version);
     - CheckTx (the mempool; also while the next block is being finalized) and simulations, on the check state.
   Whatever the process keeps in memory besides the stores — caches, memoised parameters, singletons, the check state,
   keeper fields — is the component [nd_mem]; how a request or a block changes it is an ARBITRARY function ([serve],
   [after_block]), a restart replaces it by [boot].  In the code as it is, block execution reads the sdk.Context's
   stores, the header and the node configuration ([nenv]) only: [exec_block] does not get [nd_mem].  (The sweep for
   package-level variables, sync.Once / sync.Map, keeper fields written after construction found none that
   FinalizeBlock reads: x/cpc/keeper GetAllCustomPrecompiledContractsMeta iterates the context's store for every EVM
   instance; x/evm keeper fields are set once in NewKeeper.) *)
Inductive lreq :=
| LQuery (ver : nat) (t : txd)        (* a call evaluated on committed version [ver] (0 = oldest) *)
| LCheckTx (t : txd)
| LSimulate (t : txd).

Inductive nevent := NBlock (b : header * list txd) | NLocal (q : lreq) | NRestart.

Inductive nout :=
| OBlock (rs : list txresult) (vu : list (Z * Z))
| OLocal (r : option txresult) (admitted : bool)
| ORestarted.

Section Node.
  Variable interp : header -> world -> txd -> list op * Z * Z * bool.
  Variable im : impl.
  Variable mem : Type.
  Variable serve : mem -> lreq -> mem.
  Variable after_block : mem -> header * list txd -> mem.
  Variable boot : mem.

  Record node := mkNode {
    nd_old : list cstate;      (* older committed versions, oldest first *)
    nd_cur : cstate;           (* the latest committed state *)
    nd_mem : mem;
    nd_n : nat                 (* number of blocks executed: block n runs under the ambient conditions [ef n] *)
  }.

  (* the answer to a local request: computed from the version it names; nothing is kept *)
  Definition local_answer (e : nenv) (nd : node) (q : lreq) : nout :=
    match q with
    | LQuery ver t =>
        match nth_error (nd_old nd ++ [nd_cur nd]) ver with
        | Some s => OLocal (Some (snd (exec_tx interp im e (mkHeader 0 0) 0 s t))) true
        | None => OLocal None false
        end
    | LCheckTx t => OLocal None (checktx_admits e (nd_cur nd) t)
    | LSimulate t => OLocal (Some (snd (exec_tx interp im e (mkHeader 0 0) 0 (nd_cur nd) t))) true
    end.

  Fixpoint node_run (ef : nat -> nenv) (nd : node) (l : list nevent) : node * list nout :=
    match l with
    | [] => (nd, [])
    | NBlock b :: r =>
        let '(s1, rs, vu) := exec_block interp im (ef (nd_n nd)) (nd_cur nd) b in
        let '(nd', outs) := node_run ef (mkNode (nd_old nd ++ [nd_cur nd]) s1 (after_block (nd_mem nd) b) (S (nd_n nd))) r in
        (nd', OBlock rs vu :: outs)
    | NLocal q :: r =>
        let '(nd', outs) := node_run ef (mkNode (nd_old nd) (nd_cur nd) (serve (nd_mem nd) q) (nd_n nd)) r in
        (nd', local_answer (ef (nd_n nd)) nd q :: outs)
    | NRestart :: r =>
        let '(nd', outs) := node_run ef (mkNode (nd_old nd) (nd_cur nd) boot (nd_n nd)) r in
        (nd', ORestarted :: outs)
    end.

  Fixpoint blocks_of (l : list nevent) : list (header * list txd) :=
    match l with
    | [] => []
    | NBlock b :: r => b :: blocks_of r
    | _ :: r => blocks_of r
    end.

  Fixpoint block_outs (l : list nout) : list (list txresult * list (Z * Z)) :=
    match l with
    | [] => []
    | OBlock rs vu :: r => (rs, vu) :: block_outs r
    | _ :: r => block_outs r
    end.
End Node.
