(* Model of the custom-precompile registry (x/cpc) and of its exposure to the EVM:
     /repo/x/cpc/keeper/precompiles.go         SetCustomPrecompiledContractMeta, Get/Has/GetAll..., GetNextDynamicCustomPrecompiledContractAddress
     /repo/x/cpc/keeper/precompiles_erc20.go   DeployErc20CustomPrecompiledContract (denom index)
     /repo/x/cpc/keeper/precompiles_staking.go DeployStakingCustomPrecompiledContract
     /repo/x/cpc/keeper/precompiles_bech32.go  DeployBech32CustomPrecompiledContract
     /repo/x/cpc/keeper/msg_server.go          UpdateParams, DeployErc20Contract, DeployStakingContract, validateDeployer
     /repo/x/cpc/keeper/params.go              SetParams (no downgrade), GetParams
     /repo/x/cpc/types/{precompiles,precompiles_erc20,precompiles_staking,params,msg_deploy_*}.go  Validate / ValidateBasic
     /repo/x/cpc/genesis.go                    InitGenesis
     /repo/x/evm/keeper/state_transition.go    NewEVM (wiring, Disabled flag forwarded since fix b637d80)
     go-ethereum core/vm/evm.go precompile(), interpreter_evermint.go RunPrecompiledContract, contracts_evermint.go RunCustom
   Executable Gallina only.  Strings are opaque numbers (the driver encodes them injectively; EMPTY is the empty string).
   What is not logic of the registry - keccak address derivation, bech32/whitespace/bank-metadata string checks - enters
   as a function argument ([caddr]) or as a flag on the operation ([ext_ok], whitelist entry flags). *)
From Coq Require Export ZArith List Bool.
Export ListNotations.
Open Scope Z_scope.

Definition EMPTY : Z := 1.                         (* encoding of "" *)
Definition LATEST_VERSION : Z := 1.                (* cpctypes.LatestProtocolCpc = ProtocolCpcV1 *)
Definition T_ERC20 : Z := 1.
Definition T_STAKING : Z := 2.
Definition T_BECH32 : Z := 3.
Definition STAKING_ADDR : Z := 0xCC01 * 2 ^ 144 + 1.   (* CpcStakingFixedAddress: bytes[0]=0xCC, [1]=[19]=1 *)
Definition BECH32_ADDR : Z := 0xCC02 * 2 ^ 144 + 2.    (* CpcBech32FixedAddress *)
Definition STAKING_NAME : Z := 2342829624854350861018547605473486488781821279890868537199909835450180468. (* "Staking - Precompiled Contract" *)
Definition BECH32_NAME : Z := 8691780261961741859336021917313112340103417307800773204424975274042228.    (* "Bech32 - Precompiled Contract" *)

(* TypedMeta after json.Unmarshal into the struct that belongs to the declared type *)
Inductive typed :=
| TErc20 (symbol decimals denom : Z)      (* Erc20CustomPrecompiledContractMeta *)
| TStaking (symbol decimals : Z)          (* StakingCustomPrecompiledContractMeta *)
| TBech32                                 (* "{}" *)
| TBad                                    (* json does not parse into the struct of the declared type / not "{}" *)
| TMissing.                               (* TypedMeta = "" *)

Record cmeta := { m_type : Z; m_name : Z; m_typed : typed; m_disabled : bool }.

Record wl_entry := { w_id : Z; w_lower : bool; w_bech32 : bool }.   (* the string, strings.ToLower(x)==x, AccAddressFromBech32 ok *)
Record params := { p_version : Z; p_whitelist : list wl_entry }.

Record state := {
  metas : list (Z * cmeta);       (* store prefix 2: address -> metadata *)
  didx : list (Z * Z);            (* store prefix 3: min denom -> address *)
  mseq : Z;                        (* sequence of the cpc module account *)
  prm : params;                   (* store prefix 1 (absent = zero value) *)
  supply : Z -> Z                 (* x/bank supply per denom (environment) *)
}.

Inductive res := ROk (addr : Z) | RErr | RPanic.

Fixpoint lookup {V} (l : list (Z * V)) (k : Z) : option V :=
  match l with
  | [] => None
  | (x, v) :: r => if x =? k then Some v else lookup r k
  end.

(* store.Set: replace the value under an existing key, else add the key *)
Fixpoint put {V} (l : list (Z * V)) (k : Z) (v : V) : list (Z * V) :=
  match l with
  | [] => [(k, v)]
  | (x, w) :: r => if x =? k then (k, v) :: r else (x, w) :: put r k v
  end.

Definition with_metas s m := {| metas := m; didx := didx s; mseq := mseq s; prm := prm s; supply := supply s |}.
Definition with_didx s d := {| metas := metas s; didx := d; mseq := mseq s; prm := prm s; supply := supply s |}.
Definition with_seq s n := {| metas := metas s; didx := didx s; mseq := n; prm := prm s; supply := supply s |}.
Definition with_prm s p := {| metas := metas s; didx := didx s; mseq := mseq s; prm := p; supply := supply s |}.
Definition with_supply s f := {| metas := metas s; didx := didx s; mseq := mseq s; prm := prm s; supply := f |}.

(* ---------------------------------------------------------------- validation (x/cpc/types) *)

Inductive vres := VOk | VErr | VPanic.

(* Erc20CustomPrecompiledContractMeta.Validate *)
Definition erc20_meta_valid (symbol decimals denom : Z) : bool :=
  negb (symbol =? EMPTY) && (decimals <=? 18) && negb (denom =? EMPTY) && negb (symbol =? denom).

(* StakingCustomPrecompiledContractMeta.Validate *)
Definition staking_meta_valid (symbol decimals : Z) : bool :=
  negb (symbol =? EMPTY) && (decimals <=? 18).

(* CustomPrecompiledContractMeta.Validate(version); the address is a 20-byte value by construction *)
Definition meta_validate (addr : Z) (m : cmeta) (version : Z) : vres :=
  if addr =? 0 then VErr
  else if m_type m =? 0 then VErr
  else if negb ((m_type m =? T_ERC20) || (m_type m =? T_STAKING) || (m_type m =? T_BECH32)) then VPanic
  else if m_name m =? EMPTY then VErr
  else match m_typed m with
       | TMissing => VErr
       | ty =>
           if negb (version =? 1) then VPanic      (* unsupported protocol version *)
           else if m_type m =? T_ERC20 then
             match ty with TErc20 sy de dn => if erc20_meta_valid sy de dn then VOk else VErr | _ => VErr end
           else if m_type m =? T_STAKING then
             match ty with TStaking sy de => if staking_meta_valid sy de then VOk else VErr | _ => VErr end
           else
             match ty with TBech32 => VOk | _ => VErr end
       end.

(* Params.Validate *)
Fixpoint wl_ok (seen : list Z) (l : list wl_entry) : bool :=
  match l with
  | [] => true
  | w :: r =>
      w_lower w && w_bech32 w && negb (existsb (Z.eqb (w_id w)) seen) && wl_ok (w_id w :: seen) r
  end.
Definition params_valid (p : params) : bool :=
  (* ProtocolVersion is a uint32: "== 0" is "below 1" *)
  (0 <? p_version p) && (p_version p <=? LATEST_VERSION) && wl_ok [] (p_whitelist p).

(* ---------------------------------------------------------------- keeper *)

(* keeper.SetCustomPrecompiledContractMeta(ctx, meta, newDeployment) *)
Definition set_meta (s : state) (addr : Z) (m : cmeta) (newdep : bool) : state * res :=
  match meta_validate addr m (p_version (prm s)) with
  | VErr => (s, RErr)
  | VPanic => (s, RPanic)
  | VOk =>
      match lookup (metas s) addr, newdep with
      | Some _, true => (s, RErr)                                   (* contract address is being in use *)
      | None, false => (s, RErr)                                    (* contract does not exist by address *)
      | Some prev, false =>
          if m_type prev =? m_type m then (with_metas s (put (metas s) addr m), ROk addr)
          else (s, RPanic)                                          (* not allowed to change type *)
      | None, true => (with_metas s (put (metas s) addr m), ROk addr)
      end
  end.

(* keeper.SetParams: panics on invalid params, refuses a protocol downgrade *)
Definition set_params (s : state) (p : params) : state * res :=
  if negb (params_valid p) then (s, RPanic)
  else if p_version p <? p_version (prm s) then (s, RErr)
  else (with_prm s p, ROk 0).

Section WithAddr.
(* crypto.CreateAddress(CpcModuleAddress, nonce): keccak of an RLP pair, not computable here *)
Variable caddr : Z -> Z.

(* keeper.DeployErc20CustomPrecompiledContract; note the module sequence stays incremented when the final
   SetCustomPrecompiledContractMeta fails (a message handler's failure is rolled back by the SDK, see [msg]) *)
Definition deploy_erc20 (s : state) (dvalid : bool) (name symbol decimals denom : Z) : state * res :=
  if negb (erc20_meta_valid symbol decimals denom) then (s, RErr)
  else match lookup (didx s) denom with
       | Some _ => (s, RErr)                                        (* existing contract for denom *)
       | None =>
           (* bankKeeper.GetSupply builds sdk.NewCoin(denom, amount), which panics for a string that is not a
              valid SDK denomination ([dvalid] = sdk.ValidateDenom(denom) passes) *)
           if negb dvalid then (s, RPanic)
           else if negb (0 <? supply s denom) then (s, RErr)        (* zero supply *)
           else
             let addr := caddr (mseq s) in
             let s1 := with_seq s (mseq s + 1) in
             let m := {| m_type := T_ERC20; m_name := name; m_typed := TErc20 symbol decimals denom; m_disabled := false |} in
             match set_meta s1 addr m true with
             | (s2, ROk _) => (with_didx s2 (put (didx s2) denom addr), ROk addr)
             | (s2, r) => (s2, r)
             end
       end.

Definition deploy_staking (s : state) (symbol decimals : Z) : state * res :=
  if negb (staking_meta_valid symbol decimals) then (s, RErr)
  else set_meta s STAKING_ADDR
         {| m_type := T_STAKING; m_name := STAKING_NAME; m_typed := TStaking symbol decimals; m_disabled := false |} true.

Definition deploy_bech32 (s : state) : state * res :=
  set_meta s BECH32_ADDR {| m_type := T_BECH32; m_name := BECH32_NAME; m_typed := TBech32; m_disabled := false |} true.

(* ---------------------------------------------------------------- messages *)

(* validateDeployer: exact string match against the whitelist in the stored params *)
Definition whitelisted (s : state) (auth : Z) : bool := existsb (fun w => w_id w =? auth) (p_whitelist (prm s)).

(* ValidateBasic of the deploy messages: [ext_ok] = authority is bech32, no leading/trailing white space,
   bank denom-metadata validation passes (string checks done by the driver with the SDK's own functions) *)
Definition vb_deploy_erc20 (ext_ok : bool) (name symbol decimals denom : Z) : bool :=
  ext_ok && negb (name =? EMPTY) && negb (symbol =? EMPTY) && (1 <=? decimals) && (decimals <=? 18) && negb (denom =? EMPTY).
Definition vb_deploy_staking (ext_ok : bool) (symbol decimals : Z) : bool :=
  ext_ok && negb (symbol =? EMPTY) && (1 <=? decimals) && (decimals <=? 18).

Inductive op :=
(* vb = true: the message goes through the message router / a transaction (ValidateBasic runs first);
   vb = false: the message server is called directly *)
| MDeployErc20 (vb ext_ok dvalid : bool) (auth name symbol decimals denom : Z)   (* decimals is the uint32 field *)
| MDeployStaking (vb ext_ok : bool) (auth symbol decimals : Z)
| MUpdateParams (authority_ok : bool) (np : params)                          (* authority_ok: req.Authority = gov module address *)
(* the exported keeper API, as an upgrade handler would use it *)
| ASetDisabled (addr : Z) (b : bool)           (* meta := Get(addr); meta.Disabled := b; Set(meta, false) *)
| ASetMeta (addr : Z) (m : cmeta) (newdep : bool)
(* environment: x/bank supply of a denom becomes v *)
| ESupply (denom v : Z).

(* a failing or panicking message leaves no trace: the SDK runs handlers on a cache that is dropped on error/panic *)
Definition atomic (s : state) (x : state * res) : state * res :=
  match x with
  | (s', ROk a) => (s', ROk a)
  | (_, r) => (s, r)
  end.

Definition step (s : state) (o : op) : state * res :=
  match o with
  | MDeployErc20 vb ext_ok dvalid auth name symbol decimals denom =>
      if vb && negb (vb_deploy_erc20 ext_ok name symbol decimals denom) then (s, RErr)
      else if negb (whitelisted s auth) then (s, RErr)
      else atomic s (deploy_erc20 s dvalid name symbol (decimals mod 256) denom) (* uint8(req.Decimals) *)
  | MDeployStaking vb ext_ok auth symbol decimals =>
      if vb && negb (vb_deploy_staking ext_ok symbol decimals) then (s, RErr)
      else if negb (whitelisted s auth) then (s, RErr)
      else atomic s (deploy_staking s symbol (decimals mod 256))
  | MUpdateParams authority_ok np =>
      if negb authority_ok then (s, RErr)
      else if negb (params_valid np) then (s, RErr)
      else atomic s (set_params s np)
  | ASetDisabled addr b =>
      match lookup (metas s) addr with
      | None => (s, RErr)
      | Some m => atomic s (set_meta s addr {| m_type := m_type m; m_name := m_name m; m_typed := m_typed m; m_disabled := b |} false)
      end
  | ASetMeta addr m newdep => atomic s (set_meta s addr m newdep)
  | ESupply denom v => (with_supply s (fun d => if d =? denom then v else supply s d), ROk 0)
  end.

Fixpoint run (s : state) (ops : list op) : state * list (op * res) :=
  match ops with
  | [] => (s, [])
  | o :: r =>
      let '(s1, x) := step s o in
      let '(s2, t) := run s1 r in
      (s2, (o, x) :: t)
  end.

(* ---------------------------------------------------------------- genesis (x/cpc/genesis.go InitGenesis) *)

Record genesis := {
  g_params : params;
  g_erc20_native : bool;
  g_staking : bool;
  g_bond_denom : Z;                 (* staking params BondDenom *)
  g_bond_valid : bool;              (* sdk.ValidateDenom(BondDenom) passes *)
  g_erc20_name : Z; g_erc20_symbol : Z;   (* "Wrapped <SYMBOL>", "W<SYMBOL>" *)
  g_staking_symbol : Z;             (* "Staking-<SYMBOL>" *)
  g_decimals : Z                    (* constants.BaseDenomExponent *)
}.

(* every error inside InitGenesis is turned into a panic; a panic aborts chain start *)
Definition init_genesis (s : state) (g : genesis) : option state :=
  match set_params s (g_params g) with
  | (s1, ROk _) =>
      let r2 := if g_erc20_native g
                then deploy_erc20 s1 (g_bond_valid g) (g_erc20_name g) (g_erc20_symbol g) (g_decimals g) (g_bond_denom g)
                else (s1, ROk 0) in
      match r2 with
      | (s2, ROk _) =>
          let r3 := if g_staking g then deploy_staking s2 (g_staking_symbol g) (g_decimals g) else (s2, ROk 0) in
          match r3 with
          | (s3, ROk _) =>
              match deploy_bech32 s3 with
              | (s4, ROk _) => Some s4
              | _ => None
              end
          | _ => None
          end
      | _ => None
      end
  | _ => None
  end.

End WithAddr.

(* the store before InitGenesis: nothing registered, params absent (zero value), module sequence n *)
Definition empty_state (n : Z) (sup : Z -> Z) : state :=
  {| metas := []; didx := []; mseq := n; prm := {| p_version := 0; p_whitelist := [] |}; supply := sup |}.

(* ---------------------------------------------------------------- exposure to the EVM *)

(* core/vm/contracts.go PrecompiledContractsBerlin: addresses 1..9 *)
Definition std_precompile (a : Z) : bool := (1 <=? a) && (a <=? 9).

(* The four ways a call reaches the EVM:
     Deliver  FinalizeBlock -> msg_server.EthereumTx -> ApplyTransaction -> ApplyMessageWithConfig -> NewEVM
     Check    CheckTx/ReCheckTx -> ante decorator app/antedl/evmlane/993e_exec_without_error.go -> NewEVM
     Simulate BaseApp.Simulate -> the same ante decorator, then the message handler as in Deliver -> NewEVM
     Query    gRPC EthCall / EstimateGas / Trace* -> ApplyMessageWithConfig -> NewEVM *)
Inductive mode := Deliver | Check | Simulate | Query.

(* x/evm/keeper NewEVM: EVERY stored contract is registered with the EVM together with its Disabled flag
   (WithCustomPrecompiledContracts builds a map address -> contract; later entries replace earlier ones).
   NewEVM is the only constructor and never consults the execution mode of the context. *)
Definition wire (md : mode) (s : state) : list (Z * cmeta) :=
  fold_left (fun acc x => put acc (fst x) (snd x)) (metas s) [].

Inductive dispatch :=
| DStd                   (* a standard precompile answers *)
| DCustom (m : cmeta)    (* the custom precompile's method table is entered *)
| DDisabled              (* ErrDisabledPrecompile: the frame fails, all gas is consumed *)
| DNone.                 (* no precompile: ordinary account *)

(* evm.precompile(addr): standard contracts first, then the custom map; RunPrecompiledContract checks disabled *)
Definition evm_dispatch (md : mode) (s : state) (a : Z) : dispatch :=
  if std_precompile a then DStd
  else match lookup (wire md s) a with
       | Some m => if m_disabled m then DDisabled else DCustom m
       | None => DNone
       end.

Definition callable (md : mode) (s : state) (a : Z) : bool :=
  match evm_dispatch md s a with DCustom _ => true | _ => false end.

(* outcome classes of a probe call (input = 4-byte selector, value 0, ample gas) *)
Inductive pres :=
| POkStr (id : Z)        (* success, returns an ABI string *)
| POkUint (z : Z)        (* success, returns one word *)
| POkEmpty               (* success, no return data (no code at the address) *)
| PRevert                (* ErrExecutionReverted: unknown selector *)
| PFail                  (* any other vm error: all gas consumed *)
| PStd.                  (* behaves exactly as go-ethereum's standard precompile at that address *)

Inductive probe := PrName | PrSymbol | PrDecimals | PrBech32Prefix | PrGarbage.

(* what the method tables of the three contract types answer to the probes (precompiles_{erc20,staking,bech32}.go);
   [hrp] = the chain's account address prefix *)
Definition probe_custom (hrp : Z) (m : cmeta) (p : probe) : pres :=
  match m_typed m, p with
  | TErc20 sy de _, PrName => POkStr (m_name m)
  | TErc20 sy de _, PrSymbol => POkStr sy
  | TErc20 sy de _, PrDecimals => POkUint de
  | TStaking sy de, PrName => POkStr (m_name m)
  | TStaking sy de, PrSymbol => POkStr sy
  | TStaking sy de, PrDecimals => POkUint de
  | TBech32, PrBech32Prefix => POkStr hrp
  | _, _ => PRevert
  end.

Definition probe_result (hrp : Z) (md : mode) (s : state) (a : Z) (p : probe) : pres :=
  match evm_dispatch md s a with
  | DStd => PStd
  | DCustom m => probe_custom hrp m p
  | DDisabled => PFail
  | DNone => POkEmpty
  end.

(* The same call made by a contract instead of by the transaction itself: a forwarding contract passes its calldata
   on with CALL or STATICCALL (all remaining gas), hands the callee's return data back and REVERTs with it when the
   call failed.  evm.Call / evm.StaticCall look the callee up with the same evm.precompile(); a callee that fails
   (disabled contract) makes the forwarder revert.
   The caller may also be the constructor of a top-level contract-CREATION message (a creation transaction, an
   eth_call / simulation without recipient): init code that CALLs / STATICCALLs the address, installs the callee's
   return data as the new contract's code (= the return data of the message) and REVERTs with it when the call failed.
   NewEVM wires the custom contracts into the EVM instance whatever msg.To() is, so the lookup is the same. *)
Inductive via := Direct | ViaCall | ViaStaticCall | ViaInitCall | ViaInitStaticCall.

Definition through_forwarder (r : pres) : pres := match r with PFail => PRevert | x => x end.

Definition probe_via (hrp : Z) (md : mode) (v : via) (s : state) (a : Z) (p : probe) : pres :=
  match v with
  | Direct => probe_result hrp md s a p
  | _ => through_forwarder (probe_result hrp md s a p)
  end.

(* ---------------------------------------------------------------- a node's life: consensus steps and local requests *)

(* Besides the consensus operations a node serves requests that never reach consensus: eth_call / estimate-gas /
   trace at ANY committed height (BaseApp.CreateQueryContext(height): a read-only branch of the multistore at that
   version), CheckTx and simulations on the check state (a branch of the last committed state, also while the next
   block is being finalized), simulations of whole transactions — deployments included — on a branch that is dropped.
   In the code no memory outside the sdk.Context's stores is read by NewEVM or written by any of these
   (x/cpc/keeper/precompiles.go GetAllCustomPrecompiledContractsMeta iterates the context's store every time), so:
     - a request is answered from the state version it names, and from nothing else ([answer_at]);
     - a request leaves the versions as they were. *)
Inductive nreq :=
| NCall (ver : nat) (md : mode) (v : via) (a : Z) (p : probe)   (* a call evaluated on version [ver] (0 = oldest) *)
| NSimulate (o : op).                                           (* an operation run on a dropped branch of the latest version *)

Inductive hop := HOp (o : op) | HReq (q : nreq).

Inductive hout :=
| OOp (r : res)                 (* outcome of a consensus operation *)
| OAns (r : option pres)        (* answer to a call; None = no such version *)
| OSim (r : res).               (* what the simulation reported *)

(* the answer to a call on version k of a list of versions (oldest first) *)
Definition answer_at (hrp : Z) (vers : list state) (k : nat) (md : mode) (v : via) (a : Z) (p : probe) : option pres :=
  match nth_error vers k with
  | Some s => Some (probe_via hrp md v s a p)
  | None => None
  end.

Section Node.
  Variable caddr : Z -> Z.
  Variable hrp : Z.

  (* a node: the older committed versions (oldest first) and the latest one, on which consensus works *)
  Definition versions (old : list state) (s : state) : list state := old ++ [s].

  Fixpoint hrun (old : list state) (s : state) (l : list hop) : (list state * state) * list hout :=
    match l with
    | [] => ((old, s), [])
    | HOp o :: r =>
        let '(s1, x) := step caddr s o in
        let '(n, outs) := hrun (versions old s) s1 r in
        (n, OOp x :: outs)
    | HReq (NCall k md v a p) :: r =>
        let '(n, outs) := hrun old s r in
        (n, OAns (answer_at hrp (versions old s) k md v a p) :: outs)
    | HReq (NSimulate o) :: r =>
        let '(n, outs) := hrun old s r in
        (n, OSim (snd (step caddr s o)) :: outs)
    end.

  (* what consensus sees of a life: the operations *)
  Fixpoint erase (l : list hop) : list op :=
    match l with
    | [] => []
    | HOp o :: r => o :: erase r
    | HReq _ :: r => erase r
    end.

  Fixpoint consensus_outs (l : list hout) : list res :=
    match l with
    | [] => []
    | OOp x :: r => x :: consensus_outs r
    | _ :: r => consensus_outs r
    end.
End Node.
