(* Model of the context-based StateDB of x/evm/vm: state_db.go (NewStateDB, Snapshot,
   RevertToSnapshot, CommitMultiStore, the revertible side fields), state_db_snapshot.go
   (RtStateDbSnapshot, newStateDbSnapshotFromStateDb, WriteChanges), state_db_access_list.go,
   state_db_logs.go, state_db_transient_store(_geth).go, state_db_account_tracker.go.

   A multi-store is one map whose keys include the store name, so the model is generic over every
   module: bank, staking, distribution, cpc, evm and auth all write through the sdk.Context they
   are handed, which for precompiles is cStateDb.currentCtx (x/cpc/keeper/precompiles.go Execute).
   A cache context (sdk.Context.CacheContext = cachemulti store + fresh EventManager) is an overlay
   of dirty entries plus the events emitted through it; its write function folds both into the parent.

   Executable Gallina only; panics of the Go code are the constructor OutPanic. *)
From Coq Require Export List ZArith NArith Bool.
Export ListNotations.
Open Scope N_scope.

Definition key := N.     (* (store name, raw key) of any module, numbered by the harness *)
Definition val := N.
Definition addr := N.
Definition word := N.

Definition kv := key -> option val.                 (* a complete store view *)
Definition overlay := list (key * option val).      (* dirty entries, newest first; None = deleted *)

Fixpoint ov_get (o : overlay) (k : key) : option (option val) :=
  match o with
  | [] => None
  | (k', v) :: r => if N.eqb k' k then Some v else ov_get r k
  end.

(* reading through a cache store: dirty entry if any, else the parent *)
Definition kv_over (o : overlay) (b : kv) : kv :=
  fun k => match ov_get o k with Some v => v | None => b k end.

(* ------------------------------------------------------------------ revertible side state *)

Record side := mkSide {
  touched : list addr;                       (* AccountTracker: a Go map used as a set *)
  refund : N;                                (* uint64 *)
  selfdestructed : list addr;                (* AccountTracker *)
  al_addrs : list addr;                      (* AccessList2.elements: key set *)
  al_slots : list (addr * word);             (* AccessList2.elements: (address, slot) pairs *)
  logs : list N;                             (* Logs, oldest first (ids of *ethtypes.Log) *)
  transient : list (addr * word * word)      (* transientStorage, newest binding first *)
}.

Definition side0 : side := mkSide [] 0 [] [] [] [] [].

Fixpoint memN (a : N) (l : list N) : bool :=
  match l with [] => false | x :: r => N.eqb x a || memN a r end.
Definition addN (a : N) (l : list N) : list N := if memN a l then l else a :: l.

Fixpoint memNN (a b : N) (l : list (N * N)) : bool :=
  match l with [] => false | (x, y) :: r => (N.eqb x a && N.eqb y b) || memNN a b r end.
Definition addNN (a b : N) (l : list (N * N)) : list (N * N) := if memNN a b l then l else (a, b) :: l.

Fixpoint ts_get (t : list (addr * word * word)) (a : addr) (k : word) : word :=
  match t with
  | [] => 0
  | (a', k', v) :: r => if N.eqb a' a && N.eqb k' k then v else ts_get r a k
  end.

Definition MAXU64 : N := 18446744073709551615.

(* ------------------------------------------------------------------ the snapshot stack *)

(* one RtStateDbSnapshot: id, its cache context (overlay + event manager), deep copies *)
Record layer := mkLayer { l_id : Z; l_ov : overlay; l_ev : list N; l_saved : side }.

(* cStateDb.  snapshots = rev (top :: below) (the Go slice is outermost first); currentCtx is
   always the context of the last snapshot, i.e. of [top]. *)
Record sdb := mkSdb {
  orig : kv;                  (* multistore of originalCtx *)
  orig_ev : list N;           (* events in originalCtx's EventManager, oldest first *)
  top : layer;
  below : list layer;         (* innermost first *)
  cur : side;
  committed : bool
}.

Definition depth (s : sdb) : nat := S (length (below s)).      (* len(d.snapshots) *)

Fixpoint view_layers (ls : list layer) (o : kv) : kv :=
  match ls with
  | [] => o
  | l :: r => kv_over (l_ov l) (view_layers r o)
  end.

(* what every keeper reads through GetCurrentContext() *)
Definition view (s : sdb) : kv := view_layers (top s :: below s) (orig s).

(* NewStateDB: first snapshot id -1 over the given context *)
Definition init (o : kv) (ev : list N) : sdb :=
  mkSdb o ev (mkLayer (-1) [] [] side0) [] side0 false.

Inductive op :=
| KvSet (k : key) (v : val)          (* any module: store.Set through the current context *)
| KvDel (k : key)                    (* any module: store.Delete through the current context *)
| EmitEvent (e : N)                  (* any module: ctx.EventManager().EmitEvent *)
| Touch (a : addr)                   (* d.touched.Add *)
| SdAdd (a : addr)                   (* d.selfDestructed.Add *)
| AddRefund (g : N)
| SubRefund (g : N)
| AddLog (l : N)
| AlAddAddr (a : addr)
| AlAddSlot (a : addr) (s : word)
| TsSet (a : addr) (k v : word)
| Snapshot
| RevertTo (id : Z)
| Commit (destroy : overlay).        (* CommitMultiStore; [destroy] = writes of its DestroyAccount loop, newest first *)

Inductive out := OutOk | OutId (id : Z) | OutPanic.

Definition set_top_ov (s : sdb) (o : overlay) : sdb :=
  mkSdb (orig s) (orig_ev s) (mkLayer (l_id (top s)) o (l_ev (top s)) (l_saved (top s))) (below s) (cur s) (committed s).
Definition set_top_ev (s : sdb) (e : list N) : sdb :=
  mkSdb (orig s) (orig_ev s) (mkLayer (l_id (top s)) (l_ov (top s)) e (l_saved (top s))) (below s) (cur s) (committed s).
Definition set_cur (s : sdb) (c : side) : sdb :=
  mkSdb (orig s) (orig_ev s) (top s) (below s) c (committed s).

(* the side-state part of an operation; None = the Go code panics (before changing anything) *)
Definition side_step (c : side) (o : op) : option side :=
  match o with
  | Touch a => Some (mkSide (addN a (touched c)) (refund c) (selfdestructed c) (al_addrs c) (al_slots c) (logs c) (transient c))
  | SdAdd a => Some (mkSide (touched c) (refund c) (addN a (selfdestructed c)) (al_addrs c) (al_slots c) (logs c) (transient c))
  | AddRefund g =>
      (* newRefund := d.refund + gas; if newRefund < gas { panic } -- uint64 wrap-around *)
      if MAXU64 <? refund c + g then None
      else Some (mkSide (touched c) (refund c + g) (selfdestructed c) (al_addrs c) (al_slots c) (logs c) (transient c))
  | SubRefund g =>
      if refund c <? g then None
      else Some (mkSide (touched c) (refund c - g) (selfdestructed c) (al_addrs c) (al_slots c) (logs c) (transient c))
  | AddLog l => Some (mkSide (touched c) (refund c) (selfdestructed c) (al_addrs c) (al_slots c) (logs c ++ [l]) (transient c))
  | AlAddAddr a => Some (mkSide (touched c) (refund c) (selfdestructed c) (addN a (al_addrs c)) (al_slots c) (logs c) (transient c))
  | AlAddSlot a s =>
      Some (mkSide (touched c) (refund c) (selfdestructed c) (addN a (al_addrs c)) (addNN a s (al_slots c)) (logs c) (transient c))
  | TsSet a k v => Some (mkSide (touched c) (refund c) (selfdestructed c) (al_addrs c) (al_slots c) (logs c) ((a, k, v) :: transient c))
  | _ => Some c
  end.

(* CommitMultiStore: for i := len-1 .. 0 { snapshots[i].WriteChanges() }.
   writeFunc of a cache context = parent.EventManager().EmitEvents(child events); cms.Write()
   (cachekv.Write sets every dirty entry on the parent and clears the cache; the child's event
   manager is not cleared).  [ls] is innermost first. *)
Fixpoint flush (ls : list layer) (aov : overlay) (aev : list N) (o : kv) (oev : list N)
  : list layer * kv * list N :=
  (* aov / aev: the dirty entries and events the layers above have just written into the head of ls *)
  match ls with
  | [] => ([], kv_over aov o, oev ++ aev)
  | l :: r =>
      let ov := aov ++ l_ov l in
      let ev := l_ev l ++ aev in
      let '(r2, o2, e2) := flush r ov ev o oev in
      (mkLayer (l_id l) [] ev (l_saved l) :: r2, o2, e2)
  end.

Definition step (s : sdb) (o : op) : sdb * out :=
  match o with
  | KvSet k v => (set_top_ov s ((k, Some v) :: l_ov (top s)), OutOk)
  | KvDel k => (set_top_ov s ((k, None) :: l_ov (top s)), OutOk)
  | EmitEvent e => (set_top_ev s (l_ev (top s) ++ [e]), OutOk)
  | Snapshot =>
      (* nextSnapshot := newStateDbSnapshotFromStateDb(d, d.currentCtx); id = len(d.snapshots)-1 *)
      let id := (Z.of_nat (depth s) - 1)%Z in
      (mkSdb (orig s) (orig_ev s) (mkLayer id [] [] (cur s)) (top s :: below s) (cur s) (committed s), OutId id)
  | RevertTo id =>
      if (id <? 0)%Z then (s, OutPanic)                        (* "invalid snapshot id ..., below 0" *)
      else
        let idx := Z.to_nat (id + 1) in
        if (depth s <=? idx)%nat then (s, OutPanic)            (* d.snapshots[snapshotIdx]: index out of range *)
        else
          match skipn (depth s - 1 - idx) (top s :: below s) with
          | [] => (s, OutPanic)                                (* unreachable: idx < depth *)
          | l :: rest =>
              if negb (Z.eqb (l_id l) id) then (s, OutPanic)   (* "invalid snapshot id: %d, expected %d" *)
              else
                (* re-branch from the parent snapshot's context, restore copies, truncate, keep the record *)
                (mkSdb (orig s) (orig_ev s) (mkLayer (l_id l) [] [] (l_saved l)) rest (l_saved l) (committed s), OutOk)
          end
  | Commit destroy =>
      if committed s then (s, OutPanic)                        (* "called commit twice" *)
      else
        let t := mkLayer (l_id (top s)) (destroy ++ l_ov (top s)) (l_ev (top s)) (l_saved (top s)) in
        let '(ls, o', e') := flush (t :: below s) [] [] (orig s) (orig_ev s) in
        match ls with
        | [] => (s, OutPanic)                                  (* unreachable: flush keeps the length *)
        | t' :: b' => (mkSdb o' e' t' b' (cur s) true, OutOk)
        end
  | _ =>
      match side_step (cur s) o with
      | Some c => (set_cur s c, OutOk)
      | None => (s, OutPanic)
      end
  end.

Definition run (s : sdb) (ops : list op) : sdb := fold_left (fun s o => fst (step s o)) ops s.

(* ------------------------------------------------------------------ getters of cStateDb *)

Definition get_refund (s : sdb) : N := refund (cur s).
Definition has_suicided (s : sdb) (a : addr) : bool := memN a (selfdestructed (cur s)).
Definition address_in_access_list (s : sdb) (a : addr) : bool := memN a (al_addrs (cur s)).
(* AccessList2.Contains: (false,false) when the address is absent *)
Definition slot_in_access_list (s : sdb) (a : addr) (k : word) : bool * bool :=
  if memN a (al_addrs (cur s)) then (true, memNN a k (al_slots (cur s))) else (false, false).
Definition get_transient (s : sdb) (a : addr) (k : word) : word := ts_get (transient (cur s)) a k.
Definition get_logs (s : sdb) : list N := logs (cur s).

(* events visible in the context stack, oldest first (what reaches originalCtx on commit) *)
Fixpoint events_layers (ls : list layer) : list N :=
  match ls with [] => [] | l :: r => events_layers r ++ l_ev l end.
Definition events (s : sdb) : list N := orig_ev s ++ events_layers (top s :: below s).

Definition is_commit (o : op) : bool := match o with Commit _ => true | _ => false end.

(* ------------------------------------------------------------------ call trees *)

(* How the EVM interpreter drives the StateDB for a whole transaction (go-ethereum core/vm/evm.go Call / Create):
   entering a call frame takes a Snapshot; inside it run plain operations (storage, balance, nonce and code writes,
   the writes of any module made by a stateful precompile through GetCurrentContext(), events, logs, refund, access
   list, transient storage, self-destruct marks) and further frames; a frame that fails - REVERT, INVALID, out of
   gas, a failing precompile - ends with RevertToSnapshot(id of its own Snapshot); a frame that completes just returns. *)
Inductive citem :=
| CI (o : op)                          (* a plain operation *)
| CF (ok : bool) (body : list citem).  (* a call frame and whether it completes *)

Definition is_plain (o : op) : bool :=
  match o with Snapshot | RevertTo _ | Commit _ => false | _ => true end.

(* the operation sequence of a tree entered with [d] = len(snapshots), and len(snapshots) afterwards: Snapshot() returns
   len-1; a revert to id leaves id+2 records (the reverted-to record is kept), completed frames keep theirs *)
Fixpoint compile (d : nat) (t : citem) : list op * nat :=
  match t with
  | CI o => ([o], d)
  | CF ok body =>
      let '(ops, d') :=
        (fix go (d : nat) (l : list citem) : list op * nat :=
           match l with
           | [] => ([], d)
           | x :: r => let '(o1, d1) := compile d x in let '(o2, d2) := go d1 r in (o1 ++ o2, d2)
           end) (S d) body in
      if ok then (Snapshot :: ops, d') else (Snapshot :: ops ++ [RevertTo (Z.of_nat d - 1)], S d)
  end.

Definition compile_list : nat -> list citem -> list op * nat :=
  fix go (d : nat) (l : list citem) : list op * nat :=
    match l with
    | [] => ([], d)
    | x :: r => let '(o1, d1) := compile d x in let '(o2, d2) := go d1 r in (o1 ++ o2, d2)
    end.

(* the plain operations of frames that completed and whose enclosing frames all completed, in program order *)
Fixpoint kept (t : citem) : list op :=
  match t with
  | CI o => [o]
  | CF ok body =>
      if ok then (fix go (l : list citem) : list op := match l with [] => [] | x :: r => kept x ++ go r end) body
      else []
  end.

Definition kept_list : list citem -> list op :=
  fix go (l : list citem) : list op := match l with [] => [] | x :: r => kept x ++ go r end.

Fixpoint plain_tree (t : citem) : bool :=
  match t with
  | CI o => is_plain o
  | CF _ body => (fix go (l : list citem) : bool := match l with [] => true | x :: r => plain_tree x && go r end) body
  end.

Definition plain_list : list citem -> bool :=
  fix go (l : list citem) : bool := match l with [] => true | x :: r => plain_tree x && go r end.

(* side state and events produced by a list of plain operations (a panicking one changes nothing) *)
Definition side_apply (c : side) (o : op) : side := match side_step c o with Some c' => c' | None => c end.
Definition side_run (ops : list op) (c : side) : side := fold_left side_apply ops c.
Fixpoint emitted (ops : list op) : list N :=
  match ops with
  | [] => []
  | EmitEvent e :: r => e :: emitted r
  | _ :: r => emitted r
  end.

(* the tree with every failing frame cut out, with everything below it: the "survivors only" twin transaction that the
   `statedb` driver executes beside every generated call tree *)
Fixpoint prune (t : citem) : list citem :=
  match t with
  | CI o => [CI o]
  | CF ok body =>
      if ok then [CF true ((fix go (l : list citem) : list citem := match l with [] => [] | x :: r => prune x ++ go r end) body)]
      else []
  end.

Definition prune_list : list citem -> list citem :=
  fix go (l : list citem) : list citem := match l with [] => [] | x :: r => prune x ++ go r end.
