(* C02 -- evermint's context-based StateDB (x/evm/vm/state_db.go cStateDb, state_db_geth.go,
   state_db_snapshot.go; x/evm/keeper/statedb.go GetState/SetState/GetCode/GetCodeHash/SetCodeHash/
   DeleteCodeHash; x/evm/keeper/keeper.go IsEmptyAccount) as coded, at the granularity of the
   core/vm.StateDB interface.

   The stores behind the context: auth accounts (account number, sequence) with the global account
   number counter, bank balances (the EVM denomination; whether any OTHER denomination is non-zero),
   the code-hash store, the storage store (SetState(.., 0) stores 32 zero bytes: the slot stays).
   Snapshots are complete copies (C03 proves the cache-context stack equivalent to that, Model/Journal.v).
   originalCtx is the store at NewStateDB.  Module accounts are blocked recipients of the bank module
   and refuse destruction (CheckIfAccountIsSuitableForDestroyingAt): both are panics here (None).
   Not modelled: vesting accounts, events, the code store (code is identified with its hash). *)
From Evm Require Export EvmAbs.
Open Scope Z_scope.

Record estore := mkEstore {
  e_acc : Z -> option (Z * Z);         (* auth: account number, sequence *)
  e_bal : Z -> Z;                      (* bank: balance in the EVM denomination *)
  e_other : Z -> bool;                 (* bank: some other denomination is non-zero *)
  e_ch : Z -> Z;                       (* code-hash store: 0 = no entry (SetCodeHash deletes the entry for empty code) *)
  e_st : Z -> list (Z * Z);            (* storage store per address: entries, also zero-valued ones *)
  e_next : Z;                          (* auth: next global account number *)
  e_module : Z -> bool                 (* module accounts: blocked recipients, not destroyable *)
}.

Record ecore := mkEcore {
  e_s : estore;
  e_touched : list Z;
  e_selfd : list Z;
  e_side : side
}.

Record est := mkEst {
  e_cur : ecore;
  e_snaps : list ecore;                (* d.snapshots[1:]: position = identifier *)
  e_orig : estore;                     (* originalCtx *)
  e_issued : list Z                    (* identifiers returned by Snapshot, in order (what the client holds) *)
}.

Fixpoint st_get (l : list (Z * Z)) (k : Z) : Z :=
  match l with [] => 0 | (k', v) :: r => if Z.eqb k' k then v else st_get r k end.
Fixpoint st_set (l : list (Z * Z)) (k v : Z) : list (Z * Z) :=
  match l with
  | [] => [(k, v)]
  | (k', v') :: r => if Z.eqb k' k then (k, v) :: r else (k', v') :: st_set r k v
  end.

Definition e_seq (s : estore) (a : Z) : Z := match e_acc s a with Some (_, q) => q | None => 0 end.
Definition e_has (s : estore) (a : Z) : bool := match e_acc s a with Some _ => true | None => false end.

(* createAccountIfNotExists / bank SendCoins to a new address: NewAccountWithAddress draws the next number *)
Definition e_create_if_not (s : estore) (a : Z) : estore :=
  match e_acc s a with
  | Some _ => s
  | None => mkEstore (upd (e_acc s) a (Some (e_next s, 0))) (e_bal s) (e_other s) (e_ch s) (e_st s) (e_next s + 1) (e_module s)
  end.

(* mintCoins: MintCoins to the evm module + SendCoinsFromModuleToAccount (refused for blocked addresses) *)
Definition e_mint (s : estore) (a v : Z) : option estore :=
  if e_module s a then None
  else let s1 := e_create_if_not s a in
       Some (mkEstore (e_acc s1) (upd (e_bal s1) a (e_bal s1 a + v)) (e_other s1) (e_ch s1) (e_st s1) (e_next s1) (e_module s1)).

(* burnCoins: SendCoinsFromAccountToModule (fails on insufficient funds) + BurnCoins *)
Definition e_burn (s : estore) (a v : Z) : option estore :=
  if e_bal s a <? v then None
  else Some (mkEstore (e_acc s) (upd (e_bal s) a (e_bal s a - v)) (e_other s) (e_ch s) (e_st s) (e_next s) (e_module s)).

(* DestroyAccount: auth account (guarded), every balance, code hash, every storage entry *)
Definition e_destroy (s : estore) (a : Z) : option estore :=
  if e_has s a && e_module s a then None
  else Some (mkEstore (upd (e_acc s) a None) (upd (e_bal s) a 0) (upd (e_other s) a false) (upd (e_ch s) a 0) (upd (e_st s) a []) (e_next s) (e_module s)).

(* keeper.IsEmptyAccount *)
Definition e_is_empty (s : estore) (a : Z) : bool :=
  (e_ch s a =? 0) && (e_bal s a =? 0) && negb (e_other s a) && (e_seq s a =? 0)
  && match e_st s a with [] => true | _ => false end.

Definition touch (c : ecore) (a : Z) : ecore := mkEcore (e_s c) (a :: e_touched c) (e_selfd c) (e_side c).
Definition e_set_s (c : ecore) (s : estore) : ecore := mkEcore s (e_touched c) (e_selfd c) (e_side c).
Definition e_set_side (c : ecore) (sd : side) : ecore := mkEcore (e_s c) (e_touched c) (e_selfd c) sd.
Definition ewith (s : est) (c : ecore) : est := mkEst c (e_snaps s) (e_orig s) (e_issued s).

Definition e_add_balance (c : ecore) (a v : Z) : option ecore :=
  let c := touch c a in
  if v =? 0 then Some c
  else match e_mint (e_s c) a v with Some s' => Some (e_set_s c s') | None => None end.

Definition e_sub_balance (c : ecore) (a v : Z) : option ecore :=
  let c := touch c a in
  if v =? 0 then Some c
  else match e_burn (e_s c) a v with Some s' => Some (e_set_s c s') | None => None end.

(* CreateAccount: touched; all balances noted; DestroyAccount; new auth account; balances minted back *)
Definition e_create_account (c : ecore) (a : Z) : option ecore :=
  let c := touch c a in
  let s := e_s c in
  let b := e_bal s a in let ot := e_other s a in
  match e_destroy s a with
  | None => None
  | Some s1 =>
      let s2 := e_create_if_not s1 a in
      if (b =? 0) && negb ot then Some (e_set_s c s2)
      else if e_module s2 a then None
      else Some (e_set_s c (mkEstore (e_acc s2) (upd (e_bal s2) a b) (upd (e_other s2) a ot) (e_ch s2) (e_st s2) (e_next s2) (e_module s2)))
  end.

Definition e_exist (c : ecore) (a : Z) : bool := memZ a (e_selfd c) || e_has (e_s c) a.

(* GetCommittedState *)
Definition e_committed (orig cur : estore) (a k : Z) : Z :=
  match e_acc cur a, e_acc orig a with
  | Some (n1, _), Some (n0, _) => if n1 =? n0 then st_get (e_st orig a) k else 0
  | _, _ => 0
  end.

(* CommitMultiStore(true): the loop over the touched addresses *)
Fixpoint e_commit_loop (s : estore) (selfd : list Z) (ts : list Z) : option estore :=
  match ts with
  | [] => Some s
  | a :: r =>
      if memZ a selfd || e_is_empty s a then
        match e_destroy s a with Some s' => e_commit_loop s' selfd r | None => None end
      else e_commit_loop s selfd r
  end.

Definition estep_x (extra : list Z) (o : op) (s : est) : option (est * obs) :=
  let c := e_cur s in
  let st := e_s c in
  let sd := e_side c in
  match o with
  | OCreateAccount a =>
      match e_create_account c a with Some c' => Some (ewith s c', ObNone) | None => None end
  | OSubBalance a v =>
      match e_sub_balance c a v with Some c' => Some (ewith s c', ObNone) | None => None end
  | OAddBalance a v =>
      match e_add_balance c a v with Some c' => Some (ewith s c', ObNone) | None => None end
  | OGetBalance a => Some (s, ObZ (e_bal st a))
  | OGetNonce a => Some (s, ObZ (e_seq st a))
  | OSetNonce a n =>
      let c1 := touch c a in
      let s1 := e_create_if_not st a in
      match e_acc s1 a with
      | None => None
      | Some (num, _) =>
          Some (ewith s (e_set_s c1 (mkEstore (upd (e_acc s1) a (Some (num, n))) (e_bal s1) (e_other s1) (e_ch s1) (e_st s1) (e_next s1) (e_module s1))), ObNone)
      end
  | OGetCodeHash a =>    (* keeper.GetCodeHash: stored hash; else empty-code hash when the account exists; else zero *)
      Some (s, if e_ch st a =? 0 then ObHash (e_has st a) 0 else ObHash true (e_ch st a))
  | OGetCode a => Some (s, ObZ (e_ch st a))
  | OSetCode a cd =>
      let c1 := touch c a in
      let s1 := e_create_if_not st a in
      Some (ewith s (e_set_s c1 (mkEstore (e_acc s1) (e_bal s1) (e_other s1) (upd (e_ch s1) a cd) (e_st s1) (e_next s1) (e_module s1))), ObNone)
  | OGetCodeSize a => Some (s, ObZ (code_size (e_ch st a)))
  | OAddRefund g =>      (* panics on uint64 overflow *)
      if MAXU64 <? s_refund sd + g then None
      else Some (ewith s (e_set_side c (mkSide (s_refund sd + g) (s_al sd) (s_logs sd))), ObNone)
  | OSubRefund g =>
      if s_refund sd <? g then None
      else Some (ewith s (e_set_side c (mkSide (s_refund sd - g) (s_al sd) (s_logs sd))), ObNone)
  | OGetRefund => Some (s, ObZ (s_refund sd))
  | OGetCommitted a k => Some (s, ObZ (e_committed (e_orig s) st a k))
  | OGetState a k => Some (s, ObZ (st_get (e_st st a) k))
  | OSetState a k v =>
      let c1 := touch c a in
      let s1 := e_create_if_not st a in
      Some (ewith s (e_set_s c1 (mkEstore (e_acc s1) (e_bal s1) (e_other s1) (e_ch s1) (upd (e_st s1) a (st_set (e_st s1 a) k v)) (e_next s1) (e_module s1))), ObNone)
  | OSuicide a =>
      let c1 := touch c a in
      if e_has st a then
        let c2 := mkEcore (e_s c1) (e_touched c1) (a :: e_selfd c1) (e_side c1) in
        let b := e_bal st a in
        if b =? 0 then Some (ewith s c2, ObB true)
        else match e_sub_balance c2 a b with Some c3 => Some (ewith s c3, ObB true) | None => None end
      else Some (ewith s c1, ObB false)
  | OHasSuicided a => Some (s, ObB (memZ a (e_selfd c)))
  | OExist a => Some (s, ObB (e_exist c a))
  | OEmpty a => Some (s, ObB (e_is_empty st a))
  | OPrepare sender dst pre ts =>
      Some (ewith s (e_set_side c (mkSide (s_refund sd) (al_prepare sender dst pre ts extra) (s_logs sd))), ObNone)
  | OAddrInAL a => Some (s, ObB (al_has (s_al sd) a))
  | OSlotInAL a k => Some (s, ObBB (al_has (s_al sd) a) (al_has_slot (s_al sd) a k))
  | OAddAddrAL a => Some (ewith s (e_set_side c (mkSide (s_refund sd) (al_add (s_al sd) a) (s_logs sd))), ObNone)
  | OAddSlotAL a k => Some (ewith s (e_set_side c (mkSide (s_refund sd) (al_add_slot (s_al sd) a k) (s_logs sd))), ObNone)
  | OSnapshot =>         (* id = len(d.snapshots) - 1 *)
      let id := Z.of_nat (length (e_snaps s)) in
      Some (mkEst c (e_snaps s ++ [c]) (e_orig s) (e_issued s ++ [id]), ObZ id)
  | ORevert n =>
      match nth_error (e_issued s) n with
      | None => None
      | Some id =>
          if id <? 0 then None
          else match nth_error (e_snaps s) (Z.to_nat id) with
               | None => None                                                   (* index out of range *)
               | Some c' => Some (mkEst c' (firstn (S (Z.to_nat id)) (e_snaps s)) (e_orig s) (e_issued s), ObNone)   (* the snapshot itself stays *)
               end
      end
  | OAddLog l => Some (ewith s (e_set_side c (mkSide (s_refund sd) (s_al sd) (s_logs sd ++ [l]))), ObNone)
  | OCallEnter caller a v isPre =>
      let ex := e_exist c a in
      if negb ex && negb isPre && (v =? 0) then Some (s, ObZ 0)
      else
        match (if ex then Some c else e_create_account c a) with
        | None => None
        | Some c1 =>
            match e_sub_balance c1 caller v with
            | None => None
            | Some c2 =>
                match e_add_balance c2 a v with
                | None => None
                | Some c3 => Some (ewith s c3, if isPre then ObNone else ObZ (e_ch (e_s c3) a))
                end
            end
        end
  | OFinalise =>
      (* CommitMultiStore(true), then the next transaction's NewStateDB over the committed context *)
      match e_commit_loop st (e_selfd c) (e_touched c) with
      | None => None
      | Some s' => Some (mkEst (mkEcore s' [] [] side0) [] s' (e_issued s), ObNone)
      end
  end.

(* evermint as configured (rules.IsShanghai): the coinbase is warm *)
Definition estep (coinbase : Z) : op -> est -> option (est * obs) := estep_x [coinbase].

Definition einit (s : estore) : est := mkEst (mkEcore s [] [] side0) [] s [].

(* the EVM view of an address *)
Definition eview (orig : estore) (c : ecore) (a : Z) : aacc :=
  let s := e_s c in
  mkAacc (e_seq s a) (e_bal s a) (e_ch s a) (st_get (e_st s a)) (e_committed orig s a) (memZ a (e_selfd c)).
