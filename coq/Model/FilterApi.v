(* Model of the PublicFilterAPI layer of /repo/rpc/namespaces/ethereum/eth/filters/api.go (the polling filters of the
   JSON-RPC: eth_newFilter / eth_newBlockFilter / eth_newPendingTransactionFilter / eth_getFilterChanges /
   eth_getFilterLogs / eth_uninstallFilter) as a labelled transition system, instance of Model/Conc.v:

     shared data   the filters map (keys), the mutex filtersMu, per filter its deadline timer and collected results;
                   per subscription the state the EventSystem keeps about it (installed in es.index? bus subscriber
                   channel open / closed, err channel open / closed), the hand-over slot of es.uninstall
     goroutines    every API call (split at each Lock / Unlock of filtersMu and at each call into the EventSystem),
                   timeoutLoop, the goroutine started by Subscription.Unsubscribe, the uninstall branch of
                   EventSystem.eventLoop, the consumer goroutine started for every filter

   The EventSystem is a component of the data here: a call into it (subscribe; eventLoop's uninstall work under
   indexMux; the bus unsubscribe closure) is ONE action, bracketed by the pseudo-lock EvSys that stands for "indexMux
   and the bus locks are taken during this call", so that the lock order filtersMu -> EventSystem locks is visible.
   Its own interleavings are the subject of Model/FilterSys.v, whose guards ASSUME that Subscription.Unsubscribe is
   called at most once per subscription; that assumption is what is PROVED here (Proofs/FilterApiProofs.v): in this
   model a second Unsubscribe is not excluded by a guard, it reaches eventLoop and makes it close f.err twice
   ([ADoubleCloseErr]: `close of closed channel` in an unrecovered goroutine, the node dies).

   What the EventSystem does with a subscription, as the code has it (filter_system.go):
     subscribe    the topic of the event type exists on the bus -> bus.Subscribe only, the subscription is NOT entered
                  in es.index; otherwise cometWSClient.Subscribe, es.install (index, AddTopic, topicChans), bus.Subscribe
     uninstall    delete from es.index; if no subscription of the type is left in the index and the topic channel
                  exists: RemoveTopic + close -> the bus closes the channels of ALL subscribers of the topic (also of
                  filters that were never in the index: their consumer goroutines then drop those filters);
                  close(f.err)

   [variant] selects the code being described:
     variant = false  the code of /repo: UninstallFilter looks the filter up AND deletes it under one acquisition of
                      filtersMu, then unsubscribes;
     variant = true   look-up under the lock, Unsubscribe, delete under a second acquisition (check-then-act outside
                      the lock: seeded defect C20-uninstallfilter-double-unsubscribe), kept for the witness interleaving.
   Executable Gallina only. *)
From Evm Require Export Conc PubSub.

Inductive amx := FiltersMu | EvSys.
Definition amx_eqb (a b : amx) : bool :=
  match a, b with FiltersMu, FiltersMu => true | EvSys, EvSys => true | _, _ => false end.
Definition arank (m : amx) : nat := match m with FiltersMu => 0 | EvSys => 1 end.

Inductive aerr :=
| ADoubleCloseErr (f : nat)      (* eventLoop: close(f.err) of a closed channel -- f was unsubscribed twice *)
| ABlockedOnTimer (f : nat)      (* GetFilterChanges: <-f.deadline.C on a drained timer with filtersMu held: every filter call blocks for good *)
| ABadUnlock.

Record adata := mkA {
  a_filters : list nat  (* keys of api.filters (a filter's id is its subscription's id) *);
  a_cap : nat  (* backend.RPCFilterCap() *);
  a_nsub : nat  (* subscriptions made so far (rpc.NewID() is fresh: ids are 0, 1, 2, ...) *);
  a_styp : list (nat * nat)  (* subscription -> event type: 0 logs, 1 new heads, 2 pending transactions (immutable) *);
  a_index : list nat  (* es.index: the subscriptions that went through es.install *);
  a_topic : list nat  (* event types that have a topic (es.topicChans and the bus) *);
  a_bsub : list nat  (* subscriptions with an open bus subscriber channel *);
  a_evclosed : list nat  (* subscriptions whose bus channel (eventCh) has been closed *);
  a_inbox : list (nat * nat)  (* subscription -> events received by its consumer goroutine and not yet processed *);
  a_uq : option nat  (* hand-over slot of the unbuffered channel es.uninstall *);
  a_errclosed : list nat  (* subscriptions whose err channel is closed *);
  a_timer : list (nat * nat)  (* filter -> deadline timer: 0 armed, 1 fired (value in deadline.C), 2 fired and drained *);
  a_hashes : list (nat * nat)  (* filter -> results collected since the last poll *);
  a_wssub : list nat  (* CometBFT Subscribe calls so far (event type of each, latest first) *);
  a_res : list nat  (* results of the API calls so far, latest first *);
  a_tick : bool  (* timeoutLoop's ticker has fired *);
  a_coin : bool  (* scheduler / failure choice, flipped by the environment *)
}.

Definition s_filters (d : adata) v := mkA v (a_cap d) (a_nsub d) (a_styp d) (a_index d) (a_topic d) (a_bsub d) (a_evclosed d) (a_inbox d) (a_uq d) (a_errclosed d) (a_timer d) (a_hashes d) (a_wssub d) (a_res d) (a_tick d) (a_coin d).
Definition s_cap (d : adata) v := mkA (a_filters d) v (a_nsub d) (a_styp d) (a_index d) (a_topic d) (a_bsub d) (a_evclosed d) (a_inbox d) (a_uq d) (a_errclosed d) (a_timer d) (a_hashes d) (a_wssub d) (a_res d) (a_tick d) (a_coin d).
Definition s_nsub (d : adata) v := mkA (a_filters d) (a_cap d) v (a_styp d) (a_index d) (a_topic d) (a_bsub d) (a_evclosed d) (a_inbox d) (a_uq d) (a_errclosed d) (a_timer d) (a_hashes d) (a_wssub d) (a_res d) (a_tick d) (a_coin d).
Definition s_styp (d : adata) v := mkA (a_filters d) (a_cap d) (a_nsub d) v (a_index d) (a_topic d) (a_bsub d) (a_evclosed d) (a_inbox d) (a_uq d) (a_errclosed d) (a_timer d) (a_hashes d) (a_wssub d) (a_res d) (a_tick d) (a_coin d).
Definition s_index (d : adata) v := mkA (a_filters d) (a_cap d) (a_nsub d) (a_styp d) v (a_topic d) (a_bsub d) (a_evclosed d) (a_inbox d) (a_uq d) (a_errclosed d) (a_timer d) (a_hashes d) (a_wssub d) (a_res d) (a_tick d) (a_coin d).
Definition s_topic (d : adata) v := mkA (a_filters d) (a_cap d) (a_nsub d) (a_styp d) (a_index d) v (a_bsub d) (a_evclosed d) (a_inbox d) (a_uq d) (a_errclosed d) (a_timer d) (a_hashes d) (a_wssub d) (a_res d) (a_tick d) (a_coin d).
Definition s_bsub (d : adata) v := mkA (a_filters d) (a_cap d) (a_nsub d) (a_styp d) (a_index d) (a_topic d) v (a_evclosed d) (a_inbox d) (a_uq d) (a_errclosed d) (a_timer d) (a_hashes d) (a_wssub d) (a_res d) (a_tick d) (a_coin d).
Definition s_evclosed (d : adata) v := mkA (a_filters d) (a_cap d) (a_nsub d) (a_styp d) (a_index d) (a_topic d) (a_bsub d) v (a_inbox d) (a_uq d) (a_errclosed d) (a_timer d) (a_hashes d) (a_wssub d) (a_res d) (a_tick d) (a_coin d).
Definition s_inbox (d : adata) v := mkA (a_filters d) (a_cap d) (a_nsub d) (a_styp d) (a_index d) (a_topic d) (a_bsub d) (a_evclosed d) v (a_uq d) (a_errclosed d) (a_timer d) (a_hashes d) (a_wssub d) (a_res d) (a_tick d) (a_coin d).
Definition s_uq (d : adata) v := mkA (a_filters d) (a_cap d) (a_nsub d) (a_styp d) (a_index d) (a_topic d) (a_bsub d) (a_evclosed d) (a_inbox d) v (a_errclosed d) (a_timer d) (a_hashes d) (a_wssub d) (a_res d) (a_tick d) (a_coin d).
Definition s_errclosed (d : adata) v := mkA (a_filters d) (a_cap d) (a_nsub d) (a_styp d) (a_index d) (a_topic d) (a_bsub d) (a_evclosed d) (a_inbox d) (a_uq d) v (a_timer d) (a_hashes d) (a_wssub d) (a_res d) (a_tick d) (a_coin d).
Definition s_timer (d : adata) v := mkA (a_filters d) (a_cap d) (a_nsub d) (a_styp d) (a_index d) (a_topic d) (a_bsub d) (a_evclosed d) (a_inbox d) (a_uq d) (a_errclosed d) v (a_hashes d) (a_wssub d) (a_res d) (a_tick d) (a_coin d).
Definition s_hashes (d : adata) v := mkA (a_filters d) (a_cap d) (a_nsub d) (a_styp d) (a_index d) (a_topic d) (a_bsub d) (a_evclosed d) (a_inbox d) (a_uq d) (a_errclosed d) (a_timer d) v (a_wssub d) (a_res d) (a_tick d) (a_coin d).
Definition s_wssub (d : adata) v := mkA (a_filters d) (a_cap d) (a_nsub d) (a_styp d) (a_index d) (a_topic d) (a_bsub d) (a_evclosed d) (a_inbox d) (a_uq d) (a_errclosed d) (a_timer d) (a_hashes d) v (a_res d) (a_tick d) (a_coin d).
Definition s_res (d : adata) v := mkA (a_filters d) (a_cap d) (a_nsub d) (a_styp d) (a_index d) (a_topic d) (a_bsub d) (a_evclosed d) (a_inbox d) (a_uq d) (a_errclosed d) (a_timer d) (a_hashes d) (a_wssub d) v (a_tick d) (a_coin d).
Definition s_tick (d : adata) v := mkA (a_filters d) (a_cap d) (a_nsub d) (a_styp d) (a_index d) (a_topic d) (a_bsub d) (a_evclosed d) (a_inbox d) (a_uq d) (a_errclosed d) (a_timer d) (a_hashes d) (a_wssub d) (a_res d) v (a_coin d).
Definition s_coin (d : adata) v := mkA (a_filters d) (a_cap d) (a_nsub d) (a_styp d) (a_index d) (a_topic d) (a_bsub d) (a_evclosed d) (a_inbox d) (a_uq d) (a_errclosed d) (a_timer d) (a_hashes d) (a_wssub d) (a_res d) (a_tick d) v.

Definition afd0 (cap : nat) : adata := mkA [] cap 0 [] [] [] [] [] [] None [] [] [] [] [] false true.

Definition aget (l : list (nat * nat)) (f : nat) : nat := match lookup f l with Some v => v | None => 0 end.
Definition del (f : nat) (l : list nat) : list nat := filter (fun g => negb (Nat.eqb g f)) l.
Fixpoint cnt (f : nat) (l : list nat) : nat :=
  match l with [] => 0 | h :: t => (if Nat.eqb h f then 1 else 0) + cnt f t end.
Definition typ_of (d : adata) (f : nat) : nat := aget (a_styp d) f.
Definition of_typ (d : adata) (typ : nat) (f : nat) : bool := Nat.eqb (typ_of d f) typ.
Definition push_res (d : adata) (r : nat) : adata := s_res d (r :: a_res d).
Definition timer_fired (d : adata) (f : nat) : bool := Nat.eqb (aget (a_timer d) f) 1.

Inductive apc :=
(* timeoutLoop *)
| TL_wait | TL_lock | TL_scan | TL_unlock
(* EventSystem.eventLoop, uninstall branch *)
| AEL_take | AEL_acq (f : nat) | AEL_do (f : nat) | AEL_rel (f : nat) | AEL_cerr (f : nat)
(* NewFilter / NewBlockFilter / NewPendingTransactionFilter (typ = 0 / 1 / 2) *)
| NF_lock (typ : nat) | NF_cap (typ : nat) | NF_sacq (typ : nat) | NF_sub (typ : nat) | NF_srel (r : option nat)
| NF_fail | NF_put (f : nat) | NF_unlock
(* UninstallFilter *)
| UF_lock (id : nat) | UF_look (id : nat) | UF_unlock (id : nat) (found : bool) | UF_unsub (id : nat)
| UV_lock2 (id : nat) | UV_del (id : nat) | UV_unlock2        (* variant = true only *)
(* GetFilterChanges *)
| GC_lock (id : nat) | GC_do (id : nat) | GC_unlock
(* GetFilterLogs *)
| GL_lock (id : nat) | GL_look (id : nat) | GL_unlock
(* the goroutine started by Subscription.Unsubscribe *)
| AU_offer (f : nat)
(* the consumer goroutine of filter f *)
| W_wait (f : nat) | W_ev_lock (f : nat) | W_ev_do (f : nat) | W_ev_unlock (f : nat)
| W_cl_lock (f : nat) | W_cl_del (f : nat) | W_cl_unlock (f : nat)
| W_c_acq (f : nat) | W_c_do (f : nat) | W_c_rel
| ADone.

Definition aalways : adata -> bool := fun _ => true.
Definition aret (d : adata) (k : apc) : adata * apc * list apc * option aerr := (d, k, [], None).

Definition w_ready (d : adata) (f : nat) : bool :=
  Nat.ltb 0 (aget (a_inbox d) f) || memb f (a_evclosed d) || memb f (a_errclosed d).

Definition acode (variant : bool) (p : apc) : instr apc adata amx aerr :=
  match p with
  (* for { <-ticker.C; Lock; for id, f := range filters { select { case <-f.deadline.C: f.s.Unsubscribe; delete } }; Unlock } *)
  | TL_wait => Act (fun d => a_tick d) (fun d => aret (s_tick d false) TL_lock)
  | TL_lock => Acq FiltersMu MW TL_scan
  | TL_scan => Act aalways (fun d =>
      let fired := filter (timer_fired d) (a_filters d) in
      let kept := filter (fun f => negb (timer_fired d f)) (a_filters d) in
      (s_timer (s_filters d kept) (map (fun f => (f, 2)) fired ++ a_timer d), TL_unlock, map AU_offer fired, None))
  | TL_unlock => Rel FiltersMu MW TL_wait
  (* case f := <-es.uninstall *)
  | AEL_take => Act (fun d => match a_uq d with Some _ => true | None => false end)
                   (fun d => match a_uq d with Some f => aret (s_uq d None) (AEL_acq f) | None => aret d AEL_take end)
  | AEL_acq f => Acq EvSys MW (AEL_do f)
  | AEL_do f => Act aalways (fun d =>
      let typ := typ_of d f in
      let idx := del f (a_index d) in
      let d1 := s_index d idx in
      aret (if existsb (of_typ d typ) idx then d1              (* channelInUse *)
            else if memb typ (a_topic d)                        (* ch, ok := es.topicChans[f.event] *)
                 then s_bsub (s_evclosed (s_topic d1 (del typ (a_topic d)))
                                         (filter (of_typ d typ) (a_bsub d) ++ a_evclosed d))
                             (filter (fun g => negb (of_typ d typ g)) (a_bsub d))
                 else d1) (AEL_rel f))
  | AEL_rel f => Rel EvSys MW (AEL_cerr f)
  | AEL_cerr f => Act aalways (fun d =>
      if memb f (a_errclosed d) then (d, AEL_cerr f, [], Some (ADoubleCloseErr f))
      else aret (s_errclosed d (f :: a_errclosed d)) AEL_take)
  (* api.filtersMu.Lock(); defer Unlock(); if len(api.filters) >= cap { return error } *)
  | NF_lock typ => Acq FiltersMu MW (NF_cap typ)
  | NF_cap typ => Act aalways (fun d => if Nat.leb (a_cap d) (length (a_filters d)) then aret (push_res d 0) NF_unlock else aret d (NF_sacq typ))
  (* sub, cancelSubs, err := api.events.SubscribeX() *)
  | NF_sacq typ => Acq EvSys MW (NF_sub typ)
  | NF_sub typ => Act aalways (fun d =>
      let f := a_nsub d in
      let d1 := s_styp (s_nsub d (S f)) ((f, typ) :: a_styp d) in
      if memb typ (a_topic d) then aret (s_bsub d1 (f :: a_bsub d)) (NF_srel (Some f))
      else if a_coin d
           then aret (s_bsub (s_topic (s_index (s_wssub d1 (typ :: a_wssub d)) (f :: a_index d)) (typ :: a_topic d)) (f :: a_bsub d))
                     (NF_srel (Some f))
           else aret d1 (NF_srel None))                           (* cometWSClient.Subscribe failed *)
  | NF_srel r => Rel EvSys MW (match r with Some f => NF_put f | None => NF_fail end)
  | NF_fail => Act aalways (fun d => aret (push_res d 0) NF_unlock)
  (* api.filters[id] = &filter{deadline: time.NewTimer(deadline), s: sub}; go consumer(...) *)
  | NF_put f => Act aalways (fun d =>
      (push_res (s_hashes (s_timer (s_filters d (f :: a_filters d)) ((f, 0) :: a_timer d)) ((f, 0) :: a_hashes d)) (S f),
       NF_unlock, [W_wait f], None))
  | NF_unlock => Rel FiltersMu MW ADone
  (* UninstallFilter *)
  | UF_lock id => Acq FiltersMu MW (UF_look id)
  | UF_look id => Act aalways (fun d =>
      let found := memb id (a_filters d) in
      let d1 := push_res d (if found then 1 else 0) in
      aret (if variant then d1 else s_filters d1 (del id (a_filters d))) (UF_unlock id found))
  | UF_unlock id found => Rel FiltersMu MW (if found then UF_unsub id else ADone)
  | UF_unsub id => Act aalways (fun d => (d, (if variant then UV_lock2 id else ADone), [AU_offer id], None))   (* f.s.Unsubscribe(api.events) *)
  | UV_lock2 id => Acq FiltersMu MW (UV_del id)
  | UV_del id => Act aalways (fun d => aret (s_filters d (del id (a_filters d))) UV_unlock2)
  | UV_unlock2 => Rel FiltersMu MW ADone
  (* GetFilterChanges: if !f.deadline.Stop() { <-f.deadline.C }; f.deadline.Reset(deadline); hand the results out *)
  | GC_lock id => Acq FiltersMu MW (GC_do id)
  | GC_do id => Act aalways (fun d =>
      if memb id (a_filters d) then
        if Nat.eqb (aget (a_timer d) id) 2 then (d, GC_do id, [], Some (ABlockedOnTimer id))
        else aret (push_res (s_hashes (s_timer d ((id, 0) :: a_timer d)) ((id, 0) :: a_hashes d)) (S (aget (a_hashes d) id))) GC_unlock
      else aret (push_res d 0) GC_unlock)
  | GC_unlock => Rel FiltersMu MW ADone
  (* GetFilterLogs: look-up under the lock; the rest works on the backend *)
  | GL_lock id => Acq FiltersMu MW (GL_look id)
  | GL_look id => Act aalways (fun d => aret (push_res d (if memb id (a_filters d) && Nat.eqb (typ_of d id) 0 then 1 else 0)) GL_unlock)
  | GL_unlock => Rel FiltersMu MW ADone
  (* go func() { select { case es.uninstall <- s: ... } }() *)
  | AU_offer f => Act (fun d => match a_uq d with None => true | Some _ => false end) (fun d => aret (s_uq d (Some f)) ADone)
  (* consumer: for { select { case ev, ok := <-eventCh: ... case <-errCh: ... } }; defer cancelSubs() *)
  | W_wait f => Act (fun d => w_ready d f) (fun d =>
      let ev := Nat.ltb 0 (aget (a_inbox d) f) in
      let closed := memb f (a_evclosed d) || memb f (a_errclosed d) in
      if ev && (a_coin d || negb closed)
      then aret (s_inbox d ((f, pred (aget (a_inbox d) f)) :: a_inbox d)) (W_ev_lock f)
      else aret d (W_cl_lock f))
  | W_ev_lock f => Acq FiltersMu MW (W_ev_do f)
  | W_ev_do f => Act aalways (fun d =>
      aret (if memb f (a_filters d) then s_hashes d ((f, S (aget (a_hashes d) f)) :: a_hashes d) else d) (W_ev_unlock f))
  | W_ev_unlock f => Rel FiltersMu MW (W_wait f)
  | W_cl_lock f => Acq FiltersMu MW (W_cl_del f)
  | W_cl_del f => Act aalways (fun d => aret (s_filters d (del f (a_filters d))) (W_cl_unlock f))
  | W_cl_unlock f => Rel FiltersMu MW (W_c_acq f)
  | W_c_acq f => Acq EvSys MW (W_c_do f)
  | W_c_do f => Act aalways (fun d => aret (s_bsub d (del f (a_bsub d))) W_c_rel)
  | W_c_rel => Rel EvSys MW ADone
  | ADone => Halt
  end.

Definition aholds (p : apc) (m : amx) : option mode :=
  match p, m with
  | TL_scan, FiltersMu | TL_unlock, FiltersMu
  | NF_cap _, FiltersMu | NF_sacq _, FiltersMu | NF_sub _, FiltersMu | NF_srel _, FiltersMu | NF_fail, FiltersMu | NF_put _, FiltersMu | NF_unlock, FiltersMu
  | UF_look _, FiltersMu | UF_unlock _ _, FiltersMu | UV_del _, FiltersMu | UV_unlock2, FiltersMu
  | GC_do _, FiltersMu | GC_unlock, FiltersMu | GL_look _, FiltersMu | GL_unlock, FiltersMu
  | W_ev_do _, FiltersMu | W_ev_unlock _, FiltersMu | W_cl_del _, FiltersMu | W_cl_unlock _, FiltersMu => Some MW
  | AEL_do _, EvSys | AEL_rel _, EvSys | NF_sub _, EvSys | NF_srel _, EvSys | W_c_do _, EvSys | W_c_rel, EvSys => Some MW
  | _, _ => None
  end.

(* JSON-RPC clients call the API at any time; nobody else calls Subscription.Unsubscribe on a filter's subscription *)
Inductive aclient : apc -> Prop :=
| ac_new typ : aclient (NF_lock typ)
| ac_uninstall id : aclient (UF_lock id)
| ac_changes id : aclient (GC_lock id)
| ac_logs id : aclient (GL_lock id).

Definition adeliver (d : adata) (typ : nat) : adata :=
  if memb typ (a_topic d)
  then s_inbox d (map (fun f => (f, S (aget (a_inbox d) f))) (filter (of_typ d typ) (a_bsub d)) ++ a_inbox d)
  else d.

(* environment: the ticker, the filters' timers, select / failure choices, events published on a topic *)
Inductive aenv : adata -> adata -> Prop :=
| ae_tick d : aenv d (s_tick d true)
| ae_fire d f : aget (a_timer d) f = 0 -> aenv d (s_timer d ((f, 1) :: a_timer d))
| ae_coin d b : aenv d (s_coin d b)
| ae_event d typ : aenv d (adeliver d typ).

Definition astate := state apc adata amx aerr.
Definition fa_tstep (variant : bool) := tstep apc adata amx aerr amx_eqb (acode variant) ABadUnlock.
Definition fa_step (variant : bool) := step apc adata amx aerr amx_eqb (acode variant) ABadUnlock aenv aclient.
Definition fa_init (cap : nat) : astate := mkSt (afd0 cap) (fun _ => rw0) [TL_wait; AEL_take] None.
Definition fa_reach (variant : bool) (cap : nat) := reach apc adata amx aerr amx_eqb (acode variant) ABadUnlock aenv aclient (fa_init cap).
Definition fa_waits_for (variant : bool) := waits_for apc adata amx aerr (acode variant).

(* ---------------------------------------------------------------- sequential histories (driver `pubsub`, api_test.go) *)
Inductive aop :=
| ANew (typ : nat)
| AUninstall (k : nat)
| AChanges (k : nat)
| ALogs (k : nat)
| AExpire (k : nat)        (* a poll, then the filter's timer fires and the ticker ticks *)
| AEvent (typ : nat) (accepted : bool).   (* an event on the topic; accepted = its data is of the kind the consumers of
                                             the type process (others are skipped before filtersMu is touched) *)

Definition fa_quiesce (variant : bool) (s : astate) : astate := quiesce apc adata amx aerr amx_eqb (acode variant) ABadUnlock 6 40 s.
Definition aspawn (s : astate) (p : apc) : astate := mkSt (dat s) (mux s) (thr s ++ [p]) (err s).
Definition awith (s : astate) (d : adata) : astate := mkSt d (mux s) (thr s) (err s).

(* the driver numbers the filters it created 0, 1, ... (position among the successful creations); the model's ids are
   subscription numbers (a failed cometWSClient.Subscribe uses one up), [ids] maps the former to the latter;
   4999 = an id that was never handed out *)
Definition nth_id (ids : list nat) (k : nat) : nat := nth k ids 4999.
Definition last_res (s : astate) : nat := match a_res (dat s) with r :: _ => r | [] => 0 end.

Fixpoint index_of (x : nat) (l : list nat) (i : nat) : option nat :=
  match l with [] => None | h :: t => if Nat.eqb h x then Some i else index_of x t (S i) end.

(* result reported for the op: ANew: 1 + the driver's number of the new filter, 0 = error; AUninstall: found?;
   AChanges: 0 = not found, 1 + number of results; AExpire: found? (of its poll); ALogs: 1 = answered without error *)
Definition aapply (variant : bool) (s : astate) (ids : list nat) (o : aop) : astate * list nat * nat :=
  match o with
  | ANew typ =>
      let s' := fa_quiesce variant (aspawn s (NF_lock typ)) in
      match last_res s' with
      | S f => (s', ids ++ [f], S (length ids))
      | O => (s', ids, 0)
      end
  | AUninstall k => let s' := fa_quiesce variant (aspawn s (UF_lock (nth_id ids k))) in (s', ids, last_res s')
  | AChanges k => let s' := fa_quiesce variant (aspawn s (GC_lock (nth_id ids k))) in (s', ids, last_res s')
  | ALogs k => let s' := fa_quiesce variant (aspawn s (GL_lock (nth_id ids k))) in (s', ids, last_res s')
  | AExpire k =>
      let id := nth_id ids k in
      let s1 := fa_quiesce variant (aspawn s (GC_lock id)) in
      let d1 := dat s1 in
      let d2 := if memb id (a_filters d1) && Nat.eqb (aget (a_timer d1) id) 0 then s_timer d1 ((id, 1) :: a_timer d1) else d1 in
      (fa_quiesce variant (awith s1 (s_tick d2 true)), ids, if Nat.eqb (last_res s1) 0 then 0 else 1)
  | AEvent typ acc => (if acc then fa_quiesce variant (awith s (adeliver (dat s) typ)) else s, ids, 0)
  end.

(* what the driver sees after an op: the result, the installed filters (driver numbers), the number of CometBFT
   Subscribe calls per event type so far, whether the process is gone *)
Record asnap := mkASnap { as_res : nat; as_filters : list nat; as_wssub : list nat; as_crashed : bool }.

Definition aobserve (s : astate) (ids : list nat) (res : nat) : asnap :=
  let d := dat s in
  mkASnap res
          (flat_map (fun f => match index_of f ids 0 with Some i => [i] | None => [] end) (a_filters d))
          (map (fun t => cnt t (a_wssub d)) [0; 1; 2])
          (match err s with None => false | Some _ => true end).

Fixpoint arun (variant : bool) (s : astate) (ids : list nat) (l : list aop) : list asnap :=
  match l with
  | [] => []
  | o :: r => let '(s', ids', res) := aapply variant s ids o in aobserve s' ids' res :: arun variant s' ids' r
  end.
