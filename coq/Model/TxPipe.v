(* Model of the Ethereum-transaction pipeline in deliver mode (FinalizeBlock):
     SDK baseapp.runTx -> dual-lane ante (app/antedl, Ethereum lane) -> x/evm msg_server.EthereumTx
     -> ApplyTransaction -> ApplyMessageWithConfig -> TransitionDb/refundGas (state_transition_core.go)
     -> gas-meter reset -> block gas consumption; transient per-block bookkeeping (tx count, per-index gas,
     log count) and the receipt/event fields derived from it; EndBlock base fee.
   The EVM interpreter's own result (gas used, VM error, logs, internal value movements, destroyed amount)
   is an oracle argument [evm_out].  Executable Gallina only.  See DESIGN.md Appendix A. *)
From Coq Require Export ZArith List Bool.
From Evm Require Export BaseFee.
Export ListNotations.
Open Scope Z_scope.

Definition addr := Z.                      (* user/contract addresses are >= 0 *)
Definition FEE_COLLECTOR : addr := -1.     (* auth fee_collector module account *)

(* ---------------------------------------------------------------- transaction descriptor *)
Record txd := mkTx {
  t_from : addr;               (* declared From of MsgEthereumTx *)
  t_recovered : option addr;   (* LatestSignerForChainID(chain id).Sender(tx): None = recovery fails (foreign chain id, invalid signature values) *)
  t_protected : bool;          (* ethTx.Protected() *)
  t_dyn : bool;                (* dynamic-fee tx *)
  t_price : Z;                 (* gas price (legacy / access-list) *)
  t_tip : Z; t_cap : Z;        (* dynamic-fee fields *)
  t_gas : Z;                   (* gas limit *)
  t_nonce : Z;
  t_value : Z;
  t_create : bool;
  t_intrinsic : Z              (* core.IntrinsicGas(data, access list, creation) *)
}.

(* what the interpreter did with it (oracle) *)
Record evm_out := mkOut {
  e_used : Z;                  (* gas used after the refund, as TransitionDb reports it *)
  e_vmerr : bool;              (* VM error (revert, out of gas, ...) *)
  e_logs : Z;                  (* number of logs of the execution *)
  e_moves : list (addr * Z);   (* balance movements made by a successful execution (value transfer, internal sends), signed *)
  e_burn : Z;                  (* amount explicitly destroyed by a successful execution *)
  e_commit_err : bool          (* CommitMultiStore refused (destroying a protected account) *)
}.

(* ---------------------------------------------------------------- state *)
Record st := mkSt {
  bal : addr -> Z;             (* EVM-denom balances *)
  sqn : addr -> Z;             (* account sequence = nonce *)
  acc_exists : addr -> bool;
  has_code : addr -> bool;
  supply : Z;
  base_fee : Z;                (* feemarket BaseFee param during this block *)
  gmin_dec : Z;                (* feemarket MinGasPrice x 10^18 *)
  blk_limit : Z;               (* block gas meter limit; <= 0 means infinite meter *)
  blk_used : Z;                (* block gas meter consumed *)
  tx_count : Z;                (* transient: Ethereum txs that passed ante in this block *)
  cum_gas : Z;                 (* transient: sum of per-index gas entries *)
  log_count : Z;               (* transient: sum of per-index log counts *)
  flag_paid : bool;            (* transient flag sender-paid-fee *)
  flag_nonce : bool            (* transient flag nonce-increased-by-ante *)
}.

Definition upd (f : addr -> Z) (a : addr) (v : Z) : addr -> Z := fun x => if x =? a then v else f x.
Definition add_to (f : addr -> Z) (a : addr) (d : Z) : addr -> Z := upd f a (f a + d).
Definition apply_moves (f : addr -> Z) (m : list (addr * Z)) : addr -> Z :=
  fold_left (fun g p => add_to g (fst p) (snd p)) m f.
Definition sum_moves (m : list (addr * Z)) : Z := fold_left (fun s p => s + snd p) m 0.

Definition set_bal s f := mkSt f (sqn s) (acc_exists s) (has_code s) (supply s) (base_fee s) (gmin_dec s) (blk_limit s) (blk_used s) (tx_count s) (cum_gas s) (log_count s) (flag_paid s) (flag_nonce s).
Definition set_sqn s f := mkSt (bal s) f (acc_exists s) (has_code s) (supply s) (base_fee s) (gmin_dec s) (blk_limit s) (blk_used s) (tx_count s) (cum_gas s) (log_count s) (flag_paid s) (flag_nonce s).
Definition set_supply s v := mkSt (bal s) (sqn s) (acc_exists s) (has_code s) v (base_fee s) (gmin_dec s) (blk_limit s) (blk_used s) (tx_count s) (cum_gas s) (log_count s) (flag_paid s) (flag_nonce s).
Definition set_blk_used s v := mkSt (bal s) (sqn s) (acc_exists s) (has_code s) (supply s) (base_fee s) (gmin_dec s) (blk_limit s) v (tx_count s) (cum_gas s) (log_count s) (flag_paid s) (flag_nonce s).
Definition set_transient s c g l := mkSt (bal s) (sqn s) (acc_exists s) (has_code s) (supply s) (base_fee s) (gmin_dec s) (blk_limit s) (blk_used s) c g l (flag_paid s) (flag_nonce s).
Definition set_flags s p n := mkSt (bal s) (sqn s) (acc_exists s) (has_code s) (supply s) (base_fee s) (gmin_dec s) (blk_limit s) (blk_used s) (tx_count s) (cum_gas s) (log_count s) p n.

(* ---------------------------------------------------------------- results *)
Inductive outcome :=
| Dropped                      (* block gas meter already exhausted: rejected before the ante handler *)
| RejAnte (code : Z)           (* ante rejection, SDK error code *)
| CoreErr                      (* handler returned a consensus-level error: gas used = limit *)
| BlockGasExceeded             (* executed, but the block gas meter overflowed: execution dropped *)
| Executed (vmerr : bool).     (* executed and committed *)

Record txres := mkRes {
  r_out : outcome;
  r_gas_wanted : Z;            (* consensus result *)
  r_gas_used : Z;              (* consensus result *)
  r_tx_index : Z;              (* Ethereum tx index (ethereum_tx event / receipt), -1 if none *)
  r_receipt_gas : Z;           (* gas used shown by the receipt of a committed execution, -1 if none *)
  r_cum_gas : Z;               (* receipt cumulative gas, -1 if none *)
  r_log_start : Z;             (* index of the first log within the block, -1 if none *)
  r_status : Z                 (* receipt status 1/0, -1 if none *)
}.

Definition price_of (s : st) (t : txd) : Z := eff_price (t_dyn t) (base_fee s) (t_tip t) (t_cap t) (t_price t).

(* SDK error codes used by the ante decorators *)
Definition E_INVALID_SEQUENCE := 3.
Definition E_INSUFFICIENT_FUNDS := 5.
Definition E_UNKNOWN_ADDRESS := 9.
Definition E_INSUFFICIENT_FEE := 13.
Definition E_INVALID_REQUEST := 18.
Definition E_INVALID_SIGNER := 24.
Definition E_INVALID_TYPE := 29.
Definition E_NOT_SUPPORTED := 37.

(* The Ethereum-lane ante handler in deliver mode, decorators in the order of app/antedl/ante.go.
   Returns the rejection code or the state with the ante effects applied. *)
Definition ante (s0 : st) (t : txd) : Z + st :=
  (* 01 setup: clear both flags (on the ante cache; dropped with it on rejection) *)
  let s := set_flags s0 false false in
  (* 03 validate basic: AsMessage needs a recoverable sender; replay protection *)
  match t_recovered t with
  | None => inl E_INVALID_REQUEST
  | Some signer =>
    if negb (t_protected t) then inl E_NOT_SUPPORTED
    (* 03e sender must be an EOA *)
    else if has_code s (t_from t) then inl E_INVALID_TYPE
    (* 07 deduct fee: price floor, payer account, spendable balance; fee for the whole gas limit *)
    else
      let p := price_of s t in
      if p <? min_allowed Deliver (base_fee s) (gmin_dec s) 0 then inl E_INSUFFICIENT_FEE
      else if negb (acc_exists s (t_from t)) then inl E_UNKNOWN_ADDRESS
      else
        let fee := t_gas t * p in
        if bal s (t_from t) <? fee then inl E_INSUFFICIENT_FUNDS
        else
          let s := set_flags s true false in
          let s := set_bal s (add_to (add_to (bal s) (t_from t) (- fee)) FEE_COLLECTOR fee) in
          (* 11 signature: recovered signer must be the declared sender; nonce = sequence *)
          if negb (signer =? t_from t) then inl E_INVALID_SIGNER
          else if negb (t_nonce t =? sqn s (t_from t)) then inl E_INVALID_SEQUENCE
          else
            (* 12 increment sequence + flag; 991e setup execution: tx count, per-index gas := limit *)
            let s := set_sqn s (add_to (sqn s) (t_from t) 1) in
            let s := set_flags s true true in
            let s := set_transient s (tx_count s + 1) (cum_gas s + t_gas t) (log_count s) in
            inr s
  end.

Definition blk_out_of_gas (s : st) : bool := (0 <? blk_limit s) && (blk_limit s <=? blk_used s).
Definition blk_would_overflow (s : st) (g : Z) : bool := (0 <? blk_limit s) && (blk_limit s <? blk_used s + g).

Definition no_receipt (o : outcome) (gw gu idx : Z) : txres := mkRes o gw gu idx (-1) (-1) (-1) (-1).

(* One Ethereum transaction in deliver mode. *)
Definition deliver (s : st) (t : txd) (o : evm_out) : st * txres :=
  if blk_out_of_gas s then (s, no_receipt Dropped 0 0 (-1))
  else match ante s t with
  | inl code => (s, no_receipt (RejAnte code) (-1) 0 (-1))
      (* ante cache dropped: nothing changes; gas wanted is the limit of the lane's infinite meter, MaxUint64, shown as int64 -1 *)
  | inr sa =>
    let idx := tx_count sa - 1 in
    let p := price_of s t in
    (* handler, on the message cache: undo the ante's nonce increment, then the state transition *)
    let core_err := (t_gas t <? t_intrinsic t)
                    || ((0 <? t_value t) && (bal sa (t_from t) <? t_value t))
                    || e_commit_err o in
    if core_err then
      (* message cache dropped; gas meter = limit; block gas += limit (may run past the limit) *)
      (set_blk_used sa (blk_used sa + t_gas t), no_receipt CoreErr (t_gas t) (t_gas t) idx)
    else if blk_would_overflow sa (e_used o) then
      (* executed, block gas meter panics on consumption: message cache dropped, meter keeps the EVM's figure *)
      (set_blk_used sa (blk_used sa + e_used o), no_receipt BlockGasExceeded (t_gas t) (e_used o) idx)
    else
      (* committed execution *)
      let refund := (t_gas t - e_used o) * p in
      (* refundGas mints the refund to the sender; ApplyTransaction burns the same amount from the fee collector (fix) *)
      let b := add_to (add_to (bal sa) (t_from t) refund) FEE_COLLECTOR (- refund) in
      let b := if e_vmerr o then b else apply_moves b (e_moves o) in
      let burn := if e_vmerr o then 0 else e_burn o in
      let sc := set_bal sa b in
      let sc := set_supply sc (supply sc - burn) in
      (* nonce: handler -1, EVM +1 (Call: SetNonce; Create: evm.Create) *)
      let sc := set_flags sc true false in
      (* transient: per-index gas := used (was limit), log count *)
      let sc := set_transient sc (tx_count sc) (cum_gas sa - t_gas t + e_used o) (log_count sa + e_logs o) in
      let sc := set_blk_used sc (blk_used sc + e_used o) in
      (sc, mkRes (Executed (e_vmerr o)) (t_gas t) (e_used o) idx (e_used o)
                 (cum_gas sa - t_gas t + e_used o) (log_count sa) (if e_vmerr o then 0 else 1))
  end.

(* A non-Ethereum (Cosmos-lane) transaction only matters here through the block gas it consumes (observed). *)
Inductive item :=
| Eth (t : txd) (o : evm_out)
| Cosmos (gas_used : Z) (payer : addr) (fee : Z) (seq_inc : bool).
    (* the SDK's own lane is not modelled: fee actually charged and whether the sequence advanced are observed *)

Definition step (s : st) (i : item) : st * list txres :=
  match i with
  | Eth t o => let '(s', r) := deliver s t o in (s', [r])
  | Cosmos g payer fee inc =>
      let s := set_blk_used s (blk_used s + g) in
      let s := set_bal s (add_to (add_to (bal s) payer (- fee)) FEE_COLLECTOR fee) in
      (if inc then set_sqn s (add_to (sqn s) payer 1) else s, [])
  end.

Fixpoint run (s : st) (l : list item) : st * list txres :=
  match l with
  | [] => (s, [])
  | i :: r => let '(s1, r1) := step s i in let '(s2, r2) := run s1 r in (s2, r1 ++ r2)
  end.

(* gas figure the fee market sees at EndBlock: BlockGasMeter().GasConsumedToLimit() *)
Definition blk_used_to_limit (s : st) : Z :=
  if (0 <? blk_limit s) && (blk_limit s <? blk_used s) then blk_limit s else blk_used s.

(* begin block: fresh block gas meter, transient store emptied *)
Definition begin_block (s : st) : st :=
  (* x/distribution BeginBlock sweeps the fee collector (into the distribution module account: supply unchanged) *)
  let s := set_bal s (upd (bal s) FEE_COLLECTOR 0) in
  set_flags (set_transient (set_blk_used s 0) 0 0 0) false false.

(* ---------------------------------------------------------------- the refund rule (state_transition_core.go refundGas) *)
(* consumed = gas limit - gas left after execution; counter = StateDB refund counter; London quotient 5 *)
Definition gas_after_refund (consumed counter : Z) : Z := consumed - Z.min counter (consumed / 5).
