(* C02 -- shared vocabulary of the two StateDB models (Model/GethStateDB.v = go-ethereum's core/state,
   Model/EvmStateDB.v = evermint's x/evm/vm cStateDb) and the abstract "EVM view" machine both are
   proved to refine (Proofs/GethRefine.v, Proofs/EvmRefine.v).

   Operations are the methods of core/vm.StateDB (interface.go of the go-ethereum fork) as the
   interpreter calls them, plus
     OCallEnter : the prologue of evm.Call (core/vm/evm.go): Exist; [CreateAccount]; Transfer; GetCode
     OFinalise  : end of transaction: go-ethereum StateDB.Finalise(true) / evermint CommitMultiStore(true)
   Snapshot identifiers are opaque to the interpreter (it only hands back what Snapshot returned), so
   ORevert names the Snapshot operation whose result is handed back (its ordinal), and each model
   translates that to its own identifier.

   Executable Gallina only. *)
From Coq Require Export List ZArith Bool.
Export ListNotations.
Open Scope Z_scope.

Definition upd {V : Type} (f : Z -> V) (a : Z) (v : V) : Z -> V :=
  fun x => if Z.eqb x a then v else f x.

Fixpoint memZ (a : Z) (l : list Z) : bool :=
  match l with [] => false | x :: r => Z.eqb x a || memZ a r end.

Fixpoint memZZ (a b : Z) (l : list (Z * Z)) : bool :=
  match l with [] => false | (x, y) :: r => (Z.eqb x a && Z.eqb y b) || memZZ a b r end.

(* a log: address, topics, identifier of the data bytes *)
Definition log : Type := (Z * list Z * Z)%type.

(* code is identified by a number: 0 = empty code; the byte length is kept in the low 20 bits
   (the harness numbers distinct byte strings), so GetCodeSize is computable *)
Definition code_size (c : Z) : Z := c mod 1048576.

(* ------------------------------------------------------------------ access list, refund, logs
   go-ethereum core/state/access_list.go (addresses map + slot sets, journalled) and evermint
   x/evm/vm/state_db_access_list.go (AccessList2: map of maps, copied per snapshot) implement the
   same membership structure; both models use this one. *)
Record alist := mkAl { al_addrs : list Z; al_slots : list (Z * Z) }.
Definition al0 : alist := mkAl [] [].
Definition al_has (l : alist) (a : Z) : bool := memZ a (al_addrs l).
Definition al_has_slot (l : alist) (a k : Z) : bool := memZZ a k (al_slots l).
Definition al_add (l : alist) (a : Z) : alist :=
  if al_has l a then l else mkAl (a :: al_addrs l) (al_slots l).
(* AddSlot adds the address as well *)
Definition al_add_slot (l : alist) (a k : Z) : alist :=
  let l1 := al_add l a in
  if al_has_slot l1 a k then l1 else mkAl (al_addrs l1) ((a, k) :: al_slots l1).

Fixpoint al_add_all (l : alist) (xs : list Z) : alist :=
  match xs with [] => l | x :: r => al_add_all (al_add l x) r end.
Fixpoint al_add_keys (l : alist) (a : Z) (ks : list Z) : alist :=
  match ks with [] => l | k :: r => al_add_keys (al_add_slot l a k) a r end.
Fixpoint al_add_tuples (l : alist) (ts : list (Z * list Z)) : alist :=
  match ts with [] => l | (a, ks) :: r => al_add_tuples (al_add_keys (al_add l a) a ks) r end.

(* StateDB.PrepareAccessList (go-ethereum statedb.go) / cStateDb.prepareByGoEthereum (state_db_geth.go):
   a NEW list with sender, destination, precompiles, the transaction's tuples; [extra] = further warm
   addresses: evermint adds the coinbase (EIP-3651, rules.IsShanghai); plain go-ethereum adds none. *)
Definition al_prepare (sender : Z) (dst : option Z) (pre : list Z) (ts : list (Z * list Z)) (extra : list Z) : alist :=
  let l := al_add al0 sender in
  let l := match dst with Some d => al_add l d | None => l end in
  let l := al_add_all l pre in
  let l := al_add_tuples l ts in
  al_add_all l extra.

Record side := mkSide { s_refund : Z; s_al : alist; s_logs : list log }.
Definition side0 : side := mkSide 0 al0 [].

Definition MAXU64 : Z := 18446744073709551615.

(* ------------------------------------------------------------------ operations and observations *)
Inductive op :=
| OCreateAccount (a : Z)
| OSubBalance (a v : Z)
| OAddBalance (a v : Z)
| OGetBalance (a : Z)
| OGetNonce (a : Z)
| OSetNonce (a n : Z)
| OGetCodeHash (a : Z)
| OGetCode (a : Z)
| OSetCode (a c : Z)
| OGetCodeSize (a : Z)
| OAddRefund (g : Z)
| OSubRefund (g : Z)
| OGetRefund
| OGetCommitted (a k : Z)
| OGetState (a k : Z)
| OSetState (a k v : Z)
| OSuicide (a : Z)
| OHasSuicided (a : Z)
| OExist (a : Z)
| OEmpty (a : Z)
| OPrepare (sender : Z) (dst : option Z) (pre : list Z) (ts : list (Z * list Z))
| OAddrInAL (a : Z)
| OSlotInAL (a k : Z)
| OAddAddrAL (a : Z)
| OAddSlotAL (a k : Z)
| OSnapshot
| ORevert (n : nat)            (* hand back the identifier returned by the n-th Snapshot operation *)
| OAddLog (l : log)
| OCallEnter (caller a v : Z) (isPre : bool)
| OFinalise.

(* ObHash (GetCodeHash): false = the zero hash (no account); true c = the hash of code c (c = 0: of empty code) *)
Inductive obs := ObNone | ObZ (z : Z) | ObB (b : bool) | ObBB (b1 b2 : bool) | ObHash (present : bool) (c : Z).

(* What the interpreter can tell apart.  The zero hash and the hash of empty code are the same answer
   to every caller of GetCodeHash in core/vm and core (evm.create's collision test, opExtCodeHash after
   its Empty test, preCheck's EOA test); Snapshot identifiers are opaque; raw Exist is consumed only by
   evm.Call's prologue (OCallEnter). *)
Definition norm_obs (o : op) (x : obs) : obs :=
  match o, x with
  | OGetCodeHash _, ObHash _ c => ObZ c
  | OSnapshot, _ => ObNone
  | OExist _, _ => ObNone
  | _, _ => x
  end.

(* ------------------------------------------------------------------ the abstract machine
   The EVM view of an account: absent and empty are the same view. *)
Record aacc := mkAacc {
  a_nonce : Z; a_bal : Z; a_code : Z;
  a_stor : Z -> Z;             (* current storage *)
  a_comm : Z -> Z;             (* storage committed at the start of the transaction, as GetCommittedState reports it *)
  a_sd : bool                  (* self-destructed in this transaction *)
}.
Definition zf : Z -> Z := fun _ => 0.
Definition aacc0 : aacc := mkAacc 0 0 0 zf zf false.

Record acore := mkAcore { a_accs : Z -> aacc; a_side : side }.
Record ast := mkAst {
  a_cur : acore;
  a_live : list (nat * acore);   (* live snapshots, oldest first, with the ordinal of their Snapshot operation *)
  a_count : nat;                 (* Snapshot operations so far *)
  a_alvalid : bool               (* PrepareAccessList ran since the last end of transaction *)
}.

Definition a_empty (x : aacc) : bool := (a_nonce x =? 0) && (a_bal x =? 0) && (a_code x =? 0).

Definition set_acc (c : acore) (a : Z) (x : aacc) : acore := mkAcore (upd (a_accs c) a x) (a_side c).
Definition set_side (c : acore) (s : side) : acore := mkAcore (a_accs c) s.
Definition with_cur (s : ast) (c : acore) : ast := mkAst c (a_live s) (a_count s) (a_alvalid s).

Definition ac_add_balance (c : acore) (a v : Z) : acore :=
  let x := a_accs c a in set_acc c a (mkAacc (a_nonce x) (a_bal x + v) (a_code x) (a_stor x) (a_comm x) (a_sd x)).
Definition ac_sub_balance (c : acore) (a v : Z) : option acore :=
  let x := a_accs c a in
  if a_bal x <? v then None
  else Some (set_acc c a (mkAacc (a_nonce x) (a_bal x - v) (a_code x) (a_stor x) (a_comm x) (a_sd x))).

Fixpoint find_live {C : Type} (n : nat) (l : list (nat * C)) (i : nat) : option (nat * C) :=
  match l with
  | [] => None
  | (t, c) :: r => if Nat.eqb t n then Some (i, c) else find_live n r (S i)
  end.

(* end of transaction on the view: self-destructed accounts vanish, committed := current *)
Definition a_finalise_acc (x : aacc) : aacc :=
  if a_sd x then aacc0 else mkAacc (a_nonce x) (a_bal x) (a_code x) (a_stor x) (a_stor x) false.

Definition astep (o : op) (s : ast) : option (ast * obs) :=
  let c := a_cur s in
  let sd := a_side c in
  let acc := a_accs c in
  match o with
  | OCreateAccount a =>
      let x := acc a in
      Some (with_cur s (set_acc c a (mkAacc 0 (a_bal x) 0 zf zf false)), ObNone)
  | OSubBalance a v =>
      match ac_sub_balance c a v with Some c' => Some (with_cur s c', ObNone) | None => None end
  | OAddBalance a v => Some (with_cur s (ac_add_balance c a v), ObNone)
  | OGetBalance a => Some (s, ObZ (a_bal (acc a)))
  | OGetNonce a => Some (s, ObZ (a_nonce (acc a)))
  | OSetNonce a n =>
      let x := acc a in
      Some (with_cur s (set_acc c a (mkAacc n (a_bal x) (a_code x) (a_stor x) (a_comm x) (a_sd x))), ObNone)
  | OGetCodeHash a => Some (s, ObZ (a_code (acc a)))
  | OGetCode a => Some (s, ObZ (a_code (acc a)))
  | OSetCode a cd =>
      let x := acc a in
      Some (with_cur s (set_acc c a (mkAacc (a_nonce x) (a_bal x) cd (a_stor x) (a_comm x) (a_sd x))), ObNone)
  | OGetCodeSize a => Some (s, ObZ (code_size (a_code (acc a))))
  | OAddRefund g =>
      Some (with_cur s (set_side c (mkSide (s_refund sd + g) (s_al sd) (s_logs sd))), ObNone)
  | OSubRefund g =>
      if s_refund sd <? g then None
      else Some (with_cur s (set_side c (mkSide (s_refund sd - g) (s_al sd) (s_logs sd))), ObNone)
  | OGetRefund => Some (s, ObZ (s_refund sd))
  | OGetCommitted a k => Some (s, ObZ (a_comm (acc a) k))
  | OGetState a k => Some (s, ObZ (a_stor (acc a) k))
  | OSetState a k v =>
      let x := acc a in
      Some (with_cur s (set_acc c a (mkAacc (a_nonce x) (a_bal x) (a_code x) (upd (a_stor x) k v) (a_comm x) (a_sd x))), ObNone)
  | OSuicide a =>
      let x := acc a in
      Some (with_cur s (set_acc c a (mkAacc (a_nonce x) 0 (a_code x) (a_stor x) (a_comm x) true)), ObB true)
  | OHasSuicided a => Some (s, ObB (a_sd (acc a)))
  | OExist _ => Some (s, ObNone)
  | OEmpty a => Some (s, ObB (a_empty (acc a)))
  | OPrepare sender dst pre ts =>
      None  (* the extra warm addresses are a parameter: see astep_x below *)
  | OAddrInAL a => Some (s, ObB (al_has (s_al sd) a))
  | OSlotInAL a k => Some (s, ObBB (al_has (s_al sd) a) (al_has_slot (s_al sd) a k))
  | OAddAddrAL a => Some (with_cur s (set_side c (mkSide (s_refund sd) (al_add (s_al sd) a) (s_logs sd))), ObNone)
  | OAddSlotAL a k => Some (with_cur s (set_side c (mkSide (s_refund sd) (al_add_slot (s_al sd) a k) (s_logs sd))), ObNone)
  | OSnapshot => Some (mkAst c (a_live s ++ [(a_count s, c)]) (S (a_count s)) (a_alvalid s), ObNone)
  | ORevert n =>
      match find_live n (a_live s) 0 with
      | Some (i, c') => Some (mkAst c' (firstn i (a_live s)) (a_count s) (a_alvalid s), ObNone)
      | None => None
      end
  | OAddLog l => Some (with_cur s (set_side c (mkSide (s_refund sd) (s_al sd) (s_logs sd ++ [l]))), ObNone)
  | OCallEnter caller a v isPre =>
      match ac_sub_balance c caller v with
      | None => None
      | Some c1 =>
          let c2 := ac_add_balance c1 a v in
          Some (with_cur s c2, if isPre then ObNone else ObZ (a_code (a_accs c2 a)))
      end
  | OFinalise =>
      Some (mkAst (mkAcore (fun a => a_finalise_acc (acc a)) side0) [] (a_count s) false, ObNone)
  end.

(* with the extra warm addresses of PrepareAccessList as a parameter *)
Definition astep_x (extra : list Z) (o : op) (s : ast) : option (ast * obs) :=
  match o with
  | OPrepare sender dst pre ts =>
      let c := a_cur s in let sd := a_side c in
      Some (mkAst (set_side c (mkSide (s_refund sd) (al_prepare sender dst pre ts extra) (s_logs sd))) (a_live s) (a_count s) true, ObNone)
  | _ => astep o s
  end.

(* ------------------------------------------------------------------ interpreter discipline
   Preconditions the go-ethereum interpreter and state transition establish before each call
   (cited in Proofs/GethRefine.v); without them the two implementations ARE distinguishable
   (Properties/C02.v, the _refuted theorems). *)
Definition nonempty_contract (x : aacc) : Prop := 0 < a_nonce x \/ a_code x <> 0.

Definition disc (o : op) (s : ast) : Prop :=
  let acc := a_accs (a_cur s) in
  match o with
  | OCreateAccount a => a_sd (acc a) = false                    (* evm.create: collision test; evm.Call: only when !Exist *)
  | OSubBalance a v => 0 <= v <= a_bal (acc a)                  (* CanTransfer precedes every Transfer *)
  | OAddBalance a v => 0 <= v
  | OSetNonce a n => 0 < n                                      (* always nonce+1, overflow excluded by ErrNonceMax / ErrNonceUintOverflow *)
  | OSetCode a c => 0 < a_nonce (acc a)                         (* evm.create: after SetNonce(address, 1) (EIP-158) *)
  | OSetState a k v => nonempty_contract (acc a)                (* opSstore on contract.Address(): has code or is being created *)
  | OSuicide a => nonempty_contract (acc a)                     (* opSuicide on contract.Address() *)
  | OExist a => False                                           (* only inside evm.Call's prologue: OCallEnter *)
  | OCallEnter caller a v isPre => 0 <= v <= a_bal (acc caller)
  | OAddRefund g => 0 <= g /\ s_refund (a_side (a_cur s)) + g <= MAXU64   (* uint64: go-ethereum would wrap, evermint panics *)
  | OSubRefund g => 0 <= g <= s_refund (a_side (a_cur s))                (* the gas tables only take back what they added *)
  | OSnapshot => a_alvalid s = true                                       (* evm.Call / evm.Create run after PrepareAccessList *)
  | OAddrInAL _ | OSlotInAL _ _ | OAddAddrAL _ | OAddSlotAL _ _ => a_alvalid s = true   (* TransitionDb prepares the list before the interpreter runs (Berlin) *)
  | ORevert n => find_live n (a_live s) 0 <> None                         (* a frame reverts to its own, still live, snapshot, once *)
  | _ => True
  end.
