(* Model of the Ethereum transaction indexer and of the JSON-RPC views built on it:
     indexer/kv_indexer.go        IndexBlock, GetByTxHash, GetByBlockAndIndex, LoadLastBlock, LoadFirstBlock
     rpc/types/events.go          ParseTxResult
     x/evm/types/events.go        TxWasDroppedPreAnteHandleDueToBlockGasExcess
     server/indexer_service.go    OnStart: resume rule and indexing loop
     rpc/backend/tx_info.go       GetTransactionReceipt, GetTransactionByHash, GetTransactionByBlockAndIndex
     rpc/backend/blocks.go        EthMsgsFromCometBFTBlock, RPCBlockFromCometBFTBlock, GetBlockTransactionCount
     rpc/backend/utils.go         TxReceiptFromEvent, ParseTxReceiptFromEvent, GetLogsFromBlockResults
   Executable Gallina only; the code as it is.  No proofs here. *)
From Coq Require Export ZArith List Bool.
Export ListNotations.
Open Scope Z_scope.

(* ------------------------------------------------------------------ consensus data (block + ExecTxResults) *)

(* a tx_receipt event (x/evm/types/events.go GetSdkEventForReceipt), as rpc/backend/utils.go reads it back *)
Record rcpt := Rc {
  rc_txidx : Z;              (* attribute txIdx *)
  rc_block : Z;              (* attribute blockNumber *)
  rc_vmerr : bool;           (* attribute error present *)
  rc_status : Z;             (* marshalled receipt: status *)
  rc_gas : Z;                (* attribute gasUsed *)
  rc_cum : Z;                (* marshalled receipt: cumulative gas used *)
  rc_logstart : option Z;    (* attribute logIdx (present iff the receipt has logs) *)
  rc_nlogs : Z;              (* marshalled receipt: number of logs *)
  rc_contract : bool         (* attribute contractAddr non-empty *)
}.

(* the events of one ExecTxResult that the indexer / RPC look at, in order; all other events are ignored by
   both and are left out by the harness projection *)
Inductive ev :=
| EvEth (txidx_ok : bool)    (* ethereum_tx event (emitted by the ante handler); does its txIndex attribute parse *)
| EvRc (r : rcpt).           (* tx_receipt event (emitted after execution) *)

Record txv := Tx {
  tv_dec : bool;             (* TxDecoder succeeds on the raw bytes *)
  tv_eth : bool;             (* exactly one message and it is a MsgEthereumTx *)
  tv_ext : bool;             (* extension options acceptable to dlanteutils.IsEthereumTx *)
  tv_hash : Z;               (* msg.AsTransaction().Hash() *)
  tv_gas : Z;                (* msg.AsTransaction().Gas() *)
  tv_from : Z;               (* msg.From as an address *)
  tv_code_ok : bool;         (* result.Code == 0 *)
  tv_events : list ev
}.

Definition block := list txv.
Definition chain := list block.     (* the block at position i has height i+1 *)

Definition is_ev_eth (e : ev) : bool := match e with EvEth _ => true | _ => false end.
Definition is_ev_rc (e : ev) : bool := match e with EvRc _ => true | _ => false end.

(* TxWasDroppedPreAnteHandleDueToBlockGasExcess: code != 0 and no ethereum_tx event.  True as well for a
   transaction rejected BY the ante handler (its events are discarded). *)
Definition dropped (t : txv) : bool := negb (tv_code_ok t) && negb (existsb is_ev_eth (tv_events t)).

(* indexer's isEthTx = dlanteutils.IsEthereumTx on the decoded tx *)
Definition is_eth_tx (t : txv) : bool := tv_eth t && tv_ext t.
(* rpc/backend's notion: decodes, one message, a MsgEthereumTx *)
Definition eth_msg (t : txv) : bool := tv_dec t && tv_eth t.

(* ------------------------------------------------------------------ rpc/types/events.go ParseTxResult *)
Inductive parsed := PErr | PNil | PSome (failed : bool).

(* state: found ethereum_tx, found tx_receipt, Failed *)
Fixpoint parse_loop (evs : list ev) (st : bool * bool * bool) : option (bool * bool * bool) :=
  match evs with
  | [] => Some st
  | EvEth ok :: r => if ok then let '(_, fr, f) := st in parse_loop r (true, fr, f) else None
  | EvRc rc :: r => let '(fe, _, f) := st in parse_loop r (fe, true, f || rc_vmerr rc)
  end.

Definition parse_tx_result (t : txv) : parsed :=
  match parse_loop (tv_events t) (false, false, false) with
  | None => PErr
  | Some (fe, fr, f) =>
      if negb (fe || fr) then PNil
      else if negb (tv_code_ok t) then PSome true
      else if negb fe then PSome true
      else if negb fr then PSome true
      else PSome f
  end.

(* ------------------------------------------------------------------ the index database *)
Inductive key := KHash (h : Z) | KIdx (height idx : Z).
Record txres := Res { r_height : Z; r_txidx : Z; r_ethidx : Z; r_failed : bool }.
Inductive val := VRes (r : txres) | VHash (h : Z).

Definition key_eqb (a b : key) : bool :=
  match a, b with
  | KHash x, KHash y => x =? y
  | KIdx h i, KIdx h' i' => (h =? h') && (i =? i')
  | _, _ => false
  end.

Definition db := list (key * val).             (* newest write first *)
Definition batch := list (key * val).          (* in write order *)

Fixpoint db_get (k : key) (d : db) : option val :=
  match d with
  | [] => None
  | (k', v) :: r => if key_eqb k k' then Some v else db_get k r
  end.

(* batch.Write(): atomic (trusted: goleveldb / memdb batch atomicity) *)
Definition db_write (d : db) (b : batch) : db := rev b ++ d.

(* saveTxResult *)
Definition persist (height ti ei h : Z) (failed : bool) : batch :=
  [(KHash h, VRes (Res height ti ei failed)); (KIdx height ei, VHash h)].

(* IndexBlock's loop: ti = position in the block, ei = running ethTxIndex *)
Fixpoint index_txs (height ti ei : Z) (l : list txv) : batch :=
  match l with
  | [] => []
  | t :: r =>
      if dropped t || negb (tv_dec t) || negb (is_eth_tx t) then index_txs height (ti + 1) ei r
      else match parse_tx_result t with
           | PErr => index_txs height (ti + 1) ei r
           | p =>
               (if negb (tv_code_ok t) then persist height ti ei (tv_hash t) true
                else match p with
                     | PSome f => persist height ti ei (tv_hash t) f
                     | _ => []            (* parsedTx == nil: nothing persisted, but ethTxIndex still advances *)
                     end)
               ++ index_txs height (ti + 1) (ei + 1) r
           end
  end.

Definition index_block (height : Z) (b : block) : batch := index_txs height 0 0 b.

Definition get_by_hash (d : db) (h : Z) : option txres :=
  match db_get (KHash h) d with Some (VRes r) => Some r | _ => None end.

Definition get_by_block_index (d : db) (height idx : Z) : option txres :=
  match db_get (KIdx height idx) d with Some (VHash h) => get_by_hash d h | _ => None end.

(* LoadLastBlock: reverse iterator over the (height, index) keys; -1 when there is none *)
Fixpoint last_indexed (d : db) : Z :=
  match d with
  | [] => -1
  | (KIdx h _, _) :: r => Z.max h (last_indexed r)
  | _ :: r => last_indexed r
  end.

Fixpoint first_indexed (d : db) : Z :=
  match d with
  | [] => -1
  | (KIdx h _, _) :: r => let f := first_indexed r in if f =? -1 then h else Z.min h f
  | _ :: r => first_indexed r
  end.

(* number of distinct keys (for comparing with a dump of the real DB) *)
Fixpoint db_keys (d : db) : list key :=
  match d with
  | [] => []
  | (k, _) :: r => let ks := db_keys r in if existsb (key_eqb k) ks then ks else k :: ks
  end.

(* ------------------------------------------------------------------ chain access and the service loop *)
Definition block_at (c : chain) (h : Z) : option block :=
  if h <? 1 then None else nth_error c (Z.to_nat (h - 1)).

(* index the n blocks following height `from`, one batch per block *)
Fixpoint index_from (c : chain) (d : db) (from : Z) (n : nat) : db :=
  match n with
  | O => d
  | S n' =>
      match block_at c (from + 1) with
      | Some b => index_from c (db_write d (index_block (from + 1) b)) (from + 1) n'
      | None => d
      end
  end.

Definition index_range (c : chain) (d : db) (from to : Z) : db := index_from c d from (Z.to_nat (to - from)).

(* the index of an uninterrupted run that started with an empty DB when the node was at height s0 *)
Definition run_from (c : chain) (s0 : Z) : db := index_range c [] s0 (Z.of_nat (length c)).
Definition run (c : chain) : db := run_from c 0.

(* OnStart: where indexing resumes (the cursor = the block BEFORE the first one the loop fetches).
   latest / earliest are the node's Status heights at start.  When the node has pruned past the last indexed
   block, the first block fetched is the node's earliest one (fix: it used to be the one after it). *)
Definition resume (d : db) (latest earliest : Z) : Z :=
  let l := last_indexed d in
  if l =? -1 then latest else if l <? earliest then earliest - 1 else l.

(* one life of the service process: started when the node is at height m_start; the node grows to m_end while
   it runs; the process is killed after k batch writes (or earlier, when everything up to m_end is indexed) *)
Record incarnation := Inc { i_start : Z; i_end : Z; i_kill : nat }.

Definition run_incarnation (c : chain) (earliest : Z) (d : db) (i : incarnation) : db :=
  let cur := resume d (i_start i) earliest in
  index_from c d cur (Nat.min (i_kill i) (Z.to_nat (i_end i - cur))).

Definition life (c : chain) (earliest : Z) (l : list incarnation) : db :=
  fold_left (run_incarnation c earliest) l [].

(* Crash schedules over which convergence holds: a life may begin with an EMPTY index DB only when the node is exactly
   where the indexer had got to (`reached`: ghost state, the height up to which the DB reflects the chain); the node
   never reports more blocks than the chain has. *)
Definition step_reached (earliest : Z) (d : db) (reached : Z) (i : incarnation) : Z :=
  let cur := resume d (i_start i) earliest in
  Z.max reached (cur + Z.of_nat (Nat.min (i_kill i) (Z.to_nat (i_end i - cur)))).

Fixpoint sched_ok (c : chain) (earliest : Z) (d : db) (reached : Z) (l : list incarnation) : bool :=
  match l with
  | [] => true
  | i :: r =>
      (negb (last_indexed d =? -1) || (i_start i =? reached)) && (i_end i <=? Z.of_nat (length c))
      && sched_ok c earliest (run_incarnation c earliest d i) (step_reached earliest d reached i) r
  end.

(* ------------------------------------------------------------------ the service loop when the node client fails
   server/indexer_service.go OnStart:
     status, err := client.Status(ctx);      if err != nil { return err }     (the life ends before anything is read or written)
     ... , err := client.Subscribe(...);     if err != nil { return err }     (same)
     lastIndexedBlock := resume rule
     for {
       if lastIndexedBlock >= latestBlock { mark the indexer ready (once); wait for a new-block signal; continue }
       for i := lastIndexedBlock + 1; i <= latestBlock; i++ {
         block, err := client.Block(ctx, &i)
         if err != nil { if !ready && markFailedToIndexBlock(i) { lastIndexedBlock = i }; break }
         res, err := client.BlockResults(ctx, &i)
         if err != nil { if !ready && markFailedToIndexBlock(i) { lastIndexedBlock = i }; break }
         IndexBlock(block, res); lastIndexedBlock = i } }
   `break` leaves the inner loop with lastIndexedBlock unchanged: the next pass of the outer loop fetches the SAME height again
   (Block first, then BlockResults).  While the indexer is not yet marked ready, markFailedToIndexBlock counts the failed passes
   per height and answers "skip" on the 11th (startupIndexBlockFailureThreshold = 10): only then the cursor moves past a block
   that was not handed to IndexBlock.  No announcement is consumed before the indexer is ready (latestBlock = the Status height
   during catch-up), so height i is fetched before `ready` iff i <= the node height at start. *)

(* what the node client answers during one life for one height: outcomes of the successive Block(h) calls and of the
   successive BlockResults(h) calls (true = error); calls beyond the lists succeed *)
Record hplan := HP { hp_height : Z; hp_block : list bool; hp_results : list bool }.

Definition startup_failure_threshold : nat := 10.

(* the passes of the outer loop at one height: does the service give up on it (cursor := i without IndexBlock)?
   cnt = startupIndexBlockFailureTracker[i] *)
Fixpoint gives_up (ready : bool) (bl rs : list bool) (cnt fuel : nat) : bool :=
  match fuel with
  | O => false
  | S f =>
      match bl with
      | true :: bl' =>                                   (* Block(i) failed *)
          if negb ready && (startup_failure_threshold <? S cnt)%nat then true else gives_up ready bl' rs (S cnt) f
      | _ =>
          match rs with
          | true :: rs' =>                               (* Block(i) answered, BlockResults(i) failed *)
              if negb ready && (startup_failure_threshold <? S cnt)%nat then true else gives_up ready (tl bl) rs' (S cnt) f
          | _ => false                                   (* both answered: IndexBlock *)
          end
      end
  end.

Definition plan_at (p : list hplan) (h : Z) : list bool * list bool :=
  match find (fun e => hp_height e =? h) p with
  | Some e => (hp_block e, hp_results e)
  | None => ([], [])
  end.

(* start = the node's height when the life began *)
Definition skips (start : Z) (p : list hplan) (i : Z) : bool :=
  let '(bl, rs) := plan_at p i in gives_up (start <? i) bl rs 0 (S (length bl + length rs)).

(* the loop from cursor `cur` over the next n heights; bud = batch writes left before the process is killed *)
Fixpoint svc_run (c : chain) (start : Z) (p : list hplan) (d : db) (cur : Z) (bud n : nat) : db :=
  match n with
  | O => d
  | S n' =>
      let i := cur + 1 in
      if skips start p i then svc_run c start p d i bud n'            (* gave up on block i: never indexed in this life *)
      else match block_at c i with
           | None => d
           | Some b =>
               match bud with
               | O => d                                               (* killed: nothing is written any more *)
               | S bu => svc_run c start p (db_write d (index_block i b)) i bu n'
               end
           end
  end.

(* one life with its node: sl_earliest = the node's EarliestBlockHeight when the life starts (the node may have pruned
   blocks while the indexer was down); sl_startfail = Status or Subscribe returned an error *)
Record slife := SL { sl_inc : incarnation; sl_earliest : Z; sl_startfail : bool; sl_plan : list hplan }.

Definition run_slife (c : chain) (d : db) (L : slife) : db :=
  if sl_startfail L then d
  else let i := sl_inc L in
       let cur := resume d (i_start i) (sl_earliest L) in
       svc_run c (i_start i) (sl_plan L) d cur (i_kill i) (Z.to_nat (i_end i - cur)).

Definition slife_run (c : chain) (l : list slife) : db :=
  fold_left (run_slife c) l [].

(* schedules over which convergence holds: as sched_ok; a life that fails to start reads and writes nothing and is exempt *)
Fixpoint ssched_ok (c : chain) (d : db) (reached : Z) (l : list slife) : bool :=
  match l with
  | [] => true
  | L :: r =>
      let i := sl_inc L in
      (i_end i <=? Z.of_nat (length c)) &&
      if sl_startfail L then ssched_ok c d reached r
      else (negb (last_indexed d =? -1) || (i_start i =? reached))
           && ssched_ok c (run_slife c d L) (step_reached (sl_earliest L) d reached i) r
  end.

(* number of failed calls planned for a height *)
Definition nfail (l : list bool) : nat := length (filter (fun b => b) l).
Definition failures (p : list hplan) (h : Z) : nat := let '(bl, rs) := plan_at p h in (nfail bl + nfail rs)%nat.

(* the live loop of one process: every wake-up indexes up to the latest announced height (stale announcements are no-ops) *)
Fixpoint svc_loop (c : chain) (d : db) (cur : Z) (anns : list Z) : db :=
  match anns with
  | [] => d
  | a :: r => svc_loop c (index_range c d cur a) (Z.max cur a) r
  end.

(* feeding IndexBlock with an arbitrary list of heights (re-indexing allowed) *)
Definition feed (c : chain) (d : db) (hs : list Z) : db :=
  fold_left (fun d h => match block_at c h with Some b => db_write d (index_block h b) | None => d end) hs d.

(* ------------------------------------------------------------------ JSON-RPC views *)
Fixpoint first_rc (evs : list ev) : option rcpt :=
  match evs with
  | [] => None
  | EvRc r :: _ => Some r
  | _ :: r => first_rc r
  end.

(* EthMsgsFromCometBFTBlock *)
Definition eth_msgs (b : block) : list txv := filter (fun t => negb (dropped t) && eth_msg t) b.

Record rview := RV {
  rv_status : Z; rv_gas : Z; rv_cum : Z; rv_height : Z; rv_index : Z; rv_from : Z;
  rv_logs : list Z;          (* log indices *)
  rv_contract : bool
}.

(* ParseTxReceiptFromEvent: log index = logIdx attribute + i; the consensus encoding carries no index *)
Definition log_indices (rc : rcpt) : list Z :=
  match rc_logstart rc with
  | Some s => map (fun i => s + Z.of_nat i) (seq 0 (Z.to_nat (rc_nlogs rc)))
  | None => repeat 0 (Z.to_nat (rc_nlogs rc))
  end.

Definition view_of_rc (t : txv) (rc : rcpt) : rview :=
  RV (rc_status rc) (rc_gas rc) (rc_cum rc) (rc_block rc) (rc_txidx rc) (tv_from t) (log_indices rc) (rc_contract rc).

(* GetTransactionReceipt, synthetic branch: gas of the transactions before position TxIndex.
   Transactions that never reached execution (dropped / rejected by the ante handler) are skipped
   (fix: they consumed no gas in consensus). *)
Fixpoint prev_gas (pre : list txv) : Z :=
  match pre with
  | [] => 0
  | t :: r =>
      (if eth_msg t && negb (dropped t)
       then match first_rc (tv_events t) with Some rc => rc_gas rc | None => tv_gas t end
       else 0) + prev_gas r
  end.

Definition rpc_receipt (c : chain) (d : db) (h : Z) : option rview :=
  match get_by_hash d h with
  | None => None
  | Some r =>
      match block_at c (r_height r) with
      | None => None
      | Some b =>
          match nth_error b (Z.to_nat (r_txidx r)) with
          | None => None
          | Some t =>
              if dropped t then None
              else match first_rc (tv_events t) with
                   | Some rc => Some (view_of_rc t rc)
                   | None =>
                       let cum := tv_gas t + (if 0 <? r_ethidx r then prev_gas (firstn (Z.to_nat (r_txidx r)) b) else 0) in
                       Some (RV 0 (tv_gas t) cum (r_height r) (r_ethidx r) (tv_from t) [] false)
                   end
          end
      end
  end.

(* transaction views: (block height, eth index, hash, from) *)
Record tview := TV { t_height : Z; t_index : Z; t_hash : Z; t_from : Z }.

Definition rpc_tx_by_hash (c : chain) (d : db) (h : Z) : option tview :=
  match get_by_hash d h with
  | None => None                 (* falls back to the mempool: not in a block *)
  | Some r =>
      match block_at c (r_height r) with
      | None => None
      | Some b =>
          match nth_error b (Z.to_nat (r_txidx r)) with
          | None => None
          | Some t => Some (TV (r_height r) (r_ethidx r) (tv_hash t) (tv_from t))
          end
      end
  end.

Definition rpc_tx_by_block_index (c : chain) (d : db) (height idx : Z) : option tview :=
  match block_at c height with
  | None => None
  | Some b =>
      match get_by_block_index d height idx with
      | Some r =>
          match nth_error b (Z.to_nat (r_txidx r)) with
          | Some t => Some (TV height idx (tv_hash t) (tv_from t))
          | None => None
          end
      | None =>
          match nth_error (eth_msgs b) (Z.to_nat idx) with
          | Some t => Some (TV height idx (tv_hash t) (tv_from t))
          | None => None
          end
      end
  end.

(* RPCBlockFromCometBFTBlock: hashes of the block's transactions and block gas used (= cumulative gas of the last of
   the receipts (gasUsed, cumulative) it rebuilds) *)
Inductive bview := BNone | BErr | BSome (hashes : list Z) (gas_used : Z).

Fixpoint sumfst (l : list (Z * Z)) : Z := match l with [] => 0 | (g, _) :: r => g + sumfst r end.

Fixpoint block_receipts (d : db) (b : block) (msgs : list txv) (acc : list (Z * Z)) : option (list (Z * Z)) :=
  match msgs with
  | [] => Some acc
  | t :: r =>
      match get_by_hash d (tv_hash t) with
      | None => None
      | Some x =>
          match nth_error b (Z.to_nat (r_txidx x)) with
          | None => None
          | Some t' =>
              if dropped t' then block_receipts d b r acc
              else match first_rc (tv_events t') with
                   | Some rc => block_receipts d b r (acc ++ [(rc_gas rc, rc_cum rc)])
                   | None => block_receipts d b r (acc ++ [(tv_gas t, tv_gas t + sumfst acc)])
                   end
          end
      end
  end.

Definition rpc_block (c : chain) (d : db) (height : Z) : bview :=
  match block_at c height with
  | None => BNone
  | Some b =>
      let msgs := eth_msgs b in
      match block_receipts d b msgs [] with
      | None => BErr
      | Some rs => BSome (map tv_hash msgs) (match rev rs with [] => 0 | (_, cum) :: _ => cum end)
      end
  end.

Definition rpc_tx_count (c : chain) (height : Z) : option Z :=
  match block_at c height with None => None | Some b => Some (Z.of_nat (length (eth_msgs b))) end.

(* GetLogsFromBlockResults: one entry per tx_receipt event of the block, in order *)
Fixpoint ev_logs (evs : list ev) : list (list Z) :=
  match evs with
  | [] => []
  | EvRc rc :: r => log_indices rc :: ev_logs r
  | _ :: r => ev_logs r
  end.

Definition rpc_logs (c : chain) (height : Z) : option (list (list Z)) :=
  match block_at c height with
  | None => None
  | Some b => Some (flat_map (fun t => ev_logs (tv_events t)) b)
  end.

(* ------------------------------------------------------------------ what the property calls "consensus results"
   (independent of the indexer: positions are read off the block directly) *)

(* an Ethereum transaction that was admitted by the ante handler: it is part of the block in the EVM's sense
   (nonce consumed, fee charged, a slot in the per-block receipt list) *)
Definition passed (t : txv) : bool := tv_dec t && is_eth_tx t && negb (dropped t).

Definition spec_failed (t : txv) : bool :=
  negb (tv_code_ok t) || existsb (fun e => match e with EvRc rc => rc_vmerr rc | _ => false end) (tv_events t).

(* first position of hash h in a block: (tx index, eth index) *)
Fixpoint find_pos (height ti ei : Z) (l : list txv) (h : Z) : option txres :=
  match l with
  | [] => None
  | t :: r =>
      if passed t
      then if tv_hash t =? h then Some (Res height ti ei (spec_failed t)) else find_pos height (ti + 1) (ei + 1) r h
      else find_pos height (ti + 1) ei r h
  end.

Fixpoint chain_pos_from (c : chain) (height : Z) (h : Z) : option txres :=
  match c with
  | [] => None
  | b :: r => match find_pos height 0 0 b h with Some x => Some x | None => chain_pos_from r (height + 1) h end
  end.

Definition chain_pos (c : chain) (h : Z) : option txres := chain_pos_from c 1 h.

(* the Ethereum transactions of a block, in consensus order *)
Definition block_eth_txs (b : block) : list txv := filter passed b.

(* the i-th Ethereum transaction of block `height` *)
Definition block_eth_tx (c : chain) (height i : Z) : option txv :=
  match block_at c height with
  | Some b => if 0 <=? i then nth_error (block_eth_txs b) (Z.to_nat i) else None
  | None => None
  end.

Definition block_eth_hash (c : chain) (height i : Z) : option Z := option_map tv_hash (block_eth_tx c height i).

Definition chain_hashes (c : chain) : list Z := flat_map (fun b => map tv_hash (block_eth_txs b)) c.

(* consensus receipts of a block: executed transactions carry theirs in the tx_receipt event; an admitted
   transaction that failed afterwards (or exceeded the block gas limit) consumed its whole gas limit
   (that is what the sender was charged and what later cumulative values include) *)
Fixpoint cons_receipts (height ei sum : Z) (l : list txv) : list rview :=
  match l with
  | [] => []
  | t :: r =>
      match first_rc (tv_events t) with
      | Some rc => view_of_rc t rc :: cons_receipts height (ei + 1) (sum + rc_gas rc) r
      | None => RV 0 (tv_gas t) (sum + tv_gas t) height ei (tv_from t) [] false
                :: cons_receipts height (ei + 1) (sum + tv_gas t) r
      end
  end.

Definition block_cons_receipts (height : Z) (b : block) : list rview := cons_receipts height 0 0 (block_eth_txs b).

(* well-formedness of consensus results, as produced by the real FinalizeBlock (checked on every harness block):
   an admitted Ethereum tx has parsable events; code 0 <-> exactly one receipt event (plus the ante event);
   other transactions carry no receipt event; receipt attributes txIdx / blockNumber are the real position *)
Definition count_rc (t : txv) : nat := length (filter is_ev_rc (tv_events t)).
Definition ev_ok (e : ev) : bool := match e with EvEth ok => ok | _ => true end.

Definition wf_tx (t : txv) : bool :=
  if passed t
  then forallb ev_ok (tv_events t) &&
       (if tv_code_ok t then existsb is_ev_eth (tv_events t) && Nat.eqb (count_rc t) 1 else Nat.eqb (count_rc t) 0)
  else Nat.eqb (count_rc t) 0 &&
       (* a single-MsgEthereumTx transaction with unacceptable extension options never gets past the ante handler *)
       (if eth_msg t && negb (dropped t) then tv_ext t else true).

Fixpoint wf_pos (height ei : Z) (l : list txv) : bool :=
  match l with
  | [] => true
  | t :: r =>
      if passed t
      then match first_rc (tv_events t) with
           | Some rc => (rc_txidx rc =? ei) && (rc_block rc =? height)
           | None => true
           end && wf_pos height (ei + 1) r
      else wf_pos height ei r
  end.

Definition wf_block (height : Z) (b : block) : bool := forallb wf_tx b && wf_pos height 0 b.

Fixpoint wf_chain_from (height : Z) (c : chain) : bool :=
  match c with
  | [] => true
  | b :: r => wf_block height b && wf_chain_from (height + 1) r
  end.

Definition wf_chain (c : chain) : bool := wf_chain_from 1 c.

(* consensus receipts carry the running sum of the gas charged to the block: an executed transaction its gas used,
   an admitted transaction that failed afterwards its whole gas limit *)
Fixpoint cum_ok (sum : Z) (l : list txv) : bool :=
  match l with
  | [] => true
  | t :: r =>
      match first_rc (tv_events t) with
      | Some rc => (rc_cum rc =? sum + rc_gas rc) && cum_ok (sum + rc_gas rc) r
      | None => cum_ok (sum + tv_gas t) r
      end
  end.

Definition cum_block_ok (b : block) : bool := cum_ok 0 (block_eth_txs b).
Definition cum_chain_ok (c : chain) : bool := forallb cum_block_ok c.

Fixpoint nodupb (l : list Z) : bool :=
  match l with
  | [] => true
  | x :: r => negb (existsb (Z.eqb x) r) && nodupb r
  end.

(* what the theorems of Properties/C14.v assume about a chain; evaluated on every chain the harness produces *)
Definition chain_hyps (c : chain) : bool := wf_chain c && cum_chain_ok c && nodupb (chain_hashes c).
