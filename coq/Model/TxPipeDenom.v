(* Multi-denomination layer over Model/TxPipe.v (which stays as it is: Model/Total.v builds on it).

   TxPipe.st carries ONE ledger: the balances and the supply in the EVM denomination.  The bank module keeps a
   balance per (account, denomination) and a supply per denomination; x/evm/vm/state_db.go touches the other
   denominations at exactly two places:

     DestroyAccount(addr):   existingBalances := bankKeeper.GetAllBalances(addr); burnCoins(addr, existingBalances)
                             -> EVERY denomination held by the address is burnt (module account in between);
                             called by CommitMultiStore for every self-destructed account and for every touched
                             account that is Empty (x/evm/keeper IsEmptyAccount: GetAllBalances is zero, so such an
                             account holds nothing in any denomination), and by CreateAccount;
     CreateAccount(addr):    existingBalance := GetAllBalances(addr); DestroyAccount(addr);
                             createAccountIfNotExists(addr); mintCoins(addr, existingBalance)
                             -> every denomination is burnt and minted again ("carried over").

   Everything else (SubBalance / AddBalance / GetBalance / Suicide's clearing of the balance, the ante handler's fee
   deduction, refundGas, the fee-collector burn of the refund) builds its coins with the EVM denomination only.

   The interpreter's part is, as in TxPipe.v, an oracle argument: [devm] names the accounts for which a surviving frame
   of a successful execution called CreateAccount and the accounts deleted by CommitMultiStore (self-destructed ones;
   touched-empty ones hold nothing, see above).  The harness's reference interpreter predicts both lists.

   A Cosmos-lane bank MsgSend of other denominations is modelled as x/bank SendCoins: every coin is taken from the
   sender if he owns it (amounts are positive), otherwise the message fails and, the message cache being dropped,
   nothing of the transaction's messages remains.  Whether the transaction reached / committed its messages
   (ante handler, gas, block gas) is observed ([c_ok]).

   Executable Gallina only. *)
From Evm Require Export TxPipe TxPipeExt.
Open Scope Z_scope.

Definition denom := Z.
Definition EVM_DENOM : denom := 0.       (* the denomination of TxPipe.bal / TxPipe.supply *)

(* the bank's books for the denominations other than EVM_DENOM (index EVM_DENOM of these functions is never read) *)
Record ledger := mkLedger {
  l_bal : denom -> addr -> Z;
  l_supply : denom -> Z
}.

Record dst := mkDst { d_core : st; d_other : ledger }.

Definition bal_d (s : dst) (d : denom) (a : addr) : Z :=
  if d =? EVM_DENOM then bal (d_core s) a else l_bal (d_other s) d a.
Definition supply_d (s : dst) (d : denom) : Z :=
  if d =? EVM_DENOM then supply (d_core s) else l_supply (d_other s) d.

(* ---------------------------------------------------------------- x/evm/vm primitives on the other denominations *)

(* burnCoins(addr, GetAllBalances(addr)): the bank part of DestroyAccount *)
Definition burn_all (L : ledger) (a : addr) : ledger :=
  mkLedger (fun d x => if x =? a then 0 else l_bal L d x)
           (fun d => l_supply L d - l_bal L d a).

(* mintCoins(addr, coins) *)
Definition mint_coins (L : ledger) (a : addr) (c : denom -> Z) : ledger :=
  mkLedger (fun d x => if x =? a then l_bal L d x + c d else l_bal L d x)
           (fun d => l_supply L d + c d).

(* CreateAccount: read all balances, destroy, mint them again *)
Definition create_account (L : ledger) (a : addr) : ledger :=
  let existing := fun d => l_bal L d a in
  mint_coins (burn_all L a) a existing.

(* CommitMultiStore: DestroyAccount for every account marked for deletion, in the (sorted) order given *)
Definition commit_destroy (L : ledger) (l : list addr) : ledger := fold_left burn_all l L.

(* what a successful, committed execution did that concerns the other denominations (oracle) *)
Record devm := mkDx {
  x_created : list addr;       (* CreateAccount calls of surviving frames *)
  x_destroyed : list addr      (* accounts deleted when the transaction's state is committed *)
}.

Definition exec_other (L : ledger) (x : devm) : ledger :=
  commit_destroy (fold_left create_account (x_created x) L) (x_destroyed x).

(* One Ethereum transaction over all denominations: TxPipe.deliver on the EVM denomination; the other denominations
   are reached only by a committed successful execution (a VM error reverts the StateDB to the snapshot taken before
   the execution; a consensus-level failure drops the message cache; the fee handling builds EVM-denomination coins) *)
Definition ddeliver (s : dst) (t : txd) (o : evm_out) (x : devm) : dst * txres :=
  let '(c, r) := deliver (d_core s) t o in
  (mkDst c (match r_out r with
            | Executed false => exec_other (d_other s) x
            | _ => d_other s
            end), r).

(* ---------------------------------------------------------------- Cosmos-lane bank sends of other denominations *)
Record send := mkSend { s_denom : denom; s_from : addr; s_to : addr; s_amt : Z }.

(* x/bank SendCoins for one coin: positive amount (Coins.Validate), sender owns it (subUnlockedCoins) *)
Definition send_one (L : ledger) (m : send) : option ledger :=
  if (s_amt m <=? 0) || (l_bal L (s_denom m) (s_from m) <? s_amt m) then None
  else
    let b1 := fun d x => if (d =? s_denom m) && (x =? s_from m) then l_bal L d x - s_amt m else l_bal L d x in
    let b2 := fun d x => if (d =? s_denom m) && (x =? s_to m) then b1 d x + s_amt m else b1 d x in
    Some (mkLedger b2 (l_supply L)).

Fixpoint send_all (L : ledger) (l : list send) : option ledger :=
  match l with
  | [] => Some L
  | m :: r => match send_one L m with Some L1 => send_all L1 r | None => None end
  end.

Inductive ditem :=
| DEth (t : txd) (o : evm_out) (x : devm)
| DCosmos (gas_used : Z) (payer : addr) (fee : Z) (seq_inc : bool)
          (c_ok : bool)              (* observed: the transaction's messages were executed and committed *)
          (sends : list send).       (* the coins of its bank MsgSend messages, in order (other denominations only) *)

Definition core_item (i : ditem) : item :=
  match i with
  | DEth t o _ => Eth t o
  | DCosmos g p f inc _ _ => Cosmos g p f inc
  end.

Definition dstep (s : dst) (i : ditem) : dst * list txres :=
  match i with
  | DEth t o x => let '(s', r) := ddeliver s t o x in (s', [r])
  | DCosmos g p f inc ok sends =>
      let '(c, rs) := step (d_core s) (Cosmos g p f inc) in
      (mkDst c (if ok then match send_all (d_other s) sends with Some L => L | None => d_other s end
                else d_other s), rs)
  end.

Fixpoint drun (s : dst) (l : list ditem) : dst * list txres :=
  match l with
  | [] => (s, [])
  | i :: r => let '(s1, r1) := dstep s i in let '(s2, r2) := drun s1 r in (s2, r1 ++ r2)
  end.

(* a Cosmos item is consistent with the bank when its observed success implies that the sends were affordable *)
Definition cosmos_consistent (L : ledger) (ok : bool) (sends : list send) : bool :=
  negb ok || match send_all L sends with Some _ => true | None => false end.

(* ---------------------------------------------------------------- histories with aborted executions
   An Ethereum transaction whose execution is aborted by a panic (Model/TxPipeExt.v deliver_panic) leaves the other
   denominations alone: its only effects are the ante handler's, which builds EVM-denomination coins. *)
Inductive xitem :=
| XItem (i : ditem)
| XPanic (t : txd) (gu : Z).

Definition xstep (s : dst) (i : xitem) : dst * list txres :=
  match i with
  | XItem i => dstep s i
  | XPanic t gu => let '(c, r) := deliver_panic (d_core s) t gu in (mkDst c (d_other s), [r])
  end.

Fixpoint xrun (s : dst) (l : list xitem) : dst * list txres :=
  match l with
  | [] => (s, [])
  | i :: r => let '(s1, r1) := xstep s i in let '(s2, r2) := xrun s1 r in (s2, r1 ++ r2)
  end.
