(* C12 — read-only (STATICCALL) contexts and custom precompiles: the flag logic, as the code has it.

   Sources modelled, line by line where it matters:
   - go-ethereum fork core/vm/instructions.go  opCall: `if interpreter.readOnly && !value.IsZero()` => ErrWriteProtection
     raised IN THE CALLING FRAME (the frame aborts);  opCallCode/opDelegateCall/opStaticCall: no such check.
   - fork core/vm/evm.go  Call/CallCode/DelegateCall pass readOnly=false, StaticCall passes readOnly=true, both to
     interpreter.Run (code) and to interpreter.RunPrecompiledContract (precompile).
   - fork core/vm/interpreter.go Run: `if readOnly && !in.readOnly { in.readOnly = true; defer reset }`  (children inherit).
   - fork core/vm/interpreter_evermint.go RunPrecompiledContract: same set/reset of in.readOnly, then
     `cpc.RunCustom(caller, input, readOnly, in.evm)` — the OPCODE's flag, not the inherited in.readOnly.
   - fork core/vm/contracts_evermint.go RunCustom: `if readOnly && !method.ReadOnly` => ErrWriteProtection.
   - evermint x/cpc/keeper/precompiles.go customPrecompiledContractMethodExecutorImpl.Execute:
     `if !m.executor.ReadOnly() && isInterpreterReadOnly(evm)` => ErrWriteProtection   (the inherited flag; parameter
     [chk] below: [true] is the code as it is, [false] is the code without that line = the fork's logic alone).
   - evm.go: a call that returns an error reverts to the snapshot taken before it (its effects vanish), the caller sees 0.

   Not modelled: gas (drivers give every call enough gas), the disabled flag (C17), opcode semantics of the
   calling programs (a program is the list of calls it makes and, per call, whether it reverts when the call fails). *)
From Coq Require Import List ZArith Bool.
Import ListNotations.
Open Scope Z_scope.

Inductive callop := CALL | DELEGATECALL | CALLCODE | STATICCALL.

Definition callop_eqb (a b : callop) : bool :=
  match a, b with
  | CALL, CALL | DELEGATECALL, DELEGATECALL | CALLCODE, CALLCODE | STATICCALL, STATICCALL => true
  | _, _ => false
  end.

Definition is_static (o : callop) : bool := callop_eqb o STATICCALL.

(* ---------------------------------------------------------------- method table *)

(* One registered method of one contract type (1 = ERC-20, 2 = staking, 3 = bech32), as the EVM receives it from
   NewCustomPrecompiledContractMethod: 4-byte selector (as a number), ReadOnly, RequireGas. *)
Record method := Method { m_ctype : Z; m_sel : Z; m_ro : bool; m_gas : Z }.

Definition method_eqb (a b : method) : bool :=
  (m_ctype a =? m_ctype b) && (m_sel a =? m_sel b) && Bool.eqb (m_ro a) (m_ro b) && (m_gas a =? m_gas b).

Fixpoint table_eqb (a b : list method) : bool :=
  match a, b with
  | [], [] => true
  | x :: a', y :: b' => method_eqb x y && table_eqb a' b'
  | _, _ => false
  end.

Definition M := Method.

(* The table the model expects (order of registration in NewErc20/NewStaking/NewBech32CustomPrecompiledContract). *)
Definition expected_table : list method := [
  (* ERC-20: name symbol decimals totalSupply balanceOf transferFrom transfer approve allowance burnFrom burn *)
  M 1 0x06fdde03 true 0; M 1 0x95d89b41 true 0; M 1 0x313ce567 true 0; M 1 0x18160ddd true 1000;
  M 1 0x70a08231 true 1000; M 1 0x23b872dd false 15000; M 1 0xa9059cbb false 15000; M 1 0x095ea7b3 false 30000;
  M 1 0xdd62ed3e true 1000; M 1 0x79cc6790 false 15000; M 1 0x42966c68 false 15000;
  (* staking: name symbol decimals delegatedValidators delegationOf totalDelegationOf rewardOf rewardsOf delegate
     undelegate redelegate delegateByActionMessage withdrawReward withdrawRewards withdrawRewardsByMessage balanceOf transfer *)
  M 2 0x06fdde03 true 0; M 2 0x95d89b41 true 0; M 2 0x313ce567 true 0; M 2 0x5fdb550d true 10000;
  M 2 0x628da527 true 10000; M 2 0xa2b915e2 true 10000; M 2 0x4732aa1d true 10000; M 2 0x479ba7ae true 20000;
  M 2 0x026e402b false 300000; M 2 0x4d99dd16 false 200000; M 2 0x6bd8f804 false 500000; M 2 0xd73d841b false 700000;
  M 2 0xb86e321c false 200000; M 2 0xc7b8981c false 400000; M 2 0x4bd70175 false 400000; M 2 0x70a08231 true 20000;
  M 2 0xa9059cbb false 800000;
  (* bech32: encodeAddress encode32BytesAddress encodeBytes decode and six prefix getters *)
  M 3 0xb361cfef true 30000; M 3 0xa94b84b3 true 60000; M 3 0xf6e0d503 true 200000; M 3 0xbc42537f true 200000;
  M 3 0x96443b16 true 5000; M 3 0x8036b225 true 5000; M 3 0x88333de6 true 5000; M 3 0x765c9d92 true 5000;
  M 3 0x7374cb91 true 5000; M 3 0x2a99c342 true 5000 ].

(* "state-changing methods charge a non-zero gas cost" as a decidable check of a table *)
Definition rw_costs_gas (m : method) : bool := m_ro m || (0 <? m_gas m).
Definition table_rw_cost_gas (t : list method) : bool := forallb rw_costs_gas t.

Definition lookup_ro (t : list method) (ctype sel : Z) : option bool :=
  match find (fun m => (m_ctype m =? ctype) && (m_sel m =? sel)) t with
  | Some m => Some (m_ro m)
  | None => None
  end.

(* ---------------------------------------------------------------- call trees *)

(* A precompile method invocation: [l_id] numbers the leaf inside its tree (bit of the returned mask),
   [l_ro] is the ReadOnly flag the method is registered with, [l_exec_ok] is what the method's executor
   returns when it is actually run on these arguments in this state (external: not flag logic). *)
Record leaf := Leaf { l_id : nat; l_ro : bool; l_exec_ok : bool }.

(* A frame = one call instruction executed by the parent: opcode, whether the value operand is non-zero
   (CALL / CALLCODE only), and the callee: a precompile method or code that makes further calls.
   Each call of a code frame carries [strict]: the program reverts its whole frame if that call fails. *)
Inductive frame :=
| Cpc (op : callop) (nzv : bool) (l : leaf)
| Code (op : callop) (nzv : bool) (kids : list (bool * frame)).

(* What the calling frame sees. *)
Inductive cres :=
| COk (mask : Z) (eff : list nat)  (* call returned 1; mask = OR of 2^id of leaves that succeeded (and were not reverted),
                                      eff = ids of the state-changing (not ReadOnly) leaves whose executor ran and whose
                                      effects were not reverted: the state changes and logs of the call *)
| CFail                             (* call returned 0; everything it did is reverted *)
| CAbort.                           (* ErrWriteProtection raised by opCall itself: the CALLING frame fails *)

Definition bit (id : nat) : Z := Z.shiftl 1 (Z.of_nat id).

Section Run.
  (* does the executor of x/cpc/keeper/precompiles.go consult the interpreter's inherited flag? *)
  Variable chk : bool.

  Definition run_leaf (ro : bool) (op : callop) (nzv : bool) (l : leaf) : cres :=
    if callop_eqb op CALL && nzv && ro then CAbort                   (* instructions.go opCall *)
    else
      let flag := is_static op in                                     (* evm.go: the opcode's flag *)
      let ro' := ro || flag in                                        (* interpreter_evermint.go: in.readOnly while running *)
      if flag && negb (l_ro l) then CFail                             (* contracts_evermint.go RunCustom *)
      else if chk && negb (l_ro l) && ro' then CFail                  (* precompiles.go Execute *)
      else if l_exec_ok l
           then COk (bit (l_id l)) (if l_ro l then [] else [l_id l])
           else CFail.

  (* the calls of one code frame, in order, with the frame's in.readOnly = ro *)
  Fixpoint run_call (ro : bool) (f : frame) {struct f} : cres :=
    match f with
    | Cpc op nzv l => run_leaf ro op nzv l
    | Code op nzv kids =>
        if callop_eqb op CALL && nzv && ro then CAbort               (* instructions.go opCall *)
        else
          let ro' := ro || is_static op in                            (* interpreter.go Run *)
          (fix go (ks : list (bool * frame)) (mask : Z) (eff : list nat) {struct ks} : cres :=
             match ks with
             | [] => COk mask eff
             | (strict, k) :: rest =>
                 match run_call ro' k with
                 | COk m e => go rest (Z.lor mask m) (eff ++ e)
                 | CFail => if strict then CFail else go rest mask eff
                 | CAbort => CFail                                    (* this frame ends with an error *)
                 end
             end) kids 0 []
    end.
End Run.

(* the code as it is *)
Definition run := run_call true.
(* the go-ethereum fork's logic alone (evermint's executor not consulting the inherited flag) *)
Definition run_fork_only := run_call false.

(* A transaction whose `to` is the root code: a CALL from an externally owned account, not read-only. *)
Definition run_tx (root : frame) : cres := run false root.

(* ---------------------------------------------------------------- what the property talks about *)

(* ids of state-changing leaves that have NO STATICCALL on their path (own opcode included), given whether a
   STATICCALL has been seen above *)
Fixpoint unprotected (seen : bool) (f : frame) {struct f} : list nat :=
  match f with
  | Cpc op _ l => if seen || is_static op || l_ro l then [] else [l_id l]
  | Code op _ kids =>
      let seen' := seen || is_static op in
      (fix go (ks : list (bool * frame)) : list nat :=
         match ks with
         | [] => []
         | (_, k) :: rest => unprotected seen' k ++ go rest
         end) kids
  end.

Definition eff_of (r : cres) : list nat := match r with COk _ e => e | _ => [] end.
Definition mask_of (r : cres) : Z := match r with COk m _ => m | _ => 0 end.
Definition ok_of (r : cres) : bool := match r with COk _ _ => true | _ => false end.

(* all leaves (for statements about read-only methods) *)
Fixpoint leaves (f : frame) {struct f} : list leaf :=
  match f with
  | Cpc _ _ l => [l]
  | Code _ _ kids =>
      (fix go (ks : list (bool * frame)) : list leaf :=
         match ks with
         | [] => []
         | (_, k) :: rest => leaves k ++ go rest
         end) kids
  end.

(* ---------------------------------------------------------------- a state change that is not a method effect *)

(* fork core/vm/evm.go Call (the CALL opcode and the transaction's own call; not CallCode/DelegateCall/StaticCall):
     if !evm.StateDB.Exist(addr) { if !isPrecompile && ... { return }; evm.StateDB.CreateAccount(addr) }
   so a CALL to a precompile address that has no account creates one; evermint's CreateAccount
   (x/evm/vm/state_db.go -> AccountKeeper.NewAccountWithAddress) draws the next global account number.  If the call
   or an enclosing frame fails the creation is reverted with it; otherwise the (empty) account is removed again at
   commit, but the counter in the auth store stays advanced: the number is held by no account, it is skipped.  Custom
   precompile addresses have no account unless somebody sent them coins, so: a number is skipped iff some leaf reached
   by CALL itself is in the final mask.
   Numbers that ARE held by an account afterwards are something else: the effect of a method that took effect (the
   bank module creates the account of an ERC-20 transfer's recipient that had none; a module account used for the
   first time).  They belong to [eff_of], not here; the driver tells the two apart on the store, number by number
   (harness/static accNums), so [accnum_consumed] is compared with "a number was drawn that no account holds". *)
Fixpoint call_leaves (f : frame) {struct f} : list nat :=
  match f with
  | Cpc op _ l => if callop_eqb op CALL then [l_id l] else []
  | Code _ _ kids =>
      (fix go (ks : list (bool * frame)) : list nat :=
         match ks with
         | [] => []
         | (_, k) :: rest => call_leaves k ++ go rest
         end) kids
  end.

Definition accnum_consumed (root : frame) : bool :=
  existsb (fun id => Z.testbit (mask_of (run_tx root)) (Z.of_nat id)) (call_leaves root).

(* STATICCALL -> code -> CALL -> read-only method: nothing a method does, yet the account number counter moves *)
Definition accnum_tree : frame :=
  Code CALL false [(false, Code STATICCALL false [(false, Cpc CALL false (Leaf 0 true true))])].

(* witness of the bypass in the fork's logic alone: STATICCALL -> code -> CALL -> state-changing method *)
Definition bypass_tree : frame :=
  Code CALL false [(false, Code STATICCALL false [(false, Cpc CALL false (Leaf 0 false true))])].
