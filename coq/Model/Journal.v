(* Specification machine for C03: the obviously-correct way to implement Snapshot / RevertToSnapshot --
   every snapshot is a complete copy of everything (the whole multi-store view, the visible events and
   all side state); reverting re-installs the copy.  CacheStack.v (the code) is proved to refine it. *)
From Evm Require Import CacheStack.
Open Scope N_scope.

Record jfull := mkJ { j_kv : kv; j_evs : list N; j_side : side }.

Record jstate := mkJS {
  j_orig : kv;
  j_orig_ev : list N;
  j_cur : jfull;
  j_saved : list jfull;       (* newest first; the copy made by Snapshot() = i is the i-th from the end *)
  j_committed : bool
}.

Definition kv_upd (m : kv) (k : key) (v : option val) : kv := fun k' => if N.eqb k k' then v else m k'.

Definition jset_cur (j : jstate) (c : jfull) : jstate :=
  mkJS (j_orig j) (j_orig_ev j) c (j_saved j) (j_committed j).

Definition spec_step (j : jstate) (o : op) : jstate * out :=
  let c := j_cur j in
  match o with
  | KvSet k v => (jset_cur j (mkJ (kv_upd (j_kv c) k (Some v)) (j_evs c) (j_side c)), OutOk)
  | KvDel k => (jset_cur j (mkJ (kv_upd (j_kv c) k None) (j_evs c) (j_side c)), OutOk)
  | EmitEvent e => (jset_cur j (mkJ (j_kv c) (j_evs c ++ [e]) (j_side c)), OutOk)
  | Snapshot =>
      (mkJS (j_orig j) (j_orig_ev j) c (c :: j_saved j) (j_committed j), OutId (Z.of_nat (length (j_saved j))))
  | RevertTo id =>
      if (id <? 0)%Z then (j, OutPanic)
      else
        let idx := Z.to_nat id in
        if (length (j_saved j) <=? idx)%nat then (j, OutPanic)
        else
          match skipn (length (j_saved j) - 1 - idx) (j_saved j) with
          | [] => (j, OutPanic)
          | c' :: rest => (mkJS (j_orig j) (j_orig_ev j) c' (c' :: rest) (j_committed j), OutOk)
          end
  | Commit destroy =>
      if j_committed j then (j, OutPanic)
      else
        let k' := kv_over destroy (j_kv c) in
        (mkJS k' (j_evs c) (mkJ k' (j_evs c) (j_side c)) (j_saved j) true, OutOk)
  | _ =>
      match side_step (j_side c) o with
      | Some sd => (jset_cur j (mkJ (j_kv c) (j_evs c) sd), OutOk)
      | None => (j, OutPanic)
      end
  end.

Definition spec_run (j : jstate) (ops : list op) : jstate := fold_left (fun j o => fst (spec_step j o)) ops j.

(* abstraction: what a complete copy taken at each Snapshot() would contain *)
Fixpoint saved_of (ls : list layer) (o : kv) (oev : list N) : list jfull :=
  match ls with
  | [] => []
  | l :: r =>
      match r with
      | [] => []                         (* the first snapshot (id -1) is not a user snapshot *)
      | _ => mkJ (view_layers r o) (oev ++ events_layers r) (l_saved l) :: saved_of r o oev
      end
  end.

Definition abs (s : sdb) : jstate :=
  mkJS (orig s) (orig_ev s)
       (mkJ (view s) (events s) (cur s))
       (saved_of (top s :: below s) (orig s) (orig_ev s))
       (committed s).

(* equality of abstract states up to extensional equality of store views *)
Definition jfull_eq (a b : jfull) : Prop :=
  (forall k, j_kv a k = j_kv b k) /\ j_evs a = j_evs b /\ j_side a = j_side b.

Definition jeq (a b : jstate) : Prop :=
  (forall k, j_orig a k = j_orig b k) /\ j_orig_ev a = j_orig_ev b /\
  jfull_eq (j_cur a) (j_cur b) /\ Forall2 jfull_eq (j_saved a) (j_saved b) /\
  j_committed a = j_committed b.
