(* C02 -- go-ethereum's journalled state (core/state/statedb.go, state_object.go, journal.go of the
   fork go-ethereum-for-evermint v1.10.28 = go-ethereum 1.10.26) at the granularity of the
   core/vm.StateDB interface.

   Modelled: state objects (nonce, balance, code, current storage = dirty over pending over origin,
   committed storage = pending over origin, suicided flag); getStateObject returning nil for deleted
   objects; GetOrNewStateObject / createObject (journal entry => dirty); AddBalance's touch of empty
   objects and the ripemd special case (journal.dirty survives reverts); SubBalance of zero (object is
   created, not touched); SetState's no-op when the value is unchanged; Suicide; CreateAccount (balance
   carried over, everything else reset, suicided flag gone); Snapshot / RevertToSnapshot with
   nextRevisionId and validRevisions; Finalise(true) over journal.dirties; clearJournalAndRefund.
   Abstraction: the journal is represented by complete copies of the revertible part (objects, set of
   dirty addresses, refund, access list, logs) kept with each valid revision; the set of dirty
   addresses stands for the keys of journal.dirties (an address is dirty iff a journal entry naming it
   is still in the journal).  Tries, the snapshot tree and prefetching are not modelled. *)
From Evm Require Export EvmAbs.
Open Scope Z_scope.

Record gobj := mkGobj {
  g_nonce : Z; g_bal : Z; g_code : Z;
  g_stor : Z -> Z;      (* GetState: dirtyStorage over GetCommittedState *)
  g_orig : Z -> Z;      (* GetCommittedState: pendingStorage over originStorage over the trie *)
  g_sui : bool
}.
Definition gobj0 : gobj := mkGobj 0 0 0 zf zf false.   (* newObject(s, addr, types.StateAccount{}) *)

Record gcore := mkGcore {
  g_objs : Z -> option gobj;       (* getStateObject: None = absent or deleted *)
  g_dirty : list Z;                (* keys of journal.dirties *)
  g_side : side
}.

Record gst := mkGst {
  g_cur : gcore;
  g_revs : list (Z * gcore);       (* validRevisions, oldest first: (id, state at Snapshot) *)
  g_next : Z;                      (* nextRevisionId *)
  g_issued : list Z;               (* identifiers returned by Snapshot, in order (what the client holds) *)
  g_ripemd : bool;                 (* the explicit journal.dirty(ripemd) of touch(): not undone by reverts *)
  g_alvalid : bool                 (* GHOST (never read by an operation): PrepareAccessList ran since the last Finalise.
                                      go-ethereum keeps the previous transaction's access list until then. *)
}.

Definition RIPEMD : Z := 3.

Definition g_empty (o : gobj) : bool := (g_nonce o =? 0) && (g_bal o =? 0) && (g_code o =? 0).

Definition g_set (c : gcore) (a : Z) (o : gobj) : gcore :=
  mkGcore (upd (g_objs c) a (Some o)) (a :: g_dirty c) (g_side c).       (* every journal entry names the address *)
Definition g_set_side (c : gcore) (s : side) : gcore := mkGcore (g_objs c) (g_dirty c) s.
Definition gwith (s : gst) (c : gcore) : gst := mkGst c (g_revs s) (g_next s) (g_issued s) (g_ripemd s) (g_alvalid s).

(* GetOrNewStateObject: createObject journals createObjectChange *)
Definition g_get_or_new (c : gcore) (a : Z) : gcore * gobj :=
  match g_objs c a with
  | Some o => (c, o)
  | None => (g_set c a gobj0, gobj0)
  end.

(* StateDB.AddBalance -> stateObject.AddBalance; returns the core and whether ripemd was touched *)
Definition g_add_balance (c : gcore) (a v : Z) : gcore * bool :=
  let '(c1, o) := g_get_or_new c a in
  if v =? 0 then
    if g_empty o then (mkGcore (g_objs c1) (a :: g_dirty c1) (g_side c1), Z.eqb a RIPEMD)   (* touch() *)
    else (c1, false)
  else (g_set c1 a (mkGobj (g_nonce o) (g_bal o + v) (g_code o) (g_stor o) (g_orig o) (g_sui o)), false).

(* StateDB.SubBalance -> stateObject.SubBalance (big.Int: may go negative, never panics) *)
Definition g_sub_balance (c : gcore) (a v : Z) : gcore :=
  let '(c1, o) := g_get_or_new c a in
  if v =? 0 then c1
  else g_set c1 a (mkGobj (g_nonce o) (g_bal o - v) (g_code o) (g_stor o) (g_orig o) (g_sui o)).

(* StateDB.CreateAccount -> createObject: new object, balance of a live predecessor carried over (setBalance: not
   journalled).  Over a live predecessor the journal entry is resetObjectChange, whose dirtied() is nil: the
   address does NOT become dirty (evm.create dirties it right after with SetNonce); over nothing it is
   createObjectChange, which names the address. *)
Definition g_create_account (c : gcore) (a : Z) : gcore :=
  match g_objs c a with
  | Some p => mkGcore (upd (g_objs c) a (Some (mkGobj 0 (g_bal p) 0 zf zf false))) (g_dirty c) (g_side c)
  | None => g_set c a gobj0
  end.

Definition g_exist (c : gcore) (a : Z) : bool := match g_objs c a with Some _ => true | None => false end.
Definition g_get_code (c : gcore) (a : Z) : Z := match g_objs c a with Some o => g_code o | None => 0 end.

Fixpoint find_rev (id : Z) (l : list (Z * gcore)) (i : nat) : option (nat * gcore) :=
  match l with
  | [] => None
  | (x, c) :: r => if Z.eqb x id then Some (i, c) else find_rev id r (S i)
  end.

(* Finalise(true): the loop over journal.dirties *)
Fixpoint g_finalise_loop (objs : Z -> option gobj) (ds : list Z) : Z -> option gobj :=
  match ds with
  | [] => objs
  | a :: r =>
      let objs' :=
        match objs a with
        | None => objs                                         (* not in stateObjects (ripemd note) / already deleted *)
        | Some o =>
            if g_sui o || g_empty o then upd objs a None       (* obj.deleted = true *)
            else upd objs a (Some (mkGobj (g_nonce o) (g_bal o) (g_code o) (g_stor o) (g_stor o) false))   (* obj.finalise: dirty -> pending *)
        end in
      g_finalise_loop objs' r
  end.

Definition gstep_x (extra : list Z) (o : op) (s : gst) : option (gst * obs) :=
  let c := g_cur s in
  let sd := g_side c in
  match o with
  | OCreateAccount a => Some (gwith s (g_create_account c a), ObNone)
  | OSubBalance a v => Some (gwith s (g_sub_balance c a v), ObNone)
  | OAddBalance a v =>
      let '(c', rip) := g_add_balance c a v in
      Some (mkGst c' (g_revs s) (g_next s) (g_issued s) (g_ripemd s || rip) (g_alvalid s), ObNone)
  | OGetBalance a => Some (s, ObZ (match g_objs c a with Some x => g_bal x | None => 0 end))
  | OGetNonce a => Some (s, ObZ (match g_objs c a with Some x => g_nonce x | None => 0 end))
  | OSetNonce a n =>
      let '(c1, x) := g_get_or_new c a in
      Some (gwith s (g_set c1 a (mkGobj n (g_bal x) (g_code x) (g_stor x) (g_orig x) (g_sui x))), ObNone)
  | OGetCodeHash a => Some (s, match g_objs c a with Some x => ObHash true (g_code x) | None => ObHash false 0 end)
  | OGetCode a => Some (s, ObZ (g_get_code c a))
  | OSetCode a cd =>
      let '(c1, x) := g_get_or_new c a in
      Some (gwith s (g_set c1 a (mkGobj (g_nonce x) (g_bal x) cd (g_stor x) (g_orig x) (g_sui x))), ObNone)
  | OGetCodeSize a => Some (s, ObZ (code_size (g_get_code c a)))
  | OAddRefund g =>     (* s.refund += gas: uint64, wraps *)
      Some (gwith s (g_set_side c (mkSide ((s_refund sd + g) mod (MAXU64 + 1)) (s_al sd) (s_logs sd))), ObNone)
  | OSubRefund g =>     (* panics when gas > s.refund *)
      if s_refund sd <? g then None
      else Some (gwith s (g_set_side c (mkSide (s_refund sd - g) (s_al sd) (s_logs sd))), ObNone)
  | OGetRefund => Some (s, ObZ (s_refund sd))
  | OGetCommitted a k => Some (s, ObZ (match g_objs c a with Some x => g_orig x k | None => 0 end))
  | OGetState a k => Some (s, ObZ (match g_objs c a with Some x => g_stor x k | None => 0 end))
  | OSetState a k v =>
      let '(c1, x) := g_get_or_new c a in
      if g_stor x k =? v then Some (gwith s c1, ObNone)          (* stateObject.SetState: prev == value: nothing journalled *)
      else Some (gwith s (g_set c1 a (mkGobj (g_nonce x) (g_bal x) (g_code x) (upd (g_stor x) k v) (g_orig x) (g_sui x))), ObNone)
  | OSuicide a =>
      match g_objs c a with
      | None => Some (s, ObB false)
      | Some x => Some (gwith s (g_set c a (mkGobj (g_nonce x) 0 (g_code x) (g_stor x) (g_orig x) true)), ObB true)
      end
  | OHasSuicided a => Some (s, ObB (match g_objs c a with Some x => g_sui x | None => false end))
  | OExist a => Some (s, ObB (g_exist c a))
  | OEmpty a => Some (s, ObB (match g_objs c a with Some x => g_empty x | None => true end))
  | OPrepare sender dst pre ts =>
      Some (mkGst (g_set_side c (mkSide (s_refund sd) (al_prepare sender dst pre ts extra) (s_logs sd)))
                  (g_revs s) (g_next s) (g_issued s) (g_ripemd s) true, ObNone)
  | OAddrInAL a => Some (s, ObB (al_has (s_al sd) a))
  | OSlotInAL a k => Some (s, ObBB (al_has (s_al sd) a) (al_has_slot (s_al sd) a k))
  | OAddAddrAL a => Some (gwith s (g_set_side c (mkSide (s_refund sd) (al_add (s_al sd) a) (s_logs sd))), ObNone)
  | OAddSlotAL a k => Some (gwith s (g_set_side c (mkSide (s_refund sd) (al_add_slot (s_al sd) a k) (s_logs sd))), ObNone)
  | OSnapshot =>
      Some (mkGst c (g_revs s ++ [(g_next s, c)]) (g_next s + 1) (g_issued s ++ [g_next s]) (g_ripemd s) (g_alvalid s), ObZ (g_next s))
  | ORevert n =>
      match nth_error (g_issued s) n with
      | None => None
      | Some id =>
          match find_rev id (g_revs s) 0 with
          | None => None                                                      (* panic: revision id cannot be reverted *)
          | Some (i, c') => Some (mkGst c' (firstn i (g_revs s)) (g_next s) (g_issued s) (g_ripemd s) (g_alvalid s), ObNone)
          end
      end
  | OAddLog l => Some (gwith s (g_set_side c (mkSide (s_refund sd) (s_al sd) (s_logs sd ++ [l]))), ObNone)
  | OCallEnter caller a v isPre =>
      (* evm.Call: if !Exist(addr) { if !isPrecompile && EIP158 && value == 0 { return nil, gas, nil }; CreateAccount(addr) }
         Transfer(db, caller, addr, value); [code := GetCode(addr)] *)
      let ex := g_exist c a in
      if negb ex && negb isPre && (v =? 0) then Some (s, ObZ 0)
      else
        let c1 := if ex then c else g_create_account c a in
        let c2 := g_sub_balance c1 caller v in
        let '(c3, rip) := g_add_balance c2 a v in
        Some (mkGst c3 (g_revs s) (g_next s) (g_issued s) (g_ripemd s || rip) (g_alvalid s),
              if isPre then ObNone else ObZ (g_get_code c3 a))
  | OFinalise =>
      let ds := if g_ripemd s then RIPEMD :: g_dirty c else g_dirty c in
      (* clearJournalAndRefund: journal, validRevisions, refund; the logs of the next transaction are a new bucket
         (StateDB.Prepare(thash, ti)); the access list is NOT cleared *)
      Some (mkGst (mkGcore (g_finalise_loop (g_objs c) ds) [] (mkSide 0 (s_al sd) [])) [] (g_next s) (g_issued s) false false, ObNone)
  end.

(* plain go-ethereum: no extra warm address *)
Definition gstep : op -> gst -> option (gst * obs) := gstep_x [].

Definition ginit (objs : Z -> option gobj) : gst := mkGst (mkGcore objs [] side0) [] 0 [] false true.

(* the EVM view of an object *)
Definition gview (o : option gobj) : aacc :=
  match o with
  | None => aacc0
  | Some x => mkAacc (g_nonce x) (g_bal x) (g_code x) (g_stor x) (g_orig x) (g_sui x)
  end.
