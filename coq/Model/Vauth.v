(* Model of x/vauth (proof of external ownership) and of the routes by which a vesting account can be created (C16).

   Modelled line by line:
     x/vauth/types/msg_submit_proof_external_owned_account.go  ValidateBasic              -> msg_valid
     x/vauth/keeper/msg_server_submit_proof_external_owned_account.go                     -> submit_msg
     x/vauth/types/proof_external_owned_account.go ValidateBasic (lower-case rule, reached
       only from SaveProofExternalOwnedAccount, whose error makes the message server PANIC) -> SPanicSave
     x/vauth/keeper/constants.go CostSubmitProofExternalOwnedAccount = 1e18                -> COST
     baseapp.runTx around it: ValidateBasic of TOP-LEVEL messages before the ante handler, fee deduction by the
       ante handler (kept when a message fails), message writes dropped on error or panic; a submission nested in
       authz MsgExec (992c depth cap; validated only by the authz keeper / the message server, i.e. AFTER the fee
       was taken; the fee payer is the MsgExec's grantee, the fixed cost is the submitter's)  -> submit_tx
     app/antedl/cosmoslane/993c + 992c through Model/Lane.v, and the SDK vesting handlers' rule that
       the target account must not exist yet                                              -> vesting_tx
     ICA host packets (no ante handler), Model/Lane.v executed_ica                         -> ica_packet, OIcaSubmit

   Not logic, hence inputs: ecrecover/keccak ([verifies], a Section variable), bech32 validity / length of the address
   strings, hex decoding of the signature string, the SDK decorators' verdicts (Lane.env).  Executable Gallina only. *)
From Evm Require Export Lane.
Open Scope Z_scope.

Definition addr := N.

(* the signature STRING of a MsgSubmitProofExternalOwnedAccount *)
Record sigstr := {
  s_str    : N;      (* identity of the string (what is stored) *)
  s_bytes  : N;      (* identity of the bytes hex.DecodeString(sig[2:]) yields (what is verified) *)
  s_prefix : bool;   (* strings.HasPrefix(sig, "0x") *)
  s_hex_ok : bool;   (* the rest decodes as hex and is not empty *)
  s_lower  : bool    (* strings.ToLower(sig) == sig *)
}.

Definition COST : Z := 10 ^ 18.   (* keeper/constants.go *)

Record vstate := {
  proofs : addr -> option sigstr;  (* vauth store: address -> proof; presence = proven EOA *)
  bal    : addr -> Z;              (* spendable balance in the EVM denomination *)
  supply : Z;                      (* bank supply of the EVM denomination *)
  vested : addr -> bool;           (* vesting account created at this address by a message of this history *)
  acct   : addr -> bool            (* an auth account exists at this address *)
}.

Definition upd {A} (f : addr -> A) (a : addr) (v : A) : addr -> A := fun x => if N.eqb x a then v else f x.
Definition has (st : vstate) (a : addr) : bool := match proofs st a with Some _ => true | None => false end.

Definition with_bal (st : vstate) (b : addr -> Z) : vstate :=
  {| proofs := proofs st; bal := b; supply := supply st; vested := vested st; acct := acct st |}.

Inductive sres :=
| SOk
| SRejBasic        (* top-level message, ValidateBasic failed: rejected in front of the ante handler, nothing charged *)
| SRejAnte         (* ante handler: the fee payer cannot pay the transaction fee; nothing charged *)
| SRejDepth        (* ante handler 992c: nested deeper than maxNestedLevelsCount; nothing charged *)
| SRejBasicNested  (* nested message, ValidateBasic failed inside the authz keeper: transaction fee charged *)
| SRejConflict     (* account already has a proof *)
| SRejFunds        (* SendCoinsFromAccountToModule failed: submitter's balance below the fixed cost *)
| SPanicSave.      (* SaveProofExternalOwnedAccount returned an error (signature string not lower case) -> panic(err) *)

Inductive vtx := VOk | VAnteRej | VExecFail.

Inductive vres := RSubmit (r : sres) | RVesting (r : vtx) | RIca | ROtherOp.

Section Vauth.
  (* vauthutils.VerifySignature(address, bytes, MessageToSign) = (true, nil): ecrecover over keccak(message) gives the address *)
  Variable verifies : addr -> N -> bool.

  (* acc_ok: the Account string is a valid bech32 account address of 20 bytes (the submitter string always is: it signs) *)
  Definition msg_valid (sub acc : addr) (acc_ok : bool) (g : sigstr) : bool :=
    acc_ok && negb (N.eqb sub acc) && s_prefix g && s_hex_ok g && verifies acc (s_bytes g).

  (* the message server once ValidateBasic has passed and the transaction fee has been taken *)
  Definition submit_msg (st : vstate) (sub acc : addr) (g : sigstr) : vstate * sres :=
    if has st acc then (st, SRejConflict)
    else if bal st sub <? COST then (st, SRejFunds)
    else
      (* coins moved to the module account and burnt ... *)
      let st1 := {| proofs := proofs st; bal := upd (bal st) sub (bal st sub - COST); supply := supply st - COST;
                    vested := vested st; acct := acct st |} in
      (* ... then the proof is validated again and stored; a validation error panics and runTx drops st1 *)
      if negb (s_lower g) then (st, SPanicSave)
      else ({| proofs := upd (proofs st1) acc (Some g); bal := bal st1; supply := supply st1; vested := vested st1;
               acct := acct st1 |}, SOk).

  (* the whole transaction: [nest] MsgExec wrappers around one MsgSubmitProofExternalOwnedAccount; the transaction is
     signed and its fee [txfee] paid by [payer] (nest = 0: payer = submitter; nest > 0: the grantee of the MsgExec) *)
  Definition submit_tx (st : vstate) (nest : nat) (payer sub acc : addr) (acc_ok : bool) (g : sigstr) (txfee : Z) : vstate * sres :=
    if (nest =? 0)%nat && negb (msg_valid sub acc acc_ok g) then (st, SRejBasic)
    else if bal st payer <? txfee then (st, SRejAnte)
    else if (MAX_NESTED_LEVELS <=? nest)%nat then (st, SRejDepth)
    else
      let st0 := with_bal st (upd (bal st) payer (bal st payer - txfee)) in
      if negb (msg_valid sub acc acc_ok g) then (st0, SRejBasicNested)
      else submit_msg st0 sub acc g.

  (* vesting targets among executed messages *)
  Fixpoint targets (l : list (route * msg)) : list addr :=
    match l with
    | [] => []
    | (_, MVesting _ a) :: r => a :: targets r
    | _ :: r => targets r
    end.

  Definition mark (v : addr -> bool) (l : list addr) : addr -> bool := fun x => v x || memN x l.

  (* the SDK's vesting-creation handlers refuse a target whose account exists (also one created earlier in the same transaction) *)
  Fixpoint fresh (ex : addr -> bool) (l : list addr) : bool :=
    match l with
    | [] => true
    | a :: r => negb (ex a) && negb (memN a r) && fresh ex r
    end.

  (* environment of the ante handler as seen from this state: the proof store is the real one, the SDK verdicts are inputs *)
  Definition env_at (st : vstate) (vb : option Z) (rest : mode -> option Z) : env :=
    {| has_proof := has st; sdk_vb := vb; sdk_rest := rest; payer_can_pay := true; granter_allows := false |}.

  (* a delivered user transaction carrying (possibly) vesting-creation messages *)
  Definition vesting_tx (st : vstate) (vb : option Z) (rest : mode -> option Z) (sh : shape) : vstate * vtx :=
    let e := env_at st vb rest in
    if negb (accepted default_disabled MDeliver e sh) then (st, VAnteRej)
    else
      let t := targets (executed_tx default_disabled e sh) in
      if run_msgs_ok sh && fresh (acct st) t
      then ({| proofs := proofs st; bal := bal st; supply := supply st;
               vested := mark (vested st) t; acct := mark (acct st) t |}, VOk)
      else (st, VExecFail).

  (* an ICA host packet: no ante handler *)
  Definition ica_packet (st : vstate) (p : ica_params) (signers_ok : bool) (l : list msg) : vstate :=
    let t := targets (executed_ica p signers_ok l) in
    if fresh (acct st) t
    then {| proofs := proofs st; bal := bal st; supply := supply st; vested := mark (vested st) t; acct := mark (acct st) t |}
    else st.

  Inductive vop :=
  | OSubmit (nest : nat) (payer sub acc : addr) (acc_ok : bool) (g : sigstr) (txfee : Z)
  | OVestingTx (vb : option Z) (rest : mode -> option Z) (sh : shape)
  | OIcaPacket (p : ica_params) (signers_ok : bool) (l : list msg)
  | OIcaSubmit (sub acc : addr) (acc_ok : bool) (g : sigstr)   (* a submission carried by an ICA host packet (default host
                                           parameters): no ante handler, no transaction fee; the message server validates *)
  | OBank (from to : addr) (amt : Z)     (* any other module moving coins between accounts *)
  | OMint (a : addr) (amt : Z).          (* any other module minting (amt > 0) or burning (amt < 0) at a *)

  Definition step (st : vstate) (o : vop) : vstate * vres :=
    match o with
    | OSubmit n p sub acc ok g fee => let (s, r) := submit_tx st n p sub acc ok g fee in (s, RSubmit r)
    | OVestingTx vb rest sh => let (s, b) := vesting_tx st vb rest sh in (s, RVesting b)
    | OIcaPacket p ok l => (ica_packet st p ok l, RIca)
    | OIcaSubmit sub acc ok g =>
        if msg_valid sub acc ok g then let (s, r) := submit_msg st sub acc g in (s, RSubmit r) else (st, RSubmit SRejBasic)
    | OBank f t amt =>
        (with_bal st (upd (upd (bal st) f (bal st f - amt)) t (upd (bal st) f (bal st f - amt) t + amt)), ROtherOp)
    | OMint a amt =>
        ({| proofs := proofs st; bal := upd (bal st) a (bal st a + amt); supply := supply st + amt; vested := vested st;
            acct := acct st |}, ROtherOp)
    end.

  Fixpoint run (st : vstate) (l : list vop) : vstate :=
    match l with
    | [] => st
    | o :: r => run (fst (step st o)) r
    end.

  (* the same, keeping every operation's result *)
  Fixpoint run_res (st : vstate) (l : list vop) : vstate * list vres :=
    match l with
    | [] => (st, [])
    | o :: r => let (s1, x) := step st o in let (s2, xs) := run_res s1 r in (s2, x :: xs)
    end.

  (* what CheckTx answers for the transaction of an operation against state st (messages are not executed) *)
  Definition check_ok (st : vstate) (o : vop) : bool :=
    match o with
    | OSubmit n p sub acc ok g fee =>
        ((0 <? n)%nat || msg_valid sub acc ok g) && (fee <=? bal st p) && (n <? MAX_NESTED_LEVELS)%nat
    | OVestingTx vb rest sh => accepted default_disabled MCheck (env_at st vb rest) sh
    | _ => true
    end.

  Definition is_ica (o : vop) : bool := match o with OIcaPacket _ _ _ => true | _ => false end.
End Vauth.
