(* Model of the dual-lane ante handler of evermint, app/antedl (C07, and the vesting rule of C16).

   What is modelled, line by line where it matters:
     app/antedl/ante.go                     NewAnteHandler: the ordered decorator list      -> ante_chain
     app/antedl/utils/tx.go                 HasSingleEthereumMessage / IsEthereumTx         -> has_single_eth / is_ethereum_tx
     app/antedl/duallane/01..13             dual-lane decorators (each branches on the lane predicate)
     app/antedl/evmlane/03e,991e,992e,993e  Ethereum-only decorators
     app/antedl/cosmoslane/991c,992c,993c   Cosmos-only decorators (992c: checkDisabledMsgs with the depth cap)
     baseapp.runTx                          validateBasicTxMsgs in front of the ante handler -> pre_ante
     message execution routes               top level / authz exec / ICA host packet / governance proposal -> executed_*

   What is an input (not logic of /repo): the verdicts of the Cosmos SDK's own decorators on the
   Cosmos lane (fields sdk_vb, sdk_rest of env), signature recovery / balance / trial execution on the
   Ethereum lane (fields of ethp), the vauth proof store (has_proof).  Executable Gallina only. *)
From Coq Require Export List ZArith NArith Bool.
Export ListNotations.
Open Scope Z_scope.

(* ------------------------------------------------------------------ messages *)

Inductive vkind := VCreate | VPeriodic | VPermanent.

(* What the ante handler looks at in a MsgEthereumTx. *)
Record ethp := {
  e_basic_ok  : bool;  (* MsgEthereumTx.ValidateBasic() = nil *)
  e_asmsg_ok  : bool;  (* ethTx.AsMessage(latest signer, base fee) succeeds *)
  e_enabled   : bool;  (* create / call enabled for this tx by the EVM params *)
  e_protected : bool;  (* ethTx.Protected() *)
  e_fee       : Z;     (* evmutils.EthTxFee: gas * (fee cap | gas price) *)
  e_gas       : Z;     (* ethTx.Gas() *)
  e_eoa_ok    : bool;  (* 03e: sender has no code *)
  e_fee_ok    : bool;  (* 07: price floor met and the signer can pay the fee *)
  e_sig_ok    : bool;  (* 11: From = recovered signer, account exists, nonce = sequence *)
  e_exec_ok   : bool   (* 993e: trial execution returns no core error *)
}.

(* Rose tree: MsgExec nests arbitrarily deep. *)
Inductive msg :=
| MEth (p : ethp)                      (* /ethermint.evm.v1.MsgEthereumTx *)
| MVesting (k : vkind) (target : N)    (* the three vesting-account creation messages; target = to_address *)
| MExec (inner : list msg)             (* /cosmos.authz.v1beta1.MsgExec *)
| MGrant (u : N)                       (* /cosmos.authz.v1beta1.MsgGrant; u = type id of authorization.MsgTypeURL() *)
| MOther (t : N).                      (* any other registered message type *)

(* message type ids (the harness maps type URLs to these) *)
Definition TID_ETH : N := 0.
Definition tid_vesting (k : vkind) : N := match k with VCreate => 1 | VPeriodic => 2 | VPermanent => 3 end%N.
Definition TID_EXEC : N := 4.
Definition TID_GRANT : N := 5.
Definition tid (m : msg) : N :=
  match m with
  | MEth _ => TID_ETH
  | MVesting k _ => tid_vesting k
  | MExec _ => TID_EXEC
  | MGrant _ => TID_GRANT
  | MOther t => (10 + t)%N
  end.

(* HandlerOptions.WithDefaultDisabledNestedMsgs(), as type ids.  The harness regenerates the list from
   the running code on every run and the correspondence checker compares it with this constant. *)
Definition default_disabled : list N := [0; 1; 2; 3]%N.

Definition memN (x : N) (l : list N) : bool := existsb (N.eqb x) l.

Definition is_eth (m : msg) : bool := match m with MEth _ => true | _ => false end.

(* utils/tx.go HasSingleEthereumMessage: the loop, literally *)
Fixpoint hse_loop (found : bool) (l : list msg) : bool :=
  match l with
  | [] => found
  | m :: r => if is_eth m then (if found then false else hse_loop true r) else false
  end.
Definition has_single_eth (l : list msg) : bool := hse_loop false l.

(* ------------------------------------------------------------------ transaction shape *)

Inductive mode := MCheck | MReCheck | MSimulate | MDeliver.
Definition is_recheck (m : mode) : bool := match m with MReCheck => true | _ => false end.
Definition is_sim (m : mode) : bool := match m with MSimulate => true | _ => false end.
Definition runs_trial_exec (m : mode) : bool := match m with MDeliver => false | _ => true end.

Inductive xopt := XEth | XDyn.                      (* ExtensionOptionsEthereumTx | ExtensionOptionDynamicFeeTx *)
Inductive tmo := TNone | TFuture | TPast.           (* body.timeout_height: 0 | not yet reached | passed *)
Inductive memo := MemoNone | MemoShort | MemoLong.  (* body.memo: "" | <= MaxMemoCharacters | longer *)

Record shape := {
  msgs       : list msg;
  ext_opts   : list xopt;       (* body.extension_options *)
  noncrit    : list xopt;       (* body.non_critical_extension_options *)
  n_sigs     : nat;             (* len(tx.signatures) *)
  n_infos    : nat;             (* len(auth_info.signer_infos) *)
  payer      : bool;            (* auth_info.fee.payer != "" (a valid address different from the signer) *)
  granter    : bool;            (* auth_info.fee.granter != "" *)
  s_memo     : memo;
  s_timeout  : tmo;
  fee        : list (N * Z);    (* auth_info.fee.amount as (denom id, amount); denom 0 = the EVM denom *)
  gas_limit  : Z                (* auth_info.fee.gas_limit *)
}.

Record env := {
  has_proof      : N -> bool;          (* vauth keeper HasProofExternalOwnedAccount(target) *)
  sdk_vb         : option Z;           (* verdict of the SDK ValidateBasicDecorator on a Cosmos-lane tx (None = pass) *)
  sdk_rest       : mode -> option Z;   (* first failing SDK decorator after the memo check: tx-size gas, fee, pubkey,
                                          signature count / gas / verification, sequence, IBC redundant relay *)
  payer_can_pay  : bool;               (* the account the fee is taken from when payer/granter is set can pay *)
  granter_allows : bool                (* feegrant allowance exists for the declared granter *)
}.

Definition MAX_GAS_WANTED : Z := 2 ^ 63 - 1.   (* sdk tx.MaxGasWanted *)
Definition MAX_NESTED_LEVELS : nat := 3.        (* 992c maxNestedLevelsCount *)

(* ------------------------------------------------------------------ verdicts *)

Inductive reason :=
(* before the ante handler (baseapp.runTx validateBasicTxMsgs) *)
| RNoMsgs | RMsgBasic
(* 02 *)
| RExtOpt
(* 03, Cosmos branch *)
| RCombined | RSdkVb (c : Z)
(* 03, Ethereum branch *)
| RNotEthTx | RGasWanted | RSigCount | RSignerInfos | RPayerGranter | RSigs | RMsgBasicAnte | RAsMessage
| RDisabledCall | RUnprotected | RFeeAmount | RGasLimit
(* 03e, 04, 05 *)
| RNotEoa | RTimeoutEth | RTimeoutSdk | RMemoEth | RMemoSdk
(* 07 .. 13 *)
| RSdkRest (c : Z) | RFeeGasZero | RFeeCoins | RFeeGrant | RFeeFunds | REthSig
(* 993e *)
| RTrialExec
(* Cosmos-only lane *)
| RLaneMixed | RAuthzDepth | RAuthzNested | RAuthzGrant | RVesting.

Inductive cls := CPre | CLane | CShape | CAuthz | CVesting | COther.

Definition class_of (r : reason) : cls :=
  match r with
  | RNoMsgs | RMsgBasic => CPre
  | RCombined | RLaneMixed => CLane
  | RExtOpt | RNotEthTx | RGasWanted | RSigCount | RSignerInfos | RPayerGranter | RSigs | RUnprotected
  | RFeeAmount | RGasLimit | RTimeoutEth | RMemoEth => CShape
  | RAuthzDepth | RAuthzNested | RAuthzGrant => CAuthz
  | RVesting => CVesting
  | _ => COther
  end.

(* ABCI (codespace, code) the code returns for a reason, where the model is specific about it.
   codespace 0 = "sdk".  None = not compared (the error comes from SDK / EVM internals). *)
Definition code_of (r : reason) : option (Z * Z) :=
  match r with
  | RNoMsgs => Some (0, 18)
  | RExtOpt => Some (0, 31)
  | RCombined => Some (0, 35)
  | RSdkVb c => Some (0, c)
  | RNotEthTx | RGasWanted | RSignerInfos | RPayerGranter | RSigs | RAsMessage | RFeeAmount | RGasLimit
  | RTimeoutEth | RMemoEth => Some (0, 18)
  | RSigCount => Some (0, 4)
  | RUnprotected => Some (0, 37)
  | RTimeoutSdk => Some (0, 30)
  | RMemoSdk => Some (0, 12)
  | RSdkRest c => Some (0, c)
  | RLaneMixed => Some (0, 29)
  | RAuthzDepth | RAuthzNested | RAuthzGrant | RVesting => Some (0, 4)
  | RFeeCoins => Some (0, 10)
  | RFeeGasZero => Some (0, 41)
  | _ => None
  end.

Inductive verdict := Accept | Reject (r : reason).

(* ------------------------------------------------------------------ decorators *)

(* A decorator either rejects or calls next. *)
Definition dec := mode -> env -> shape -> option reason.

(* Every dual-lane decorator has the form
     if !HasSingleEthereumMessage(tx) { <cosmos branch> } else { <ethereum branch> } *)
Definition dl (eth cos : mode -> env -> shape -> option reason) : dec :=
  fun m e sh => if has_single_eth (msgs sh) then eth m e sh else cos m e sh.
Definition pass : mode -> env -> shape -> option reason := fun _ _ _ => None.

(* the single Ethereum message of an Ethereum-lane tx: tx.GetMsgs()[0].( *MsgEthereumTx) *)
Definition eth_payload (sh : shape) : option ethp :=
  match msgs sh with MEth p :: _ => Some p | _ => None end.
Definition with_payload (f : ethp -> option reason) (sh : shape) : option reason :=
  match eth_payload sh with Some p => f p | None => None end.

Definition xopt_is_eth (x : xopt) : bool := match x with XEth => true | _ => false end.
Definition xopt_is_dyn (x : xopt) : bool := match x with XDyn => true | _ => false end.

(* utils/tx.go IsEthereumTx *)
Definition is_ethereum_tx (sh : shape) : bool :=
  has_single_eth (msgs sh) &&
  match noncrit sh with
  | _ :: _ => false
  | [] => match ext_opts sh with
          | [] => true
          | [x] => xopt_is_eth x
          | _ => false
          end
  end.

(* 01 setup context: never rejects (GasTx always implemented by the decoded tx) *)
Definition d01_setup : dec := dl pass pass.

(* 02 extension options.  Cosmos: SDK ExtensionOptionsDecorator with checker HasDynamicFeeExtensionOption
   (every critical option must be ExtensionOptionDynamicFeeTx; non-critical ones are ignored). *)
Definition d02_ext : dec :=
  dl (fun _ _ sh => if is_ethereum_tx sh then None else Some RExtOpt)
     (fun _ _ sh => if forallb xopt_is_dyn (ext_opts sh) then None else Some RExtOpt).

Definition n_signers (sh : shape) : nat := if payer sh then 2%nat else 1%nat.

Definition fee_coins_of (f : Z) : list (N * Z) := if f =? 0 then [] else [(0%N, f)].
Fixpoint coins_eqb (a b : list (N * Z)) : bool :=
  match a, b with
  | [], [] => true
  | (d1, x1) :: a', (d2, x2) :: b' => N.eqb d1 d2 && (x1 =? x2) && coins_eqb a' b'
  | _, _ => false
  end.

(* 03 validate basic.  Skipped entirely on re-check, for both lanes. *)
Definition d03_eth_checks (sh : shape) (p : ethp) : option reason :=
  if negb (is_ethereum_tx sh) then Some RNotEthTx
  (* tx.ValidateBasic(): only ErrNoSignatures is tolerated *)
  else if gas_limit sh >? MAX_GAS_WANTED then Some RGasWanted
  else if (0 <? n_sigs sh)%nat && negb (n_sigs sh =? n_signers sh)%nat then Some RSigCount
  else if (0 <? n_infos sh)%nat then Some RSignerInfos
  else if payer sh || granter sh then Some RPayerGranter
  else if (0 <? n_sigs sh)%nat then Some RSigs
  else if negb (e_basic_ok p) then Some RMsgBasicAnte
  else if negb (e_asmsg_ok p) then Some RAsMessage
  else if negb (e_enabled p) then Some RDisabledCall
  else if negb (e_protected p) then Some RUnprotected
  else if negb (coins_eqb (fee sh) (fee_coins_of (e_fee p))) then Some RFeeAmount
  else if negb (gas_limit sh =? e_gas p) then Some RGasLimit
  else None.

Definition d03_validate_basic : dec :=
  fun m e sh =>
    if is_recheck m then None
    else dl (fun _ _ sh => with_payload (d03_eth_checks sh) sh)
            (fun _ e sh => if existsb is_eth (msgs sh) then Some RCombined
                           else match sdk_vb e with Some c => Some (RSdkVb c) | None => None end)
            m e sh.

(* 03e sender must be an EOA *)
Definition d03e_eoa : dec :=
  dl (fun _ _ sh => with_payload (fun p => if e_eoa_ok p then None else Some RNotEoa) sh) pass.

(* 04 timeout height *)
Definition d04_timeout : dec :=
  dl (fun _ _ sh => match s_timeout sh with TNone => None | _ => Some RTimeoutEth end)
     (fun _ _ sh => match s_timeout sh with TPast => Some RTimeoutSdk | _ => None end).

(* 05 memo *)
Definition d05_memo : dec :=
  dl (fun _ _ sh => match s_memo sh with MemoNone => None | _ => Some RMemoEth end)
     (fun _ _ sh => match s_memo sh with MemoLong => Some RMemoSdk | _ => None end).

(* 06 tx-size gas: SDK only; folded into sdk_rest *)
Definition d06_txsize : dec := dl pass pass.

Definition single_evm_coin (f : list (N * Z)) : bool :=
  match f with [(d, _)] => N.eqb d 0 | _ => false end.

(* 07 deduct fee.  Ethereum branch = SDK DeductFeeDecorator with EthereumTxFeeChecker:
   zero gas refused and the fee checker consulted unless simulating; the fee is taken from the granter
   (needs an allowance) or the payer if declared, else from the signer. *)
Definition d07_deduct_fee : dec :=
  dl (fun m e sh => with_payload (fun p =>
        if negb (is_sim m) && (gas_limit sh =? 0) then Some RFeeGasZero
        else if negb (is_sim m) && negb (single_evm_coin (fee sh)) then Some RFeeCoins
        else if granter sh && negb (granter_allows e) then Some RFeeGrant
        else if payer sh || granter sh then (if payer_can_pay e then None else Some RFeeFunds)
        else if e_fee_ok p then None else Some RFeeFunds) sh)
     (* Cosmos: first of the SDK decorators 06..13 that fails (an input) *)
     (fun m e _ => match sdk_rest e m with Some c => Some (RSdkRest c) | None => None end).

Definition d08_pubkey : dec := dl pass pass.
Definition d09_sigcount : dec := dl pass pass.
Definition d10_siggas : dec := dl pass pass.

(* 11 signature verification (Ethereum: signature of the embedded tx, From, nonce) *)
Definition d11_sigverify : dec :=
  dl (fun _ _ sh => with_payload (fun p => if e_sig_ok p then None else Some REthSig) sh) pass.

Definition d12_incseq : dec := dl pass pass.
Definition d13_ibc : dec := dl pass pass.
Definition d991e_setup_exec : dec := dl pass pass.
Definition d992e_emit_event : dec := dl pass pass.

(* 993e trial execution: check / re-check / simulate only *)
Definition d993e_trial_exec : dec :=
  fun m e sh =>
    if runs_trial_exec m
    then dl (fun _ _ sh => with_payload (fun p => if e_exec_ok p then None else Some RTrialExec) sh) pass m e sh
    else None.

(* 991c reject Ethereum messages on the Cosmos lane *)
Definition d991c_reject_eth : dec :=
  dl pass (fun _ _ sh => if existsb is_eth (msgs sh) then Some RLaneMixed else None).

(* 992c checkDisabledMsgs(msgs, nestedLvl): depth cap first, then every message in order;
   MsgExec recurses one level deeper, MsgGrant is screened by its authorisation's type,
   any other message is screened only when nested (nestedLvl > 1). *)
Fixpoint chk_msg (tbl : list N) (lvl : nat) (m : msg) {struct m} : option reason :=
  match m with
  | MExec l =>
      if (MAX_NESTED_LEVELS <? S lvl)%nat then Some RAuthzDepth
      else (fix go (l : list msg) : option reason :=
              match l with
              | [] => None
              | x :: r => match chk_msg tbl (S lvl) x with Some r' => Some r' | None => go r end
              end) l
  | MGrant u => if memN u tbl then Some RAuthzGrant else None
  | _ => if (1 <? lvl)%nat && memN (tid m) tbl then Some RAuthzNested else None
  end.

Fixpoint chk_list (tbl : list N) (lvl : nat) (l : list msg) : option reason :=
  match l with
  | [] => None
  | x :: r => match chk_msg tbl lvl x with Some r' => Some r' | None => chk_list tbl lvl r end
  end.

Definition check_disabled (tbl : list N) (l : list msg) : option reason :=
  if (MAX_NESTED_LEVELS <? 1)%nat then Some RAuthzDepth else chk_list tbl 1 l.

Definition d992c_authz (tbl : list N) : dec :=
  dl pass (fun _ _ sh => check_disabled tbl (msgs sh)).

(* 993c top-level vesting-account creation needs a stored proof for the target *)
Fixpoint chk_vesting (hp : N -> bool) (l : list msg) : option reason :=
  match l with
  | [] => None
  | MVesting _ a :: r => if hp a then chk_vesting hp r else Some RVesting
  | _ :: r => chk_vesting hp r
  end.

Definition d993c_vesting : dec :=
  dl pass (fun _ e sh => chk_vesting (has_proof e) (msgs sh)).

(* ante.go: the decorators in order *)
Definition ante_chain (tbl : list N) : list dec :=
  [ d01_setup; d02_ext; d03_validate_basic; d03e_eoa; d04_timeout; d05_memo; d06_txsize; d07_deduct_fee;
    d08_pubkey; d09_sigcount; d10_siggas; d11_sigverify; d12_incseq; d13_ibc;
    d991e_setup_exec; d992e_emit_event; d993e_trial_exec;
    d991c_reject_eth; d992c_authz tbl; d993c_vesting ].

(* sdk.ChainAnteDecorators: the first rejection wins *)
Fixpoint run_decs (l : list dec) (m : mode) (e : env) (sh : shape) : option reason :=
  match l with
  | [] => None
  | d :: r => match d m e sh with Some x => Some x | None => run_decs r m e sh end
  end.

Definition ante (tbl : list N) (m : mode) (e : env) (sh : shape) : verdict :=
  match run_decs (ante_chain tbl) m e sh with Some r => Reject r | None => Accept end.

(* ------------------------------------------------------------------ in front of the ante handler *)

(* sdk.HasValidateBasic as called by baseapp.validateBasicTxMsgs on the TOP-LEVEL messages only.  Of the
   modelled message types only MsgEthereumTx implements it (SDK 0.50: authz, bank, vesting messages are
   validated by their handlers). *)
Definition msg_basic_ok (m : msg) : bool :=
  match m with
  | MEth p => e_basic_ok p
  | _ => true
  end.

Definition pre_ante (sh : shape) : option reason :=
  match msgs sh with
  | [] => Some RNoMsgs
  | l => if forallb msg_basic_ok l then None else Some RMsgBasic
  end.

(* baseapp.runTx up to message execution *)
Definition runtx (tbl : list N) (m : mode) (e : env) (sh : shape) : verdict :=
  match pre_ante sh with
  | Some r => Reject r
  | None => ante tbl m e sh
  end.

Definition accepted (tbl : list N) (m : mode) (e : env) (sh : shape) : bool :=
  match runtx tbl m e sh with Accept => true | _ => false end.

(* Message execution as far as it can fail for the modelled messages: the authz keeper's Exec refuses an
   empty message list ("messages cannot be empty") and fails if a dispatched inner message fails; everything
   else succeeds under the harness's set-up (funded sender, fresh vesting targets, self-grants). *)
Fixpoint handler_ok (m : msg) : bool :=
  match m with
  | MExec l => match l with [] => false | _ => true end &&
               (fix all (l : list msg) : bool := match l with [] => true | x :: r => handler_ok x && all r end) l
  | _ => true
  end.
Definition run_msgs_ok (sh : shape) : bool := forallb handler_ok (msgs sh).

(* ------------------------------------------------------------------ execution routes *)

(* How a message reaches its handler (MsgServiceRouter):
   TopLevel       - listed in a transaction that passed the ante handler
   InAuthzExec    - dispatched by the authz keeper out of a MsgExec of such a transaction
   InIcaPacket    - ICA host OnRecvPacket -> executeTx -> router: NO ante handler
   InGovProposal  - gov EndBlocker executing the messages of a passed proposal: NO ante handler *)
Inductive route := TopLevel | InAuthzExec | InIcaPacket | InGovProposal.

(* messages dispatched (transitively) out of m by the authz keeper *)
Fixpoint nested_of (m : msg) : list msg :=
  match m with
  | MExec l => (fix go (l : list msg) : list msg :=
                  match l with [] => [] | x :: r => x :: nested_of x ++ go r end) l
  | _ => []
  end.

Fixpoint nested_all (l : list msg) : list msg :=
  match l with [] => [] | x :: r => nested_of x ++ nested_all r end.

(* handlers run by a delivered transaction (authorisations assumed to exist: worst case) *)
Definition executed_tx (tbl : list N) (e : env) (sh : shape) : list (route * msg) :=
  if accepted tbl MDeliver e sh
  then map (pair TopLevel) (msgs sh) ++ map (pair InAuthzExec) (nested_all (msgs sh))
  else [].

(* ibc-go 27-interchain-accounts/host/keeper/relay.go executeTx: authenticateTx (allow list, every
   signer = the interchain account), then per message ValidateBasic and the router's handler. *)
Record ica_params := { ica_enabled : bool; ica_allow_all : bool; ica_allow : list N }.
Definition ica_default : ica_params := {| ica_enabled := true; ica_allow_all := true; ica_allow := [] |}.

Definition ica_allowed (p : ica_params) (m : msg) : bool := ica_allow_all p || memN (tid m) (ica_allow p).

Definition executed_ica (p : ica_params) (signers_ok : bool) (l : list msg) : list (route * msg) :=
  if ica_enabled p && forallb (ica_allowed p) l && signers_ok && forallb msg_basic_ok l
  then map (pair InIcaPacket) (l ++ nested_all l)
  else [].

(* x/gov EndBlocker: messages of a passed proposal go straight to the router *)
Definition executed_gov (passed : bool) (l : list msg) : list (route * msg) :=
  if passed then map (pair InGovProposal) (l ++ nested_all l) else [].

(* ------------------------------------------------------------------ the shape the property demands *)

Definition ext_ok (sh : shape) : bool :=
  match noncrit sh, ext_opts sh with
  | [], [] => true
  | [], [XEth] => true
  | _, _ => false
  end.

Definition eth_shape_ok (sh : shape) (p : ethp) : Prop :=
  msgs sh = [MEth p] /\ n_sigs sh = 0%nat /\ n_infos sh = 0%nat /\ payer sh = false /\ granter sh = false /\
  s_memo sh = MemoNone /\ s_timeout sh = TNone /\ ext_ok sh = true /\
  fee sh = fee_coins_of (e_fee p) /\ gas_limit sh = e_gas p.
