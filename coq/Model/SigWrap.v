(* C19 — eth_secp256k1 wrappers: signature verification, signing, address derivation, key encodings.

   Modelled code (read line by line):
     /repo/crypto/ethsecp256k1/ethsecp256k1.go
        PubKey.VerifySignature / verifySignatureECDSA / verifySignatureAsEIP712, PrivKey.Sign,
        PubKey.Address, (Un)MarshalAmino of both key types
     /repo/crypto/ethsecp256k1/keys.pb.go     protobuf wire form of PubKey / PrivKey (one bytes field, number 1)
     /repo/crypto/codec/amino.go               amino registration names (=> 4-byte prefixes)
     /repo/crypto/hd/algorithm.go Generate     (copy into a 32-byte key)

   What is NOT logic and therefore a Section variable: keccak256, ECDSA verification and signing
   (go-ethereum crypto.VerifySignature / crypto.Sign), public-key decompression, and the EIP-712
   rendering of a sign document (modelled separately in Eip712Enc.v).  Executable Gallina only. *)
From Coq Require Import String Ascii.
From Coq Require Import List NArith ZArith Bool Lia.
Import ListNotations.
Open Scope N_scope.

(* ------------------------------------------------------------------ byte strings *)

Definition bytes := list N.

Fixpoint beqb (a b : bytes) : bool :=
  match a, b with
  | [], [] => true
  | x :: a', y :: b' => (x =? y) && beqb a' b'
  | _, _ => false
  end.

(* literals used by the harness: big-endian [n] bytes of [v];  ASCII string *)
Fixpoint be_bytes (n : nat) (v : N) (acc : bytes) : bytes :=
  match n with
  | O => acc
  | S k => be_bytes k (N.shiftr v 8) (N.land v 255 :: acc)
  end.
Definition B (n v : Z) : bytes := be_bytes (Z.to_nat n) (Z.to_N v) [].

Fixpoint bs (s : string) : bytes :=
  match s with
  | EmptyString => []
  | String a r => N_of_ascii a :: bs r
  end.

Definition lastn {A} (n : nat) (l : list A) : list A := skipn (length l - n) l.

Definition len (b : bytes) : N := N.of_nat (length b).

(* ------------------------------------------------------------------ the wrappers *)

Section SigWrap.
  Variable keccak : bytes -> bytes.
  (* go-ethereum crypto.VerifySignature(pubkey33, digest, sig): false unless sig is 64 bytes R||S in
     lower-S form, the key parses and the ECDSA equation holds *)
  Variable ecdsa_verify : bytes -> bytes -> bytes -> bool.
  (* eip712.GetEIP712BytesForMsg: Some rendering | None (error) *)
  Variable eip712_bytes : bytes -> option bytes.
  (* go-ethereum crypto.DecompressPubkey, as X||Y (64 bytes) *)
  Variable decompress : bytes -> option bytes.
  (* go-ethereum crypto.Sign(digest, key): 65 bytes R||S||V, None on error *)
  Variable ecdsa_sign : bytes -> bytes -> option bytes.

  (* verifySignatureECDSA: "remove recovery ID (V) if contained in the signature" *)
  Definition strip_v (sig : bytes) : bytes :=
    if (length sig =? 65)%nat then firstn 64 sig else sig.

  Definition verify_ecdsa (pk msg sig : bytes) : bool :=
    ecdsa_verify pk (keccak msg) (strip_v sig).

  (* verifySignatureAsEIP712 *)
  Definition verify_eip712 (pk msg sig : bytes) : bool :=
    match eip712_bytes msg with
    | None => false
    | Some b => verify_ecdsa pk b sig
    end.

  (* PubKey.VerifySignature *)
  Definition verify (pk msg sig : bytes) : bool :=
    verify_ecdsa pk msg sig || verify_eip712 pk msg sig.

  (* PrivKey.Sign: "if len(digestBz) != crypto.DigestLength { digestBz = Keccak256(digestBz) }" *)
  Definition sign_digest (msg : bytes) : bytes :=
    if (length msg =? 32)%nat then msg else keccak msg.
  Definition sign (sk msg : bytes) : option bytes := ecdsa_sign sk (sign_digest msg).

  (* PubKey.Address: nil if the key does not decompress, else Keccak256(X||Y)[12:] *)
  Definition address (pk : bytes) : bytes :=
    match decompress pk with
    | None => []
    | Some xy => skipn 12 (keccak xy)
    end.
End SigWrap.

(* ------------------------------------------------------------------ key encodings *)

(* UnmarshalAmino: length check only; MarshalAmino: the key bytes *)
Definition key_size (pub : bool) : nat := if pub then 33%nat else 32%nat.
Definition amino_marshal (key : bytes) : bytes := key.
Definition amino_unmarshal (pub : bool) (bz : bytes) : option bytes :=
  if (length bz =? key_size pub)%nat then Some bz else None.

(* protobuf / amino base-128 varint *)
Fixpoint uvarint_f (f : nat) (n : N) : bytes :=
  match f with
  | O => []
  | S k => if n <? 128 then [n] else N.lor (N.land n 127) 128 :: uvarint_f k (N.shiftr n 7)
  end.
Definition uvarint (n : N) : bytes := uvarint_f 10 n.

Fixpoint uvarint_dec_f (f : nat) (shift : N) (acc : N) (b : bytes) : option (N * bytes) :=
  match f with
  | O => None
  | S k =>
    match b with
    | [] => None
    | x :: r =>
      if x <? 128 then Some (acc + N.shiftl x shift, r)
      else uvarint_dec_f k (shift + 7) (acc + N.shiftl (N.land x 127) shift) r
    end
  end.
Definition uvarint_dec (b : bytes) : option (N * bytes) := uvarint_dec_f 10 0 0 b.

(* keys.pb.go: message { bytes key = 1; }  -> tag 0x0a, length, bytes; an empty key encodes to nothing *)
Definition proto_enc (key : bytes) : bytes :=
  match key with
  | [] => []
  | _ => 10 :: uvarint (len key) ++ key
  end.

Inductive dec_res := DOk (k : bytes) | DErr | DUnmodelled.

(* decoder for the canonical single-field form; anything else (unknown fields, repeated field,
   non-minimal varints) is outside the model *)
Definition proto_dec (bz : bytes) : dec_res :=
  match bz with
  | [] => DOk []
  | 10 :: r =>
    match uvarint_dec r with
    | None => DUnmodelled
    | Some (n, r') =>
      if n =? len r' then (if n =? 0 then DUnmodelled else DOk r')
      else if len r' <? n then DErr else DUnmodelled
    end
  | _ => DUnmodelled
  end.

(* amino binary of a registered concrete type: 4-byte prefix (from the registered name), then the
   byte-slice encoding (uvarint length, bytes) of what MarshalAmino returned *)
Definition amino_prefix (pub : bool) : bytes :=
  if pub then [0xf3; 0xb3; 0xcd; 0x03]   (* "ethermint/PubKeyEthSecp256k1" *)
  else [0xfc; 0xd2; 0xef; 0xcc].         (* "ethermint/PrivKeyEthSecp256k1" *)

Definition amino_enc (pub : bool) (key : bytes) : bytes :=
  amino_prefix pub ++ uvarint (len key) ++ amino_marshal key.

Definition amino_dec (pub : bool) (bz : bytes) : option bytes :=
  if beqb (firstn 4 bz) (amino_prefix pub) then
    match uvarint_dec (skipn 4 bz) with
    | Some (n, r) => if n =? len r then amino_unmarshal pub r else None
    | None => None
    end
  else None.

(* crypto/hd Generate: bzArr := make([]byte, 32); copy(bzArr, bz) *)
Definition generate (bz : bytes) : bytes := firstn 32 (bz ++ repeat 0 32).
