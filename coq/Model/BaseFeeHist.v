(* Block HISTORIES of the fee market (C09): the base fee / minimum gas price / block max_gas
   triple carried from block to block, with parameter changes made by governance in the
   same EndBlock in which the fee market rewrites the base fee.  Executable Gallina only;
   the per-block function is BaseFee.calc_base_fee (unchanged).

   Code modelled:
     app/modules.go orderEndBlockers          gov ... evm, feemarket (fee market after gov)
     x/gov EndBlocker (SDK 0.50)              proposals whose voting period ended, ordered by
                                              (end time, id); the messages of one proposal run on
                                              a branch of the state that is dropped if one fails
     x/feemarket/keeper/msg_server.go         UpdateParams -> SetParams (Params.Validate: base
                                              fee and min gas price not negative), replaces BOTH
                                              fields
     x/consensus keeper UpdateParams          stores the consensus params (max_gas >= -1); the
                                              block in progress keeps the ones it started with
                                              (ctx.ConsensusParams() is fixed by FinalizeBlock)
     x/feemarket/keeper/abci.go EndBlock      base fee := CalculateBaseFee
     app/antedl/duallane/07_deduct_fee.go     price floor of delivered transactions *)
From Evm Require Export BaseFee.
Open Scope Z_scope.

Record fstate := mkF {
  f_base : Z;        (* x/feemarket Params.BaseFee *)
  f_min : Z;         (* x/feemarket Params.MinGasPrice x 10^18 *)
  f_mg : Z;          (* consensus Block.MaxGas the block in progress runs under *)
  f_mg_next : Z      (* consensus Block.MaxGas in the store (in force from the next block) *)
}.

Inductive govop :=
| GSetFee (b md : Z)        (* x/feemarket MsgUpdateParams{BaseFee, MinGasPrice} *)
| GSetMaxGas (mg : Z).      (* x/consensus MsgUpdateParams{Block.MaxGas} *)

(* what the message handlers accept *)
Definition govop_valid (o : govop) : bool :=
  match o with
  | GSetFee b md => (0 <=? b) && (0 <=? md)
  | GSetMaxGas mg => -1 <=? mg
  end.

Definition apply_govop (st : fstate) (o : govop) : fstate :=
  match o with
  | GSetFee b md => mkF b md (f_mg st) (f_mg_next st)
  | GSetMaxGas mg => mkF (f_base st) (f_min st) (f_mg st) mg
  end.

(* one proposal: all of its messages or none *)
Definition apply_proposal (st : fstate) (p : list govop) : fstate :=
  if forallb govop_valid p then fold_left apply_govop p st else st.

Definition gov_end_block (st : fstate) (ps : list (list govop)) : fstate :=
  fold_left apply_proposal ps st.

Inductive hres := HOk (st : fstate) | HPanic (r : res).

(* x/feemarket EndBlock on the state it finds *)
Definition fee_end_block (st : fstate) (used : Z) : hres :=
  match calc_base_fee (f_base st) used (f_mg st) (f_min st) with
  | Ok z => HOk (mkF z (f_min st) (f_mg st) (f_mg_next st))
  | e => HPanic e
  end.

(* the next FinalizeBlock loads the stored consensus params *)
Definition next_height (st : fstate) : fstate :=
  mkF (f_base st) (f_min st) (f_mg_next st) (f_mg_next st).

(* a transaction offered to a block, as far as its price goes *)
Record ptx := mkP { p_dyn : bool; p_tip : Z; p_cap : Z; p_price : Z }.

Record hblock := mkB {
  h_used : Z;                       (* what the block gas meter reports at EndBlock *)
  h_props : list (list govop);      (* proposals executed by gov's EndBlock, in order *)
  h_txs : list ptx                  (* transactions offered in deliver mode *)
}.

(* the order of app/modules.go: gov first, fee market after it *)
Definition end_block (st : fstate) (k : hblock) : hres :=
  match fee_end_block (gov_end_block st (h_props k)) (h_used k) with
  | HOk st' => HOk (next_height st')
  | e => e
  end.

(* the other order (fee market ahead of gov): NOT what the code does; see
   C09_history_floor_fee_market_first_refuted *)
Definition end_block_fee_first (st : fstate) (k : hblock) : hres :=
  match fee_end_block st (h_used k) with
  | HOk st' => HOk (next_height (gov_end_block st' (h_props k)))
  | e => e
  end.

(* states at the block boundaries (the state every next block starts from), up to a panic of
   EndBlock (which halts the chain) *)
Fixpoint run_hist_with (step : fstate -> hblock -> hres) (st : fstate) (l : list hblock)
  : list fstate * option res :=
  match l with
  | [] => ([], None)
  | k :: r =>
      match step st k with
      | HOk st' => let (tr, e) := run_hist_with step st' r in (st' :: tr, e)
      | HPanic e => ([], Some e)
      end
  end.

Definition run_hist := run_hist_with end_block.
Definition run_hist_fee_first := run_hist_with end_block_fee_first.

(* the price floor a delivered transaction meets: node min-gas-prices play no part in deliver mode *)
Definition ptx_admitted (st : fstate) (t : ptx) : bool :=
  admit_price Deliver (p_dyn t) (f_base st) (f_min st) 0 (p_tip t) (p_cap t) (p_price t).

Definition ptx_eff (st : fstate) (t : ptx) : Z :=
  eff_price (p_dyn t) (f_base st) (p_tip t) (p_cap t) (p_price t).

(* every transaction executed in the history, with the state it was executed against *)
Fixpoint hist_executed (st : fstate) (l : list hblock) : list (fstate * ptx) :=
  match l with
  | [] => []
  | k :: r =>
      map (fun t => (st, t)) (filter (ptx_admitted st) (h_txs k)) ++
      match end_block st k with
      | HOk st' => hist_executed st' r
      | HPanic _ => []
      end
  end.

(* BaseApp.Simulate: the SDK's DeductFeeDecorator skips the fee checker when simulating; what is
   left for an Ethereum transaction is the fee-cap check of the state transition (preCheck),
   a Cosmos transaction is not priced at all *)
Definition sim_admit (is_eth dyn : bool) (base cap price : Z) : bool :=
  if is_eth then base <=? (if dyn then cap else price) else true.
