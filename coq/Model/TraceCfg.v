(* C20 -- the trace queries' watchdog goroutine (x/evm/keeper/grpc_query.go traceTx, used by Query/TraceTx and
   Query/TraceBlock = debug_traceTransaction / debug_traceBlockByNumber/Hash).

   BaseApp.Query (and the gRPC / JSON-RPC servers) recover panics of the REQUEST goroutine only.  traceTx starts

       go func() { <-deadlineCtx.Done()
                   if errors.Is(deadlineCtx.Err(), context.DeadlineExceeded) { tracer.Stop(...) } }()

   per traced transaction; `tracer` is the captured local variable (an interface, nil until assigned).  A panic in that
   goroutine is outside every boundary of Model/Total.v: the process dies.  The two user-supplied free-text options
   decide what the goroutine sees: `timeout` (Go duration; already elapsed for "0s", negatives, "1ns") and `tracer`
   (native name or JavaScript source; tracers.New returns (nil, err) for anything else).

   [trace_tx_setup reordered] is the set-up part of traceTx in program order:
     reordered = false  the code of /repo: struct logger, tracers.New (error -> return BEFORE the goroutine exists),
                        time.ParseDuration (error -> return), context.WithTimeout, go watchdog;
     reordered = true   the variant with the watchdog started before the tracer is built (seeded defect
                        C20-tracetx-watchdog-nil-tracer), kept as the witness that the order is what matters.
   Executable Gallina only; proofs in Proofs/TraceCfgProofs.v. *)
From Evm Require Export Total.

Inductive timeout_k := ToNone | ToGarbage | ToElapsed | ToFuture.
Inductive tracer_k := TrDefault | TrNative | TrJs | TrInvalid.
Record trace_cfg := mkTraceCfg { tc_limit_neg : bool; tc_timeout : timeout_k; tc_tracer : tracer_k }.

(* what the set-up leaves behind *)
Record tsetup := mkTsetup {
  ts_err : option Z;            (* the error class the set-up returned with, if it did *)
  ts_goroutine : bool;          (* the watchdog goroutine was started *)
  ts_nil_possible : bool        (* the goroutine may read `tracer` while it is the nil interface *)
}.

Definition tracer_builds (t : tracer_k) : bool := match t with TrInvalid => false | _ => true end.
Definition timeout_parses (t : timeout_k) : bool := match t with ToGarbage => false | _ => true end.
(* the deadline has passed when the goroutine looks at it: context.WithTimeout with d <= 0 (or 1ns) is born expired;
   with the default 5s / a future value the deferred cancel() wins (Err = Canceled, no Stop) *)
Definition deadline_exceeded (t : timeout_k) : bool := match t with ToElapsed => true | _ => false end.

Definition trace_tx_setup (reordered : bool) (c : trace_cfg) : tsetup :=
  if reordered then
    (* timeout first; goroutine; then the tracer *)
    if negb (timeout_parses (tc_timeout c)) then mkTsetup (Some 3) false false
    else
      (* the goroutine exists while `tracer` is still nil; a failing tracers.New stores nil in it for good *)
      if negb (tracer_builds (tc_tracer c)) then mkTsetup (Some 13) true true
      else mkTsetup None true true
  else
    (* tracer = logger.NewStructLogger(..): never nil from here on *)
    if negb (tracer_builds (tc_tracer c)) then mkTsetup (Some 13) false false     (* return before `go` *)
    else if negb (timeout_parses (tc_timeout c)) then mkTsetup (Some 3) false false
    else mkTsetup None true false.

(* the goroutine's tracer.Stop panics iff it runs on the nil interface; nothing recovers it *)
Definition watchdog_crashes (reordered : bool) (c : trace_cfg) : bool :=
  let s := trace_tx_setup reordered c in
  ts_goroutine s && deadline_exceeded (tc_timeout c) && ts_nil_possible s.

(* class of the query's answer (0 ok, 1 error); None = 0 or 1 (tracer.Stop races with GetResult: "execution timeout") *)
Definition trace_class (block : bool) (c : trace_cfg) : option Z :=
  if tc_limit_neg c then Some 1                       (* TraceTx / TraceBlock: "output limit cannot be negative" *)
  else if block then Some 0                           (* TraceBlock reports per-transaction errors inside the result *)
  else match ts_err (trace_tx_setup false c) with
       | Some _ => Some 1
       | None => if deadline_exceeded (tc_timeout c) then None else Some 0
       end.
