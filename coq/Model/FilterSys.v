(* Model of /repo/rpc/namespaces/ethereum/eth/filters/filter_system.go (EventSystem) as a transition system:
   goroutines eventLoop, consumeEvents, subscribe() callers, Subscription.Unsubscribe goroutines, callers of the
   bus unsubscribe closures; the RWMutex indexMux; the unbuffered channels install / uninstall / ResponsesCh;
   the topic channels made by eventLoop (open/closed); each subscription's `installed` and `err` channels.
   Instance of Model/Conc.v.  Executable Gallina only; proofs in Proofs/FilterSysProofs.v.

   [hold] selects the code being described:
     hold = true   the code of /repo after fix a0f182a: consumeEvents keeps indexMux.RLock until the send on the
                   topic channel is over;
     hold = false  the code before the fix: RUnlock, then send (the window of DESIGN section 7 #11).

   The event bus (Model/PubSub.v) is a component of the data; a call into it is ONE action here (its own
   interleavings, for arbitrary callers, are the subject of PubSubProofs) bracketed by the pseudo-lock BusMux,
   which only records "a bus lock is taken during this call" so that the lock order indexMux -> bus is visible.
   `RemoveTopic; close(ch); delete(topicChans, ev)` under the write lock is one action from close on.
   Assumptions written into guards: a Subscription is offered on `install` once (subscribe() makes a fresh one),
   and Subscription.Unsubscribe is called at most once per subscription (rpc/.../filters/api.go removes the
   filter from its table, or returns from the notifier goroutine, before/after the one call). *)
From Evm Require Export Conc PubSub.

Inductive fmx := IndexMux | BusMux.
Definition fmx_eqb (a b : fmx) : bool :=
  match a, b with IndexMux, IndexMux => true | BusMux, BusMux => true | _, _ => false end.
Definition frank (m : fmx) : nat := match m with IndexMux => 0 | BusMux => 1 end.

Inductive ferr :=
| FSendOnClosed (ch : nat)           (* consumeEvents: send on closed topic channel *)
| FDoubleCloseCh (ch : nat)          (* eventLoop: close of closed topic channel *)
| FDoubleCloseInstalled (f : nat)    (* eventLoop: close(f.installed) twice *)
| FDoubleCloseErr (f : nat)          (* eventLoop: close(f.err) twice *)
| FBadUnlock.

Record fdata := mkF {
  f_index : list (nat * nat * nat);     (* es.index: (typ, subscription, event) *)
  f_tchans : list (nat * nat);          (* es.topicChans: event -> topic channel *)
  f_nch : nat;                          (* topic channels made so far *)
  f_closed : list nat;                  (* closed topic channels *)
  f_subs : list (nat * nat);            (* subscription f = position: (typ, event) *)
  f_phase : list (nat * nat);           (* f -> 0 new, 1 offered on install, 2 taken by eventLoop, 3 installed closed *)
  f_uphase : list (nat * nat);          (* f -> 0 none, 2 offered on uninstall, 3 taken by eventLoop, 4 err closed *)
  f_inst_q : option (nat * nat * nat);  (* hand-over slot of the unbuffered channel es.install: (f, f.typ, f.event) *)
  f_uninst_q : option (nat * nat * nat); (* ... es.uninstall *)
  f_resp_q : option nat;                (* ... cometWSClient.ResponsesCh (event query) *)
  f_coin : bool;                        (* scheduler/timer choice, flipped by the environment *)
  f_bus : pstate;                       (* the event bus *)
  f_subchan : list (nat * (nat * nat))  (* f -> (bus subscriber id, bus subscriber channel) after bus.Subscribe succeeded *)
}.

Definition getp (l : list (nat * nat)) (f : nat) : nat := match lookup f l with Some v => v | None => 0 end.

Definition set_index d v := mkF v (f_tchans d) (f_nch d) (f_closed d) (f_subs d) (f_phase d) (f_uphase d) (f_inst_q d) (f_uninst_q d) (f_resp_q d) (f_coin d) (f_bus d) (f_subchan d).
Definition set_tchans d v := mkF (f_index d) v (f_nch d) (f_closed d) (f_subs d) (f_phase d) (f_uphase d) (f_inst_q d) (f_uninst_q d) (f_resp_q d) (f_coin d) (f_bus d) (f_subchan d).
Definition set_nch d v := mkF (f_index d) (f_tchans d) v (f_closed d) (f_subs d) (f_phase d) (f_uphase d) (f_inst_q d) (f_uninst_q d) (f_resp_q d) (f_coin d) (f_bus d) (f_subchan d).
Definition set_closed d v := mkF (f_index d) (f_tchans d) (f_nch d) v (f_subs d) (f_phase d) (f_uphase d) (f_inst_q d) (f_uninst_q d) (f_resp_q d) (f_coin d) (f_bus d) (f_subchan d).
Definition set_fsubs d v := mkF (f_index d) (f_tchans d) (f_nch d) (f_closed d) v (f_phase d) (f_uphase d) (f_inst_q d) (f_uninst_q d) (f_resp_q d) (f_coin d) (f_bus d) (f_subchan d).
Definition set_phase d v := mkF (f_index d) (f_tchans d) (f_nch d) (f_closed d) (f_subs d) v (f_uphase d) (f_inst_q d) (f_uninst_q d) (f_resp_q d) (f_coin d) (f_bus d) (f_subchan d).
Definition set_uphase d v := mkF (f_index d) (f_tchans d) (f_nch d) (f_closed d) (f_subs d) (f_phase d) v (f_inst_q d) (f_uninst_q d) (f_resp_q d) (f_coin d) (f_bus d) (f_subchan d).
Definition set_inst_q d v := mkF (f_index d) (f_tchans d) (f_nch d) (f_closed d) (f_subs d) (f_phase d) (f_uphase d) v (f_uninst_q d) (f_resp_q d) (f_coin d) (f_bus d) (f_subchan d).
Definition set_uninst_q d v := mkF (f_index d) (f_tchans d) (f_nch d) (f_closed d) (f_subs d) (f_phase d) (f_uphase d) (f_inst_q d) v (f_resp_q d) (f_coin d) (f_bus d) (f_subchan d).
Definition set_resp_q d v := mkF (f_index d) (f_tchans d) (f_nch d) (f_closed d) (f_subs d) (f_phase d) (f_uphase d) (f_inst_q d) (f_uninst_q d) v (f_coin d) (f_bus d) (f_subchan d).
Definition set_coin d v := mkF (f_index d) (f_tchans d) (f_nch d) (f_closed d) (f_subs d) (f_phase d) (f_uphase d) (f_inst_q d) (f_uninst_q d) (f_resp_q d) v (f_bus d) (f_subchan d).
Definition set_bus d v := mkF (f_index d) (f_tchans d) (f_nch d) (f_closed d) (f_subs d) (f_phase d) (f_uphase d) (f_inst_q d) (f_uninst_q d) (f_resp_q d) (f_coin d) v (f_subchan d).
Definition set_subchan d v := mkF (f_index d) (f_tchans d) (f_nch d) (f_closed d) (f_subs d) (f_phase d) (f_uphase d) (f_inst_q d) (f_uninst_q d) (f_resp_q d) (f_coin d) (f_bus d) v.

Definition fd0 : fdata := mkF [] [] 0 [] [] [] [] None None None true ps_init [].

Definition bus_call (d : fdata) (o : op) : fdata * nat :=
  let '(b, r) := apply_op (f_bus d) o in (set_bus d b, r).

Definition in_use (d : fdata) (typ ev : nat) : bool :=
  existsb (fun e => Nat.eqb (fst (fst e)) typ && Nat.eqb (snd e) ev) (f_index d).
Definition index_del (d : fdata) (typ f : nat) : list (nat * nat * nat) :=
  filter (fun e => negb (Nat.eqb (fst (fst e)) typ && Nat.eqb (snd (fst e)) f)) (f_index d).

Inductive fpc :=
(* eventLoop; f = the Subscription taken from the channel, typ = f.typ, ev = f.event (immutable fields) *)
| EL_sel
| EL_i_lock (f typ ev : nat) | EL_i_put (f typ ev : nat) | EL_i_bacq (f typ ev ch : nat) | EL_i_add (f typ ev ch : nat)
| EL_i_brel (f : nat) | EL_i_unlock (f : nat) | EL_i_close (f : nat)
| EL_u_lock (f typ ev : nat) | EL_u_del (f typ ev : nat) | EL_u_look (f typ ev : nat) | EL_u_bacq (f ev ch : nat)
| EL_u_rm (f ev ch : nat) | EL_u_brel (f ev ch : nat) | EL_u_close (f ev ch : nat) | EL_u_unlock (f : nat) | EL_u_cerr (f : nat)
(* consumeEvents *)
| CE_recv | CE_rl (ev : nat) | CE_look (ev : nat) | CE_ru_none (ev : nat)
| CE_send_h (ev ch : nat) | CE_ru_done            (* hold = true: send under the read lock *)
| CE_ru (ev ch : nat) | CE_send (ev ch : nat)     (* hold = false: unlock, then send *)
(* subscribe(sub) *)
| CS_new (typ ev : nat) | CS_tacq (f typ ev : nat) | CS_top (f typ ev : nat) | CS_trel (f typ ev : nat) (found : bool)
| CS_comet (f typ ev : nat) | CS_offer (f typ ev : nat) | CS_wait (f ev : nat)
| CS_bacq (f ev : nat) | CS_bsub (f ev : nat) | CS_brel (f : nat)
(* the goroutine started by Subscription.Unsubscribe *)
| U_offer (f typ ev : nat)
(* the bus unsubscribe closure of subscription f *)
| CU_acq (f ev : nat) | CU_do (f ev : nat) | CU_rel (f : nat)
| CDone.

Definition falways : fdata -> bool := fun _ => true.
Definition fret (d : fdata) (k : fpc) : fdata * fpc * list fpc * option ferr := (d, k, [], None).

Definition fcode (hold : bool) (p : fpc) : instr fpc fdata fmx ferr :=
  match p with
  (* select { case f := <-es.install: ... case f := <-es.uninstall: ... } *)
  | EL_sel =>
      Act (fun d => match f_inst_q d, f_uninst_q d with None, None => false | _, _ => true end)
          (fun d =>
             let take_i (x : nat * nat * nat) :=
               let '(f, typ, ev) := x in fret (set_phase (set_inst_q d None) ((f, 2) :: f_phase d)) (EL_i_lock f typ ev) in
             let take_u (x : nat * nat * nat) :=
               let '(g, typ, ev) := x in fret (set_uphase (set_uninst_q d None) ((g, 3) :: f_uphase d)) (EL_u_lock g typ ev) in
             match f_inst_q d, f_uninst_q d with
             | Some x, Some y => if f_coin d then take_i x else take_u y
             | Some x, None => take_i x
             | None, Some y => take_u y
             | None, None => fret d EL_sel
             end)
  (* install: es.index[f.typ][f.id] = f; ch := make(chan); AddTopic(f.event, ch); topicChans[f.event] = ch unless AddTopic failed *)
  | EL_i_lock f typ ev => Acq IndexMux MW (EL_i_put f typ ev)
  | EL_i_put f typ ev => Act falways (fun d =>
      fret (set_nch (set_index d ((typ, f, ev) :: index_del d typ f)) (S (f_nch d))) (EL_i_bacq f typ ev (f_nch d)))
  | EL_i_bacq f typ ev ch => Acq BusMux MW (EL_i_add f typ ev ch)
  | EL_i_add f typ ev ch => Act falways (fun d =>
      let '(d1, r) := bus_call d (OAddTopic ev ch) in
      fret (if Nat.eqb r 0 then set_tchans d1 ((ev, ch) :: remove_key ev (f_tchans d1)) else d1) (EL_i_brel f))
  | EL_i_brel f => Rel BusMux MW (EL_i_unlock f)
  | EL_i_unlock f => Rel IndexMux MW (EL_i_close f)
  | EL_i_close f => Act falways (fun d =>
      if Nat.eqb (getp (f_phase d) f) 3 then (d, EL_i_close f, [], Some (FDoubleCloseInstalled f))
      else fret (set_phase d ((f, 3) :: f_phase d)) EL_sel)
  (* uninstall *)
  | EL_u_lock f typ ev => Acq IndexMux MW (EL_u_del f typ ev)
  | EL_u_del f typ ev => Act falways (fun d =>
      let d1 := set_index d (index_del d typ f) in
      fret d1 (if in_use d1 typ ev then EL_u_unlock f else EL_u_look f typ ev))
  | EL_u_look f typ ev => Act falways (fun d =>   (* cometWSClient.Unsubscribe: outside the model; ch, ok := topicChans[f.event] *)
      fret d (match lookup ev (f_tchans d) with Some ch => EL_u_bacq f ev ch | None => EL_u_unlock f end))
  | EL_u_bacq f ev ch => Acq BusMux MW (EL_u_rm f ev ch)
  | EL_u_rm f ev ch => Act falways (fun d => fret (fst (bus_call d (ORemoveTopic ev))) (EL_u_brel f ev ch))
  | EL_u_brel f ev ch => Rel BusMux MW (EL_u_close f ev ch)
  | EL_u_close f ev ch => Act falways (fun d =>   (* close(ch); delete(es.topicChans, f.event) *)
      if memb ch (f_closed d) then (d, EL_u_close f ev ch, [], Some (FDoubleCloseCh ch))
      else
        let d1 := fst (bus_call (set_closed d (ch :: f_closed d)) (OClose ch)) in
        fret (set_tchans d1 (remove_key ev (f_tchans d1))) (EL_u_unlock f))
  | EL_u_unlock f => Rel IndexMux MW (EL_u_cerr f)
  | EL_u_cerr f => Act falways (fun d =>
      if Nat.eqb (getp (f_uphase d) f) 4 then (d, EL_u_cerr f, [], Some (FDoubleCloseErr f))
      else fret (set_uphase d ((f, 4) :: f_uphase d)) EL_sel)
  (* consumeEvents *)
  | CE_recv => Act (fun d => match f_resp_q d with Some _ => true | None => false end)
                   (fun d => match f_resp_q d with
                             | Some ev => fret (set_resp_q d None) (CE_rl ev)
                             | None => fret d CE_recv
                             end)
  | CE_rl ev => Acq IndexMux MR (CE_look ev)
  | CE_look ev => Act falways (fun d =>
      fret d (match lookup ev (f_tchans d) with
              | Some ch => if hold then CE_send_h ev ch else CE_ru ev ch
              | None => CE_ru_none ev
              end))
  | CE_ru_none ev => Rel IndexMux MR CE_recv
  | CE_send_h ev ch => Act falways (fun d =>      (* select { case <-t.C: case ch <- ev: } under the read lock *)
      if memb ch (f_closed d) then (d, CE_send_h ev ch, [], Some (FSendOnClosed ch))
      else fret (if f_coin d then fst (bus_call d (OSend ch ev)) else d) CE_ru_done)
  | CE_ru_done => Rel IndexMux MR CE_recv
  | CE_ru ev ch => Rel IndexMux MR (CE_send ev ch)
  | CE_send ev ch => Act falways (fun d =>
      if memb ch (f_closed d) then (d, CE_send ev ch, [], Some (FSendOnClosed ch))
      else fret (if f_coin d then fst (bus_call d (OSend ch ev)) else d) CE_recv)
  (* subscribe *)
  | CS_new typ ev => Act falways (fun d => fret (set_fsubs d (f_subs d ++ [(typ, ev)])) (CS_tacq (length (f_subs d)) typ ev))
  | CS_tacq f typ ev => Acq BusMux MR (CS_top f typ ev)
  | CS_top f typ ev => Act falways (fun d => fret (fst (bus_call d OTopics)) (CS_trel f typ ev (has_topic (dat (f_bus d)) ev)))
  | CS_trel f typ ev found => Rel BusMux MR (if found then CS_bacq f ev else CS_comet f typ ev)
  | CS_comet f typ ev => Act falways (fun d => fret d (if f_coin d then CS_offer f typ ev else CDone))   (* cometWSClient.Subscribe may fail *)
  | CS_offer f typ ev =>
      Act (fun d => match f_inst_q d with None => Nat.eqb (getp (f_phase d) f) 0 | Some _ => false end)
          (fun d => fret (set_phase (set_inst_q d (Some (f, typ, ev))) ((f, 1) :: f_phase d)) (CS_wait f ev))
  | CS_wait f ev => Act (fun d => Nat.eqb (getp (f_phase d) f) 3) (fun d => fret d (CS_bacq f ev))     (* <-sub.installed *)
  | CS_bacq f ev => Acq BusMux MW (CS_bsub f ev)
  | CS_bsub f ev => Act falways (fun d =>
      let '(d1, r) := bus_call d (OSubscribe ev) in
      fret (if Nat.eqb r 0
            then set_subchan d1 ((f, (next_id (dat (f_bus d1)), pred (nsub (dat (f_bus d1))))) :: f_subchan d1)
            else d1) (CS_brel f))
  | CS_brel f => Rel BusMux MW CDone
  (* Subscription.Unsubscribe: select { case es.uninstall <- s: ... } *)
  | U_offer f typ ev =>
      Act (fun d => match f_uninst_q d with None => Nat.eqb (getp (f_uphase d) f) 0 | Some _ => false end)
          (fun d => fret (set_uphase (set_uninst_q d (Some (f, typ, ev))) ((f, 2) :: f_uphase d)) CDone)
  (* bus unsubscribe closure *)
  | CU_acq f ev => Acq BusMux MW (CU_do f ev)
  | CU_do f ev => Act falways (fun d =>
      fret (match filter (fun e => Nat.eqb (fst e) f) (f_subchan d) with
            | (_, (id, _)) :: _ => fst (bus_call d (OUnsub ev id))
            | [] => d
            end) (CU_rel f))
  | CU_rel f => Rel BusMux MW CDone
  | CDone => Halt
  end.

Definition fholds (p : fpc) (m : fmx) : option mode :=
  match p, m with
  | EL_i_put _ _ _, IndexMux | EL_i_bacq _ _ _ _, IndexMux | EL_i_add _ _ _ _, IndexMux | EL_i_brel _, IndexMux | EL_i_unlock _, IndexMux
  | EL_u_del _ _ _, IndexMux | EL_u_look _ _ _, IndexMux | EL_u_bacq _ _ _, IndexMux | EL_u_rm _ _ _, IndexMux | EL_u_brel _ _ _, IndexMux
  | EL_u_close _ _ _, IndexMux | EL_u_unlock _, IndexMux => Some MW
  | CE_look _, IndexMux | CE_ru_none _, IndexMux | CE_send_h _ _, IndexMux | CE_ru_done, IndexMux | CE_ru _ _, IndexMux => Some MR
  | EL_i_add _ _ _ _, BusMux | EL_i_brel _, BusMux | EL_u_rm _ _ _, BusMux | EL_u_brel _ _ _, BusMux
  | CS_bsub _ _, BusMux | CS_brel _, BusMux | CU_do _ _, BusMux | CU_rel _, BusMux => Some MW
  | CS_top _ _ _, BusMux | CS_trel _ _ _ _, BusMux => Some MR
  | _, _ => None
  end.

Inductive fclient : fpc -> Prop :=
| fc_subscribe typ ev : fclient (CS_new typ ev)
| fc_unsubscribe f typ ev : fclient (U_offer f typ ev)
| fc_busunsub f ev : fclient (CU_acq f ev).

(* environment: CometBFT delivers an event response; timers / select choices; receivers on bus channels come and go *)
Inductive fenv : fdata -> fdata -> Prop :=
| fe_resp d ev : f_resp_q d = None -> fenv d (set_resp_q d (Some ev))
| fe_coin d b : fenv d (set_coin d b)
| fe_listen d c on : fenv d (set_bus d (with_dat (f_bus d) (env_listen (dat (f_bus d)) c on))).

Definition fstate := state fpc fdata fmx ferr.
Definition fs_tstep (hold : bool) := tstep fpc fdata fmx ferr fmx_eqb (fcode hold) FBadUnlock.
Definition fs_step (hold : bool) := step fpc fdata fmx ferr fmx_eqb (fcode hold) FBadUnlock fenv fclient.
Definition fs_init : fstate := mkSt fd0 (fun _ => rw0) [EL_sel; CE_recv] None.
Definition fs_reach (hold : bool) := reach fpc fdata fmx ferr fmx_eqb (fcode hold) FBadUnlock fenv fclient fs_init.
Definition fs_waits_for (hold : bool) := waits_for fpc fdata fmx ferr (fcode hold).

(* ---------------------------------------------------------------- sequential histories (driver `pubsub`) *)
Inductive fop :=
| FSubscribe (typ ev : nat)
| FUninstall (f : nat)
| FBusUnsub (f : nat)
| FEvent (ev : nat)
| FListen (f : nat) (on : bool).

Definition fs_quiesce (hold : bool) (s : fstate) : fstate := quiesce fpc fdata fmx ferr fmx_eqb (fcode hold) FBadUnlock 6 48 s.
Definition fspawn (s : fstate) (p : fpc) : fstate := mkSt (dat s) (mux s) (thr s ++ [p]) (err s).
Definition fwith (s : fstate) (d : fdata) : fstate := mkSt d (mux s) (thr s) (err s).

Definition chan_of (d : fdata) (f : nat) : option nat :=
  match filter (fun e => Nat.eqb (fst e) f) (f_subchan d) with (_, (_, c)) :: _ => Some c | [] => None end.

Definition fapply (hold : bool) (s : fstate) (o : fop) : fstate :=
  match o with
  | FSubscribe typ ev => fs_quiesce hold (fspawn s (CS_new typ ev))
  | FUninstall f => let '(typ, ev) := nth f (f_subs (dat s)) (0, 0) in fs_quiesce hold (fspawn s (U_offer f typ ev))
  | FBusUnsub f => let '(typ, ev) := nth f (f_subs (dat s)) (0, 0) in fs_quiesce hold (fspawn s (CU_acq f ev))
  | FEvent ev => match f_resp_q (dat s) with
                 | None => fs_quiesce hold (fwith s (set_resp_q (dat s) (Some ev)))
                 | Some _ => s
                 end
  | FListen f on => match chan_of (dat s) f with
                    | Some c => fwith s (set_bus (dat s) (with_dat (f_bus (dat s)) (env_listen (dat (f_bus (dat s))) c on)))
                    | None => s
                    end
  end.

(* per subscription: bus.Subscribe succeeded?, event channel closed?, events received, `installed` closed?, `err` closed? *)
Record fsnap := mkFSnap {
  fs_subs : list (bool * bool * list nat * bool * bool);
  fs_crashed : bool
}.

Definition fobserve (s : fstate) : fsnap :=
  let d := dat s in
  let b := dat (f_bus d) in
  mkFSnap
    (map (fun f => match chan_of d f with
                   | Some c => (true, memb c (sub_closed b), msgs_of c (inbox b), Nat.eqb (getp (f_phase d) f) 3, Nat.eqb (getp (f_uphase d) f) 4)
                   | None => (false, false, [], Nat.eqb (getp (f_phase d) f) 3, Nat.eqb (getp (f_uphase d) f) 4)
                   end) (seq 0 (length (f_subs d))))
    (match err s, err (f_bus d) with None, None => false | _, _ => true end).

Fixpoint frun (hold : bool) (s : fstate) (l : list fop) : list fsnap :=
  match l with
  | [] => []
  | o :: r => let s' := fapply hold s o in fobserve s' :: frun hold s' r
  end.
