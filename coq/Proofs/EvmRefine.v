(* evermint's StateDB model (Model/EvmStateDB.v) refines the abstract EVM-view machine (Model/EvmAbs.v). *)
From Coq Require Import Lia ZArith List Bool.
From Evm Require Import EvmAbs EvmStateDB EvmAbsProofs.
Import ListNotations.
Open Scope Z_scope.

Definition abse_core (orig : estore) (c : ecore) : acore := mkAcore (eview orig c) (e_side c).

(* ------------------------------------------------------------------ invariants of one (store, trackers) pair *)
Record wf_core (orig : estore) (c : ecore) : Prop := mkWfCore {
  wc_nodata : forall a, e_acc (e_s c) a = None -> e_bal (e_s c) a = 0 /\ e_ch (e_s c) a = 0 /\ e_st (e_s c) a = [];
  wc_num : forall a n q, e_acc (e_s c) a = Some (n, q) -> n < e_next (e_s c);
  wc_orignum : forall a n q, e_acc orig a = Some (n, q) -> n < e_next (e_s c);
  wc_stor : forall a, e_st (e_s c) a <> [] -> 0 < e_seq (e_s c) a \/ e_ch (e_s c) a <> 0;
  wc_selfd : forall a, memZ a (e_selfd c) = true -> memZ a (e_touched c) = true;
  wc_other : forall a, e_other (e_s c) a = false;
  wc_module : forall a, e_module (e_s c) a = false
}.

(* the live snapshots of the abstract machine inside evermint's snapshot slice: positions strictly increase *)
Inductive live_rel (orig : estore) (issued : list Z) (snaps : list ecore) : nat -> list (nat * acore) -> Prop :=
| lr_nil : forall lb, live_rel orig issued snaps lb []
| lr_cons : forall lb tok ac p ec rest,
    (lb <= p)%nat ->
    nth_error issued tok = Some (Z.of_nat p) ->
    nth_error snaps p = Some ec ->
    abse_core orig ec = ac ->
    live_rel orig issued snaps (S p) rest ->
    live_rel orig issued snaps lb ((tok, ac) :: rest).

Record rel_e (s : est) (t : ast) : Prop := mkRelE {
  re_cur : a_cur t = abse_core (e_orig s) (e_cur s);
  re_count : a_count t = length (e_issued s);
  re_live : live_rel (e_orig s) (e_issued s) (e_snaps s) 0 (a_live t);
  re_wf : wf_core (e_orig s) (e_cur s);
  re_wfs : Forall (wf_core (e_orig s)) (e_snaps s)
}.

Section WithFE.
Hypothesis FE : funext_stmt.
Let upd_id {V : Type} := @upd_id FE V.
Let upd_upd {V : Type} := @upd_upd FE V.

(* ------------------------------------------------------------------ store updates at one address *)

Lemma st_get_set : forall l k v k', st_get (st_set l k v) k' = if k' =? k then v else st_get l k'.
Proof.
  induction l as [|[k0 v0] r IH]; intros; cbn [st_set st_get].
  - rewrite (Z.eqb_sym k k'). destruct (k' =? k); reflexivity.
  - destruct (k0 =? k) eqn:E; cbn [st_get].
    + apply Z.eqb_eq in E; subst. rewrite (Z.eqb_sym k k'). destruct (k' =? k); reflexivity.
    + rewrite IH. destruct (k' =? k) eqn:E2; [|reflexivity].
      apply Z.eqb_eq in E2; subst. rewrite E. reflexivity.
Qed.

Lemma st_set_nonempty : forall l k v, st_set l k v <> [].
Proof. intros [|[k0 v0] r] k v; cbn [st_set]; [discriminate|]. destruct (k0 =? k); discriminate. Qed.

Lemma acore_eq : forall c1 c2, a_accs c1 = a_accs c2 -> a_side c1 = a_side c2 -> c1 = c2.
Proof. intros [a1 s1] [a2 s2]; cbn; intros; subst; reflexivity. Qed.

(* the view at b depends on the store at b only *)
Lemma eview_ext : forall orig c1 c2 b,
  e_acc (e_s c1) b = e_acc (e_s c2) b -> e_bal (e_s c1) b = e_bal (e_s c2) b -> e_ch (e_s c1) b = e_ch (e_s c2) b ->
  e_st (e_s c1) b = e_st (e_s c2) b -> memZ b (e_selfd c1) = memZ b (e_selfd c2) ->
  eview orig c1 b = eview orig c2 b.
Proof.
  intros orig c1 c2 b Ha Hb Hc Hs Hd. unfold eview, e_seq, e_committed. rewrite Ha, Hb, Hc, Hs, Hd. reflexivity.
Qed.

(* shape of every store change of an interface operation: only address a changes *)
Definition only_at (a : Z) (s s' : estore) : Prop :=
  (forall b, b <> a -> e_acc s' b = e_acc s b /\ e_bal s' b = e_bal s b /\ e_ch s' b = e_ch s b /\ e_st s' b = e_st s b)
  /\ e_other s' = e_other s /\ e_module s' = e_module s /\ e_next s <= e_next s'.

Lemma abse_set : forall orig c c' a x,
  only_at a (e_s c) (e_s c') -> e_side c' = e_side c ->
  (forall b, b <> a -> memZ b (e_selfd c') = memZ b (e_selfd c)) ->
  eview orig c' a = x ->
  abse_core orig c' = set_acc (abse_core orig c) a x.
Proof.
  intros orig c c' a x [Ho _] Hs Hd Hx. apply acore_eq; [|exact Hs].
  cbn [abse_core set_acc a_accs]. apply FE. intro b. unfold upd.
  destruct (b =? a) eqn:E; [apply Z.eqb_eq in E; subst b; exact Hx|].
  apply Z.eqb_neq in E. destruct (Ho b E) as (H1 & H2 & H3 & H4). apply eview_ext; auto.
Qed.

Lemma only_at_refl : forall a s, only_at a s s.
Proof. intros. split; [intros; auto|]. repeat split; lia. Qed.

Lemma only_at_trans : forall a s1 s2 s3, only_at a s1 s2 -> only_at a s2 s3 -> only_at a s1 s3.
Proof.
  intros a s1 s2 s3 [H1 (O1 & M1 & N1)] [H2 (O2 & M2 & N2)]. split.
  - intros b Hb. destruct (H1 b Hb) as (A1 & B1 & C1 & D1). destruct (H2 b Hb) as (A2 & B2 & C2 & D2).
    repeat split; congruence.
  - repeat split; try congruence. lia.
Qed.

(* createAccountIfNotExists *)
Lemma create_if_not_only : forall a s, only_at a s (e_create_if_not s a).
Proof.
  intros. unfold e_create_if_not. destruct (e_acc s a); [apply only_at_refl|].
  split; [|cbn; repeat split; lia]. intros b Hb. cbn. rewrite upd_other by exact Hb. auto.
Qed.

Lemma create_if_not_has : forall a s, exists n q, e_acc (e_create_if_not s a) a = Some (n, q) /\
  (e_acc s a = None -> n = e_next s /\ q = 0) /\ (forall n0 q0, e_acc s a = Some (n0, q0) -> n = n0 /\ q = q0).
Proof.
  intros. unfold e_create_if_not. destruct (e_acc s a) as [[n q]|] eqn:E.
  - exists n, q. rewrite E. split; [reflexivity|]. split; [discriminate|]. intros ? ? H; inversion H; auto.
  - exists (e_next s), 0. cbn. rewrite upd_same. split; [reflexivity|]. split; [auto|discriminate].
Qed.

Lemma create_if_not_fields : forall a s,
  e_bal (e_create_if_not s a) = e_bal s /\ e_ch (e_create_if_not s a) = e_ch s /\ e_st (e_create_if_not s a) = e_st s
  /\ e_other (e_create_if_not s a) = e_other s /\ e_module (e_create_if_not s a) = e_module s.
Proof. intros. unfold e_create_if_not. destruct (e_acc s a); cbn; auto. Qed.

(* creating the auth account of an address that has none does not change its view *)
Lemma committed_new_account : forall orig s a n q k,
  e_acc s a = None ->
  (forall n0 q0, e_acc orig a = Some (n0, q0) -> n0 < n) ->
  e_committed orig (mkEstore (upd (e_acc s) a (Some (n, q))) (e_bal s) (e_other s) (e_ch s) (e_st s) (e_next s + 1) (e_module s)) a k = 0.
Proof.
  intros. unfold e_committed. cbn [e_acc]. rewrite upd_same. destruct (e_acc orig a) as [[n0 q0]|] eqn:E; [|reflexivity].
  specialize (H0 n0 q0 eq_refl). destruct (n =? n0) eqn:En; [apply Z.eqb_eq in En; lia|reflexivity].
Qed.

(* ------------------------------------------------------------------ committed storage depends on the current account number only *)
Definition cnum (s : estore) (a : Z) : option Z := match e_acc s a with Some (n, _) => Some n | None => None end.

Lemma committed_ext : forall orig s s' a, cnum s a = cnum s' a -> e_committed orig s a = e_committed orig s' a.
Proof.
  intros orig s s' a H. apply FE. intro k. unfold e_committed, cnum in *.
  destruct (e_acc s a) as [[n q]|], (e_acc s' a) as [[n' q']|]; try discriminate; [inversion H; subst|]; reflexivity.
Qed.

Lemma committed_fresh : forall orig s a n k,
  cnum s a = Some n -> (forall n0 q0, e_acc orig a = Some (n0, q0) -> n0 < n) -> e_committed orig s a k = 0.
Proof.
  intros orig s a n k H Ho. unfold e_committed, cnum in *. destruct (e_acc s a) as [[n1 q1]|]; [|reflexivity].
  inversion H; subst. destruct (e_acc orig a) as [[n0 q0]|] eqn:E; [|reflexivity].
  specialize (Ho n0 q0 eq_refl). destruct (n =? n0) eqn:En; [apply Z.eqb_eq in En; lia|reflexivity].
Qed.

Lemma committed_none : forall orig s a k, e_acc s a = None -> e_committed orig s a k = 0.
Proof. intros. unfold e_committed. rewrite H. reflexivity. Qed.

(* ------------------------------------------------------------------ touch, createAccountIfNotExists *)
Lemma abse_touch : forall orig c a, abse_core orig (touch c a) = abse_core orig c.
Proof. reflexivity. Qed.

Lemma wf_touch : forall orig c a, wf_core orig c -> wf_core orig (touch c a).
Proof.
  intros orig c a []. constructor; cbn [touch e_s e_selfd e_touched]; auto.
  intros b Hb. cbn [memZ]. rewrite (wc_selfd0 b Hb). apply orb_true_r.
Qed.

Lemma cin_view : forall orig c a, wf_core orig c ->
  eview orig (e_set_s c (e_create_if_not (e_s c) a)) a = eview orig c a.
Proof.
  intros orig c a W. unfold eview. cbn [e_set_s e_s e_selfd].
  destruct (create_if_not_fields a (e_s c)) as (Hb & Hc & Hs & _). rewrite Hb, Hc, Hs.
  destruct (create_if_not_has a (e_s c)) as (n & q & Hacc & Hnone & Hsome).
  destruct (e_acc (e_s c) a) as [[n0 q0]|] eqn:E.
  - destruct (Hsome n0 q0 eq_refl); subst. f_equal.
    + unfold e_seq. rewrite Hacc, E. reflexivity.
    + apply committed_ext. unfold cnum. rewrite Hacc, E. reflexivity.
  - destruct (Hnone eq_refl); subst. f_equal.
    + unfold e_seq. rewrite Hacc, E. reflexivity.
    + apply FE. intro k. rewrite (committed_none orig (e_s c) a k E).
      apply committed_fresh with (n := e_next (e_s c)); [unfold cnum; rewrite Hacc; reflexivity|].
      intros n0 q0 Ho. exact (wc_orignum _ _ W a n0 q0 Ho).
Qed.

Lemma wf_cin : forall orig c a, wf_core orig c -> wf_core orig (e_set_s c (e_create_if_not (e_s c) a)).
Proof.
  intros orig c a W. destruct W. unfold e_create_if_not. destruct (e_acc (e_s c) a) as [[n0 q0]|] eqn:E.
  - destruct c; constructor; cbn in *; auto.
  - constructor; cbn [e_set_s e_s e_selfd e_touched e_acc e_bal e_ch e_st e_next e_other e_module]; auto.
    + intros b Hb. unfold upd in Hb. destruct (b =? a); [discriminate|auto].
    + intros b n q Hb. unfold upd in Hb. destruct (b =? a); [inversion Hb; lia|]. specialize (wc_num0 b n q Hb). lia.
    + intros b n q Hb. specialize (wc_orignum0 b n q Hb). lia.
    + intros b Hb. unfold e_seq. cbn [e_acc]. unfold upd. destruct (b =? a) eqn:Eb.
      * apply Z.eqb_eq in Eb; subst. destruct (wc_nodata0 a E) as (_ & _ & Hst). contradiction.
      * apply wc_stor0 in Hb. exact Hb.
Qed.

Lemma cin_abse : forall orig c a, wf_core orig c ->
  abse_core orig (e_set_s c (e_create_if_not (e_s c) a)) = abse_core orig c.
Proof.
  intros orig c a W.
  rewrite (abse_set orig c (e_set_s c (e_create_if_not (e_s c) a)) a (eview orig c a)).
  - unfold set_acc. apply acore_eq; [|reflexivity]. cbn [a_accs abse_core]. apply upd_id.
  - apply create_if_not_only.
  - reflexivity.
  - reflexivity.
  - apply cin_view. exact W.
Qed.

(* generic: after createAccountIfNotExists, overwrite fields of address a *)
Lemma has_after_cin : forall s a, exists n q, e_acc (e_create_if_not s a) a = Some (n, q).
Proof. intros. destruct (create_if_not_has a s) as (n & q & H & _). eauto. Qed.

(* generic update of the fields of an existing account a *)
Lemma upd_view : forall orig c c' a num q0 q,
  e_acc (e_s c) a = Some (num, q0) -> e_acc (e_s c') a = Some (num, q) ->
  only_at a (e_s c) (e_s c') -> e_side c' = e_side c -> e_selfd c' = e_selfd c ->
  abse_core orig c' =
  set_acc (abse_core orig c) a
    (mkAacc q (e_bal (e_s c') a) (e_ch (e_s c') a) (st_get (e_st (e_s c') a)) (a_comm (eview orig c a)) (a_sd (eview orig c a))).
Proof.
  intros orig c c' a num q0 q H0 H1 Ho Hs Hd. apply abse_set; auto.
  - intros b _. rewrite Hd. reflexivity.
  - unfold eview. cbn [a_comm a_sd]. rewrite Hd. f_equal.
    + unfold e_seq. rewrite H1. reflexivity.
    + apply committed_ext. unfold cnum. rewrite H0, H1. reflexivity.
Qed.

Lemma wf_upd : forall orig c c' a num q0 q,
  wf_core orig c ->
  e_acc (e_s c) a = Some (num, q0) -> e_acc (e_s c') a = Some (num, q) ->
  only_at a (e_s c) (e_s c') -> e_next (e_s c') = e_next (e_s c) ->
  e_selfd c' = e_selfd c -> (forall b, memZ b (e_touched c) = true -> memZ b (e_touched c') = true) ->
  (e_st (e_s c') a <> [] -> 0 < q \/ e_ch (e_s c') a <> 0) ->
  wf_core orig c'.
Proof.
  intros orig c c' a num q0 q W H0 H1 [Ho (Hot & Hmod & _)] Hn Hd Ht Hst. destruct W. constructor.
  - intros b Hb. destruct (Z.eq_dec b a) as [->|Hne]; [congruence|].
    destruct (Ho b Hne) as (A & B & C & D). rewrite A in Hb. rewrite B, C, D. auto.
  - intros b n q1 Hb. rewrite Hn. destruct (Z.eq_dec b a) as [->|Hne].
    + rewrite H1 in Hb. inversion Hb; subst. eapply wc_num0; eauto.
    + destruct (Ho b Hne) as (A & _). rewrite A in Hb. eapply wc_num0; eauto.
  - intros b n q1 Hb. rewrite Hn. eapply wc_orignum0; eauto.
  - intros b Hb. destruct (Z.eq_dec b a) as [->|Hne].
    + unfold e_seq. rewrite H1. auto.
    + destruct (Ho b Hne) as (A & B & C & D). unfold e_seq. rewrite A, C. rewrite D in Hb. apply wc_stor0. exact Hb.
  - intros b Hb. rewrite Hd in Hb. auto.
  - intro b. rewrite Hot. auto.
  - intro b. rewrite Hmod. auto.
Qed.

(* ------------------------------------------------------------------ balances *)
Lemma mint_spec : forall orig c a v, wf_core orig c -> 0 <= v ->
  exists s', e_mint (e_s c) a v = Some s' /\
    abse_core orig (e_set_s c s') = ac_add_balance (abse_core orig c) a v /\ wf_core orig (e_set_s c s').
Proof.
  intros orig c a v W Hv. unfold e_mint. rewrite (wc_module _ _ W a).
  eexists. split; [reflexivity|].
  set (c1 := e_set_s c (e_create_if_not (e_s c) a)).
  assert (W1 : wf_core orig c1) by (apply wf_cin; exact W).
  assert (A1 : abse_core orig c1 = abse_core orig c) by (apply cin_abse; exact W).
  destruct (has_after_cin (e_s c) a) as (n & q & Hacc).
  set (s1 := e_create_if_not (e_s c) a) in *.
  set (c' := e_set_s c (mkEstore (e_acc s1) (upd (e_bal s1) a (e_bal s1 a + v)) (e_other s1) (e_ch s1) (e_st s1) (e_next s1) (e_module s1))).
  assert (Ho : only_at a (e_s c1) (e_s c')).
  { split; [|cbn; repeat split; lia]. intros b Hb. cbn. rewrite upd_other by exact Hb. auto. }
  split.
  - rewrite (upd_view orig c1 c' a n q q Hacc Hacc Ho eq_refl eq_refl). rewrite A1.
    unfold ac_add_balance. f_equal. cbn [c' e_set_s e_s e_bal e_ch e_st]. rewrite upd_same.
    replace (eview orig c1 a) with (eview orig c a).
    2:{ change (eview orig c1 a) with (a_accs (abse_core orig c1) a). rewrite A1. reflexivity. }
    cbn [abse_core a_accs]. unfold eview. cbn [a_nonce a_bal a_code a_stor a_comm a_sd].
    destruct (create_if_not_fields a (e_s c)) as (Hb & Hc & Hs & _). fold s1 in Hb, Hc, Hs. rewrite Hb, Hc, Hs.
    f_equal. pose proof (cin_view orig c a W) as Hv1. fold c1 in Hv1.
    apply (f_equal a_nonce) in Hv1. cbn [eview a_nonce] in Hv1. unfold e_seq in Hv1 at 1. cbn [c1 e_set_s e_s] in Hv1. fold s1 in Hv1. rewrite Hacc in Hv1. exact Hv1.
  - apply (wf_upd orig c1 c' a n q q W1 Hacc Hacc Ho eq_refl eq_refl); [auto|].
    cbn [c' e_set_s e_s e_st e_ch]. intro Hst. pose proof (wc_stor _ _ W1 a Hst) as Hs. unfold e_seq in Hs. cbn [c1 e_set_s e_s] in Hs. fold s1 in Hs. rewrite Hacc in Hs. exact Hs.
Qed.

(* createAccountIfNotExists followed by an overwrite of fields of a (SetNonce, SetCode, SetState, mint) *)
Lemma cin_upd : forall orig c a s' tch n q q',
  wf_core orig c ->
  e_acc (e_create_if_not (e_s c) a) a = Some (n, q) -> e_acc s' a = Some (n, q') ->
  only_at a (e_create_if_not (e_s c) a) s' -> e_next s' = e_next (e_create_if_not (e_s c) a) ->
  (forall b, memZ b (e_touched c) = true -> memZ b tch = true) ->
  (e_st s' a <> [] -> 0 < q' \/ e_ch s' a <> 0) ->
  abse_core orig (mkEcore s' tch (e_selfd c) (e_side c)) =
    set_acc (abse_core orig c) a (mkAacc q' (e_bal s' a) (e_ch s' a) (st_get (e_st s' a)) (a_comm (eview orig c a)) (a_sd (eview orig c a)))
  /\ wf_core orig (mkEcore s' tch (e_selfd c) (e_side c))
  /\ q = e_seq (e_s c) a.
Proof.
  intros orig c a s' tch n q q' W Hacc Hacc' Ho Hn Ht Hst.
  set (c1 := e_set_s c (e_create_if_not (e_s c) a)).
  assert (W1 : wf_core orig c1) by (apply wf_cin; exact W).
  assert (A1 : abse_core orig c1 = abse_core orig c) by (apply cin_abse; exact W).
  set (c' := mkEcore s' tch (e_selfd c) (e_side c)).
  assert (Hv1 : eview orig c1 a = eview orig c a) by (apply cin_view; exact W).
  split; [|split].
  - rewrite (upd_view orig c1 c' a n q q' Hacc Hacc' Ho eq_refl eq_refl). rewrite A1, Hv1. reflexivity.
  - apply (wf_upd orig c1 c' a n q q' W1 Hacc Hacc' Ho Hn eq_refl); [exact Ht|exact Hst].
  - apply (f_equal a_nonce) in Hv1. cbn [eview a_nonce] in Hv1. unfold e_seq in Hv1 at 1. cbn [c1 e_set_s e_s] in Hv1. rewrite Hacc in Hv1. exact Hv1.
Qed.

Lemma burn_spec : forall orig c a v, wf_core orig c -> (exists n q, e_acc (e_s c) a = Some (n, q)) -> v <= e_bal (e_s c) a ->
  exists s', e_burn (e_s c) a v = Some s' /\
    abse_core orig (e_set_s c s') = set_acc (abse_core orig c) a
       (mkAacc (a_nonce (eview orig c a)) (e_bal (e_s c) a - v) (a_code (eview orig c a)) (a_stor (eview orig c a)) (a_comm (eview orig c a)) (a_sd (eview orig c a)))
    /\ wf_core orig (e_set_s c s').
Proof.
  intros orig c a v W (n & q & Ea) Hv. unfold e_burn. destruct (e_bal (e_s c) a <? v) eqn:E; [apply Z.ltb_lt in E; lia|].
  eexists. split; [reflexivity|].
  set (c' := e_set_s c _).
  assert (Ho : only_at a (e_s c) (e_s c')).
  { split; [|cbn; repeat split; lia]. intros b Hb. cbn. rewrite upd_other by exact Hb. auto. }
  split.
  - rewrite (upd_view orig c c' a n q q Ea Ea Ho eq_refl eq_refl). f_equal.
    cbn [c' e_set_s e_s e_bal e_ch e_st]. rewrite upd_same. unfold eview. cbn [a_nonce a_code a_stor a_comm a_sd].
    unfold e_seq. rewrite Ea. reflexivity.
  - apply (wf_upd orig c c' a n q q W Ea Ea Ho eq_refl eq_refl); [auto|].
    cbn [c' e_set_s e_s e_st e_ch]. intro Hst. pose proof (wc_stor _ _ W a Hst) as Hs. unfold e_seq in Hs. rewrite Ea in Hs. exact Hs.
Qed.

Lemma aacc_eta : forall x, mkAacc (a_nonce x) (a_bal x) (a_code x) (a_stor x) (a_comm x) (a_sd x) = x.
Proof. intros []; reflexivity. Qed.

Lemma set_acc_id_e : forall c a, set_acc c a (a_accs c a) = c.
Proof. intros [f s] a. unfold set_acc. cbn [a_accs a_side]. rewrite upd_id. reflexivity. Qed.

Lemma set_acc_twice_e : forall c a x y, set_acc (set_acc c a x) a y = set_acc c a y.
Proof. intros [f s] a x y. unfold set_acc. cbn [a_accs a_side]. rewrite upd_upd. reflexivity. Qed.

Lemma add_balance_spec : forall orig c a v, wf_core orig c -> 0 <= v ->
  exists c', e_add_balance c a v = Some c' /\ abse_core orig c' = ac_add_balance (abse_core orig c) a v /\ wf_core orig c'.
Proof.
  intros orig c a v W Hv. unfold e_add_balance. destruct (v =? 0) eqn:Ez.
  - apply Z.eqb_eq in Ez; subst. eexists. split; [reflexivity|]. split; [|apply wf_touch; exact W].
    rewrite abse_touch. unfold ac_add_balance.
    replace (mkAacc _ _ _ _ _ _) with (a_accs (abse_core orig c) a); [symmetry; apply set_acc_id_e|].
    destruct (a_accs (abse_core orig c) a); cbn. rewrite Z.add_0_r. reflexivity.
  - destruct (mint_spec orig (touch c a) a v (wf_touch _ _ _ W) Hv) as (s' & Hm & Ha & Hw).
    cbn [touch e_s] in Hm. cbn [touch e_s]. rewrite Hm. eexists. split; [reflexivity|]. split; [|exact Hw].
    rewrite Ha. reflexivity.
Qed.

Lemma sub_balance_spec : forall orig c a v, wf_core orig c -> 0 <= v <= a_bal (a_accs (abse_core orig c) a) ->
  exists c', e_sub_balance c a v = Some c' /\ ac_sub_balance (abse_core orig c) a v = Some (abse_core orig c') /\ wf_core orig c'.
Proof.
  intros orig c a v W Hv. unfold e_sub_balance, ac_sub_balance.
  destruct (a_bal (a_accs (abse_core orig c) a) <? v) eqn:El; [apply Z.ltb_lt in El; lia|].
  destruct (v =? 0) eqn:Ez.
  - apply Z.eqb_eq in Ez; subst. eexists. split; [reflexivity|]. split; [|apply wf_touch; exact W].
    rewrite abse_touch. f_equal.
    replace (mkAacc _ _ _ _ _ _) with (a_accs (abse_core orig c) a); [apply set_acc_id_e|].
    destruct (a_accs (abse_core orig c) a); cbn. rewrite Z.sub_0_r. reflexivity.
  - apply Z.eqb_neq in Ez. cbn [abse_core a_accs eview a_bal] in Hv.
    destruct (burn_spec orig (touch c a) a v (wf_touch _ _ _ W)) as (s' & Hm & Ha & Hw); [|cbn [touch e_s]; lia|].
    { cbn [touch e_s]. destruct (e_acc (e_s c) a) as [[n q]|] eqn:Eacc; [eauto|]. destruct (wc_nodata _ _ W a Eacc) as (Hb & _). lia. }
    cbn [touch e_s] in Hm. cbn [touch e_s]. rewrite Hm. eexists. split; [reflexivity|]. split; [|exact Hw].
    rewrite Ha. reflexivity.
Qed.

(* ------------------------------------------------------------------ CreateAccount *)
Lemma create_account_spec : forall orig c a, wf_core orig c -> memZ a (e_selfd c) = false ->
  exists c', e_create_account c a = Some c' /\
    abse_core orig c' = set_acc (abse_core orig c) a (mkAacc 0 (a_bal (a_accs (abse_core orig c) a)) 0 zf zf false) /\
    wf_core orig c'.
Proof.
  intros orig c a W Hsd. pose proof W as [Wn Wnum Won Wst Wsel Wot Wmod].
  unfold e_create_account. cbn [touch e_s]. unfold e_destroy. rewrite (Wmod a), andb_false_r.
  unfold e_create_if_not. cbn [e_acc]. rewrite upd_same. cbn [e_acc e_bal e_other e_ch e_st e_next e_module].
  rewrite (Wot a). cbn [negb]. rewrite andb_true_r.
  set (b := e_bal (e_s c) a).
  assert (Hview : forall c', e_side c' = e_side c -> e_selfd c' = e_selfd c ->
            (forall x, x <> a -> e_acc (e_s c') x = e_acc (e_s c) x /\ e_bal (e_s c') x = e_bal (e_s c) x /\ e_ch (e_s c') x = e_ch (e_s c) x /\ e_st (e_s c') x = e_st (e_s c) x) ->
            e_other (e_s c') = e_other (e_s c) -> e_module (e_s c') = e_module (e_s c) -> e_next (e_s c') = e_next (e_s c) + 1 ->
            e_acc (e_s c') a = Some (e_next (e_s c), 0) -> e_bal (e_s c') a = b -> e_ch (e_s c') a = 0 -> e_st (e_s c') a = [] ->
            (forall x, memZ x (e_touched c) = true -> memZ x (e_touched c') = true) ->
            abse_core orig c' = set_acc (abse_core orig c) a (mkAacc 0 (a_bal (a_accs (abse_core orig c) a)) 0 zf zf false) /\ wf_core orig c').
  { intros c' Hs Hd Hoth Hot Hmo Hnx Hac Hba Hch Hstt Htc. split.
    - apply abse_set; auto.
      + split; [exact Hoth|]. repeat split; auto. lia.
      + intros x _. rewrite Hd. reflexivity.
      + unfold eview. rewrite Hba, Hch, Hstt, Hd, Hsd. unfold e_seq. rewrite Hac. cbn [abse_core a_accs eview a_bal]. f_equal.
        apply FE. intro k. apply committed_fresh with (n := e_next (e_s c)); [unfold cnum; rewrite Hac; reflexivity|].
        intros n0 q0 Ho. exact (Won a n0 q0 Ho).
    - constructor.
      + intros x Hx. destruct (Z.eq_dec x a) as [->|Hne]; [congruence|]. destruct (Hoth x Hne) as (A & B & C & D). rewrite A in Hx. rewrite B, C, D. auto.
      + intros x n q Hx. rewrite Hnx. destruct (Z.eq_dec x a) as [->|Hne]; [rewrite Hac in Hx; inversion Hx; lia|].
        destruct (Hoth x Hne) as (A & _). rewrite A in Hx. specialize (Wnum x n q Hx). lia.
      + intros x n q Hx. rewrite Hnx. specialize (Won x n q Hx). lia.
      + intros x Hx. destruct (Z.eq_dec x a) as [->|Hne]; [congruence|]. destruct (Hoth x Hne) as (A & B & C & D).
        unfold e_seq. rewrite A, C. rewrite D in Hx. apply Wst. exact Hx.
      + intros x Hx. rewrite Hd in Hx. auto.
      + intro x. rewrite Hot. auto.
      + intro x. rewrite Hmo. auto. }
  destruct (b =? 0) eqn:Eb.
  - eexists. split; [reflexivity|]. apply Hview; cbn [e_set_s e_s e_side e_selfd e_touched touch e_acc e_bal e_ch e_st e_other e_module e_next]; auto.
    + intros x Hx. rewrite !upd_other by exact Hx. auto.
    + apply FE. intro x. unfold upd. destruct (x =? a) eqn:E; [apply Z.eqb_eq in E; subst; symmetry; apply Wot|reflexivity].
    + rewrite upd_upd, upd_same. reflexivity.
    + rewrite upd_same. apply Z.eqb_eq in Eb. symmetry. exact Eb.
    + rewrite upd_same. reflexivity.
    + rewrite upd_same. reflexivity.
    + intros x Hx. cbn [memZ]. rewrite Hx. apply orb_true_r.
  - cbn [e_module]. rewrite (Wmod a). eexists. split; [reflexivity|].
    apply Hview; cbn [e_set_s e_s e_side e_selfd e_touched touch e_acc e_bal e_ch e_st e_other e_module e_next]; auto.
    + intros x Hx. rewrite !upd_other by exact Hx. auto.
    + apply FE. intro x. unfold upd. destruct (x =? a) eqn:E; [apply Z.eqb_eq in E; subst; symmetry; apply Wot|reflexivity].
    + rewrite upd_upd, upd_same. reflexivity.
    + rewrite upd_same. reflexivity.
    + rewrite upd_same. reflexivity.
    + rewrite upd_same. reflexivity.
    + intros x Hx. cbn [memZ]. rewrite Hx. apply orb_true_r.
Qed.

(* ------------------------------------------------------------------ Suicide *)
Lemma nonempty_has : forall orig c a, wf_core orig c -> nonempty_contract (eview orig c a) -> exists n q, e_acc (e_s c) a = Some (n, q).
Proof.
  intros orig c a W H. destruct (e_acc (e_s c) a) as [[n q]|] eqn:E; [eauto|].
  destruct (wc_nodata _ _ W a E) as (_ & Hc & _). unfold nonempty_contract, eview in H. cbn [a_nonce a_code] in H.
  unfold e_seq in H. rewrite E in H. destruct H; [lia|contradiction].
Qed.

Lemma mark_selfd : forall orig c a, wf_core orig c ->
  let c2 := mkEcore (e_s c) (a :: e_touched c) (a :: e_selfd c) (e_side c) in
  abse_core orig c2 = set_acc (abse_core orig c) a
     (mkAacc (a_nonce (eview orig c a)) (a_bal (eview orig c a)) (a_code (eview orig c a)) (a_stor (eview orig c a)) (a_comm (eview orig c a)) true)
  /\ wf_core orig c2.
Proof.
  intros orig c a W c2. split.
  - apply abse_set; auto.
    + apply only_at_refl.
    + intros b Hb. cbn [c2 e_selfd memZ]. destruct (a =? b) eqn:E; [apply Z.eqb_eq in E; congruence|reflexivity].
    + unfold eview. cbn [c2 e_s e_selfd memZ a_nonce a_bal a_code a_stor a_comm]. rewrite Z.eqb_refl. reflexivity.
  - destruct W. constructor; cbn [c2 e_s e_selfd e_touched]; auto.
    intros b Hb. cbn [memZ] in *. destruct (a =? b); [reflexivity|]. cbn [orb] in *. auto.
Qed.

Lemma suicide_spec : forall (s0 : est) orig c a, wf_core orig c -> nonempty_contract (eview orig c a) ->
  exists c', (let c1 := touch c a in
              if e_has (e_s c) a then
                let c2 := mkEcore (e_s c1) (e_touched c1) (a :: e_selfd c1) (e_side c1) in
                let b := e_bal (e_s c) a in
                if b =? 0 then Some (ewith s0 c2, ObB true)
                else match e_sub_balance c2 a b with Some c3 => Some (ewith s0 c3, ObB true) | None => None end
              else Some (ewith s0 c1, ObB false)) = Some (ewith s0 c', ObB true)
   /\ abse_core orig c' = set_acc (abse_core orig c) a
        (mkAacc (a_nonce (eview orig c a)) 0 (a_code (eview orig c a)) (a_stor (eview orig c a)) (a_comm (eview orig c a)) true)
   /\ wf_core orig c'.
Proof.
  intros s0 orig c a W Hne. destruct (nonempty_has orig c a W Hne) as (n & q & Ha).
  cbv zeta. unfold e_has. rewrite Ha. cbn [touch e_s e_touched e_selfd e_side].
  destruct (mark_selfd orig c a W) as [Hm Wm]. cbv zeta in Hm, Wm.
  destruct (e_bal (e_s c) a =? 0) eqn:Eb.
  - eexists. split; [reflexivity|]. split; [|exact Wm]. rewrite Hm. apply Z.eqb_eq in Eb.
    unfold eview at 2. cbn [a_bal]. rewrite Eb. reflexivity.
  - apply Z.eqb_neq in Eb.
    set (c2 := mkEcore (e_s c) (a :: e_touched c) (a :: e_selfd c) (e_side c)) in *.
    unfold e_sub_balance. apply Z.eqb_neq in Eb. rewrite Eb. cbn [touch e_s].
    destruct (burn_spec orig (touch c2 a) a (e_bal (e_s c) a) (wf_touch _ _ _ Wm)) as (s' & Hb & Habs & Hw); [cbn [touch c2 e_s]; eauto|cbn [touch c2 e_s]; lia|].
    replace (e_burn (e_s c2) a (e_bal (e_s c) a)) with (Some s') by (symmetry; exact Hb).
    eexists. split; [reflexivity|]. split; [|exact Hw].
    rewrite Habs, abse_touch, Hm. rewrite set_acc_twice_e. f_equal.
    change (eview orig (touch c2 a) a) with (a_accs (abse_core orig c2) a). rewrite Hm.
    cbn [set_acc a_accs]. rewrite upd_same. cbn [a_nonce a_code a_stor a_comm a_sd touch c2 e_s]. rewrite Z.sub_diag. reflexivity.
Qed.

(* ------------------------------------------------------------------ CommitMultiStore(true) *)
Definition same_at (s s' : estore) (b : Z) : Prop :=
  e_acc s' b = e_acc s b /\ e_bal s' b = e_bal s b /\ e_ch s' b = e_ch s b /\ e_st s' b = e_st s b /\ e_other s' b = e_other s b.
Definition zero_at (s' : estore) (b : Z) : Prop :=
  e_acc s' b = None /\ e_bal s' b = 0 /\ e_ch s' b = 0 /\ e_st s' b = [] /\ e_other s' b = false.

Lemma is_empty_same : forall s s' b, same_at s s' b -> e_is_empty s' b = e_is_empty s b.
Proof. intros s s' b (A & B & C & D & E). unfold e_is_empty, e_seq. rewrite A, B, C, D, E. reflexivity. Qed.

Lemma is_empty_zero : forall s b, zero_at s b -> e_is_empty s b = true.
Proof. intros s b (A & B & C & D & E). unfold e_is_empty, e_seq. rewrite A, B, C, D, E. reflexivity. Qed.

Lemma commit_loop_spec : forall selfd ts s,
  (forall a, e_module s a = false) ->
  exists s', e_commit_loop s selfd ts = Some s' /\ e_next s' = e_next s /\ e_module s' = e_module s /\
    forall b, if memZ b ts && (memZ b selfd || e_is_empty s b) then zero_at s' b else same_at s s' b.
Proof.
  induction ts as [|a r IH]; intros s Hm; cbn [e_commit_loop memZ].
  - exists s. repeat split; auto.
  - destruct (memZ a selfd || e_is_empty s a) eqn:D.
    + unfold e_destroy. rewrite (Hm a), andb_false_r.
      set (s1 := mkEstore (upd (e_acc s) a None) (upd (e_bal s) a 0) (upd (e_other s) a false) (upd (e_ch s) a 0) (upd (e_st s) a []) (e_next s) (e_module s)).
      destruct (IH s1 Hm) as (s' & Hl & Hn & Hmo & Hb). exists s'. split; [exact Hl|]. split; [exact Hn|]. split; [exact Hmo|].
      intro b. specialize (Hb b). destruct (Z.eq_dec b a) as [->|Hne].
      * rewrite Z.eqb_refl. cbn [orb andb]. rewrite D.
        assert (Z1 : zero_at s1 a) by (unfold zero_at, s1; cbn; rewrite !upd_same; auto).
        rewrite (is_empty_zero s1 a Z1), orb_true_r in Hb. destruct (memZ a r); cbn [andb] in Hb; [exact Hb|].
        destruct Hb as (A & B & C & E & F). destruct Z1 as (A1 & B1 & C1 & E1 & F1). unfold zero_at. rewrite A, B, C, E, F. auto.
      * assert (S1 : same_at s s1 b) by (unfold same_at, s1; cbn; rewrite !upd_other by exact Hne; auto).
        rewrite (is_empty_same s s1 b S1) in Hb.
        destruct (a =? b) eqn:Eab; [apply Z.eqb_eq in Eab; congruence|]. cbn [orb].
        destruct (memZ b r && (memZ b selfd || e_is_empty s b)); [exact Hb|].
        destruct Hb as (A & B & C & E & F). destruct S1 as (A1 & B1 & C1 & E1 & F1). unfold same_at. rewrite A, B, C, E, F. auto.
    + destruct (IH s Hm) as (s' & Hl & Hn & Hmo & Hb). exists s'. split; [exact Hl|]. split; [exact Hn|]. split; [exact Hmo|].
      intro b. specialize (Hb b). destruct (a =? b) eqn:Eab; cbn [orb]; [|exact Hb].
      apply Z.eqb_eq in Eab; subst b. rewrite D, andb_false_r in *. exact Hb.
Qed.

(* ------------------------------------------------------------------ live snapshots *)
Lemma live_rel_lb : forall orig issued snaps lb lb' l, live_rel orig issued snaps lb l -> (lb' <= lb)%nat -> live_rel orig issued snaps lb' l.
Proof. intros orig issued snaps lb lb' l H Hle. inversion H; subst; [constructor|]. apply lr_cons with (p := p) (ec := ec); auto. lia. Qed.

Lemma live_rel_ext : forall orig issued snaps lb l x y,
  live_rel orig issued snaps lb l -> live_rel orig (issued ++ x) (snaps ++ y) lb l.
Proof.
  intros orig issued snaps lb l x y H. induction H; econstructor; eauto.
  - rewrite nth_error_app1; [assumption|]. apply nth_error_Some. congruence.
  - rewrite nth_error_app1; [assumption|]. apply nth_error_Some. congruence.
Qed.

Lemma live_rel_snoc : forall orig issued snaps lb l ec,
  live_rel orig issued snaps lb l -> (lb <= length snaps)%nat ->
  live_rel orig (issued ++ [Z.of_nat (length snaps)]) (snaps ++ [ec]) lb (l ++ [(length issued, abse_core orig ec)]).
Proof.
  intros orig issued snaps lb l ec H. induction H; intro Hlb; cbn [app].
  - apply lr_cons with (p := length snaps) (ec := ec); [exact Hlb| | |reflexivity|constructor].
    + rewrite nth_error_app2 by lia. rewrite Nat.sub_diag. reflexivity.
    + rewrite nth_error_app2 by lia. rewrite Nat.sub_diag. reflexivity.
  - assert (Hp : (p < length snaps)%nat) by (apply nth_error_Some; congruence).
    assert (Ht : (tok < length issued)%nat) by (apply nth_error_Some; congruence).
    apply lr_cons with (p := p) (ec := ec0); [assumption| | |assumption|].
    + rewrite nth_error_app1 by exact Ht. assumption.
    + rewrite nth_error_app1 by exact Hp. assumption.
    + apply IHlive_rel. lia.
Qed.

Lemma nth_error_firstn_lt : forall {A} (l : list A) k p, (p < k)%nat -> nth_error (firstn k l) p = nth_error l p.
Proof.
  intros A l. induction l as [|x r IH]; intros k p H.
  - destruct k; destruct p; reflexivity.
  - destruct k; [lia|]. destruct p; [reflexivity|]. cbn [firstn nth_error]. apply IH. lia.
Qed.

Lemma live_rel_firstn_snaps : forall orig issued snaps lb l k,
  live_rel orig issued snaps lb l -> (forall tok ac p, In (tok, ac) l -> nth_error issued tok = Some (Z.of_nat p) -> (p < k)%nat) ->
  live_rel orig issued (firstn k snaps) lb l.
Proof.
  intros orig issued snaps lb l k H. induction H; intro Hall; [constructor|].
  apply lr_cons with (p := p) (ec := ec); auto.
  - rewrite nth_error_firstn_lt; [assumption|]. apply (Hall tok ac p); [left; reflexivity|assumption].
  - apply IHlive_rel. intros t a0 p0 Hin Hn. apply (Hall t a0 p0); [right; exact Hin|exact Hn].
Qed.

(* reverting to the snapshot found at index i keeps the older ones; evermint keeps positions 0..p *)
Lemma live_rel_find : forall orig issued snaps n l lb i0 i c',
  live_rel orig issued snaps lb l -> find_live n l i0 = Some (i, c') ->
  exists k p ec, i = (i0 + k)%nat /\ (lb <= p)%nat /\ nth_error issued n = Some (Z.of_nat p) /\ nth_error snaps p = Some ec /\
    abse_core orig ec = c' /\ live_rel orig issued (firstn (S p) snaps) lb (firstn k l).
Proof.
  intros orig issued snaps n l lb i0 i c' H. revert i0. induction H; intros i0 Hf; cbn [find_live] in Hf; [discriminate|].
  destruct (Nat.eqb tok n) eqn:E.
  - apply Nat.eqb_eq in E; subst tok. inversion Hf; subst. exists 0%nat, p, ec. repeat split; auto. cbn [firstn]. constructor.
  - destruct (IHlive_rel (S i0) Hf) as (k & p' & ec' & Hi & Hlb & A & B & C & D).
    exists (S k), p', ec'. repeat split; auto; try lia.
    change (firstn (S k) ((tok, ac) :: rest)) with ((tok, ac) :: firstn k rest).
    apply lr_cons with (p := p) (ec := ec); auto.
    rewrite nth_error_firstn_lt by lia. assumption.
Qed.

(* ------------------------------------------------------------------ end of transaction *)
Lemma finalise_spec : forall orig c, wf_core orig c ->
  exists s', e_commit_loop (e_s c) (e_selfd c) (e_touched c) = Some s' /\
    abse_core s' (mkEcore s' [] [] side0) = mkAcore (fun a => a_finalise_acc (eview orig c a)) side0 /\
    wf_core s' (mkEcore s' [] [] side0).
Proof.
  intros orig c W. pose proof W as [Wn Wnum Won Wst Wsel Wot Wmod].
  destruct (commit_loop_spec (e_selfd c) (e_touched c) (e_s c) Wmod) as (s' & Hl & Hnx & Hmo & Hb).
  exists s'. split; [exact Hl|]. split.
  - apply acore_eq; [|reflexivity]. cbn [abse_core a_accs]. apply FE. intro a.
    specialize (Hb a). unfold a_finalise_acc, eview at 2. cbn [a_sd a_nonce a_bal a_code a_stor].
    destruct (memZ a (e_touched c) && (memZ a (e_selfd c) || e_is_empty (e_s c) a)) eqn:D.
    + destruct Hb as (A & B & C & E & F).
      assert (L : eview s' (mkEcore s' [] [] side0) a = aacc0).
      { unfold eview, aacc0. cbn [e_s e_selfd memZ]. unfold e_seq. rewrite A, B, C, E. f_equal.
        apply FE; intro k; apply committed_none; exact A. }
      rewrite L. destruct (memZ a (e_selfd c)) eqn:Sd; [reflexivity|].
      apply andb_true_iff in D. destruct D as [_ D]. cbn [orb] in D. unfold e_is_empty in D.
      apply andb_true_iff in D. destruct D as [D D5]. apply andb_true_iff in D. destruct D as [D D4].
      apply andb_true_iff in D. destruct D as [D D3]. apply andb_true_iff in D. destruct D as [D1 D2].
      apply Z.eqb_eq in D1, D2, D4. destruct (e_st (e_s c) a) eqn:Est; [|discriminate].
      unfold eview. cbn [a_nonce a_bal a_code a_stor]. rewrite D1, D2, D4, Est. reflexivity.
    + destruct Hb as (A & B & C & E & F).
      assert (Sd : memZ a (e_selfd c) = false).
      { destruct (memZ a (e_selfd c)) eqn:Sd; [|reflexivity]. rewrite (Wsel a Sd) in D. cbn in D. discriminate. }
      rewrite Sd. unfold eview at 1. cbn [e_s e_selfd memZ]. f_equal.
      * unfold e_seq. rewrite A. reflexivity.
      * exact B.
      * exact C.
      * rewrite E. reflexivity.
      * apply FE. intro k. unfold e_committed. rewrite A.
        destruct (e_acc (e_s c) a) as [[n q]|] eqn:Ea.
        -- rewrite Z.eqb_refl, E. reflexivity.
        -- destruct (Wn a Ea) as (_ & _ & Hst). unfold eview. cbn [a_stor]. rewrite Hst. reflexivity.
  - constructor; cbn [e_s e_selfd e_touched].
    + intros a Ha. specialize (Hb a). destruct (memZ a (e_touched c) && _).
      * destruct Hb as (A & B & C & E & F). auto.
      * destruct Hb as (A & B & C & E & F). rewrite A in Ha. rewrite B, C, E. auto.
    + intros a n q Ha. rewrite Hnx. specialize (Hb a). destruct (memZ a (e_touched c) && _).
      * destruct Hb as (A & _). congruence.
      * destruct Hb as (A & _). rewrite A in Ha. eauto.
    + intros a n q Ha. rewrite Hnx. specialize (Hb a). destruct (memZ a (e_touched c) && _).
      * destruct Hb as (A & _). congruence.
      * destruct Hb as (A & _). rewrite A in Ha. eauto.
    + intros a Ha. specialize (Hb a). destruct (memZ a (e_touched c) && _).
      * destruct Hb as (A & B & C & E & F). congruence.
      * destruct Hb as (A & B & C & E & F). unfold e_seq. rewrite A, C. rewrite E in Ha. exact (Wst a Ha).
    + intros a Ha. discriminate.
    + intro a. specialize (Hb a). destruct (memZ a (e_touched c) && _).
      * destruct Hb as (A & B & C & E & F). exact F.
      * destruct Hb as (A & B & C & E & F). rewrite F. auto.
    + intro a. rewrite Hmo. auto.
Qed.

(* ------------------------------------------------------------------ the refinement step *)
Lemma rel_with : forall s t c', rel_e s t -> wf_core (e_orig s) c' ->
  rel_e (ewith s c') (with_cur t (abse_core (e_orig s) c')).
Proof. intros s t c' [] W. constructor; cbn [ewith with_cur e_cur e_orig e_issued e_snaps a_cur a_count a_live]; auto. Qed.

Lemma abse_side : forall orig c sd, abse_core orig (e_set_side c sd) = set_side (abse_core orig c) sd.
Proof. reflexivity. Qed.

Lemma wf_set_side : forall orig c sd, wf_core orig c -> wf_core orig (e_set_side c sd).
Proof. intros orig c sd []. constructor; auto. Qed.

Lemma absent_view : forall orig c a, wf_core orig c -> e_exist c a = false -> eview orig c a = aacc0.
Proof.
  intros orig c a W H. unfold e_exist in H. apply orb_false_iff in H. destruct H as [Hsd Hh].
  unfold e_has in Hh. destruct (e_acc (e_s c) a) as [|] eqn:E; [discriminate|].
  destruct (wc_nodata _ _ W a E) as (Hb & Hc & Hs). unfold eview, aacc0, e_seq. rewrite E, Hb, Hc, Hs, Hsd. f_equal.
  apply FE. intro k. apply committed_none. exact E.
Qed.

Lemma empty_agree : forall orig c a, wf_core orig c -> e_is_empty (e_s c) a = a_empty (eview orig c a).
Proof.
  intros orig c a W. unfold e_is_empty, a_empty, eview. cbn [a_nonce a_bal a_code]. rewrite (wc_other _ _ W a). cbn [negb].
  destruct (e_ch (e_s c) a =? 0) eqn:Ec; destruct (e_bal (e_s c) a =? 0) eqn:Eb; destruct (e_seq (e_s c) a =? 0) eqn:Es; cbn [andb]; try reflexivity.
  destruct (e_st (e_s c) a) eqn:Est; [reflexivity|].
  exfalso. apply Z.eqb_eq in Ec, Es. assert (Hne : e_st (e_s c) a <> []) by (rewrite Est; discriminate).
  destruct (wc_stor _ _ W a Hne); [lia|contradiction].
Qed.

Lemma cin_seq : forall s a n q, e_acc (e_create_if_not s a) a = Some (n, q) -> q = e_seq s a.
Proof.
  intros s a n q H. destruct (create_if_not_has a s) as (n1 & q1 & Hacc & Hnone & Hsome). rewrite H in Hacc. inversion Hacc; subst n1 q1.
  unfold e_seq. destruct (e_acc s a) as [[n0 q0]|] eqn:E.
  - destruct (Hsome n0 q0 eq_refl). assumption.
  - destruct (Hnone eq_refl). assumption.
Qed.

Theorem estep_refines : forall extra o s t,
  rel_e s t -> wf_a t -> disc o t ->
  exists s' ob t', estep_x extra o s = Some (s', ob) /\ astep_x extra o t = Some (t', norm_obs o ob) /\ rel_e s' t'.
Proof.
  intros extra o s t R Hwa Hd. pose proof R as [Rc Rn Rl W Ws].
  pose proof I as v. pose proof I as c.
  destruct o; cbn [disc] in Hd; cbn [estep_x astep_x astep]; rewrite ?Rc in *.
  - (* CreateAccount *)
    cbn [abse_core a_accs eview a_sd] in Hd.
    destruct (create_account_spec (e_orig s) (e_cur s) a W Hd) as (c' & Hc & Ha & Hw). rewrite Hc.
    eexists _, _, _. split; [reflexivity|]. split; [reflexivity|].
    rewrite <- Ha. apply rel_with; assumption.
  - (* SubBalance *)
    destruct (sub_balance_spec (e_orig s) (e_cur s) a v0 W Hd) as (c' & Hc & Ha & Hw). rewrite Hc, Ha.
    eexists _, _, _. split; [reflexivity|]. split; [reflexivity|]. apply rel_with; assumption.
  - (* AddBalance *)
    destruct (add_balance_spec (e_orig s) (e_cur s) a v0 W Hd) as (c' & Hc & Ha & Hw). rewrite Hc, <- Ha.
    eexists _, _, _. split; [reflexivity|]. split; [reflexivity|]. apply rel_with; assumption.
  - (* GetBalance *) eexists _, _, _. split; [reflexivity|]. split; [reflexivity|]. exact R.
  - (* GetNonce *) eexists _, _, _. split; [reflexivity|]. split; [reflexivity|]. exact R.
  - (* SetNonce *)
    destruct (has_after_cin (e_s (e_cur s)) a) as (num & q & Hacc). rewrite Hacc.
    destruct (create_if_not_fields a (e_s (e_cur s))) as (Fb & Fc & Fs & Fo & Fm).
    set (s1 := e_create_if_not (e_s (e_cur s)) a) in *.
    set (s' := mkEstore (upd (e_acc s1) a (Some (num, n))) (e_bal s1) (e_other s1) (e_ch s1) (e_st s1) (e_next s1) (e_module s1)).
    destruct (cin_upd (e_orig s) (e_cur s) a s' (a :: e_touched (e_cur s)) num q n W Hacc) as (Ha & Hw & Hq).
    { cbn [s' e_acc]. apply upd_same. }
    { split; [intros b Hb; cbn; rewrite ?upd_other by exact Hb; auto|]. split; [reflexivity|]. split; [reflexivity|]. subst s'. cbn [e_next]. apply Z.le_refl. }
    { reflexivity. }
    { intros b Hb. cbn [memZ]. rewrite Hb. apply orb_true_r. }
    { intros _. left. exact Hd. }
    eexists _, _, _. split; [reflexivity|]. split; [reflexivity|].
    replace (set_acc _ a _) with (abse_core (e_orig s) (e_set_s (touch (e_cur s) a) s')); [apply rel_with; [exact R|exact Hw]|].
    change (e_set_s (touch (e_cur s) a) s') with (mkEcore s' (a :: e_touched (e_cur s)) (e_selfd (e_cur s)) (e_side (e_cur s))).
    rewrite Ha. f_equal. cbn [s' e_bal e_ch e_st]. rewrite Fb, Fc, Fs. reflexivity.
  - (* GetCodeHash *) eexists _, _, _. split; [reflexivity|]. split; [|exact R].
    cbn [abse_core a_accs eview a_code]. destruct (e_ch (e_s (e_cur s)) a =? 0) eqn:E; [apply Z.eqb_eq in E; rewrite E|]; reflexivity.
  - (* GetCode *) eexists _, _, _. split; [reflexivity|]. split; [reflexivity|]. exact R.
  - (* SetCode *)
    destruct (has_after_cin (e_s (e_cur s)) a) as (num & q & Hacc).
    destruct (create_if_not_fields a (e_s (e_cur s))) as (Fb & Fc & Fs & Fo & Fm).
    set (s1 := e_create_if_not (e_s (e_cur s)) a) in *.
    set (s' := mkEstore (e_acc s1) (e_bal s1) (e_other s1) (upd (e_ch s1) a c0) (e_st s1) (e_next s1) (e_module s1)).
    destruct (cin_upd (e_orig s) (e_cur s) a s' (a :: e_touched (e_cur s)) num q q W Hacc) as (Ha & Hw & Hq).
    { exact Hacc. }
    { split; [intros b Hb; cbn; rewrite ?upd_other by exact Hb; auto|]. split; [reflexivity|]. split; [reflexivity|]. subst s'. cbn [e_next]. apply Z.le_refl. }
    { reflexivity. }
    { intros b Hb. cbn [memZ]. rewrite Hb. apply orb_true_r. }
    { intros _. left. cbn [abse_core a_accs eview a_nonce] in Hd. rewrite (cin_seq _ _ _ _ Hacc). exact Hd. }
    eexists _, _, _. split; [reflexivity|]. split; [reflexivity|].
    replace (set_acc _ a _) with (abse_core (e_orig s) (e_set_s (touch (e_cur s) a) s')); [apply rel_with; [exact R|exact Hw]|].
    change (e_set_s (touch (e_cur s) a) s') with (mkEcore s' (a :: e_touched (e_cur s)) (e_selfd (e_cur s)) (e_side (e_cur s))).
    rewrite Ha. f_equal. cbn [s' e_bal e_ch e_st]. rewrite upd_same, Fb, Fs, Hq. reflexivity.
  - (* GetCodeSize *) eexists _, _, _. split; [reflexivity|]. split; [reflexivity|]. exact R.
  - (* AddRefund *)
    cbn [abse_core a_side] in Hd. destruct Hd as [Hg0 Hg1].
    destruct (MAXU64 <? s_refund (e_side (e_cur s)) + g) eqn:E; [apply Z.ltb_lt in E; lia|].
    eexists _, _, _. split; [reflexivity|]. split; [reflexivity|].
    rewrite <- abse_side. apply rel_with; [exact R|]. apply wf_set_side. exact W.
  - (* SubRefund *)
    cbn [abse_core a_side] in Hd |- *.
    destruct (s_refund (e_side (e_cur s)) <? g) eqn:E; [apply Z.ltb_lt in E; lia|].
    eexists _, _, _. split; [reflexivity|]. split; [reflexivity|].
    rewrite <- abse_side. apply rel_with; [exact R|]. apply wf_set_side. exact W.
  - (* GetRefund *) eexists _, _, _. split; [reflexivity|]. split; [reflexivity|]. exact R.
  - (* GetCommitted *) eexists _, _, _. split; [reflexivity|]. split; [reflexivity|]. exact R.
  - (* GetState *) eexists _, _, _. split; [reflexivity|]. split; [reflexivity|]. exact R.
  - (* SetState *)
    destruct (has_after_cin (e_s (e_cur s)) a) as (num & q & Hacc).
    destruct (create_if_not_fields a (e_s (e_cur s))) as (Fb & Fc & Fs & Fo & Fm).
    set (s1 := e_create_if_not (e_s (e_cur s)) a) in *.
    set (s' := mkEstore (e_acc s1) (e_bal s1) (e_other s1) (e_ch s1) (upd (e_st s1) a (st_set (e_st s1 a) k v0)) (e_next s1) (e_module s1)).
    destruct (cin_upd (e_orig s) (e_cur s) a s' (a :: e_touched (e_cur s)) num q q W Hacc) as (Ha & Hw & Hq).
    { exact Hacc. }
    { split; [intros b Hb; cbn; rewrite ?upd_other by exact Hb; auto|]. split; [reflexivity|]. split; [reflexivity|]. subst s'. cbn [e_next]. apply Z.le_refl. }
    { reflexivity. }
    { intros b Hb. cbn [memZ]. rewrite Hb. apply orb_true_r. }
    { intros _. cbn [s' e_ch]. rewrite Fc. unfold nonempty_contract in Hd. cbn [abse_core a_accs eview a_nonce a_code] in Hd.
      rewrite (cin_seq _ _ _ _ Hacc). exact Hd. }
    eexists _, _, _. split; [reflexivity|]. split; [reflexivity|].
    replace (set_acc _ a _) with (abse_core (e_orig s) (e_set_s (touch (e_cur s) a) s')); [apply rel_with; [exact R|exact Hw]|].
    change (e_set_s (touch (e_cur s) a) s') with (mkEcore s' (a :: e_touched (e_cur s)) (e_selfd (e_cur s)) (e_side (e_cur s))).
    rewrite Ha. f_equal. cbn [s' e_bal e_ch e_st]. rewrite upd_same, Fb, Fc, Fs, Hq.
    cbn [abse_core a_accs eview a_nonce a_bal a_code a_stor a_comm a_sd]. f_equal.
    apply FE. intro k'. rewrite st_get_set. unfold upd. reflexivity.
  - (* Suicide *)
    cbn [abse_core a_accs] in Hd.
    destruct (suicide_spec s (e_orig s) (e_cur s) a W Hd) as (c' & Hc & Ha & Hw). cbv zeta in Hc.
    cbv zeta. rewrite Hc.
    eexists _, _, _. split; [reflexivity|]. split; [reflexivity|].
    match goal with |- rel_e _ (with_cur t ?X) => replace X with (abse_core (e_orig s) c') by (rewrite Ha; reflexivity) end.
    apply rel_with; assumption.
  - (* HasSuicided *) eexists _, _, _. split; [reflexivity|]. split; [reflexivity|]. exact R.
  - (* Exist *) contradiction.
  - (* Empty *) eexists _, _, _. split; [reflexivity|]. split; [|exact R].
    cbn [abse_core a_accs norm_obs]. rewrite (empty_agree (e_orig s) (e_cur s) a W). reflexivity.
  - (* Prepare *)
    eexists _, _, _. split; [reflexivity|]. split; [reflexivity|].
    constructor; cbn [ewith e_cur e_orig e_issued e_snaps a_cur a_count a_live]; auto.
    apply wf_set_side. exact W.
  - (* AddrInAL *) eexists _, _, _. split; [reflexivity|]. split; [reflexivity|]. exact R.
  - (* SlotInAL *) eexists _, _, _. split; [reflexivity|]. split; [reflexivity|]. exact R.
  - (* AddAddrAL *) eexists _, _, _. split; [reflexivity|]. split; [reflexivity|].
    rewrite <- abse_side. apply rel_with; [exact R|]. apply wf_set_side. exact W.
  - (* AddSlotAL *) eexists _, _, _. split; [reflexivity|]. split; [reflexivity|].
    rewrite <- abse_side. apply rel_with; [exact R|]. apply wf_set_side. exact W.
  - (* Snapshot *)
    eexists _, _, _. split; [reflexivity|]. split; [reflexivity|].
    constructor; cbn [e_cur e_orig e_issued e_snaps a_cur a_count a_live].
    + reflexivity.
    + rewrite app_length. cbn [length]. lia.
    + rewrite Rn. apply live_rel_snoc; [exact Rl|lia].
    + exact W.
    + apply Forall_app. split; [exact Ws|constructor; [exact W|constructor]].
  - (* Revert *)
    destruct (find_live n (a_live t) 0) as [[i c']|] eqn:Ef; [|congruence].
    destruct (live_rel_find _ _ _ _ _ _ _ _ _ Rl Ef) as (k & p & ec & Hi & _ & Hn & Hs & Hc & Hl). cbn [Nat.add] in Hi. subst i.
    rewrite Hn. destruct (Z.of_nat p <? 0) eqn:Elt; [apply Z.ltb_lt in Elt; lia|]. rewrite Nat2Z.id, Hs.
    eexists _, _, _. split; [reflexivity|]. split; [reflexivity|].
    constructor; cbn [e_cur e_orig e_issued e_snaps a_cur a_count a_live]; auto.
    + exact (Forall_nth_error _ _ _ _ Ws Hs).
    + apply Forall_firstn. exact Ws.
  - (* AddLog *) eexists _, _, _. split; [reflexivity|]. split; [reflexivity|].
    rewrite <- abse_side. apply rel_with; [exact R|]. apply wf_set_side. exact W.
  - (* CallEnter *)
    destruct Hd as [Hv0 Hvb].
    assert (Hsame : forall c1, (if e_exist (e_cur s) a then Some (e_cur s) else e_create_account (e_cur s) a) = Some c1 ->
               (e_exist (e_cur s) a = true \/ (isPre = true \/ v0 <> 0)) ->
               abse_core (e_orig s) c1 = abse_core (e_orig s) (e_cur s) /\ wf_core (e_orig s) c1).
    { intros c1 H1 _. destruct (e_exist (e_cur s) a) eqn:Eex.
      - inversion H1; subst. split; [reflexivity|exact W].
      - assert (Hsd : memZ a (e_selfd (e_cur s)) = false) by (unfold e_exist in Eex; apply orb_false_iff in Eex; tauto).
        destruct (create_account_spec (e_orig s) (e_cur s) a W Hsd) as (c' & Hc & Ha & Hw). rewrite Hc in H1. inversion H1; subst c1.
        split; [|exact Hw]. rewrite Ha. pose proof (absent_view (e_orig s) (e_cur s) a W Eex) as Hz.
        replace (mkAacc 0 (a_bal (a_accs (abse_core (e_orig s) (e_cur s)) a)) 0 zf zf false) with (a_accs (abse_core (e_orig s) (e_cur s)) a).
        + apply set_acc_id_e.
        + cbn [abse_core a_accs]. rewrite Hz. reflexivity. }
    destruct (e_exist (e_cur s) a) eqn:Eex; cbn [negb andb].
    + destruct (Hsame (e_cur s) eq_refl (or_introl eq_refl)) as [_ _].
      destruct (sub_balance_spec (e_orig s) (e_cur s) caller v0 W (conj Hv0 Hvb)) as (c2 & Hc2 & Ha2 & Hw2). rewrite Hc2, Ha2.
      destruct (add_balance_spec (e_orig s) c2 a v0 Hw2 Hv0) as (c3 & Hc3 & Ha3 & Hw3). rewrite Hc3.
      eexists _, _, _. split; [reflexivity|]. split.
      * rewrite <- Ha3. destruct isPre; reflexivity.
      * apply rel_with; assumption.
    + destruct (negb isPre && (v0 =? 0)) eqn:Eearly.
      * apply andb_true_iff in Eearly. destruct Eearly as [Epre Ez]. apply Z.eqb_eq in Ez. subst v0. destruct isPre; [discriminate|].
        eexists _, _, _. split; [reflexivity|]. split.
        -- unfold ac_sub_balance, ac_add_balance.
           destruct (a_bal (a_accs (abse_core (e_orig s) (e_cur s)) caller) <? 0) eqn:El; [apply Z.ltb_lt in El; lia|].
           replace (mkAacc _ (a_bal (a_accs (abse_core (e_orig s) (e_cur s)) caller) - 0) _ _ _ _) with (a_accs (abse_core (e_orig s) (e_cur s)) caller)
             by (destruct (a_accs (abse_core (e_orig s) (e_cur s)) caller); cbn; rewrite Z.sub_0_r; reflexivity).
           rewrite set_acc_id_e.
           replace (mkAacc _ (a_bal (a_accs (abse_core (e_orig s) (e_cur s)) a) + 0) _ _ _ _) with (a_accs (abse_core (e_orig s) (e_cur s)) a)
             by (destruct (a_accs (abse_core (e_orig s) (e_cur s)) a); cbn; rewrite Z.add_0_r; reflexivity).
           rewrite set_acc_id_e. cbn [norm_obs]. cbn [abse_core a_accs]. rewrite (absent_view _ _ _ W Eex). cbn [aacc0 a_code].
           rewrite <- Rc. reflexivity.
        -- replace (with_cur t (a_cur t)) with t by (destruct t; reflexivity). exact R.
      * assert (Hnz : isPre = true \/ v0 <> 0).
        { destruct isPre; [left; reflexivity|right]. cbn [negb andb] in Eearly. apply Z.eqb_neq. exact Eearly. }
        assert (Hsd : memZ a (e_selfd (e_cur s)) = false) by (unfold e_exist in Eex; apply orb_false_iff in Eex; tauto).
        destruct (create_account_spec (e_orig s) (e_cur s) a W Hsd) as (c1 & Hc1 & _ & _). rewrite Hc1.
        destruct (Hsame c1 Hc1 (or_intror Hnz)) as [Ha1 Hw1].
        assert (Hvb1 : 0 <= v0 <= a_bal (a_accs (abse_core (e_orig s) c1) caller)) by (rewrite Ha1; exact (conj Hv0 Hvb)).
        destruct (sub_balance_spec (e_orig s) c1 caller v0 Hw1 Hvb1) as (c2 & Hc2 & Ha2 & Hw2). rewrite Hc2. rewrite <- Ha1, Ha2.
        destruct (add_balance_spec (e_orig s) c2 a v0 Hw2 Hv0) as (c3 & Hc3 & Ha3 & Hw3). rewrite Hc3.
        eexists _, _, _. split; [reflexivity|]. split.
        -- rewrite <- Ha3. destruct isPre; reflexivity.
        -- apply rel_with; assumption.
  - (* Finalise *)
    destruct (finalise_spec (e_orig s) (e_cur s) W) as (s' & Hl & Ha & Hw). rewrite Hl.
    eexists _, _, _. split; [reflexivity|]. split; [reflexivity|].
    constructor; cbn [e_cur e_orig e_issued e_snaps a_cur a_count a_live]; auto.
    + constructor.
Qed.

End WithFE.
