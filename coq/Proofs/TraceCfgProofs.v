From Evm Require Import TraceCfg.

(* the code as it is: whatever the two options are, the watchdog never sees a nil tracer *)
Theorem watchdog_tracer_never_nil c : ts_nil_possible (trace_tx_setup false c) = false.
Proof. destruct c as [l [] []]; reflexivity. Qed.

Theorem watchdog_never_crashes c : watchdog_crashes false c = false.
Proof. destruct c as [l [] []]; reflexivity. Qed.

(* a set-up that returns an error has not started the goroutine *)
Theorem setup_error_means_no_goroutine c code :
  ts_err (trace_tx_setup false c) = Some code -> ts_goroutine (trace_tx_setup false c) = false.
Proof. destruct c as [l [] []]; cbn; intros H; try discriminate; reflexivity. Qed.

(* the order is what matters: with the goroutine started first, an elapsed timeout and a tracer that does not build
   kill the process, and only combinations of an elapsed timeout do *)
Theorem watchdog_reordered_crashes :
  watchdog_crashes true (mkTraceCfg false ToElapsed TrInvalid) = true.
Proof. reflexivity. Qed.

Theorem watchdog_reordered_needs_elapsed c : watchdog_crashes true c = true -> tc_timeout c = ToElapsed.
Proof. destruct c as [l [] []]; cbn; intros H; try discriminate; reflexivity. Qed.

Theorem trace_class_total block c : match trace_class block c with Some z => z = 0%Z \/ z = 1%Z | None => True end.
Proof. destruct block, c as [[] [] []]; cbn; auto. Qed.
