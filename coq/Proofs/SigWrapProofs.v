(* C19 — proofs about the eth_secp256k1 wrappers of Model/SigWrap.v.

   Nothing here assumes that a primitive is secure.  Soundness statements say what the wrapper asks of the
   primitives; binding statements are REDUCTIONS: a wrapper-level confusion (one signature, two messages / two
   keys) exhibits an explicit primitive-level event (a keccak collision, one signature valid for two digests,
   one signature valid under two keys). *)
From Coq Require Import List NArith ZArith Bool Lia PeanoNat.
From Evm Require Import SigWrap.
Import ListNotations.
Open Scope N_scope.

(* ------------------------------------------------------------------ byte strings *)

Lemma beqb_eq : forall a b, beqb a b = true <-> a = b.
Proof.
  induction a as [|x a IH]; destruct b as [|y b]; cbn [beqb]; split; intros H; try reflexivity; try discriminate.
  - apply andb_true_iff in H as [H1 H2]. apply N.eqb_eq in H1. apply IH in H2. congruence.
  - inversion H; subst. rewrite N.eqb_refl. cbn. apply IH. reflexivity.
Qed.

Lemma beqb_refl : forall a, beqb a a = true.
Proof. intros a. apply beqb_eq. reflexivity. Qed.

Lemma beqb_neq : forall a b, beqb a b = false <-> a <> b.
Proof.
  intros a b. split.
  - intros H E. apply beqb_eq in E. congruence.
  - intros H. destruct (beqb a b) eqn:E; [apply beqb_eq in E; contradiction | reflexivity].
Qed.

Lemma lastn_skipn {A} (n : nat) (l : list A) : lastn n l = skipn (length l - n) l.
Proof. reflexivity. Qed.

(* ------------------------------------------------------------------ strip_v *)

Lemma strip_v_65 : forall s, length s = 65%nat -> strip_v s = firstn 64 s.
Proof. intros s H. unfold strip_v. rewrite H. reflexivity. Qed.

Lemma strip_v_other : forall s, length s <> 65%nat -> strip_v s = s.
Proof. intros s H. unfold strip_v. apply Nat.eqb_neq in H. rewrite H. reflexivity. Qed.

Lemma strip_v_len64 : forall s, length (strip_v s) = 64%nat -> length s = 64%nat \/ length s = 65%nat.
Proof.
  intros s H. destruct (Nat.eq_dec (length s) 65) as [E|E]; [right; exact E|].
  rewrite strip_v_other in H by exact E. left; exact H.
Qed.

Lemma firstn_exact {A} : forall (s t : list A) n, length s = n -> firstn n (s ++ t) = s.
Proof. intros s t n <-. rewrite firstn_app, Nat.sub_diag, firstn_all, firstn_O, app_nil_r. reflexivity. Qed.

Lemma skipn_exact {A} : forall (s t : list A) n, length s = n -> skipn n (s ++ t) = t.
Proof. intros s t n <-. rewrite skipn_app, Nat.sub_diag, skipn_all. reflexivity. Qed.

Lemma strip_v_app_v : forall s v, length s = 64%nat -> strip_v (s ++ [v]) = s.
Proof.
  intros s v H. rewrite strip_v_65 by (rewrite app_length; cbn; lia).
  apply firstn_exact. exact H.
Qed.

(* ------------------------------------------------------------------ the wrappers *)

Section SigWrapProofs.
  Variable keccak : bytes -> bytes.
  Variable ecdsa_verify : bytes -> bytes -> bytes -> bool.
  Variable eip712_bytes : bytes -> option bytes.
  Variable decompress : bytes -> option bytes.
  Variable ecdsa_sign : bytes -> bytes -> option bytes.

  Notation verify := (verify keccak ecdsa_verify eip712_bytes).
  Notation sign := (sign keccak ecdsa_sign).
  Notation address := (address keccak decompress).

  (* what a message is signed as: itself, or its EIP-712 rendering *)
  Definition signed_forms (m : bytes) : list bytes :=
    m :: match eip712_bytes m with Some b => [b] | None => [] end.

  (* accepted  <->  ECDSA-valid, after the 65 -> 64 truncation, on keccak(msg) or on keccak(EIP-712 rendering of msg) *)
  Theorem verify_sound : forall pk m s,
    verify pk m s = true ->
    ecdsa_verify pk (keccak m) (strip_v s) = true \/
    exists b, eip712_bytes m = Some b /\ ecdsa_verify pk (keccak b) (strip_v s) = true.
  Proof.
    intros pk m s H. unfold SigWrap.verify, verify_eip712, verify_ecdsa in H.
    apply orb_true_iff in H as [H|H]; [left; exact H|].
    destruct (eip712_bytes m) as [b|] eqn:E; [|discriminate].
    right. exists b. split; [reflexivity | exact H].
  Qed.

  Theorem verify_complete : forall pk m s,
    (ecdsa_verify pk (keccak m) (strip_v s) = true \/
     exists b, eip712_bytes m = Some b /\ ecdsa_verify pk (keccak b) (strip_v s) = true) ->
    verify pk m s = true.
  Proof.
    intros pk m s [H|[b [E H]]]; unfold SigWrap.verify, verify_eip712, verify_ecdsa; apply orb_true_iff.
    - left; exact H.
    - right. rewrite E. exact H.
  Qed.

  Lemma verify_forms : forall pk m s,
    verify pk m s = true <-> exists f, In f (signed_forms m) /\ ecdsa_verify pk (keccak f) (strip_v s) = true.
  Proof.
    intros pk m s. split.
    - intros H. apply verify_sound in H as [H|[b [E H]]].
      + exists m. split; [left; reflexivity | exact H].
      + exists b. split; [unfold signed_forms; rewrite E; right; left; reflexivity | exact H].
    - intros [f [Hin H]]. apply verify_complete. unfold signed_forms in Hin. destruct Hin as [<-|Hin]; [left; exact H|].
      destruct (eip712_bytes m) as [b|] eqn:E; [|contradiction].
      destruct Hin as [<-|[]]. right. exists b. split; [reflexivity | exact H].
  Qed.

  (* the recovery byte of a 65-byte signature is not looked at *)
  Theorem verify_ignores_v : forall pk m s v, length s = 64%nat -> verify pk m (s ++ [v]) = verify pk m s.
  Proof.
    intros pk m s v H. unfold SigWrap.verify, verify_eip712, verify_ecdsa.
    rewrite strip_v_app_v by exact H. rewrite (strip_v_other s) by lia. reflexivity.
  Qed.

  (* only 64- and 65-byte signatures can be accepted, if the primitive accepts 64-byte signatures only *)
  Theorem verify_sig_length :
    (forall pk d s, ecdsa_verify pk d s = true -> length s = 64%nat) ->
    forall pk m s, verify pk m s = true -> length s = 64%nat \/ length s = 65%nat.
  Proof.
    intros Hlen pk m s H. apply verify_forms in H as [f [_ H]]. apply Hlen in H. apply strip_v_len64. exact H.
  Qed.

  (* ---------------------------------------------------------------- binding, as reductions *)

  Definition keccak_collision : Prop := exists x y : bytes, x <> y /\ keccak x = keccak y.
  Definition sig_two_digests : Prop :=
    exists pk d1 d2 s, d1 <> d2 /\ ecdsa_verify pk d1 s = true /\ ecdsa_verify pk d2 s = true.
  Definition sig_two_keys : Prop :=
    exists pk1 pk2 d1 d2 s, pk1 <> pk2 /\ ecdsa_verify pk1 d1 s = true /\ ecdsa_verify pk2 d2 s = true.

  Lemma bytes_eq_dec : forall a b : bytes, {a = b} + {a <> b}.
  Proof. apply list_eq_dec. apply N.eq_dec. Qed.

  (* one signature accepted for two messages under one key: the messages share a signed form (same message, one is
     the EIP-712 rendering of the other, or equal renderings), or a primitive-level event is exhibited *)
  Theorem verify_binds_message : forall pk m1 m2 s,
    verify pk m1 s = true -> verify pk m2 s = true ->
    (exists f, In f (signed_forms m1) /\ In f (signed_forms m2)) \/ keccak_collision \/ sig_two_digests.
  Proof.
    intros pk m1 m2 s H1 H2.
    apply verify_forms in H1 as [f1 [I1 V1]]. apply verify_forms in H2 as [f2 [I2 V2]].
    destruct (bytes_eq_dec f1 f2) as [E|NE].
    - left. exists f1. split; [exact I1 | rewrite E; exact I2].
    - right. destruct (bytes_eq_dec (keccak f1) (keccak f2)) as [E|ND].
      + left. exists f1, f2. split; assumption.
      + right. exists pk, (keccak f1), (keccak f2), (strip_v s). repeat split; assumption.
  Qed.

  (* one signature accepted under two keys: a primitive-level event (the wrapper hands the key through unchanged) *)
  Theorem verify_binds_key : forall pk1 pk2 m1 m2 s,
    verify pk1 m1 s = true -> verify pk2 m2 s = true -> pk1 = pk2 \/ sig_two_keys.
  Proof.
    intros pk1 pk2 m1 m2 s H1 H2.
    apply verify_forms in H1 as [f1 [_ V1]]. apply verify_forms in H2 as [f2 [_ V2]].
    destruct (bytes_eq_dec pk1 pk2) as [E|NE]; [left; exact E|].
    right. exists pk1, pk2, (keccak f1), (keccak f2), (strip_v s). repeat split; assumption.
  Qed.

  (* ---------------------------------------------------------------- signing *)

  Variable pub_of : bytes -> bytes.
  (* functional correctness of the primitive pair (go-ethereum crypto.Sign / crypto.VerifySignature) *)
  Hypothesis ecdsa_correct : forall sk d s,
    ecdsa_sign sk d = Some s -> length s = 65%nat /\ ecdsa_verify (pub_of sk) d (firstn 64 s) = true.

  Lemma sign_digest_not32 : forall m, length m <> 32%nat -> sign_digest keccak m = keccak m.
  Proof. intros m H. unfold sign_digest. apply Nat.eqb_neq in H. rewrite H. reflexivity. Qed.

  Lemma sign_digest_32 : forall m, length m = 32%nat -> sign_digest keccak m = m.
  Proof. intros m H. unfold sign_digest. rewrite H. reflexivity. Qed.

  (* a produced signature is accepted for the message, in both the 65- and the 64-byte form — unless the
     message is 32 bytes long *)
  Theorem sign_then_verify : forall sk m s,
    length m <> 32%nat -> sign sk m = Some s ->
    verify (pub_of sk) m s = true /\ verify (pub_of sk) m (firstn 64 s) = true.
  Proof.
    intros sk m s Hm Hs. unfold SigWrap.sign in Hs. rewrite sign_digest_not32 in Hs by exact Hm.
    apply ecdsa_correct in Hs as [Hl Hv].
    split; apply verify_complete; left.
    - rewrite strip_v_65 by exact Hl. exact Hv.
    - rewrite strip_v_other; [exact Hv|]. rewrite firstn_length, Hl. cbn. lia.
  Qed.

  (* a produced signature authorises exactly the message signed, or a document whose EIP-712 rendering is that
     message — or exhibits a primitive-level event.  Not for 32-byte messages (see sign_binds_message_refuted). *)
  Theorem sign_binds_message_partial : forall sk m s m',
    length m <> 32%nat -> sign sk m = Some s -> verify (pub_of sk) m' s = true ->
    m' = m \/ eip712_bytes m' = Some m \/ keccak_collision \/ sig_two_digests.
  Proof.
    intros sk m s m' Hm Hs Hv. unfold SigWrap.sign in Hs. rewrite sign_digest_not32 in Hs by exact Hm.
    apply ecdsa_correct in Hs as [Hl Hown].
    apply verify_forms in Hv as [f [Hin Hv]]. rewrite strip_v_65 in Hv by exact Hl.
    destruct (bytes_eq_dec f m) as [E|NE].
    - subst f. unfold signed_forms in Hin. destruct Hin as [E|Hin]; [left; exact E|].
      destruct (eip712_bytes m') as [b|]; [|contradiction]. destruct Hin as [->|[]]. right; left; reflexivity.
    - right; right. destruct (bytes_eq_dec (keccak f) (keccak m)) as [E|ND].
      + left. exists f, m. split; assumption.
      + right. exists (pub_of sk), (keccak f), (keccak m), (firstn 64 s). repeat split; assumption.
  Qed.

  (* for a 32-byte message the signature is over the message itself *)
  Theorem sign_32_is_over_raw : forall sk m s,
    length m = 32%nat -> sign sk m = Some s -> ecdsa_verify (pub_of sk) m (firstn 64 s) = true.
  Proof.
    intros sk m s Hm Hs. unfold SigWrap.sign in Hs. rewrite sign_digest_32 in Hs by exact Hm.
    apply ecdsa_correct in Hs as [_ H]. exact H.
  Qed.

  (* ... hence it is accepted for every keccak-preimage of the message *)
  Theorem sign_32_verifies_for_preimage : forall sk pre s,
    length (keccak pre) = 32%nat -> sign sk (keccak pre) = Some s -> verify (pub_of sk) pre s = true.
  Proof.
    intros sk pre s Hl Hs. pose proof Hs as Hs'. unfold SigWrap.sign in Hs'. rewrite sign_digest_32 in Hs' by exact Hl.
    apply ecdsa_correct in Hs' as [Hlen Hv].
    apply verify_complete. left. rewrite strip_v_65 by exact Hlen. exact Hv.
  Qed.

  (* ---------------------------------------------------------------- address *)

  Hypothesis keccak_len : forall x, length (keccak x) = 32%nat.

  Theorem address_def : forall pk xy,
    decompress pk = Some xy -> address pk = lastn 20 (keccak xy) /\ length (address pk) = 20%nat.
  Proof.
    intros pk xy H. unfold SigWrap.address. rewrite H. unfold lastn. rewrite keccak_len. cbn [Nat.sub].
    split; [reflexivity|]. rewrite skipn_length, keccak_len. reflexivity.
  Qed.

  Theorem address_invalid_key : forall pk, decompress pk = None -> address pk = [].
  Proof. intros pk H. unfold SigWrap.address. rewrite H. reflexivity. Qed.

  (* two keys with one address: same uncompressed key, or two keccak inputs whose hashes agree on the last 20 bytes *)
  Theorem address_binds_key : forall pk1 pk2 xy1 xy2,
    decompress pk1 = Some xy1 -> decompress pk2 = Some xy2 -> address pk1 = address pk2 ->
    xy1 = xy2 \/ (xy1 <> xy2 /\ lastn 20 (keccak xy1) = lastn 20 (keccak xy2)).
  Proof.
    intros pk1 pk2 xy1 xy2 H1 H2 HA.
    destruct (address_def _ _ H1) as [E1 _]. destruct (address_def _ _ H2) as [E2 _].
    destruct (bytes_eq_dec xy1 xy2) as [E|NE]; [left; exact E|]. right. split; [exact NE|]. congruence.
  Qed.
End SigWrapProofs.

(* ------------------------------------------------------------------ the 32-byte defect, as a refutation *)

(* "A signature produced by Sign for m is accepted only for m (or for a document whose EIP-712 rendering is m),
   unless a primitive-level event is exhibited" — for ALL primitives that are functionally correct. *)
Definition sign_binds_message_full : Prop :=
  forall (keccak : bytes -> bytes) (ecdsa_verify : bytes -> bytes -> bytes -> bool)
         (eip712_bytes : bytes -> option bytes) (ecdsa_sign : bytes -> bytes -> option bytes) (pub_of : bytes -> bytes),
    (forall sk d s, ecdsa_sign sk d = Some s -> length s = 65%nat /\ ecdsa_verify (pub_of sk) d (firstn 64 s) = true) ->
    forall sk m s m',
      sign keccak ecdsa_sign sk m = Some s -> verify keccak ecdsa_verify eip712_bytes (pub_of sk) m' s = true ->
      m' = m \/ eip712_bytes m' = Some m \/ keccak_collision keccak \/ sig_two_digests ecdsa_verify.

(* a toy world in which the hash is injective and a signature determines its digest, so that neither
   primitive-level event can occur: hash x = 7 :: x, signature of d under k = d ++ k ++ [0] *)
Definition toy_keccak (x : bytes) : bytes := 7 :: x.
Definition toy_sign (sk d : bytes) : option bytes :=
  if (length d =? 32)%nat && (length sk =? 32)%nat then Some (d ++ sk ++ [0]) else None.
Definition toy_verify (pk d s : bytes) : bool := beqb s (d ++ pk).

Lemma toy_correct : forall sk d s,
  toy_sign sk d = Some s -> length s = 65%nat /\ toy_verify sk d (firstn 64 s) = true.
Proof.
  intros sk d s H. unfold toy_sign in H.
  destruct (length d =? 32)%nat eqn:Ed; [|discriminate]. destruct (length sk =? 32)%nat eqn:Ek; [|discriminate].
  apply Nat.eqb_eq in Ed, Ek. cbn in H. inversion H; subst s; clear H. split.
  - rewrite !app_length, Ed, Ek. reflexivity.
  - unfold toy_verify. rewrite app_assoc. rewrite firstn_exact by (rewrite app_length, Ed, Ek; reflexivity).
    apply beqb_refl.
Qed.

Lemma toy_no_collision : ~ keccak_collision toy_keccak.
Proof. intros [x [y [NE E]]]. unfold toy_keccak in E. inversion E. contradiction. Qed.

Lemma toy_no_two_digests : ~ sig_two_digests toy_verify.
Proof.
  intros [pk [d1 [d2 [s [NE [H1 H2]]]]]]. unfold toy_verify in *.
  apply beqb_eq in H1, H2. subst s. apply app_inv_tail in H2. congruence.
Qed.

Theorem sign_binds_message_refuted : ~ sign_binds_message_full.
Proof.
  intros H.
  pose (sk := repeat 1 32). pose (pre := repeat 2 31). pose (m := toy_keccak pre).
  specialize (H toy_keccak toy_verify (fun _ => None) toy_sign (fun k => k) toy_correct sk m (m ++ sk ++ [0]) pre).
  destruct H as [E|[E|[C|D]]].
  - reflexivity.
  - vm_compute. reflexivity.
  - vm_compute in E. discriminate.
  - discriminate.
  - exact (toy_no_collision C).
  - exact (toy_no_two_digests D).
Qed.

(* ------------------------------------------------------------------ key encodings *)

Lemma land127_lor128 : forall a, a < 128 -> N.lor a 128 = a + 128 /\ N.land (a + 128) 127 = a.
Proof.
  intros a Ha. destruct a as [|p]; [split; reflexivity|].
  do 8 (try destruct p as [p|p|]); try (exfalso; lia); split; reflexivity.
Qed.

Lemma land127_mod : forall n, N.land n 127 = n mod 128.
Proof. intros n. change 127 with (N.ones 7). rewrite N.land_ones. reflexivity. Qed.

Lemma uvarint_f_S : forall k n,
  uvarint_f (S k) n = if n <? 128 then [n] else N.lor (N.land n 127) 128 :: uvarint_f k (N.shiftr n 7).
Proof. reflexivity. Qed.

Lemma uvarint_dec_f_cons : forall k shift acc x r,
  uvarint_dec_f (S k) shift acc (x :: r) =
  if x <? 128 then Some (acc + N.shiftl x shift, r)
  else uvarint_dec_f k (shift + 7) (acc + N.shiftl (N.land x 127) shift) r.
Proof. reflexivity. Qed.

Lemma uvarint_dec_enc_f : forall k n shift acc r,
  n < 2 ^ (7 * N.of_nat (S k)) ->
  uvarint_dec_f (S k) shift acc (uvarint_f (S k) n ++ r) = Some (acc + N.shiftl n shift, r).
Proof.
  induction k as [|k IH]; intros n shift acc r Hn.
  - change (2 ^ (7 * N.of_nat 1)) with 128 in Hn.
    rewrite uvarint_f_S. apply N.ltb_lt in Hn. rewrite Hn. cbn [app]. rewrite uvarint_dec_f_cons, Hn. reflexivity.
  - rewrite uvarint_f_S. destruct (n <? 128) eqn:E.
    + cbn [app]. rewrite uvarint_dec_f_cons, E. reflexivity.
    + apply N.ltb_ge in E.
      assert (Hm : n mod 128 < 128) by (apply N.mod_lt; lia).
      destruct (land127_lor128 (n mod 128) Hm) as [L1 L2].
      rewrite land127_mod, L1. rewrite <- app_comm_cons. rewrite uvarint_dec_f_cons.
      assert (n mod 128 + 128 <? 128 = false) as -> by (apply N.ltb_ge; lia).
      rewrite L2. rewrite IH.
      * f_equal. f_equal. rewrite !N.shiftl_mul_pow2, N.shiftr_div_pow2. change (2 ^ 7) with 128.
        rewrite N.pow_add_r. change (2 ^ 7) with 128.
        rewrite (N.div_mod' n 128) at 3. ring.
      * rewrite N.shiftr_div_pow2. change (2 ^ 7) with 128.
        replace (7 * N.of_nat (S (S k))) with (7 + 7 * N.of_nat (S k)) in Hn by lia.
        rewrite N.pow_add_r in Hn. change (2 ^ 7) with 128 in Hn.
        apply N.div_lt_upper_bound; [lia | exact Hn].
Qed.

Definition VARINT_MAX : N := 2 ^ 70.

Theorem uvarint_roundtrip : forall n r, n < VARINT_MAX -> uvarint_dec (uvarint n ++ r) = Some (n, r).
Proof.
  intros n r Hn. unfold uvarint_dec, uvarint. rewrite uvarint_dec_enc_f by exact Hn.
  rewrite N.shiftl_0_r. reflexivity.
Qed.

Lemma len_nil_iff : forall b : bytes, len b = 0 <-> b = [].
Proof. intros b. unfold len. destruct b; cbn; split; intros H; try reflexivity; try discriminate; lia. Qed.

(* protobuf: the decoder returns the key that was encoded *)
Theorem proto_roundtrip : forall key, len key < VARINT_MAX -> proto_dec (proto_enc key) = DOk key.
Proof.
  intros key Hl. destruct key as [|x key]; [reflexivity|].
  unfold proto_enc. cbv beta iota. unfold proto_dec. cbv beta iota.
  rewrite uvarint_roundtrip by exact Hl. rewrite N.eqb_refl.
  destruct (len (x :: key) =? 0) eqn:E; [|reflexivity].
  apply N.eqb_eq, len_nil_iff in E. discriminate.
Qed.

Theorem proto_enc_injective : forall k1 k2,
  len k1 < VARINT_MAX -> len k2 < VARINT_MAX -> proto_enc k1 = proto_enc k2 -> k1 = k2.
Proof.
  intros k1 k2 H1 H2 E. apply proto_roundtrip in H1, H2. rewrite E in H1. congruence.
Qed.

Lemma amino_prefix_len : forall pub, length (amino_prefix pub) = 4%nat.
Proof. intros []; reflexivity. Qed.

(* amino: decoding an encoded key is UnmarshalAmino of the key (its length check) *)
Theorem amino_roundtrip : forall pub key,
  len key < VARINT_MAX -> amino_dec pub (amino_enc pub key) = amino_unmarshal pub key.
Proof.
  intros pub key Hl. unfold amino_dec, amino_enc, amino_marshal.
  rewrite firstn_exact by apply amino_prefix_len. rewrite beqb_refl.
  rewrite skipn_exact by apply amino_prefix_len.
  rewrite uvarint_roundtrip by exact Hl. rewrite N.eqb_refl. reflexivity.
Qed.

Theorem amino_roundtrip_key : forall pub key,
  length key = key_size pub -> amino_dec pub (amino_enc pub key) = Some key.
Proof.
  intros pub key Hl. rewrite amino_roundtrip.
  - unfold amino_unmarshal. rewrite Hl, Nat.eqb_refl. reflexivity.
  - unfold len. rewrite Hl. destruct pub; reflexivity.
Qed.

Theorem amino_unmarshal_some : forall pub bz k, amino_unmarshal pub bz = Some k <-> (k = bz /\ length bz = key_size pub).
Proof.
  intros pub bz k. unfold amino_unmarshal. destruct (length bz =? key_size pub)%nat eqn:E.
  - apply Nat.eqb_eq in E. split; [intros H; inversion H; subst; split; [reflexivity | exact E] | intros [-> _]; reflexivity].
  - apply Nat.eqb_neq in E. split; [discriminate | intros [_ H]; contradiction].
Qed.

(* a private key is never decoded as a public key and vice versa: the registered names differ *)
Theorem amino_kind_separated : forall pub key, amino_dec (negb pub) (amino_enc pub key) = None.
Proof.
  intros pub key. unfold amino_dec, amino_enc.
  rewrite firstn_exact by apply amino_prefix_len. destruct pub; reflexivity.
Qed.

Theorem amino_enc_injective : forall pub k1 k2,
  length k1 = key_size pub -> length k2 = key_size pub -> amino_enc pub k1 = amino_enc pub k2 -> k1 = k2.
Proof.
  intros pub k1 k2 H1 H2 E. apply amino_roundtrip_key in H1, H2. rewrite E in H1. congruence.
Qed.

(* Generate: always a 32-byte key; a 32-byte input is the key *)
Theorem generate_length : forall bz, length (generate bz) = 32%nat.
Proof. intros bz. unfold generate. rewrite firstn_length, app_length, repeat_length. lia. Qed.

Theorem generate_id : forall bz, length bz = 32%nat -> generate bz = bz.
Proof.
  intros bz H. unfold generate. apply firstn_exact. exact H.
Qed.

(* ------------------------------------------------------------------ statements as used by Properties/C19.v *)

Lemma strip_v_spec : forall s,
  (length s = 65%nat -> strip_v s = firstn 64 s) /\ (length s <> 65%nat -> strip_v s = s).
Proof. intros s. split; [apply strip_v_65 | apply strip_v_other]. Qed.

Lemma amino_rejects_wrong_size : forall pub key,
  len key < VARINT_MAX -> length key <> key_size pub -> amino_dec pub (amino_enc pub key) = None.
Proof.
  intros pub key Hl Hs. rewrite amino_roundtrip by exact Hl. unfold amino_unmarshal.
  apply Nat.eqb_neq in Hs. rewrite Hs. reflexivity.
Qed.

Lemma encodings_injective : forall pub k1 k2,
  length k1 = key_size pub -> length k2 = key_size pub ->
  (amino_enc pub k1 = amino_enc pub k2 -> k1 = k2) /\ (proto_enc k1 = proto_enc k2 -> k1 = k2).
Proof.
  intros pub k1 k2 H1 H2. split; [apply amino_enc_injective; assumption|].
  apply proto_enc_injective; unfold len; [rewrite H1 | rewrite H2]; destruct pub; reflexivity.
Qed.

Lemma generate_spec : forall bz, length (generate bz) = 32%nat /\ (length bz = 32%nat -> generate bz = bz).
Proof. intros bz. split; [apply generate_length | apply generate_id]. Qed.
