From Evm Require Import BaseFee BaseFeeProofs BaseFeeHist.
From Coq Require Import Lia ZifyBool.
Open Scope Z_scope.
Ltac Zify.zify_post_hook ::= Z.div_mod_to_equations.

(* the invariant at a block boundary: the base fee the next block starts with is not below the
   integer part of the minimum gas price *)
Definition floor_inv (st : fstate) : Prop := f_min st / E18 <= f_base st.

(* --- the fee market end blocker establishes the invariant, whatever state it finds --- *)
Lemma calc_ge_floor b used mg md z : calc_base_fee b used mg md = Ok z -> md / E18 <= z.
Proof.
  unfold calc_base_fee.
  destruct (if gas_target mg =? 0 then Ok b else geth_calc b used (gas_target mg)) as [nb| |];
    try discriminate.
  destruct (Z.max nb (md / E18) <=? MAX256); [|discriminate].
  intros [= <-]. lia.
Qed.

Lemma fee_end_block_floor st used st' : fee_end_block st used = HOk st' -> floor_inv st'.
Proof.
  unfold fee_end_block, floor_inv.
  destruct (calc_base_fee (f_base st) used (f_mg st) (f_min st)) as [z| |] eqn:E; try discriminate.
  intros [= <-]. cbn [f_min f_base]. eapply calc_ge_floor; eassumption.
Qed.

Lemma next_height_floor st : floor_inv st -> floor_inv (next_height st).
Proof. unfold floor_inv, next_height. cbn [f_min f_base]. auto. Qed.

Lemma end_block_floor st k st' : end_block st k = HOk st' -> floor_inv st'.
Proof.
  unfold end_block.
  destruct (fee_end_block (gov_end_block st (h_props k)) (h_used k)) as [s|] eqn:E; [|discriminate].
  intros [= <-]. apply next_height_floor. eapply fee_end_block_floor; eassumption.
Qed.

(* over all histories, no hypothesis on the operations or on the initial state *)
Theorem run_hist_floor l : forall st, Forall floor_inv (fst (run_hist st l)).
Proof.
  unfold run_hist.
  induction l as [|k r IH]; intros st; cbn [run_hist_with fst]; [constructor|].
  destruct (end_block st k) as [st'|e] eqn:E; [|constructor].
  specialize (IH st').
  destruct (run_hist_with end_block st' r) as [tr e]. cbn [fst] in *.
  constructor; [eapply end_block_floor; eassumption | exact IH].
Qed.

(* --- with the fee market ahead of gov the invariant is lost --- *)
Definition floor_hist_fee_first_full : Prop :=
  forall st l, floor_inv st -> Forall floor_inv (fst (run_hist_fee_first st l)).

(* the default parameters, an empty block in which a proposal raising the minimum gas price
   (and carrying the base fee current when it was written) is executed *)
Definition order_witness_state : fstate := mkF 1000000000 (1000000000 * E18) 40000000 40000000.
Definition order_witness_block : hblock :=
  mkB 0 [[GSetFee 1000000000 (5000000000 * E18)]] [].

Theorem floor_hist_fee_first_refuted : ~ floor_hist_fee_first_full.
Proof.
  intros H.
  specialize (H order_witness_state [order_witness_block]).
  assert (fst (run_hist_fee_first order_witness_state [order_witness_block]) =
          [mkF 1000000000 (5000000000 * E18) 40000000 40000000]) as Htr by (vm_compute; reflexivity).
  rewrite Htr in H.
  assert (floor_inv order_witness_state) as Hi.
  { unfold floor_inv, order_witness_state. cbn [f_min f_base]. rewrite Z.div_mul by discriminate. lia. }
  specialize (H Hi).
  apply Forall_inv in H as Hbad. unfold floor_inv in Hbad. cbn [f_min f_base] in Hbad.
  rewrite Z.div_mul in Hbad by discriminate. lia.
Qed.

(* the same history in the order of the code keeps it *)
Example order_witness_gov_first :
  fst (run_hist order_witness_state [order_witness_block]) =
    [mkF 5000000000 (5000000000 * E18) 40000000 40000000].
Proof. vm_compute. reflexivity. Qed.

(* --- governance cannot touch the max_gas of the block in progress, keeps well-formedness --- *)
Definition wf (st : fstate) : Prop := 0 <= f_base st /\ -1 <= f_mg st /\ -1 <= f_mg_next st.

Lemma apply_govop_mg st o : f_mg (apply_govop st o) = f_mg st.
Proof. destruct o; reflexivity. Qed.

Lemma fold_govop_mg p : forall st, f_mg (fold_left apply_govop p st) = f_mg st.
Proof.
  induction p as [|o p IH]; intros st; cbn [fold_left]; [reflexivity|].
  rewrite IH. apply apply_govop_mg.
Qed.

Lemma apply_proposal_mg st p : f_mg (apply_proposal st p) = f_mg st.
Proof. unfold apply_proposal. destruct (forallb govop_valid p); [apply fold_govop_mg|reflexivity]. Qed.

Lemma gov_end_block_mg ps : forall st, f_mg (gov_end_block st ps) = f_mg st.
Proof.
  unfold gov_end_block.
  induction ps as [|p ps IH]; intros st; cbn [fold_left]; [reflexivity|].
  rewrite IH. apply apply_proposal_mg.
Qed.

Lemma fold_govop_wf p : forall st, forallb govop_valid p = true -> wf st -> wf (fold_left apply_govop p st).
Proof.
  induction p as [|o p IH]; intros st Hv Hw; cbn [fold_left]; [exact Hw|].
  cbn [forallb] in Hv. apply andb_prop in Hv as [Ho Hp].
  apply IH; [exact Hp|].
  destruct Hw as (Hb & Hm & Hn).
  destruct o as [b md|mg]; unfold wf; cbn [apply_govop f_base f_mg f_mg_next govop_valid] in *; lia.
Qed.

Lemma apply_proposal_wf st p : wf st -> wf (apply_proposal st p).
Proof.
  intros Hw. unfold apply_proposal.
  destruct (forallb govop_valid p) eqn:E; [apply fold_govop_wf; assumption|exact Hw].
Qed.

Lemma gov_end_block_wf ps : forall st, wf st -> wf (gov_end_block st ps).
Proof.
  unfold gov_end_block.
  induction ps as [|p ps IH]; intros st Hw; cbn [fold_left]; [exact Hw|].
  apply IH. apply apply_proposal_wf. exact Hw.
Qed.

(* --- one block: the new base fee is the EIP-1559 function of the base fee the fee market finds
       (after gov), the gas used and the target of the max_gas the block ran under, clamped --- *)
Theorem end_block_is_eip1559 st k st' :
  -1 <= f_mg st -> end_block st k = HOk st' ->
  let g := gov_end_block st (h_props k) in
  let t := gas_target (f_mg st) in
  f_base st' = Z.max (if t =? 0 then f_base g else eip1559_spec (f_base g) (h_used k) t) (f_min g / E18)
  /\ f_min st' = f_min g /\ f_mg st' = f_mg_next g /\ f_mg_next st' = f_mg_next g.
Proof.
  intros Hmg. unfold end_block, fee_end_block.
  pose proof (gov_end_block_mg (h_props k) st) as Hg.
  destruct (calc_base_fee _ _ _ _) as [z| |] eqn:E; try discriminate.
  intros [= <-]. cbn zeta. cbn [next_height f_base f_min f_mg f_mg_next].
  rewrite Hg in E. apply calc_result in E; [|exact Hmg].
  unfold spec_next in E. cbn zeta in E. auto.
Qed.

Lemma end_block_wf st k st' : wf st -> 0 <= h_used k -> end_block st k = HOk st' -> wf st'.
Proof.
  intros Hw Hu He.
  pose proof (gov_end_block_wf (h_props k) st Hw) as (Hb & Hm & Hn).
  pose proof (gov_end_block_mg (h_props k) st) as Hg.
  destruct Hw as (_ & Hmg & _).
  pose proof (end_block_is_eip1559 st k st' Hmg He) as (E1 & _ & E3 & E4). cbn zeta in *.
  unfold wf. rewrite E3, E4. split; [|lia].
  rewrite E1.
  pose proof (gas_target_nonneg (f_mg st) Hmg) as Ht.
  destruct (gas_target (f_mg st) =? 0) eqn:Ez; [lia|].
  pose proof (eip_nonneg (f_base (gov_end_block st (h_props k))) (h_used k) (gas_target (f_mg st)) Hb ltac:(lia) Hu).
  lia.
Qed.

Lemma end_block_never_divzero st k : -1 <= f_mg st -> end_block st k <> HPanic PanicDivZero.
Proof.
  intros Hmg. unfold end_block, fee_end_block.
  rewrite (gov_end_block_mg (h_props k) st).
  destruct (calc_base_fee _ _ _ _) as [z| |] eqn:E; try discriminate.
  exfalso. revert E. apply calc_never_divzero. exact Hmg.
Qed.

(* over all histories: never negative, never a division by zero *)
Theorem run_hist_nonneg l : forall st,
  wf st -> Forall (fun k => 0 <= h_used k) l ->
  Forall (fun s => 0 <= f_base s) (fst (run_hist st l)) /\ snd (run_hist st l) <> Some PanicDivZero.
Proof.
  unfold run_hist.
  induction l as [|k r IH]; intros st Hw Hu; cbn [run_hist_with fst snd].
  - split; [constructor|discriminate].
  - inversion Hu as [|? ? Hk Hr]; subst.
    destruct (end_block st k) as [st'|e] eqn:E.
    + pose proof (end_block_wf st k st' Hw Hk E) as Hw'.
      specialize (IH st' Hw' Hr).
      destruct (run_hist_with end_block st' r) as [tr e]. cbn [fst snd] in *.
      destruct IH as [IH1 IH2]. split; [|exact IH2].
      constructor; [apply Hw'|exact IH1].
    + cbn [fst snd]. split; [constructor|].
      intros [= ->]. revert E. apply end_block_never_divzero. apply Hw.
Qed.

(* --- every transaction executed anywhere in a history paid at least the base fee and the
       integer part of the minimum gas price of the state it ran against --- *)
Theorem hist_executed_bound l : forall st,
  Forall (fun x => Z.max (f_base (fst x)) (f_min (fst x) / E18) <= ptx_eff (fst x) (snd x))
         (hist_executed st l).
Proof.
  induction l as [|k r IH]; intros st; cbn [hist_executed]; [constructor|].
  apply Forall_app. split.
  - apply Forall_forall. intros [s t] Hin.
    apply in_map_iff in Hin as (t' & [= <- <-] & Hf).
    apply filter_In in Hf as [_ Ha].
    unfold ptx_admitted in Ha. apply price_bound in Ha. cbn [fst snd]. unfold ptx_eff. lia.
  - destruct (end_block st k); [apply IH|constructor].
Qed.

(* a block that executes a rise of the minimum gas price is followed by blocks in which nothing
   below the NEW minimum is executed: the state in hist_executed is the committed one *)
Example executed_after_rise :
  let l := [mkB 0 [[GSetFee 1000000000 (5000000000 * E18)]] [mkP false 0 0 1000000000];
            mkB 0 [] [mkP false 0 0 4999999999; mkP false 0 0 5000000000; mkP true 0 5000000000 0]] in
  map (fun x => ptx_eff (fst x) (snd x)) (hist_executed order_witness_state l)
    = [1000000000; 5000000000; 5000000000].
Proof. vm_compute. reflexivity. Qed.
