(* Proofs about the multi-denomination layer Model/TxPipeDenom.v (C04: "for every denomination ..."). *)
From Evm Require Import TxPipe TxPipeDenom TxPipeProofs.
From Coq Require Import Lia ZifyBool.
Open Scope Z_scope.

(* ------------------------------------------------------------------ ledgers up to extensional equality *)
Definition ledger_eq (L L' : ledger) : Prop :=
  (forall d x, l_bal L d x = l_bal L' d x) /\ (forall d, l_supply L d = l_supply L' d).

Lemma ledger_eq_refl L : ledger_eq L L.
Proof. split; reflexivity. Qed.

Lemma ledger_eq_trans L1 L2 L3 : ledger_eq L1 L2 -> ledger_eq L2 L3 -> ledger_eq L1 L3.
Proof. intros [A B] [C D]. split; intros; [rewrite A; apply C|rewrite B; apply D]. Qed.

Lemma burn_all_eq L L' a : ledger_eq L L' -> ledger_eq (burn_all L a) (burn_all L' a).
Proof.
  intros [A B]. split; cbn [burn_all l_bal l_supply]; intros.
  - destruct (x =? a); [reflexivity|apply A].
  - rewrite A, B. reflexivity.
Qed.

Lemma commit_destroy_eq l : forall L L', ledger_eq L L' -> ledger_eq (commit_destroy L l) (commit_destroy L' l).
Proof.
  unfold commit_destroy. induction l as [|a r IH]; intros L L' H; cbn [fold_left]; [exact H|].
  apply IH. apply burn_all_eq. exact H.
Qed.

(* ------------------------------------------------------------------ CreateAccount carries every denomination over *)
Lemma create_account_id L a : ledger_eq (create_account L a) L.
Proof.
  split; unfold create_account; cbn [mint_coins burn_all l_bal l_supply]; intros.
  - destruct (x =? a) eqn:E; [|reflexivity]. assert (x = a) by lia. subst. lia.
  - lia.
Qed.

Lemma create_account_eq L L' a : ledger_eq L L' -> ledger_eq (create_account L a) (create_account L' a).
Proof.
  intros H. eapply ledger_eq_trans; [apply create_account_id|].
  eapply ledger_eq_trans; [exact H|]. destruct (create_account_id L' a) as [A B]. split; intros; [rewrite A|rewrite B]; reflexivity.
Qed.

Lemma creates_id l : forall L, ledger_eq (fold_left create_account l L) L.
Proof.
  induction l as [|a r IH]; intros L; cbn [fold_left]; [apply ledger_eq_refl|].
  eapply ledger_eq_trans; [apply IH|apply create_account_id].
Qed.

(* ------------------------------------------------------------------ CommitMultiStore's deletions *)
(* what the deletions destroy of denomination d: the balance of every listed account, each account once *)
Fixpoint destroyed_sum (L : ledger) (l : list addr) (d : denom) : Z :=
  match l with [] => 0 | a :: r => l_bal L d a + destroyed_sum (burn_all L a) r d end.

Lemma destroyed_sum_eq l : forall L L' d, ledger_eq L L' -> destroyed_sum L l d = destroyed_sum L' l d.
Proof.
  induction l as [|a r IH]; intros L L' d H; cbn [destroyed_sum]; [reflexivity|].
  rewrite (IH _ (burn_all L' a)) by (apply burn_all_eq; exact H). destruct H as [A _]. rewrite A. reflexivity.
Qed.

Lemma destroyed_sum_nodup l : forall L d, NoDup l -> destroyed_sum L l d = total l (l_bal L d).
Proof.
  induction l as [|a r IH]; intros L d Hnd; cbn [destroyed_sum total]; [reflexivity|].
  inversion Hnd as [|? ? Hna Hr]; subst. rewrite IH by assumption. f_equal.
  apply total_ext. intros x Hx. cbn [burn_all l_bal].
  destruct (x =? a) eqn:E; [|reflexivity]. assert (x = a) by lia. subst. contradiction.
Qed.

Lemma commit_destroy_supply l : forall L d,
  l_supply (commit_destroy L l) d = l_supply L d - destroyed_sum L l d.
Proof.
  unfold commit_destroy. induction l as [|a r IH]; intros L d; cbn [fold_left destroyed_sum]; [lia|].
  rewrite IH. cbn [burn_all l_supply]. lia.
Qed.

Definition mem (a : addr) (l : list addr) : bool := existsb (Z.eqb a) l.

Lemma mem_In a l : mem a l = true <-> In a l.
Proof.
  unfold mem. rewrite existsb_exists. split.
  - intros [x [Hx E]]. assert (a = x) by lia. subst. exact Hx.
  - intros H. exists a. split; [exact H|apply Z.eqb_refl].
Qed.

Lemma commit_destroy_bal l : forall L d x,
  l_bal (commit_destroy L l) d x = if mem x l then 0 else l_bal L d x.
Proof.
  unfold commit_destroy, mem. induction l as [|a r IH]; intros L d x; cbn [fold_left existsb]; [reflexivity|].
  rewrite IH. cbn [burn_all l_bal]. destruct (x =? a); cbn [orb]; [|reflexivity].
  destruct (existsb (Z.eqb x) r); reflexivity.
Qed.

Lemma total_burn_all l L a d : NoDup l -> In a l ->
  total l (l_bal (burn_all L a) d) = total l (l_bal L d) - l_bal L d a.
Proof.
  intros Hnd Hin.
  rewrite (total_ext l _ (add_to (l_bal L d) a (- l_bal L d a))).
  - rewrite total_add_to by assumption. lia.
  - intros x _. cbn [burn_all l_bal]. unfold add_to, upd. destruct (x =? a); lia.
Qed.

(* the balances of ANY duplicate-free universe containing the deleted accounts fall by exactly what the supply falls *)
Lemma commit_destroy_total ds : forall L l d, NoDup l -> incl ds l ->
  total l (l_bal (commit_destroy L ds) d) - total l (l_bal L d) = l_supply (commit_destroy L ds) d - l_supply L d.
Proof.
  unfold commit_destroy. induction ds as [|a r IH]; intros L l d Hnd Hin; cbn [fold_left]; [lia|].
  assert (Ha : In a l) by (apply Hin; left; reflexivity).
  assert (Hr : incl r l) by (intros y Hy; apply Hin; right; exact Hy).
  specialize (IH (burn_all L a) l d Hnd Hr).
  rewrite total_burn_all in IH by assumption. cbn [burn_all l_supply] in IH. lia.
Qed.

(* ------------------------------------------------------------------ a successful execution on the other denominations *)
Lemma exec_other_eq L x : ledger_eq (exec_other L x) (commit_destroy L (x_destroyed x)).
Proof. unfold exec_other. apply commit_destroy_eq. apply creates_id. Qed.

Lemma exec_other_supply L x d :
  l_supply (exec_other L x) d = l_supply L d - destroyed_sum L (x_destroyed x) d.
Proof. destruct (exec_other_eq L x) as [_ B]. rewrite B. apply commit_destroy_supply. Qed.

Lemma exec_other_bal L x d a :
  l_bal (exec_other L x) d a = if mem a (x_destroyed x) then 0 else l_bal L d a.
Proof. destruct (exec_other_eq L x) as [A _]. rewrite A. apply commit_destroy_bal. Qed.

(* ------------------------------------------------------------------ one Ethereum transaction, every denomination *)
Lemma ddeliver_unfold s t o x :
  ddeliver s t o x =
  (mkDst (fst (deliver (d_core s) t o))
         (match r_out (snd (deliver (d_core s) t o)) with
          | Executed false => exec_other (d_other s) x
          | _ => d_other s
          end), snd (deliver (d_core s) t o)).
Proof. unfold ddeliver. destruct (deliver (d_core s) t o). reflexivity. Qed.

Lemma ddeliver_core s t o x : d_core (fst (ddeliver s t o x)) = fst (deliver (d_core s) t o).
Proof. rewrite ddeliver_unfold. reflexivity. Qed.

Lemma ddeliver_res s t o x : snd (ddeliver s t o x) = snd (deliver (d_core s) t o).
Proof. rewrite ddeliver_unfold. reflexivity. Qed.

(* amount of denomination d explicitly destroyed by the transaction: for the EVM denomination what the interpreter
   destroyed (self-destructs naming themselves, balances left on deleted accounts: TxPipe.e_burn), for every other
   denomination the balances of the accounts deleted at the end of a committed successful execution *)
Definition destroyed_d (s : dst) (t : txd) (o : evm_out) (x : devm) (d : denom) : Z :=
  match r_out (snd (deliver (d_core s) t o)) with
  | Executed false => if d =? EVM_DENOM then e_burn o else destroyed_sum (d_other s) (x_destroyed x) d
  | _ => 0
  end.

Lemma denom_supply_step s t o x d :
  supply_d (fst (ddeliver s t o x)) d = supply_d s d - destroyed_d s t o x d.
Proof.
  unfold supply_d, destroyed_d. rewrite ddeliver_unfold. cbn [fst d_core d_other].
  destruct (d =? EVM_DENOM).
  - rewrite supply_step. destruct (r_out (snd (deliver (d_core s) t o))) as [| | | |[|]]; reflexivity.
  - destruct (r_out (snd (deliver (d_core s) t o))) as [| | | |[|]]; try lia.
    apply exec_other_supply.
Qed.

(* every balance in another denomination, in every outcome *)
Lemma other_denoms_kept s t o x d a : d <> EVM_DENOM ->
  bal_d (fst (ddeliver s t o x)) d a =
  match r_out (snd (ddeliver s t o x)) with
  | Executed false => if mem a (x_destroyed x) then 0 else bal_d s d a
  | _ => bal_d s d a
  end.
Proof.
  intros Hd. unfold bal_d. rewrite ddeliver_unfold. cbn [fst snd d_core d_other].
  destruct (d =? EVM_DENOM) eqn:E; [unfold EVM_DENOM in *; lia|].
  destruct (r_out (snd (deliver (d_core s) t o))) as [| | | |[|]]; try reflexivity.
  apply exec_other_bal.
Qed.

(* fee handling (ante deduction, refund, fee-collector burn) never reaches another denomination: whatever the outcome,
   an account that is not deleted keeps its balance; without a committed successful execution nothing changes at all *)
Lemma other_denoms_untouched_by_fees s t o x d a : d <> EVM_DENOM ->
  r_out (snd (ddeliver s t o x)) <> Executed false \/ ~ In a (x_destroyed x) ->
  bal_d (fst (ddeliver s t o x)) d a = bal_d s d a.
Proof.
  intros Hd H. rewrite other_denoms_kept by exact Hd.
  destruct (r_out (snd (ddeliver s t o x))) as [| | | |[|]]; try reflexivity.
  destruct H as [H|H]; [congruence|].
  destruct (mem a (x_destroyed x)) eqn:E; [|reflexivity]. apply mem_In in E. contradiction.
Qed.

Lemma other_denoms_supply_unless_success s t o x d : d <> EVM_DENOM ->
  r_out (snd (ddeliver s t o x)) <> Executed false ->
  supply_d (fst (ddeliver s t o x)) d = supply_d s d.
Proof.
  intros Hd H. rewrite denom_supply_step. unfold destroyed_d. rewrite ddeliver_res in H.
  destruct (r_out (snd (deliver (d_core s) t o))) as [| | | |[|]]; try lia. congruence.
Qed.

(* balances of any universe follow the supply, per denomination *)
Lemma denom_balances_follow_supply s t o x l d :
  (e_vmerr o = false -> sum_moves (e_moves o) = - e_burn o) ->
  NoDup l -> In (t_from t) l -> In FEE_COLLECTOR l -> (forall p, In p (e_moves o) -> In (fst p) l) ->
  incl (x_destroyed x) l ->
  total l (bal_d (fst (ddeliver s t o x)) d) - total l (bal_d s d) =
  supply_d (fst (ddeliver s t o x)) d - supply_d s d.
Proof.
  intros Hc Hnd Hs Hf Hm Hin.
  destruct (d =? EVM_DENOM) eqn:E.
  - rewrite (total_ext l (bal_d (fst (ddeliver s t o x)) d) (bal (fst (deliver (d_core s) t o)))).
    2:{ intros a _. unfold bal_d. rewrite E, ddeliver_core. reflexivity. }
    rewrite (total_ext l (bal_d s d) (bal (d_core s))).
    2:{ intros a _. unfold bal_d. rewrite E. reflexivity. }
    unfold supply_d. rewrite E, ddeliver_core. apply balances_follow_supply; assumption.
  - rewrite (total_ext l (bal_d (fst (ddeliver s t o x)) d) (l_bal (d_other (fst (ddeliver s t o x))) d)).
    2:{ intros a _. unfold bal_d. rewrite E. reflexivity. }
    rewrite (total_ext l (bal_d s d) (l_bal (d_other s) d)).
    2:{ intros a _. unfold bal_d. rewrite E. reflexivity. }
    unfold supply_d. rewrite E. rewrite ddeliver_unfold. cbn [fst d_other].
    destruct (r_out (snd (deliver (d_core s) t o))) as [| | | |[|]]; try lia.
    destruct (exec_other_eq (d_other s) x) as [A B].
    rewrite (total_ext l (l_bal (exec_other (d_other s) x) d) (l_bal (commit_destroy (d_other s) (x_destroyed x)) d))
      by (intros a _; apply A).
    rewrite B. apply commit_destroy_total; assumption.
Qed.

(* ------------------------------------------------------------------ bank sends *)
Definition nonneg (L : ledger) : Prop := forall d a, 0 <= l_bal L d a.

Lemma burn_all_nonneg L a : nonneg L -> nonneg (burn_all L a).
Proof. intros H d x. cbn [burn_all l_bal]. destruct (x =? a); [lia|apply H]. Qed.

Lemma commit_destroy_nonneg l : forall L, nonneg L -> nonneg (commit_destroy L l).
Proof.
  unfold commit_destroy. induction l as [|a r IH]; intros L H; cbn [fold_left]; [exact H|].
  apply IH. apply burn_all_nonneg. exact H.
Qed.

Lemma exec_other_nonneg L x : nonneg L -> nonneg (exec_other L x).
Proof.
  intros H d a. rewrite exec_other_bal. destruct (mem a (x_destroyed x)); [lia|apply H].
Qed.

Lemma destroyed_sum_nonneg l : forall L d, nonneg L -> 0 <= destroyed_sum L l d.
Proof.
  induction l as [|a r IH]; intros L d H; cbn [destroyed_sum]; [lia|].
  specialize (IH (burn_all L a) d (burn_all_nonneg L a H)). specialize (H d a). lia.
Qed.

Lemma send_one_spec L m L' : send_one L m = Some L' ->
  0 < s_amt m /\ s_amt m <= l_bal L (s_denom m) (s_from m) /\
  (forall d, l_supply L' d = l_supply L d) /\
  (forall d x, l_bal L' d x = l_bal L d x
                 + (if (d =? s_denom m) && (x =? s_to m) then s_amt m else 0)
                 - (if (d =? s_denom m) && (x =? s_from m) then s_amt m else 0)).
Proof.
  unfold send_one. destruct ((s_amt m <=? 0) || (l_bal L (s_denom m) (s_from m) <? s_amt m)) eqn:E; [discriminate|].
  intros H. injection H as <-. cbn [l_bal l_supply].
  repeat split; try lia.
  intros d x. destruct ((d =? s_denom m) && (x =? s_to m)); destruct ((d =? s_denom m) && (x =? s_from m)); lia.
Qed.

Lemma send_one_nonneg L m L' : nonneg L -> send_one L m = Some L' -> nonneg L'.
Proof.
  intros Hn H. destruct (send_one_spec L m L' H) as (Hp & Hle & _ & Hb). intros d x. rewrite Hb.
  specialize (Hn d x).
  destruct ((d =? s_denom m) && (x =? s_to m)) eqn:E1; destruct ((d =? s_denom m) && (x =? s_from m)) eqn:E2; try lia.
  all: assert (d = s_denom m /\ x = s_from m) as [-> ->] by lia; lia.
Qed.

Lemma send_all_supply l : forall L L' d, send_all L l = Some L' -> l_supply L' d = l_supply L d.
Proof.
  induction l as [|m r IH]; intros L L' d H; cbn [send_all] in H.
  - injection H as <-. reflexivity.
  - destruct (send_one L m) as [L1|] eqn:E; [|discriminate].
    rewrite (IH _ _ d H). destruct (send_one_spec L m L1 E) as (_ & _ & Hs & _). apply Hs.
Qed.

Lemma send_all_nonneg l : forall L L', nonneg L -> send_all L l = Some L' -> nonneg L'.
Proof.
  induction l as [|m r IH]; intros L L' Hn H; cbn [send_all] in H.
  - injection H as <-. exact Hn.
  - destruct (send_one L m) as [L1|] eqn:E; [|discriminate].
    eapply IH; [|exact H]. eapply send_one_nonneg; eassumption.
Qed.

Lemma total_point l : forall (a : addr) (v : Z), NoDup l -> In a l ->
  total l (fun x => if x =? a then v else 0) = v.
Proof.
  induction l as [|y r IH]; intros a v Hnd Hin; [inversion Hin|].
  inversion Hnd as [|? ? Hny Hr]; subst. cbn [total]. destruct Hin as [->|Hin].
  - rewrite Z.eqb_refl. rewrite (total_ext r _ (fun _ => 0)).
    + assert (forall l0, total l0 (fun _ : addr => 0) = 0) as Hz by (induction l0; cbn [total]; lia). rewrite Hz. lia.
    + intros x Hx. destruct (x =? a) eqn:E; [|reflexivity]. assert (x = a) by lia. subst. contradiction.
  - destruct (y =? a) eqn:E; [assert (y = a) by lia; subst; contradiction|]. rewrite IH by assumption. lia.
Qed.

Lemma total_plus l f g : total l (fun x => f x + g x) = total l f + total l g.
Proof. induction l as [|a r IH]; cbn [total]; lia. Qed.

Lemma send_one_total L m L' l d : NoDup l -> In (s_from m) l -> In (s_to m) l ->
  send_one L m = Some L' -> total l (l_bal L' d) = total l (l_bal L d).
Proof.
  intros Hnd Hf Ht H. destruct (send_one_spec L m L' H) as (_ & _ & _ & Hb).
  rewrite (total_ext l (l_bal L' d)
     (fun x => (l_bal L d x + (fun x => if x =? s_to m then (if d =? s_denom m then s_amt m else 0) else 0) x)
               + (fun x => if x =? s_from m then (if d =? s_denom m then - s_amt m else 0) else 0) x)).
  - rewrite !total_plus. rewrite !total_point by assumption. destruct (d =? s_denom m); lia.
  - intros x _. rewrite Hb. destruct (d =? s_denom m); destruct (x =? s_to m); destruct (x =? s_from m); cbn [andb]; lia.
Qed.

Lemma send_all_total l0 : forall L L' l d, NoDup l ->
  (forall m, In m l0 -> In (s_from m) l /\ In (s_to m) l) ->
  send_all L l0 = Some L' -> total l (l_bal L' d) = total l (l_bal L d).
Proof.
  induction l0 as [|m r IH]; intros L L' l d Hnd Hin H; cbn [send_all] in H.
  - injection H as <-. reflexivity.
  - destruct (send_one L m) as [L1|] eqn:E; [|discriminate].
    rewrite (IH L1 L' l d Hnd); [|intros q Hq; apply Hin; right; exact Hq|exact H].
    destruct (Hin m (or_introl eq_refl)) as [Hf Ht]. eapply send_one_total; eassumption.
Qed.

(* ------------------------------------------------------------------ items and histories *)
Lemma dstep_core s i : d_core (fst (dstep s i)) = fst (step (d_core s) (core_item i)).
Proof.
  destruct i as [t o x|g p f inc ok sends]; cbn [dstep core_item].
  - destruct (ddeliver s t o x) as [s' r] eqn:E. cbn [fst].
    pose proof (ddeliver_core s t o x) as H. rewrite E in H. cbn [fst] in H. rewrite H.
    cbn [step]. destruct (deliver (d_core s) t o). reflexivity.
  - destruct (step (d_core s) (Cosmos g p f inc)) as [c rs]. reflexivity.
Qed.

Lemma dstep_res s i : snd (dstep s i) = snd (step (d_core s) (core_item i)).
Proof.
  destruct i as [t o x|g p f inc ok sends]; cbn [dstep core_item].
  - destruct (ddeliver s t o x) as [s' r] eqn:E. cbn [snd].
    pose proof (ddeliver_res s t o x) as H. rewrite E in H. cbn [snd] in H. rewrite H.
    cbn [step]. destruct (deliver (d_core s) t o). reflexivity.
  - destruct (step (d_core s) (Cosmos g p f inc)) as [c rs]. reflexivity.
Qed.

Fixpoint dfinal (s : dst) (l : list ditem) : dst :=
  match l with [] => s | i :: r => dfinal (fst (dstep s i)) r end.

Lemma drun_final s l : fst (drun s l) = dfinal s l.
Proof.
  revert s; induction l as [|i r IH]; intros s; cbn [drun dfinal]; [reflexivity|].
  destruct (dstep s i) as [s1 r1] eqn:E1. destruct (drun s1 r) as [s2 r2] eqn:E2.
  cbn. rewrite <- IH, E2. reflexivity.
Qed.

(* the EVM-denomination projection of a history is the TxPipe history: every theorem about TxPipe.run / final / trace
   (C04 C05 C06 C13) applies to the multi-denomination histories as well *)
Theorem dfinal_core l : forall s, d_core (dfinal s l) = final (d_core s) (map core_item l).
Proof.
  induction l as [|i r IH]; intros s; cbn [dfinal final map]; [reflexivity|].
  rewrite IH, dstep_core. reflexivity.
Qed.

Theorem drun_results l : forall s, snd (drun s l) = snd (run (d_core s) (map core_item l)).
Proof.
  induction l as [|i r IH]; intros s; cbn [drun run map]; [reflexivity|].
  pose proof (dstep_core s i) as Hc. pose proof (dstep_res s i) as Hr.
  destruct (dstep s i) as [s1 r1]. destruct (step (d_core s) (core_item i)) as [c1 q1]. cbn [fst snd] in *. subst.
  specialize (IH s1). destruct (drun s1 r) as [s2 r2]. destruct (run (d_core s1) (map core_item r)) as [c2 q2].
  cbn [snd] in *. subst. reflexivity.
Qed.

Definition item_destroyed (s : dst) (i : ditem) (d : denom) : Z :=
  match i with DEth t o x => destroyed_d s t o x d | DCosmos _ _ _ _ _ _ => 0 end.

Fixpoint destroyed_hist (s : dst) (l : list ditem) (d : denom) : Z :=
  match l with [] => 0 | i :: r => item_destroyed s i d + destroyed_hist (fst (dstep s i)) r d end.

Lemma dstep_supply s i d : supply_d (fst (dstep s i)) d = supply_d s d - item_destroyed s i d.
Proof.
  destruct i as [t o x|g p f inc ok sends]; cbn [dstep item_destroyed].
  - pose proof (denom_supply_step s t o x d) as H. destruct (ddeliver s t o x). exact H.
  - pose proof (step_cosmos_supply (d_core s) g p f inc) as Hs.
    destruct (step (d_core s) (Cosmos g p f inc)) as [c rs]. cbn [fst] in *.
    unfold supply_d. cbn [d_core d_other]. destruct (d =? EVM_DENOM); [lia|].
    destruct ok; [|lia]. destruct (send_all (d_other s) sends) as [L|] eqn:E; [|lia].
    rewrite (send_all_supply _ _ _ d E). lia.
Qed.

(* C04 over all histories, every denomination: the supply falls by exactly the explicit destructions *)
Theorem denom_supply_history l : forall s d,
  supply_d (dfinal s l) d = supply_d s d - destroyed_hist s l d.
Proof.
  induction l as [|i r IH]; intros s d; cbn [dfinal destroyed_hist]; [lia|].
  rewrite IH, dstep_supply. lia.
Qed.

Lemma dstep_nonneg s i : nonneg (d_other s) -> nonneg (d_other (fst (dstep s i))).
Proof.
  intros H. destruct i as [t o x|g p f inc ok sends]; cbn [dstep].
  - pose proof (ddeliver_unfold s t o x) as E. destruct (ddeliver s t o x) as [s' r]. injection E as -> _.
    cbn [fst d_other]. destruct (r_out (snd (deliver (d_core s) t o))) as [| | | |[|]]; try exact H.
    apply exec_other_nonneg. exact H.
  - destruct (step (d_core s) (Cosmos g p f inc)) as [c rs]. cbn [fst d_other].
    destruct ok; [|exact H]. destruct (send_all (d_other s) sends) as [L|] eqn:E; [|exact H].
    eapply send_all_nonneg; eassumption.
Qed.

Definition burns_nonneg (l : list ditem) : Prop := forall t o x, In (DEth t o x) l -> 0 <= e_burn o.

Lemma item_destroyed_nonneg s i d : nonneg (d_other s) ->
  (forall t o x, i = DEth t o x -> 0 <= e_burn o) -> 0 <= item_destroyed s i d.
Proof.
  intros Hn Hb. destruct i as [t o x|]; cbn [item_destroyed]; [|lia].
  unfold destroyed_d. destruct (r_out (snd (deliver (d_core s) t o))) as [| | | |[|]]; try lia.
  destruct (d =? EVM_DENOM); [apply (Hb t o x eq_refl)|apply destroyed_sum_nonneg; exact Hn].
Qed.

Theorem denom_supply_never_grows l : forall s d,
  nonneg (d_other s) -> burns_nonneg l -> supply_d (dfinal s l) d <= supply_d s d.
Proof.
  induction l as [|i r IH]; intros s d Hn Hb; cbn [dfinal]; [lia|].
  assert (H1 : supply_d (dfinal (fst (dstep s i)) r) d <= supply_d (fst (dstep s i)) d).
  { apply IH; [apply dstep_nonneg; exact Hn|]. intros t o x Hin. apply (Hb t o x). right. exact Hin. }
  rewrite dstep_supply in H1.
  assert (0 <= item_destroyed s i d).
  { apply item_destroyed_nonneg; [exact Hn|]. intros t o x ->. apply (Hb t o x). left. reflexivity. }
  lia.
Qed.

(* other denominations over a history without a committed successful execution that deletes accounts: untouched supply *)
Lemma nonneg_history l : forall s, nonneg (d_other s) -> nonneg (d_other (dfinal s l)).
Proof.
  induction l as [|i r IH]; intros s H; cbn [dfinal]; [exact H|]. apply IH. apply dstep_nonneg. exact H.
Qed.

(* a Cosmos item: no denomination's supply moves, and over a universe containing the parties of its sends the
   balances of every other denomination keep their total *)
Lemma cosmos_conserves s g p f inc ok sends l d : d <> EVM_DENOM -> NoDup l ->
  (forall m, In m sends -> In (s_from m) l /\ In (s_to m) l) ->
  total l (bal_d (fst (dstep s (DCosmos g p f inc ok sends))) d) = total l (bal_d s d) /\
  supply_d (fst (dstep s (DCosmos g p f inc ok sends))) d = supply_d s d.
Proof.
  intros Hd Hnd Hin. split; [|rewrite dstep_supply; cbn [item_destroyed]; lia].
  cbn [dstep]. destruct (step (d_core s) (Cosmos g p f inc)) as [c rs]. cbn [fst].
  apply Z.eqb_neq in Hd.
  rewrite (total_ext l (bal_d _ d) (l_bal (if ok then match send_all (d_other s) sends with Some L => L | None => d_other s end else d_other s) d))
    by (intros a _; unfold bal_d; cbn [d_other]; rewrite Hd; reflexivity).
  rewrite (total_ext l (bal_d s d) (l_bal (d_other s) d)) by (intros a _; unfold bal_d; rewrite Hd; reflexivity).
  destruct ok; [|reflexivity]. destruct (send_all (d_other s) sends) as [L|] eqn:E; [|reflexivity].
  eapply send_all_total; eassumption.
Qed.

(* ================================================================== histories with aborted executions (TxPipeDenom.xitem)
   The histories the blocks driver checks contain, beside the items above, Ethereum transactions whose execution is aborted
   by a panic (Model/TxPipeExt.v deliver_panic).  Everything proved about histories - supply per denomination, sequences,
   no replay, numbering - is proved again for them; a history without such a transaction is a special case
   (xfinal_embeds / xtrace_embeds). *)
Fixpoint xfinal (s : dst) (l : list xitem) : dst :=
  match l with [] => s | i :: r => xfinal (fst (xstep s i)) r end.

Lemma xrun_final s l : fst (xrun s l) = xfinal s l.
Proof.
  revert s; induction l as [|i r IH]; intros s; cbn [xrun xfinal]; [reflexivity|].
  destruct (xstep s i) as [s1 r1] eqn:E1. destruct (xrun s1 r) as [s2 r2] eqn:E2.
  cbn. rewrite <- IH, E2. reflexivity.
Qed.

Lemma xfinal_embeds l : forall s, xfinal s (map XItem l) = dfinal s l.
Proof. induction l as [|i r IH]; intros s; cbn [xfinal dfinal map xstep]; [reflexivity|apply IH]. Qed.

Lemma xstep_panic_unfold s t gu :
  xstep s (XPanic t gu) =
  (mkDst (fst (deliver_panic (d_core s) t gu)) (d_other s), [snd (deliver_panic (d_core s) t gu)]).
Proof. cbn [xstep]. destruct (deliver_panic (d_core s) t gu). reflexivity. Qed.

(* an aborted execution leaves every other denomination alone: balances and supplies *)
Lemma panic_other_untouched s t gu : d_other (fst (xstep s (XPanic t gu))) = d_other s.
Proof. rewrite xstep_panic_unfold. reflexivity. Qed.

Lemma panic_core s t gu : d_core (fst (xstep s (XPanic t gu))) = fst (deliver_panic (d_core s) t gu).
Proof. rewrite xstep_panic_unfold. reflexivity. Qed.

(* ... and no supply moves, in any denomination *)
Lemma panic_denom_supply s t gu d : supply_d (fst (xstep s (XPanic t gu))) d = supply_d s d.
Proof.
  unfold supply_d. rewrite panic_other_untouched, panic_core, panic_supply. reflexivity.
Qed.

Lemma panic_denom_balance s t gu d a : d <> EVM_DENOM ->
  bal_d (fst (xstep s (XPanic t gu))) d a = bal_d s d a.
Proof.
  intros Hd. unfold bal_d. destruct (d =? EVM_DENOM) eqn:E; [unfold EVM_DENOM in *; lia|].
  rewrite panic_other_untouched. reflexivity.
Qed.

Definition xitem_destroyed (s : dst) (i : xitem) (d : denom) : Z :=
  match i with XItem i => item_destroyed s i d | XPanic _ _ => 0 end.

Fixpoint xdestroyed_hist (s : dst) (l : list xitem) (d : denom) : Z :=
  match l with [] => 0 | i :: r => xitem_destroyed s i d + xdestroyed_hist (fst (xstep s i)) r d end.

Lemma xstep_supply s i d : supply_d (fst (xstep s i)) d = supply_d s d - xitem_destroyed s i d.
Proof.
  destruct i as [i|t gu]; cbn [xitem_destroyed].
  - cbn [xstep]. apply dstep_supply.
  - rewrite panic_denom_supply. lia.
Qed.

(* C04 over all histories incl. aborted executions, every denomination *)
Theorem xsupply_history l : forall s d,
  supply_d (xfinal s l) d = supply_d s d - xdestroyed_hist s l d.
Proof.
  induction l as [|i r IH]; intros s d; cbn [xfinal xdestroyed_hist]; [lia|].
  rewrite IH, xstep_supply. lia.
Qed.

Lemma xstep_nonneg s i : nonneg (d_other s) -> nonneg (d_other (fst (xstep s i))).
Proof.
  intros H. destruct i as [i|t gu]; [cbn [xstep]; apply dstep_nonneg; exact H|].
  rewrite panic_other_untouched. exact H.
Qed.

Definition xburns_nonneg (l : list xitem) : Prop := forall t o x, In (XItem (DEth t o x)) l -> 0 <= e_burn o.

Theorem xsupply_never_grows l : forall s d,
  nonneg (d_other s) -> xburns_nonneg l -> supply_d (xfinal s l) d <= supply_d s d.
Proof.
  induction l as [|i r IH]; intros s d Hn Hb; cbn [xfinal]; [lia|].
  assert (H1 : supply_d (xfinal (fst (xstep s i)) r) d <= supply_d (fst (xstep s i)) d).
  { apply IH; [apply xstep_nonneg; exact Hn|]. intros t o x Hin. apply (Hb t o x). right. exact Hin. }
  rewrite xstep_supply in H1.
  assert (0 <= xitem_destroyed s i d).
  { destruct i as [i|t gu]; cbn [xitem_destroyed]; [|lia].
    apply item_destroyed_nonneg; [exact Hn|]. intros t o x ->. apply (Hb t o x). left. reflexivity. }
  lia.
Qed.

(* ------------------------------------------------------------------ the Ethereum transactions of a history *)
(* what an item contributes to the trace: the core state before it, the descriptor, the interpreter's part, the result *)
Definition xhead (s : dst) (i : xitem) : option (st * txd * evm_out * txres) :=
  match i with
  | XItem (DEth t o _) => Some (d_core s, t, o, snd (deliver (d_core s) t o))
  | XItem (DCosmos _ _ _ _ _ _) => None
  | XPanic t gu => Some (d_core s, t, no_exec, snd (deliver_panic (d_core s) t gu))
  end.

Fixpoint xtrace (s : dst) (l : list xitem) : list (st * txd * evm_out * txres) :=
  match l with
  | [] => []
  | i :: r => match xhead s i with Some x => x :: xtrace (fst (xstep s i)) r | None => xtrace (fst (xstep s i)) r end
  end.

Lemma xtrace_embeds l : forall s, xtrace s (map XItem l) = trace (d_core s) (map core_item l).
Proof.
  induction l as [|i r IH]; intros s; cbn [xtrace map trace]; [reflexivity|].
  pose proof (dstep_core s i) as Hc.
  destruct i as [t o x|g p f inc ok sends]; cbn [xhead core_item trace xstep] in *.
  - rewrite IH, Hc. cbn [step]. destruct (deliver (d_core s) t o). reflexivity.
  - rewrite IH, Hc. reflexivity.
Qed.

(* one item, uniformly: an Ethereum transaction obeys step_facts, anything else leaves the transient counters alone and
   does not lower a sequence *)
Lemma xstep_facts s i :
  match xhead s i with
  | Some (sx, t, o, r) => sx = d_core s /\ step_facts sx t o (d_core (fst (xstep s i))) r
  | None => (forall a, sqn (d_core s) a <= sqn (d_core (fst (xstep s i))) a) /\
            tx_count (d_core (fst (xstep s i))) = tx_count (d_core s) /\
            cum_gas (d_core (fst (xstep s i))) = cum_gas (d_core s) /\
            log_count (d_core (fst (xstep s i))) = log_count (d_core s)
  end.
Proof.
  destruct i as [[t o x|g p f inc ok sends]|t gu]; cbn [xhead].
  - split; [reflexivity|]. cbn [xstep dstep].
    pose proof (ddeliver_core s t o x) as Hc. destruct (ddeliver s t o x) as [s' r]. cbn [fst] in *. rewrite Hc.
    apply deliver_facts.
  - pose proof (dstep_core s (DCosmos g p f inc ok sends)) as Hc. cbn [xstep]. rewrite Hc. cbn [core_item].
    pose proof (step_cosmos_transient (d_core s) g p f inc) as Ht. cbv zeta in Ht. destruct Ht as (H1 & H2 & H3).
    split; [intros a; apply sqn_step_item|]. auto.
  - split; [reflexivity|]. rewrite panic_core. apply panic_facts.
Qed.

Lemma xstep_sqn_le s i a : sqn (d_core s) a <= sqn (d_core (fst (xstep s i))) a.
Proof.
  pose proof (xstep_facts s i) as H. destruct (xhead s i) as [[[[sx t] o] r]|].
  - destruct H as [-> F]. rewrite (sf_sqn _ _ _ _ _ F). destruct (passed (r_out r) && (a =? t_from t)); lia.
  - destruct H as [H _]. apply H.
Qed.

(* C06: sequences never move backwards, over any history *)
Theorem xsqn_monotone l : forall s a, sqn (d_core s) a <= sqn (d_core (xfinal s l)) a.
Proof.
  induction l as [|i r IH]; intros s a; cbn [xfinal]; [lia|].
  pose proof (xstep_sqn_le s i a). pose proof (IH (fst (xstep s i)) a). lia.
Qed.

Lemma xtrace_states_ge l : forall s x a, In x (xtrace s l) ->
  let '(sx, _, _, _) := x in sqn (d_core s) a <= sqn sx a.
Proof.
  induction l as [|i r IH]; intros s x a Hin; [inversion Hin|].
  cbn [xtrace] in Hin. pose proof (xstep_sqn_le s i a) as Hle.
  pose proof (xstep_facts s i) as Hf.
  destruct (xhead s i) as [[[[sh th] oh] rh]|].
  - destruct Hf as [-> _]. destruct Hin as [<-|Hin]; [lia|].
    specialize (IH _ x a Hin). destruct x as [[[sx tx] ox] rx]. lia.
  - specialize (IH _ x a Hin). destruct x as [[[sx tx] ox] rx]. lia.
Qed.

(* every transaction of a trace that passed admission was authorised in the state it met *)
Lemma xtrace_admitted l : forall s x, In x (xtrace s l) ->
  let '(sx, tx, _, rx) := x in passed (r_out rx) = true -> admitted sx tx.
Proof.
  induction l as [|i r IH]; intros s x Hin; [inversion Hin|].
  cbn [xtrace] in Hin. pose proof (xstep_facts s i) as Hf.
  destruct (xhead s i) as [[[[sh th] oh] rh]|].
  - destruct Hin as [<-|Hin]; [|apply (IH _ x Hin)].
    destruct Hf as [_ F]. intros Hp. apply (sf_adm _ _ _ _ _ F Hp).
  - apply (IH _ x Hin).
Qed.

(* C06 NO REPLAY over histories with aborted executions: two Ethereum transactions with the same sender and nonce cannot
   both pass admission - also when the first one was aborted by a panic (its sequence increment stays) *)
Theorem x_no_replay l : forall s pre x mid y post,
  xtrace s l = pre ++ x :: mid ++ y :: post ->
  let '(_, tx, _, rx) := x in let '(_, ty, _, ry) := y in
  t_from tx = t_from ty -> t_nonce tx = t_nonce ty ->
  passed (r_out rx) = true -> passed (r_out ry) = false.
Proof.
  induction l as [|i r IH]; intros s pre x mid y post Htr.
  - destruct pre; discriminate.
  - cbn [xtrace] in Htr. pose proof (xstep_facts s i) as Hf.
    destruct (xhead s i) as [[[[sh th] oh] rh]|].
    + destruct pre as [|z pre'].
      * cbn in Htr. injection Htr as <- Hrest.
        destruct y as [[[sy ty] oy] ry]. cbv beta iota zeta.
        intros Hfrom Hn Hp. destruct Hf as [-> F].
        assert (Hin : In (sy, ty, oy, ry) (xtrace (fst (xstep s i)) r)).
        { rewrite Hrest. apply in_or_app. right. left. reflexivity. }
        pose proof (xtrace_states_ge r _ _ (t_from th) Hin) as Hge. cbn in Hge.
        pose proof (sf_sqn _ _ _ _ _ F (t_from th)) as Hs. rewrite Hp, Z.eqb_refl in Hs. cbn in Hs.
        destruct (sf_adm _ _ _ _ _ F Hp) as [_ Had].
        destruct (passed (r_out ry)) eqn:Epy; [|reflexivity]. exfalso.
        pose proof (xtrace_admitted r _ _ Hin) as Hady. cbn in Hady. specialize (Hady Epy).
        pose proof (ad_nonce _ _ Had). pose proof (ad_nonce _ _ Hady).
        rewrite <- Hfrom in *. lia.
      * cbn in Htr. injection Htr as _ Hrest. eapply IH. exact Hrest.
    + eapply IH. exact Htr.
Qed.

(* C13 / C05 numbering over histories with aborted executions: an aborted execution owns an index and shows its gas limit
   in the cumulative gas of the later receipts (passed / gas_shown treat it like any failure after admission) *)
Lemma xnumbering l : forall s pre x post,
  xtrace s l = pre ++ x :: post ->
  let '(sx, _, _, _) := x in
  let '(n, g, lg) := shown_before pre in
  tx_count sx = tx_count (d_core s) + n /\ cum_gas sx = cum_gas (d_core s) + g /\ log_count sx = log_count (d_core s) + lg.
Proof.
  induction l as [|i r IH]; intros s pre x post Htr.
  - destruct pre; discriminate.
  - cbn [xtrace] in Htr. pose proof (xstep_facts s i) as Hf.
    destruct (xhead s i) as [[[[sh th] oh] rh]|].
    + destruct Hf as [-> F]. destruct pre as [|z pre'].
      * cbn in Htr. injection Htr as <- _. cbn. lia.
      * cbn in Htr. injection Htr as <- Hrest.
        specialize (IH _ _ _ _ Hrest). destruct x as [[[sx tx] ox] rx].
        cbn [shown_before]. destruct (shown_before pre') as [[n g] lg].
        destruct IH as (I1 & I2 & I3).
        rewrite I1, I2, I3, (sf_cnt _ _ _ _ _ F), (sf_gas _ _ _ _ _ F), (sf_log _ _ _ _ _ F). repeat split; lia.
    + specialize (IH _ _ _ _ Htr). destruct x as [[[sx tx] ox] rx].
      destruct (shown_before pre) as [[n g] lg].
      destruct Hf as (_ & H1 & H2 & H3). destruct IH as (I1 & I2 & I3).
      rewrite I1, I2, I3, H1, H2, H3. repeat split; lia.
Qed.

(* every element of a trace carries the facts of its own step *)
Lemma xtrace_elem_facts l : forall s x, In x (xtrace s l) ->
  let '(sx, tx, ox, rx) := x in exists s', step_facts sx tx ox s' rx.
Proof.
  induction l as [|i r IH]; intros s x Hin; [inversion Hin|].
  cbn [xtrace] in Hin. pose proof (xstep_facts s i) as Hf.
  destruct (xhead s i) as [[[[sh th] oh] rh]|].
  - destruct Hin as [<-|Hin]; [|apply (IH _ x Hin)]. destruct Hf as [_ F]. eexists. exact F.
  - apply (IH _ x Hin).
Qed.

Theorem x_block_numbering s l pre x post :
  tx_count (d_core s) = 0 -> cum_gas (d_core s) = 0 -> log_count (d_core s) = 0 ->
  xtrace s l = pre ++ x :: post ->
  let '(_, _, o, r) := x in
  let '(n, g, lg) := shown_before pre in
  (passed (r_out r) = true -> r_tx_index r = n) /\
  (forall v, r_out r = Executed v -> r_cum_gas r = g + gas_shown r /\ r_log_start r = lg).
Proof.
  intros Z1 Z2 Z3 Htr. pose proof (xnumbering l _ _ _ _ Htr) as Hn.
  assert (Hin : In x (xtrace s l)) by (rewrite Htr; apply in_or_app; right; left; reflexivity).
  pose proof (xtrace_elem_facts l _ _ Hin) as Hr.
  destruct x as [[[sx tx] ox] rx]. destruct (shown_before pre) as [[n g] lg].
  destruct Hn as (H1 & H2 & H3). destruct Hr as [s' F].
  split.
  - intros Hp. rewrite (sf_idx _ _ _ _ _ F Hp). lia.
  - intros v Ho. destruct (sf_exec _ _ _ _ _ F v Ho) as [Hc Hl]. split; lia.
Qed.
