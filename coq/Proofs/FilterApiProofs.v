(* Safety of the PublicFilterAPI model (code of /repo, variant = false) for every interleaving:
   no subscription is handed to Subscription.Unsubscribe twice (token conservation), hence eventLoop never closes an
   err channel twice; GetFilterChanges never blocks on a drained timer with filtersMu held; locks are released by
   their holders, the lock order filtersMu -> EventSystem locks admits no wait cycle, lock holders always progress.
   And the witness interleaving that kills the check-then-act variant (variant = true). *)
From Evm Require Import Conc ConcProofs PubSub PubSubProofs FilterApi.
From Coq Require Import Lia Relations.

Lemma amx_eqb_spec a b : amx_eqb a b = true <-> a = b.
Proof. destruct a, b; cbn; split; intros; congruence. Qed.

Ltac awf_solve :=
  cbn; repeat (match goal with
  | |- forall _, _ => intro
  | |- _ /\ _ => split
  | |- Forall _ [] => constructor
  | |- Forall _ (_ :: _) => constructor
  | |- context [if ?b then _ else _] => destruct b; cbn
  | |- context [match a_uq ?d with _ => _ end] => destruct (a_uq d); cbn
  | m : amx |- _ => destruct m; cbn in *
  end); try reflexivity; try congruence; auto.

Lemma Forall_map_offer (l : list nat) : Forall (fun q => forall m, aholds q m = None) (map AU_offer l).
Proof. induction l; cbn; constructor; auto. Qed.

Lemma fa_wf_code variant : wf_code apc adata amx aerr (acode variant) aholds.
Proof.
  intros p. destruct p; try (destruct variant; awf_solve; fail).
  - (* TL_scan *) cbn. intros d _. split; [intros m; destruct m; reflexivity|apply Forall_map_offer].
  - (* NF_srel *) destruct r; awf_solve.
Qed.

Lemma fa_wf_client : wf_client apc amx aclient aholds.
Proof. intros p H m. destruct H, m; reflexivity. Qed.

Lemma fa_wf_order variant : wf_order apc adata amx aerr (acode variant) aholds arank.
Proof.
  intros p m md k Hc m' md' Hh.
  destruct p; cbn in Hc; try discriminate; inversion Hc; subst; destruct m'; cbn in Hh; try discriminate; cbn; lia.
Qed.

Lemma fa_wf_nonblocking variant : wf_holder_nonblocking apc adata amx aerr (acode variant) aholds.
Proof.
  intros p m md Hh. destruct p; destruct m; cbn in Hh; try discriminate; cbn; auto.
Qed.

(* ------------------------------------------------------------------ token conservation *)
(* A subscription f carries one token from the moment EventSystem.subscribe made it. The token sits in the filters
   map, or with the goroutine that took f out of the map and is about to unsubscribe it, or with the Unsubscribe
   goroutine, or in the hand-over slot of es.uninstall, or with eventLoop working on the uninstall, or it has been
   spent on close(f.err).  Consumer goroutines destroy tokens (they delete map entries without unsubscribing),
   nothing duplicates one.  So close(f.err) happens at most once. *)
Definition tok (f : nat) (p : apc) : nat :=
  match p with
  | NF_srel (Some g) | NF_put g | UF_unlock g true | UF_unsub g | AU_offer g
  | AEL_acq g | AEL_do g | AEL_rel g | AEL_cerr g => if Nat.eqb g f then 1 else 0
  | _ => 0
  end.
Fixpoint toks (f : nat) (l : list apc) : nat := match l with [] => 0 | p :: t => tok f p + toks f t end.
Definition dtok (f : nat) (d : adata) : nat :=
  cnt f (a_filters d) + (match a_uq d with Some g => if Nat.eqb g f then 1 else 0 | None => 0 end)
  + (if memb f (a_errclosed d) then 1 else 0).
Definition total (f : nat) (s : astate) : nat := dtok f (dat s) + toks f (thr s).

Lemma toks_app f l1 l2 : toks f (l1 ++ l2) = toks f l1 + toks f l2.
Proof. induction l1; cbn; lia. Qed.

Lemma toks_upd f l i p k : nth_error l i = Some p -> toks f (upd l i k) + tok f p = toks f l + tok f k.
Proof.
  revert i; induction l as [|h t IH]; intros [|i] H; cbn in *; try discriminate.
  - inversion H; subst. lia.
  - specialize (IH _ H). lia.
Qed.

Lemma toks_nth f l i p : nth_error l i = Some p -> tok f p <= toks f l.
Proof.
  revert i; induction l as [|h t IH]; intros [|i] H; cbn in *; try discriminate.
  - inversion H; subst. lia.
  - specialize (IH _ H). lia.
Qed.

Lemma cnt_del_same f l : cnt f (del f l) = 0.
Proof.
  unfold del. induction l as [|h t IH]; cbn; auto. destruct (Nat.eqb_spec h f); cbn; auto.
  destruct (Nat.eqb_spec h f); [contradiction|]. auto.
Qed.

Lemma cnt_del_le f g l : cnt f (del g l) <= cnt f l.
Proof.
  unfold del. induction l as [|h t IH]; cbn; auto. destruct (Nat.eqb h g); cbn; destruct (Nat.eqb h f); lia.
Qed.

Lemma cnt_memb f l : memb f l = true -> 1 <= cnt f l.
Proof.
  induction l as [|h t IH]; cbn; [discriminate|]. rewrite (Nat.eqb_sym f h).
  destruct (Nat.eqb h f); cbn; [lia|]. intros H. apply IH in H. lia.
Qed.

Lemma cnt_zero_memb f l : cnt f l = 0 -> memb f l = false.
Proof.
  intros H. destruct (memb f l) eqn:E; auto. apply cnt_memb in E. lia.
Qed.

Lemma cnt_split f (P : nat -> bool) l :
  cnt f (filter P l) + cnt f (filter (fun x => negb (P x)) l) = cnt f l.
Proof.
  induction l as [|h t IH]; cbn; auto. destruct (P h); cbn; lia.
Qed.

Lemma toks_offer f l : toks f (map AU_offer l) = cnt f l.
Proof. induction l as [|h t IH]; cbn; auto. Qed.

Lemma In_filter_cnt f (P : nat -> bool) l : In f (filter P l) -> P f = true.
Proof. rewrite filter_In. tauto. Qed.

(* timers: a filter in the map never has a drained timer *)
Lemma aget_cons l f v g : aget ((f, v) :: l) g = if Nat.eqb f g then v else aget l g.
Proof. unfold aget. cbn. destruct (Nat.eqb f g); reflexivity. Qed.

Lemma aget_fired_app fired t g :
  aget (map (fun f => (f, 2)) fired ++ t) g = if memb g fired then 2 else aget t g.
Proof.
  induction fired as [|h r IH]; cbn; auto. rewrite aget_cons, IH. rewrite (Nat.eqb_sym g h).
  destruct (Nat.eqb h g); reflexivity.
Qed.

Lemma in_del f g l : In f (del g l) -> In f l /\ f <> g.
Proof.
  unfold del. rewrite filter_In. intros [H1 H2]. split; auto. destruct (Nat.eqb_spec f g); [discriminate|auto].
Qed.

(* the pcs that exist only in the check-then-act variant *)
Definition pc_ok (p : apc) : Prop := match p with UV_lock2 _ | UV_del _ | UV_unlock2 => False | _ => True end.

Record AK (s : astate) : Prop := mkAK {
  ak_err : err s = None;
  ak_tok : forall f, total f s <= 1;
  ak_fresh : forall f, a_nsub (dat s) <= f -> total f s = 0;
  ak_timer : forall f, In f (a_filters (dat s)) -> aget (a_timer (dat s)) f <> 2;
  ak_pc : forall j p, nth_error (thr s) j = Some p -> pc_ok p
}.
Definition AInv (s : astate) : Prop := lock_inv apc adata amx aerr aholds s /\ AK s.

Lemma tok_lock f p m md k :
  (acode false p = Acq m md k \/ acode false p = Rel m md k) -> tok f k = tok f p /\ (pc_ok p -> pc_ok k).
Proof.
  intros [H|H]; destruct p; cbn in H; try discriminate; inversion H; subst; cbn; auto;
    try (destruct r; cbn; auto); try (destruct found; cbn; auto).
Qed.

(* rebuilding AK after thread i moved from p to k by an action: the data-and-pc balance per subscription; the one
   step that creates a subscription (a_nsub grows) may create its token *)
Lemma AK_update s i p k sp d' m' :
  AK s -> nth_error (thr s) i = Some p ->
  (forall f, dtok f d' + tok f k + toks f sp <=
             dtok f (dat s) + tok f p + (if Nat.eqb f (a_nsub (dat s)) && Nat.ltb (a_nsub (dat s)) (a_nsub d') then 1 else 0)) ->
  a_nsub (dat s) <= a_nsub d' ->
  (forall f, In f (a_filters d') -> aget (a_timer d') f <> 2) ->
  pc_ok k -> Forall pc_ok sp ->
  AK (mkSt d' m' (upd (thr s) i k ++ sp) None).
Proof.
  intros [He Ht Hf Htm Hpc] Hp Hbal Hn Htm' Hk Hsp.
  assert (Htot : forall f, total f (mkSt d' m' (upd (thr s) i k ++ sp) None) <=
                           total f s + (if Nat.eqb f (a_nsub (dat s)) && Nat.ltb (a_nsub (dat s)) (a_nsub d') then 1 else 0)).
  { intros f. unfold total; cbn [dat thr]. rewrite toks_app. pose proof (toks_upd f _ _ _ k Hp). specialize (Hbal f). lia. }
  constructor; cbn [dat thr err]; auto.
  - intros f. specialize (Htot f). specialize (Ht f).
    destruct (Nat.eqb_spec f (a_nsub (dat s))) as [->|Hne]; cbn [andb] in Htot; [|lia].
    assert (total (a_nsub (dat s)) s = 0) by (apply Hf; lia).
    destruct (a_nsub (dat s) <? a_nsub d'); lia.
  - intros f Hge. specialize (Htot f). cbn [dat] in Hge.
    destruct (Nat.eqb_spec f (a_nsub (dat s))) as [Heq|Hne]; cbn [andb] in Htot.
    + destruct (Nat.ltb_spec (a_nsub (dat s)) (a_nsub d')); [lia|]. assert (total f s = 0) by (apply Hf; lia). lia.
    + assert (total f s = 0) by (apply Hf; lia). lia.
  - intros j q Hq. destruct (nth_upd_app_cases _ _ _ _ _ _ _ Hp Hq) as [[-> ->]|[[Hji Hq']|Hin]]; eauto.
    rewrite Forall_forall in Hsp. auto.
Qed.

Lemma memb_cons x h t : memb x (h :: t) = Nat.eqb x h || memb x t.
Proof. reflexivity. Qed.

Lemma Forall_pc_ok_offer l : Forall pc_ok (map AU_offer l).
Proof. induction l; cbn; constructor; cbn; auto. Qed.

Local Arguments memb : simpl never.
Local Arguments del : simpl never.

Ltac simple_case HK Hp :=
  eapply AK_update; [exact HK|exact Hp| intros ?f0; unfold dtok; cbn -[Nat.ltb]; rewrite ?Nat.ltb_irrefl, ?andb_false_r; try lia | cbn; lia | cbn; try apply (ak_timer _ HK) | exact I | repeat constructor].

Lemma AInv_tstep s i s' : AInv s -> fa_tstep false s i = Some s' -> AInv s'.
Proof.
  intros [LI HK] H. split.
  { eapply (lock_inv_tstep apc adata amx aerr amx_eqb amx_eqb_spec (acode false) ABadUnlock aholds (fa_wf_code false)); eauto. }
  destruct (tstep_inv apc adata amx aerr amx_eqb (acode false) ABadUnlock aholds (fa_wf_code false) s i s' LI H) as [He Hs].
  clear H. destruct Hs as [p m md k r Hp Hc Ha | p m md k r Hp Hc Hr | p g f d k sp e Hp Hc Hg Hf].
  - rewrite <- (app_nil_r (upd (thr s) i k)).
    eapply AK_update; [exact HK|exact Hp| | cbn; lia | cbn; apply (ak_timer _ HK) | | constructor].
    + intros f. destruct (tok_lock f p m md k (or_introl Hc)) as [-> _]. cbn [dat]. rewrite Nat.ltb_irrefl, andb_false_r. cbn [toks]. lia.
    + destruct (tok_lock 0 p m md k (or_introl Hc)) as [_ Hk]. apply Hk. apply (ak_pc _ HK _ _ Hp).
  - rewrite <- (app_nil_r (upd (thr s) i k)).
    eapply AK_update; [exact HK|exact Hp| | cbn; lia | cbn; apply (ak_timer _ HK) | | constructor].
    + intros f. destruct (tok_lock f p m md k (or_intror Hc)) as [-> _]. cbn [dat]. rewrite Nat.ltb_irrefl, andb_false_r. cbn [toks]. lia.
    + destruct (tok_lock 0 p m md k (or_intror Hc)) as [_ Hk]. apply Hk. apply (ak_pc _ HK _ _ Hp).
  - pose proof (ak_pc _ HK _ _ Hp) as Hok.
    destruct p; cbn in Hc; try discriminate; inversion Hc; subst g f; clear Hc; cbn in Hf, Hok; unfold aret in Hf.
    all: try solve [
      repeat match type of Hf with
             | context [if ?b then _ else _] => destruct b
             end;
      inversion Hf; subst; clear Hf; simple_case HK Hp ].
    + (* TL_scan: the fired filters leave the map, one Unsubscribe goroutine each *)
      inversion Hf; subst; clear Hf.
      eapply AK_update; [exact HK|exact Hp| | cbn; lia | | exact I | apply Forall_pc_ok_offer].
      * intros f0. unfold dtok; cbn -[Nat.ltb]. rewrite Nat.ltb_irrefl, andb_false_r, toks_offer.
        pose proof (cnt_split f0 (timer_fired (dat s)) (a_filters (dat s))). lia.
      * cbn. intros f0 Hin. rewrite aget_fired_app. apply filter_In in Hin. destruct Hin as [Hin Hnf].
        destruct (memb f0 (filter (timer_fired (dat s)) (a_filters (dat s)))) eqn:Em.
        -- apply memb_spec in Em. apply filter_In in Em. destruct Em as [_ Et]. rewrite Et in Hnf. discriminate.
        -- apply (ak_timer _ HK). exact Hin.
    + (* AEL_take: the token moves from the hand-over slot to eventLoop *)
      destruct (a_uq (dat s)) as [f0|] eqn:Eu; [|discriminate Hg]. inversion Hf; subst; clear Hf.
      eapply AK_update; [exact HK|exact Hp| | cbn; lia | cbn; apply (ak_timer _ HK) | exact I | constructor].
      intros f1. unfold dtok; cbn -[Nat.ltb]. rewrite Eu, Nat.ltb_irrefl, andb_false_r. lia.
    + (* AEL_cerr: close(f.err) -- the token says it is still open *)
      assert (Hopen : memb f0 (a_errclosed (dat s)) = false).
      { pose proof (ak_tok _ HK f0) as Ht. pose proof (toks_nth f0 _ _ _ Hp) as Hn. cbn in Hn. rewrite Nat.eqb_refl in Hn.
        unfold total, dtok in Ht. destruct (memb f0 (a_errclosed (dat s))); [lia|reflexivity]. }
      rewrite Hopen in Hf. inversion Hf; subst; clear Hf.
      eapply AK_update; [exact HK|exact Hp| | cbn; lia | cbn; apply (ak_timer _ HK) | exact I | constructor].
      intros f1. unfold dtok; cbn -[Nat.ltb]. rewrite Nat.ltb_irrefl, andb_false_r, memb_cons.
      destruct (Nat.eqb_spec f1 f0) as [->|Hne].
      * rewrite Nat.eqb_refl, Hopen. cbn. lia.
      * assert (Nat.eqb f0 f1 = false) as -> by (apply Nat.eqb_neq; congruence). cbn. lia.
    + (* NF_sub: EventSystem.subscribe makes subscription number a_nsub, with its token *)
      destruct (memb typ (a_topic (dat s))); [|destruct (a_coin (dat s))]; inversion Hf; subst; clear Hf.
      all: eapply AK_update; [exact HK|exact Hp| | cbn; lia | cbn; apply (ak_timer _ HK) | exact I | apply Forall_nil].
      all: intros f1; unfold dtok in *; cbn -[Nat.ltb] in *.
      all: assert (a_nsub (dat s) <? S (a_nsub (dat s)) = true) as -> by (apply Nat.ltb_lt; lia).
      all: rewrite andb_true_r, ?(Nat.eqb_sym (a_nsub (dat s)) f1); destruct (f1 =? a_nsub (dat s)); lia.
    + (* NF_put: the token goes into the map; the timer is armed *)
      inversion Hf; subst; clear Hf.
      eapply AK_update; [exact HK|exact Hp| | cbn; lia | | exact I | repeat constructor].
      * intros f1. unfold dtok; cbn -[Nat.ltb]. rewrite Nat.ltb_irrefl, andb_false_r. lia.
      * cbn. intros f1 Hin. rewrite aget_cons. destruct (Nat.eqb_spec f0 f1) as [->|Hne]; [discriminate|].
        destruct Hin as [E|Hin]; [congruence|]. apply (ak_timer _ HK). exact Hin.
    + (* UF_look: look-up and delete under ONE acquisition -- whoever finds the filter takes its token along *)
      inversion Hf; subst; clear Hf.
      eapply AK_update; [exact HK|exact Hp| | cbn; lia | | exact I | constructor].
      * intros f1. unfold dtok; cbn -[Nat.ltb]. rewrite Nat.ltb_irrefl, andb_false_r.
        pose proof (cnt_del_le f1 id (a_filters (dat s))).
        destruct (memb id (a_filters (dat s))) eqn:Em; cbn; [|lia].
        destruct (Nat.eqb_spec id f1) as [->|Hne]; [|lia].
        rewrite cnt_del_same. apply cnt_memb in Em. lia.
      * cbn. intros f1 Hin. apply in_del in Hin. apply (ak_timer _ HK). tauto.
    + (* UV_del: not a pc of this code *)
      destruct Hok.
    + (* GC_do: a filter in the map never has a drained timer *)
      destruct (memb id (a_filters (dat s))) eqn:Em.
      * apply memb_spec in Em. pose proof (ak_timer _ HK _ Em) as Hne.
        destruct (Nat.eqb_spec (aget (a_timer (dat s)) id) 2) as [E|_]; [contradiction|].
        inversion Hf; subst; clear Hf.
        eapply AK_update; [exact HK|exact Hp| | cbn; lia | | exact I | constructor].
        -- intros f1. unfold dtok; cbn -[Nat.ltb]. rewrite Nat.ltb_irrefl, andb_false_r. lia.
        -- cbn. intros f1 Hin. rewrite aget_cons. destruct (Nat.eqb id f1); [discriminate|]. apply (ak_timer _ HK). exact Hin.
      * inversion Hf; subst; clear Hf. simple_case HK Hp.
    + (* W_cl_del: the consumer drops the map entry (a token may vanish, none appears) *)
      inversion Hf; subst; clear Hf.
      eapply AK_update; [exact HK|exact Hp| | cbn; lia | | exact I | constructor].
      * intros f1. unfold dtok; cbn -[Nat.ltb]. rewrite Nat.ltb_irrefl, andb_false_r.
        pose proof (cnt_del_le f1 f0 (a_filters (dat s))). lia.
      * cbn. intros f1 Hin. apply in_del in Hin. apply (ak_timer _ HK). tauto.
Qed.

Lemma dtok_env d d' f : aenv d d' -> dtok f d' = dtok f d.
Proof. intros H; destruct H; unfold dtok, adeliver; cbn; try reflexivity. destruct (memb typ (a_topic d)); reflexivity. Qed.

Lemma AInv_step s s' : AInv s -> fa_step false s s' -> AInv s'.
Proof.
  intros HI H. destruct H as [s i s' H | s d' He Hv | s p He Hc].
  - eapply AInv_tstep; eauto.
  - destruct HI as [LI HK]. split; [exact LI|]. destruct HK as [E1 E2 E3 E4 E5].
    constructor; cbn [dat thr err]; auto.
    + intros f. specialize (E2 f). unfold total in *. cbn [dat thr]. rewrite (dtok_env _ _ f Hv). exact E2.
    + intros f Hge. unfold total in *. cbn [dat thr] in *. rewrite (dtok_env _ _ f Hv). apply E3.
      destruct Hv; cbn in Hge; auto. unfold adeliver in Hge. destruct (memb typ (a_topic d)); exact Hge.
    + intros f Hin. destruct Hv as [d | d g Hz | d b | d typ]; cbn in *; auto.
      * rewrite aget_cons. destruct (Nat.eqb_spec g f) as [->|Hne]; [discriminate|auto].
      * unfold adeliver in *. destruct (memb typ (a_topic d)); cbn in *; auto.
  - destruct HI as [LI HK]. split.
    + eapply (lock_inv_step apc adata amx aerr amx_eqb amx_eqb_spec (acode false) ABadUnlock aenv aclient aholds
                (fa_wf_code false) fa_wf_client s); [exact LI | eapply step_spawn; eauto].
    + destruct HK as [E1 E2 E3 E4 E5].
      assert (Ht : forall f, toks f (thr s ++ [p]) = toks f (thr s)).
      { intros f. rewrite toks_app. destruct Hc; cbn; lia. }
      constructor; cbn [dat thr err]; auto.
      * intros f. unfold total in *. cbn [dat thr]. rewrite Ht. apply E2.
      * intros f Hge. unfold total in *. cbn [dat thr] in *. rewrite Ht. apply E3. exact Hge.
      * intros j q Hq. destruct (nth_app_one_cases _ _ _ _ Hq) as [Hq'| ->]; [eauto|]. destruct Hc; exact I.
Qed.

Lemma AInv_init cap : AInv (fa_init cap).
Proof.
  split.
  - apply lock_inv_init. intros p [<-|[<-|[]]] m; destruct m; reflexivity.
  - constructor; cbn; try reflexivity; try (intros; lia); try (intros; contradiction).
    + intros f. unfold memb. cbn. lia.
    + intros [|[|j]] p Hp; cbn in Hp; inversion Hp; subst; cbn; auto. destruct j; discriminate.
Qed.

Theorem fa_reach_inv cap s : fa_reach false cap s -> AInv s.
Proof. intros H. induction H as [|s s' _ IH Hs]; [apply AInv_init|eapply AInv_step; eauto]. Qed.

(* ------------------------------------------------------------------ the theorems *)
(* the code of /repo: no step from a reachable state crashes -- no err channel is closed twice, GetFilterChanges never
   waits on a drained timer while holding filtersMu, no Unlock of a mutex that is not held -- whatever the interleaving
   of JSON-RPC clients, timeoutLoop, the Unsubscribe goroutines, eventLoop, the consumer goroutines, timers and events.
   (The API layer itself sends only on es.uninstall, which nothing closes, and closes no channel: the channel operations
   that can panic are eventLoop's closes, FilterSys for the topic channels and this model for f.err.) *)
Theorem fa_no_crash cap s s' : fa_reach false cap s -> fa_step false s s' -> err s' = None.
Proof.
  intros Hr Hs. assert (Hr' : fa_reach false cap s') by (eapply reach_step; eauto).
  destruct (fa_reach_inv _ _ Hr') as [_ HK]. apply (ak_err _ HK).
Qed.

(* how many times Subscription.Unsubscribe has been called for subscription f so far: every call starts one goroutine,
   which hands f to eventLoop, which ends with close(f.err) *)
Definition utok (f : nat) (p : apc) : nat :=
  match p with
  | AU_offer g | AEL_acq g | AEL_do g | AEL_rel g | AEL_cerr g => if Nat.eqb g f then 1 else 0
  | _ => 0
  end.
Fixpoint utoks (f : nat) (l : list apc) : nat := match l with [] => 0 | p :: t => utok f p + utoks f t end.
Definition unsubscribes (f : nat) (s : astate) : nat :=
  utoks f (thr s) + (match a_uq (dat s) with Some g => if Nat.eqb g f then 1 else 0 | None => 0 end)
  + (if memb f (a_errclosed (dat s)) then 1 else 0).

Lemma utoks_le f l : utoks f l <= toks f l.
Proof.
  induction l as [|p t IH]; cbn; auto.
  assert (utok f p <= tok f p) by (destruct p; cbn; try lia; try (destruct r; lia); try (destruct found; lia)). lia.
Qed.

(* the assumption of Model/FilterSys.v, proved: no subscription of a filter is unsubscribed twice, and a filter that is
   still installed has not been unsubscribed at all *)
Theorem fa_unsubscribed_at_most_once cap s f :
  fa_reach false cap s -> unsubscribes f s + cnt f (a_filters (dat s)) <= 1.
Proof.
  intros Hr. destruct (fa_reach_inv _ _ Hr) as [_ HK]. pose proof (ak_tok _ HK f) as Ht.
  unfold total, dtok in Ht. unfold unsubscribes. pose proof (utoks_le f (thr s)). lia.
Qed.

Theorem fa_close_err_target_open cap s i f :
  fa_reach false cap s -> nth_error (thr s) i = Some (AEL_cerr f) -> ~ In f (a_errclosed (dat s)).
Proof.
  intros Hr Hp Hin. destruct (fa_reach_inv _ _ Hr) as [_ HK]. pose proof (ak_tok _ HK f) as Ht.
  pose proof (toks_nth f _ _ _ Hp) as Hn. cbn in Hn. rewrite Nat.eqb_refl in Hn.
  apply memb_spec in Hin. unfold total, dtok in Ht. rewrite Hin in Ht. lia.
Qed.

Theorem fa_installed_timer_not_drained cap s f :
  fa_reach false cap s -> In f (a_filters (dat s)) -> aget (a_timer (dat s)) f <> 2.
Proof. intros Hr. destruct (fa_reach_inv _ _ Hr) as [_ HK]. apply (ak_timer _ HK). Qed.

(* lock order filtersMu < EventSystem locks: no cycle in the waits-for graph *)
Theorem fa_no_wait_cycle cap s : fa_reach false cap s -> forall i, ~ clos_trans nat (fa_waits_for false s) i i.
Proof.
  intros Hr. destruct (fa_reach_inv _ _ Hr) as [LI _].
  apply (no_wait_cycle apc adata amx aerr (acode false) aholds arank (fa_wf_order false) s LI).
Qed.

(* a goroutine that holds filtersMu (or an EventSystem lock) is never blocked on anything but another lock: no channel
   operation, no timer wait inside a critical section *)
Theorem fa_holder_progress cap s j q m md :
  fa_reach false cap s -> nth_error (thr s) j = Some q -> aholds q m = Some md ->
  (exists s', fa_tstep false s j = Some s') \/ (exists k, fa_waits_for false s j k).
Proof.
  intros Hr Hq Hh. destruct (fa_reach_inv _ _ Hr) as [LI HK].
  eapply (holder_progress apc adata amx aerr amx_eqb (acode false) ABadUnlock aholds (fa_wf_nonblocking false)); eauto.
  apply (ak_err _ HK).
Qed.

(* ------------------------------------------------------------------ the check-then-act variant *)
Fixpoint asteps (variant : bool) (s : astate) (l : list nat) : astate :=
  match l with
  | [] => s
  | i :: r => match fa_tstep variant s i with Some s' => asteps variant s' r | None => s end
  end.

Lemma asteps_reach variant cap l : forall s, fa_reach variant cap s -> fa_reach variant cap (asteps variant s l).
Proof.
  induction l as [|i r IH]; intros s Hr; cbn; auto.
  destruct (fa_tstep variant s i) as [s'|] eqn:E; auto. apply IH. eapply reach_step; eauto. eapply step_thread; eauto.
Qed.

(* witness: a block filter is created (subscription 0; threads: 0 timeoutLoop, 1 eventLoop, 2 the finished call,
   3 the consumer).  Two eth_uninstallFilter(0) calls (threads 4 and 5) both look the filter up before either deletes
   it; both call Unsubscribe (threads 6 and 7); eventLoop serves the first (close(err)), then the second. *)
Definition v_new : astate := fa_quiesce true (aspawn (fa_init 100) (NF_lock 1)).
Definition v_two : astate := aspawn (aspawn v_new (UF_lock 0)) (UF_lock 0).
Definition v_looked : astate := asteps true v_two [4; 4; 4; 5; 5; 5].       (* both: Lock, look-up, Unlock *)
Definition v_unsub : astate := asteps true v_looked [4; 5].                 (* both: f.s.Unsubscribe *)
Definition v_first : astate := asteps true v_unsub [6; 1; 1; 1; 1; 1].      (* offer; eventLoop: take, lock, work, unlock, close(err) *)
Definition v_crash : astate := asteps true v_first [7; 1; 1; 1; 1; 1].

Lemma v_crash_reach : fa_reach true 100 v_crash.
Proof.
  unfold v_crash, v_first, v_unsub, v_looked. repeat apply asteps_reach.
  unfold v_two. eapply reach_step; [|eapply (step_spawn _ _ _ _ _ _ _ _ _ (aspawn v_new (UF_lock 0)) (UF_lock 0)); [vm_compute; reflexivity|constructor]].
  eapply reach_step; [|eapply (step_spawn _ _ _ _ _ _ _ _ _ v_new (UF_lock 0)); [vm_compute; reflexivity|constructor]].
  unfold v_new, fa_quiesce. apply quiesce_reach.
  eapply reach_step; [apply reach_refl|eapply (step_spawn _ _ _ _ _ _ _ _ _ (fa_init 100) (NF_lock 1)); [reflexivity|constructor]].
Qed.

Theorem fa_variant_crashes : exists s, fa_reach true 100 s /\ err s = Some (ADoubleCloseErr 0).
Proof. exists v_crash. split; [apply v_crash_reach|vm_compute; reflexivity]. Qed.

(* ---- sequential histories are runs of the step relation *)
Lemma aapply_reach cap s ids o : fa_reach false cap s -> fa_reach false cap (fst (fst (aapply false s ids o))).
Proof.
  intros Hr.
  assert (Hsp : forall s0 p, fa_reach false cap s0 -> aclient p -> fa_reach false cap (aspawn s0 p)).
  { intros s0 p Hr0 Hc. destruct (fa_reach_inv _ _ Hr0) as [_ HK0]. unfold aspawn. rewrite (ak_err _ HK0).
    eapply reach_step; [exact Hr0|]. eapply step_spawn; eauto. apply (ak_err _ HK0). }
  assert (Hen : forall s0 d, fa_reach false cap s0 -> aenv (dat s0) d -> fa_reach false cap (awith s0 d)).
  { intros s0 d Hr0 Hc. destruct (fa_reach_inv _ _ Hr0) as [_ HK0]. unfold awith. rewrite (ak_err _ HK0).
    eapply reach_step; [exact Hr0|]. eapply step_env; eauto. apply (ak_err _ HK0). }
  assert (Hq : forall s0, fa_reach false cap s0 -> fa_reach false cap (fa_quiesce false s0)).
  { intros s0 H0. unfold fa_quiesce. apply quiesce_reach. exact H0. }
  destruct o; cbn [aapply]; cbv zeta.
  - match goal with |- context [last_res ?x] => destruct (last_res x) end; cbn [fst]; apply Hq; apply Hsp; auto; constructor.
  - cbn [fst]. apply Hq. apply Hsp; auto. constructor.
  - cbn [fst]. apply Hq. apply Hsp; auto. constructor.
  - cbn [fst]. apply Hq. apply Hsp; auto. constructor.
  - cbn [fst]. apply Hq.
    set (s1 := fa_quiesce false (aspawn s (GC_lock (nth_id ids k)))).
    assert (Hr1 : fa_reach false cap s1) by (apply Hq; apply Hsp; auto; constructor).
    destruct (memb (nth_id ids k) (a_filters (dat s1)) && (aget (a_timer (dat s1)) (nth_id ids k) =? 0)) eqn:Eb.
    + apply andb_prop in Eb. destruct Eb as [_ Ez]. apply Nat.eqb_eq in Ez.
      apply (Hen (awith s1 (s_timer (dat s1) ((nth_id ids k, 1) :: a_timer (dat s1))))).
      * apply Hen; auto. apply ae_fire. exact Ez.
      * apply ae_tick.
    + apply Hen; auto. apply ae_tick.
  - destruct accepted; cbn [fst]; auto. apply Hq. apply Hen; auto. apply ae_event.
Qed.
