(* Exact accounting of account sequences over whole histories: the sequence an account ends with is the one it started
   with plus the number of its transactions that were accepted (Ethereum: passed admission, whatever happened later;
   Cosmos lane: the ante handler's increment was committed).  Add-only file over TxPipe.v / TxPipeProofs.v. *)
From Coq Require Import List ZArith Lia Bool.
From Evm Require Import TxPipe TxPipeProofs TxPipeSeqProofs.
Import ListNotations.
Open Scope Z_scope.

(* number of Ethereum transactions of sender a in a trace that passed admission *)
Definition eth_accepted (a : addr) (tr : list entry) : Z :=
  fold_right (fun x acc => (if passed (r_out (snd x)) && (a =? t_from (snd (fst (fst x)))) then 1 else 0) + acc) 0 tr.
(* number of Cosmos-lane transactions paid by a whose sequence increment was committed *)
Definition cosmos_accepted (a : addr) (l : list item) : Z :=
  fold_right (fun i acc => match i with Cosmos _ p _ true => if a =? p then 1 else 0 | _ => 0 end + acc) 0 l.

Lemma eth_accepted_nonneg a tr : 0 <= eth_accepted a tr.
Proof.
  induction tr as [|x tr IH]; cbn [eth_accepted fold_right]; [lia|]. fold (eth_accepted a tr).
  destruct (passed _ && _); lia.
Qed.

Lemma cosmos_accepted_nonneg a l : 0 <= cosmos_accepted a l.
Proof.
  induction l as [|i l IH]; cbn [cosmos_accepted fold_right]; [lia|]. fold (cosmos_accepted a l).
  destruct i as [t o|g p f inc]; [lia|]. destruct inc; [|lia]. destruct (a =? p); lia.
Qed.

Theorem sequence_counts_accepted l : forall s a,
  sqn (final s l) a = sqn s a + eth_accepted a (trace s l) + cosmos_accepted a l.
Proof.
  induction l as [|i r IH]; intros s a; [cbn; lia|].
  destruct i as [t o|g p f inc].
  - cbn [final trace step]. destruct (deliver s t o) as [s1 r1] eqn:E. cbn [fst].
    rewrite IH. pose proof (sqn_step s t o a) as H. rewrite E in H. cbn [fst snd] in H.
    replace (fst (deliver s t o)) with s1 by (rewrite E; reflexivity).
    replace (snd (deliver s t o)) with r1 by (rewrite E; reflexivity).
    cbn [eth_accepted cosmos_accepted fold_right fst snd].
    fold (eth_accepted a (trace s1 r)). fold (cosmos_accepted a r).
    rewrite H. lia.
  - cbn [final trace]. rewrite IH.
    cbn [cosmos_accepted fold_right]. fold (cosmos_accepted a r).
    assert (Hs : sqn (fst (step s (Cosmos g p f inc))) a =
                 sqn s a + (if inc then if a =? p then 1 else 0 else 0)).
    { destruct inc; cbn; [|lia].
      destruct (a =? p) eqn:Eap.
      - assert (a = p) by lia. subst. rewrite add_to_same. lia.
      - rewrite add_to_other by lia. lia. }
    rewrite Hs. destruct inc; lia.
Qed.

(* a sequence never moves by more than the number of transactions offered for that account, and never backwards *)
Corollary sequence_between l s a :
  sqn s a <= sqn (final s l) a <= sqn s a + Z.of_nat (length l).
Proof.
  rewrite sequence_counts_accepted.
  pose proof (eth_accepted_nonneg a (trace s l)). pose proof (cosmos_accepted_nonneg a l).
  split; [lia|].
  assert (Hb : forall l s, eth_accepted a (trace s l) + cosmos_accepted a l <= Z.of_nat (length l)).
  { clear. induction l as [|i r IH]; intros s; [cbn; lia|].
    destruct i as [t o|g p f inc]; cbn [trace length].
    - cbn [eth_accepted cosmos_accepted fold_right]. fold (eth_accepted a (trace (fst (deliver s t o)) r)). fold (cosmos_accepted a r).
      specialize (IH (fst (deliver s t o))). rewrite Nat2Z.inj_succ.
      destruct (passed _ && _); lia.
    - cbn [cosmos_accepted fold_right]. fold (cosmos_accepted a r).
      specialize (IH (fst (step s (Cosmos g p f inc)))).
      rewrite Nat2Z.inj_succ. destruct inc; [destruct (a =? p)|]; lia. }
  specialize (Hb l s). lia.
Qed.
