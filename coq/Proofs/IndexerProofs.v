(* Proofs about the indexer / RPC model (C14). *)
From Coq Require Import ZArith List Bool Lia.
From Evm Require Import Indexer.
Import ListNotations.
Open Scope Z_scope.

(* ------------------------------------------------------------------ keys and the database *)
Lemma key_eqb_refl : forall k, key_eqb k k = true.
Proof. destruct k; cbn; rewrite ?Z.eqb_refl; reflexivity. Qed.

Lemma key_eqb_eq : forall a b, key_eqb a b = true <-> a = b.
Proof.
  intros a b; split.
  - destruct a, b; cbn; intros H; try discriminate.
    + apply Z.eqb_eq in H; subst; reflexivity.
    + apply andb_true_iff in H as [H1 H2]. apply Z.eqb_eq in H1, H2. subst; reflexivity.
  - intros ->. apply key_eqb_refl.
Qed.

Lemma key_eqb_neq : forall a b, key_eqb a b = false <-> a <> b.
Proof.
  intros a b. split.
  - intros H E. apply key_eqb_eq in E. congruence.
  - intros H. destruct (key_eqb a b) eqn:E; [apply key_eqb_eq in E; contradiction|reflexivity].
Qed.

Lemma db_get_app : forall k a b,
  db_get k (a ++ b) = match db_get k a with Some v => Some v | None => db_get k b end.
Proof.
  induction a as [|[k' v] a IH]; intros b; cbn; [reflexivity|].
  destruct (key_eqb k k'); [reflexivity|apply IH].
Qed.

Definition db_equiv (d1 d2 : db) : Prop := forall k, db_get k d1 = db_get k d2.

Lemma db_equiv_refl : forall d, db_equiv d d.
Proof. intros d k; reflexivity. Qed.

Lemma db_equiv_trans : forall a b c, db_equiv a b -> db_equiv b c -> db_equiv a c.
Proof. intros a b c H1 H2 k. rewrite H1. apply H2. Qed.

(* writing the same batch twice = writing it once *)
Lemma write_twice : forall d b, db_equiv (db_write (db_write d b) b) (db_write d b).
Proof.
  intros d b k. unfold db_write. rewrite !db_get_app.
  destruct (db_get k (rev b)); reflexivity.
Qed.

Lemma index_block_idempotent : forall h b d,
  db_equiv (db_write (db_write d (index_block h b)) (index_block h b)) (db_write d (index_block h b)).
Proof. intros. apply write_twice. Qed.

(* lookups only depend on the equivalence class *)
Lemma get_by_hash_equiv : forall d1 d2 h, db_equiv d1 d2 -> get_by_hash d1 h = get_by_hash d2 h.
Proof. intros d1 d2 h E. unfold get_by_hash. rewrite E. reflexivity. Qed.

Lemma get_by_block_index_equiv : forall d1 d2 h i, db_equiv d1 d2 -> get_by_block_index d1 h i = get_by_block_index d2 h i.
Proof.
  intros d1 d2 h i E. unfold get_by_block_index. rewrite E.
  destruct (db_get (KIdx h i) d2) as [[r|x]|]; try reflexivity. apply get_by_hash_equiv, E.
Qed.

(* ------------------------------------------------------------------ ParseTxResult on well-formed results *)
Definition ev_vmerr (e : ev) : bool := match e with EvRc rc => rc_vmerr rc | _ => false end.

Lemma parse_loop_spec : forall evs fe fr f,
  parse_loop evs (fe, fr, f) =
  if forallb ev_ok evs
  then Some (fe || existsb is_ev_eth evs, fr || existsb is_ev_rc evs, f || existsb ev_vmerr evs)
  else None.
Proof.
  induction evs as [|e evs IH]; intros fe fr f; cbn.
  - rewrite !orb_false_r. reflexivity.
  - destruct e as [ok|rc]; cbn.
    + destruct ok; cbn; [|reflexivity]. rewrite IH. rewrite orb_true_r. cbn.
      destruct (forallb ev_ok evs); reflexivity.
    + rewrite IH. rewrite orb_true_r. cbn.
      destruct (forallb ev_ok evs); [|reflexivity]. rewrite orb_assoc. reflexivity.
Qed.

Lemma spec_failed_alt : forall t, spec_failed t = negb (tv_code_ok t) || existsb ev_vmerr (tv_events t).
Proof. reflexivity. Qed.

Lemma count_rc_pos_exists : forall t, (0 < count_rc t)%nat -> existsb is_ev_rc (tv_events t) = true.
Proof.
  intros t. unfold count_rc. induction (tv_events t) as [|e l IH]; cbn; [lia|].
  destruct (is_ev_rc e); cbn; [reflexivity|apply IH].
Qed.

(* ------------------------------------------------------------------ persisted entries *)
Definition entry := (Z * txres)%type.

Definition pers (e : entry) : batch :=
  [(KHash (fst e), VRes (snd e)); (KIdx (r_height (snd e)) (r_ethidx (snd e)), VHash (fst e))].

(* what IndexBlock persists, as (hash, result) entries *)
Fixpoint pent (height ti ei : Z) (l : list txv) : list entry :=
  match l with
  | [] => []
  | t :: r =>
      if dropped t || negb (tv_dec t) || negb (is_eth_tx t) then pent height (ti + 1) ei r
      else match parse_tx_result t with
           | PErr => pent height (ti + 1) ei r
           | p =>
               (if negb (tv_code_ok t) then [(tv_hash t, Res height ti ei true)]
                else match p with
                     | PSome f => [(tv_hash t, Res height ti ei f)]
                     | _ => []
                     end)
               ++ pent height (ti + 1) (ei + 1) r
           end
  end.

Lemma index_txs_pent : forall l height ti ei, index_txs height ti ei l = flat_map pers (pent height ti ei l).
Proof.
  induction l as [|t r IH]; intros height ti ei; cbn; [reflexivity|].
  destruct (dropped t || negb (tv_dec t) || negb (is_eth_tx t)); [apply IH|].
  destruct (parse_tx_result t) as [| |f].
  - apply IH.
  - destruct (negb (tv_code_ok t)); cbn; rewrite IH; reflexivity.
  - destruct (negb (tv_code_ok t)); cbn; rewrite IH; reflexivity.
Qed.

(* the consensus-side entries: admitted Ethereum transactions with their real positions *)
Fixpoint sent (height ti ei : Z) (l : list txv) : list entry :=
  match l with
  | [] => []
  | t :: r =>
      if passed t then (tv_hash t, Res height ti ei (spec_failed t)) :: sent height (ti + 1) (ei + 1) r
      else sent height (ti + 1) ei r
  end.

Lemma passed_not_skipped : forall t, passed t = negb (dropped t || negb (tv_dec t) || negb (is_eth_tx t)).
Proof. intros t. unfold passed. destruct (dropped t), (tv_dec t), (is_eth_tx t); reflexivity. Qed.

Lemma wf_parse : forall t, passed t = true -> wf_tx t = true ->
  (tv_code_ok t = true -> parse_tx_result t = PSome (spec_failed t)) /\
  (tv_code_ok t = false -> exists f, parse_tx_result t = PSome f).
Proof.
  intros t Hp Hw. unfold wf_tx in Hw. rewrite Hp in Hw.
  apply andb_true_iff in Hw as [Hev Hc].
  unfold parse_tx_result. rewrite parse_loop_spec, Hev. cbn [orb].
  split; intros Hcode; rewrite Hcode in *.
  - apply andb_true_iff in Hc as [He Hr]. apply Nat.eqb_eq in Hr.
    rewrite He. rewrite (count_rc_pos_exists t) by lia. cbn.
    unfold spec_failed. rewrite Hcode. reflexivity.
  - assert (He : existsb is_ev_eth (tv_events t) = true).
    { unfold passed in Hp. apply andb_true_iff in Hp as [_ Hd]. unfold dropped in Hd.
      rewrite Hcode in Hd. cbn in Hd. destruct (existsb is_ev_eth (tv_events t)); [reflexivity|discriminate]. }
    rewrite He. cbn. eexists; reflexivity.
Qed.

Lemma wf_pent_sent : forall l height ti ei,
  forallb wf_tx l = true -> pent height ti ei l = sent height ti ei l.
Proof.
  induction l as [|t r IH]; intros height ti ei Hw; cbn; [reflexivity|].
  cbn in Hw. apply andb_true_iff in Hw as [Hwt Hwr].
  rewrite (passed_not_skipped t).
  destruct (dropped t || negb (tv_dec t) || negb (is_eth_tx t)) eqn:Hs; cbn.
  - apply IH, Hwr.
  - assert (Hp : passed t = true) by (rewrite passed_not_skipped, Hs; reflexivity).
    destruct (wf_parse t Hp Hwt) as [Hok Hko].
    destruct (tv_code_ok t) eqn:Hc.
    + rewrite (Hok eq_refl). cbn. rewrite IH by exact Hwr. reflexivity.
    + destruct (Hko eq_refl) as [f Hf]. rewrite Hf. cbn. rewrite IH by exact Hwr.
      unfold spec_failed. rewrite Hc. reflexivity.
Qed.

(* ------------------------------------------------------------------ the database of a run as a list of entries *)
Fixpoint centries (P : Z -> Z -> Z -> list txv -> list entry) (height : Z) (c : chain) : list entry :=
  match c with
  | [] => []
  | b :: r => P height 0 0 b ++ centries P (height + 1) r
  end.

Definition db_of (es : list entry) : db := rev (flat_map pers es).

Lemma db_of_app : forall a b, db_of (a ++ b) = db_of b ++ db_of a.
Proof. intros. unfold db_of. rewrite flat_map_app, rev_app_distr. reflexivity. Qed.

Lemma block_at_nat : forall c j, block_at c (Z.of_nat j + 1) = nth_error c j.
Proof.
  intros c j. unfold block_at. destruct (Z.of_nat j + 1 <? 1) eqn:E; [apply Z.ltb_lt in E; lia|].
  f_equal. lia.
Qed.

Lemma index_from_entries : forall c n j d,
  index_from c d (Z.of_nat j) n = db_of (centries pent (Z.of_nat j + 1) (firstn n (skipn j c))) ++ d.
Proof.
  intros c n. induction n as [|n IH]; intros j d; cbn [index_from].
  - reflexivity.
  - rewrite block_at_nat. destruct (nth_error c j) as [b|] eqn:E.
    + assert (Hs : skipn j c = b :: skipn (S j) c).
      { clear -E. revert c E. induction j as [|j IH]; intros [|x c] E; cbn in *; try discriminate.
        - inversion E; reflexivity.
        - apply IH, E. }
      rewrite Hs. cbn [firstn centries].
      replace (Z.of_nat j + 1) with (Z.of_nat (S j)) by lia.
      rewrite IH. rewrite db_of_app. unfold db_write, index_block. rewrite index_txs_pent.
      rewrite <- app_assoc. replace (Z.of_nat (S j) + 1) with (Z.of_nat (S j) + 1) by lia.
      reflexivity.
    + assert (Hs : skipn j c = []).
      { apply nth_error_None in E. apply skipn_all2. exact E. }
      rewrite Hs. cbn. reflexivity.
Qed.

Lemma run_entries : forall c, run c = db_of (centries pent 1 c).
Proof.
  intros c. unfold run, run_from, index_range. rewrite Z.sub_0_r, Nat2Z.id.
  change 0 with (Z.of_nat 0). rewrite index_from_entries. cbn [skipn].
  rewrite firstn_all, app_nil_r. reflexivity.
Qed.

Lemma wf_chain_entries : forall c height, wf_chain_from height c = true ->
  centries pent height c = centries sent height c.
Proof.
  induction c as [|b r IH]; intros height Hw; cbn; [reflexivity|].
  cbn in Hw. apply andb_true_iff in Hw as [Hb Hr]. unfold wf_block in Hb.
  apply andb_true_iff in Hb as [Hb _].
  rewrite wf_pent_sent by exact Hb. rewrite IH by exact Hr. reflexivity.
Qed.

(* ------------------------------------------------------------------ lookups in a database built from entries *)
Lemma db_of_cons : forall e es, db_of (e :: es) = db_of es ++ rev (pers e).
Proof. intros. change (e :: es) with ([e] ++ es). rewrite db_of_app. unfold db_of at 2. cbn [flat_map]. rewrite app_nil_r. reflexivity. Qed.

Lemma get_hash_pers : forall h e,
  db_get (KHash h) (rev (pers e)) = if h =? fst e then Some (VRes (snd e)) else None.
Proof. intros h [h' r]. cbn. reflexivity. Qed.

Lemma get_idx_pers : forall H i e,
  db_get (KIdx H i) (rev (pers e)) =
  if (H =? r_height (snd e)) && (i =? r_ethidx (snd e)) then Some (VHash (fst e)) else None.
Proof. intros H i [h' r]. cbn. destruct ((H =? r_height r) && (i =? r_ethidx r)); reflexivity. Qed.

Lemma hash_get_in : forall es h v,
  db_get (KHash h) (db_of es) = Some v -> exists r, v = VRes r /\ In (h, r) es.
Proof.
  induction es as [|e es IH]; intros h v H.
  - discriminate.
  - rewrite db_of_cons, db_get_app in H.
    destruct (db_get (KHash h) (db_of es)) eqn:E.
    + inversion H; subst. destruct (IH _ _ E) as [r [-> Hin]]. exists r; split; [reflexivity|right; exact Hin].
    + rewrite get_hash_pers in H. destruct (h =? fst e) eqn:Eh; [|discriminate].
      apply Z.eqb_eq in Eh. inversion H; subst. exists (snd e); split; [reflexivity|left; destruct e; reflexivity].
Qed.

Lemma hash_in_get : forall es h r,
  In (h, r) es -> exists r', db_get (KHash h) (db_of es) = Some (VRes r') /\ In (h, r') es.
Proof.
  induction es as [|e es IH]; intros h r Hin; [contradiction|].
  rewrite db_of_cons, db_get_app.
  destruct (db_get (KHash h) (db_of es)) eqn:E.
  - destruct (hash_get_in _ _ _ E) as [r' [-> Hin']]. exists r'; split; [reflexivity|right; exact Hin'].
  - destruct Hin as [He|Hin].
    + subst e. rewrite get_hash_pers. cbn. rewrite Z.eqb_refl. exists r; split; [reflexivity|left; reflexivity].
    + destruct (IH _ _ Hin) as [r' [Hg _]]. congruence.
Qed.

Lemma nodup_fst_fun : forall (es : list entry) h r r',
  NoDup (map fst es) -> In (h, r) es -> In (h, r') es -> r = r'.
Proof.
  induction es as [|[h0 r0] es IH]; intros h r r' Hnd H1 H2; [contradiction|].
  cbn in Hnd. inversion Hnd as [|? ? Hni Hnd']; subst.
  destruct H1 as [E1|H1], H2 as [E2|H2].
  - congruence.
  - inversion E1; subst. exfalso. apply Hni. change h with (fst (h, r')). apply in_map, H2.
  - inversion E2; subst. exfalso. apply Hni. change h with (fst (h, r)). apply in_map, H1.
  - eapply IH; eauto.
Qed.

(* ------------------------------------------------------------------ the specification side *)
Lemma sent_fst : forall l height ti ei, map fst (sent height ti ei l) = map tv_hash (filter passed l).
Proof.
  induction l as [|t r IH]; intros; cbn; [reflexivity|].
  destruct (passed t); cbn; rewrite IH; reflexivity.
Qed.

Lemma centries_fst : forall c height, map fst (centries sent height c) = chain_hashes c.
Proof.
  induction c as [|b r IH]; intros; cbn; [reflexivity|].
  rewrite map_app, sent_fst, IH. reflexivity.
Qed.

Lemma find_pos_in : forall l height ti ei h r,
  find_pos height ti ei l h = Some r -> In (h, r) (sent height ti ei l).
Proof.
  induction l as [|t l IH]; intros height ti ei h r H; cbn in *; [discriminate|].
  destruct (passed t).
  - destruct (tv_hash t =? h) eqn:E.
    + apply Z.eqb_eq in E. inversion H; subst. left; reflexivity.
    + right. apply IH, H.
  - apply IH, H.
Qed.

Lemma find_pos_none : forall l height ti ei h,
  find_pos height ti ei l h = None -> forall r, ~ In (h, r) (sent height ti ei l).
Proof.
  induction l as [|t l IH]; intros height ti ei h H r Hin; cbn in *; [contradiction|].
  destruct (passed t).
  - destruct (tv_hash t =? h) eqn:E; [discriminate|].
    destruct Hin as [Hin|Hin].
    + inversion Hin; subst. rewrite Z.eqb_refl in E. discriminate.
    + eapply IH; eauto.
  - eapply IH; eauto.
Qed.

Lemma chain_pos_in : forall c height h r,
  chain_pos_from c height h = Some r -> In (h, r) (centries sent height c).
Proof.
  induction c as [|b c IH]; intros height h r H; cbn in *; [discriminate|].
  apply in_or_app. destruct (find_pos height 0 0 b h) eqn:E.
  - inversion H; subst. left. apply find_pos_in, E.
  - right. apply IH, H.
Qed.

Lemma chain_pos_none : forall c height h,
  chain_pos_from c height h = None -> forall r, ~ In (h, r) (centries sent height c).
Proof.
  induction c as [|b c IH]; intros height h H r Hin; cbn in *; [contradiction|].
  destruct (find_pos height 0 0 b h) eqn:E; [discriminate|].
  apply in_app_or in Hin as [Hin|Hin].
  - eapply find_pos_none; eauto.
  - eapply IH; eauto.
Qed.

Lemma get_by_hash_entries : forall es h,
  NoDup (map fst es) ->
  forall o, (forall r, o = Some r -> In (h, r) es) -> (o = None -> forall r, ~ In (h, r) es) ->
  get_by_hash (db_of es) h = o.
Proof.
  intros es h Hnd o Hs Hn. unfold get_by_hash.
  destruct o as [r|].
  - destruct (hash_in_get es h r (Hs r eq_refl)) as [r' [Hg Hin]]. rewrite Hg.
    f_equal. eapply nodup_fst_fun; eauto.
  - destruct (db_get (KHash h) (db_of es)) eqn:E; [|reflexivity].
    destruct (hash_get_in _ _ _ E) as [r [-> Hin]]. exfalso. eapply Hn; eauto.
Qed.

Theorem lookup_hash : forall c, wf_chain c = true -> NoDup (chain_hashes c) ->
  forall h, get_by_hash (run c) h = chain_pos c h.
Proof.
  intros c Hw Hnd h. rewrite run_entries. unfold wf_chain in Hw. rewrite (wf_chain_entries c 1 Hw).
  apply get_by_hash_entries.
  - rewrite centries_fst. exact Hnd.
  - intros r Hr. apply chain_pos_in. exact Hr.
  - intros Hn r. apply chain_pos_none. exact Hn.
Qed.

(* ------------------------------------------------------------------ by (block, index) *)
Definition eth_hash_at (l : list txv) (k : nat) : option Z := option_map tv_hash (nth_error (filter passed l) k).

Lemma sent_bounds : forall l height ti ei h r,
  In (h, r) (sent height ti ei l) -> r_height r = height /\ ei <= r_ethidx r /\ ti <= r_txidx r.
Proof.
  induction l as [|t l IH]; intros height ti ei h r Hin; cbn in *; [contradiction|].
  destruct (passed t).
  - destruct Hin as [Hin|Hin].
    + inversion Hin; subst; cbn. lia.
    + apply IH in Hin. lia.
  - apply IH in Hin. lia.
Qed.

Lemma idx_none_entries : forall es H i,
  (forall h r, In (h, r) es -> r_height r <> H \/ r_ethidx r <> i) ->
  db_get (KIdx H i) (db_of es) = None.
Proof.
  induction es as [|e es IH]; intros H i Hno; [reflexivity|].
  rewrite db_of_cons, db_get_app.
  rewrite (IH H i) by (intros h r Hin; apply (Hno h r); right; exact Hin).
  rewrite get_idx_pers. destruct e as [h r]. cbn.
  destruct (Hno h r (or_introl eq_refl)) as [Hh|Hi].
  - destruct (H =? r_height r) eqn:E; [apply Z.eqb_eq in E; congruence|reflexivity].
  - destruct (i =? r_ethidx r) eqn:E; [apply Z.eqb_eq in E; congruence|rewrite andb_false_r; reflexivity].
Qed.

Lemma idx_block : forall l height ti ei H i,
  db_get (KIdx H i) (db_of (sent height ti ei l)) =
  if (H =? height) && (ei <=? i) then option_map VHash (eth_hash_at l (Z.to_nat (i - ei))) else None.
Proof.
  induction l as [|t l IH]; intros height ti ei H i; cbn [sent].
  - cbn. unfold eth_hash_at. cbn. destruct (Z.to_nat (i - ei)); destruct ((H =? height) && (ei <=? i)); reflexivity.
  - destruct (passed t) eqn:Hp.
    + rewrite db_of_cons, db_get_app, IH, get_idx_pers.
      unfold eth_hash_at. cbn [filter fst snd r_height r_ethidx]. rewrite Hp.
      destruct (H =? height) eqn:EH; cbn [andb]; [|reflexivity].
      destruct (ei + 1 <=? i) eqn:E1.
      * apply Z.leb_le in E1. assert (E2 : ei <=? i = true) by (apply Z.leb_le; lia). rewrite E2.
        replace (Z.to_nat (i - ei)) with (S (Z.to_nat (i - (ei + 1)))) by lia. cbn [nth_error].
        destruct (nth_error (filter passed l) (Z.to_nat (i - (ei + 1)))) as [t'|]; cbn [option_map]; [reflexivity|].
        destruct (i =? ei) eqn:E3; [apply Z.eqb_eq in E3; lia|reflexivity].
      * apply Z.leb_gt in E1.
        destruct (i =? ei) eqn:E3.
        -- apply Z.eqb_eq in E3. subst i. rewrite Z.leb_refl. rewrite Z.sub_diag. cbn. reflexivity.
        -- apply Z.eqb_neq in E3. assert (E2 : ei <=? i = false) by (apply Z.leb_gt; lia). rewrite E2. reflexivity.
    + rewrite IH. unfold eth_hash_at. cbn [filter]. rewrite Hp. reflexivity.
Qed.

Lemma centries_height : forall c height h r, In (h, r) (centries sent height c) -> height <= r_height r.
Proof.
  induction c as [|b c IH]; intros height h r Hin; cbn in *; [contradiction|].
  apply in_app_or in Hin as [Hin|Hin].
  - apply sent_bounds in Hin. lia.
  - apply IH in Hin. lia.
Qed.

Lemma idx_chain : forall c height H i,
  db_get (KIdx H i) (db_of (centries sent height c)) =
  if (height <=? H) && (0 <=? i)
  then match nth_error c (Z.to_nat (H - height)) with
       | Some b => option_map VHash (eth_hash_at b (Z.to_nat i))
       | None => None
       end
  else None.
Proof.
  induction c as [|b c IH]; intros height H i; cbn [centries].
  - cbn. destruct ((height <=? H) && (0 <=? i)); [destruct (Z.to_nat (H - height))|]; reflexivity.
  - rewrite db_of_app, db_get_app, IH, idx_block.
    destruct (height + 1 <=? H) eqn:E1; cbn [andb].
    + apply Z.leb_le in E1. assert (E2 : height <=? H = true) by (apply Z.leb_le; lia). rewrite E2. cbn [andb].
      assert (E3 : H =? height = false) by (apply Z.eqb_neq; lia). rewrite E3. cbn [andb].
      replace (Z.to_nat (H - height)) with (S (Z.to_nat (H - (height + 1)))) by lia. cbn [nth_error].
      destruct (0 <=? i); [|reflexivity].
      destruct (nth_error c (Z.to_nat (H - (height + 1)))) as [b'|]; [|reflexivity].
      destruct (option_map VHash (eth_hash_at b' (Z.to_nat i))); reflexivity.
    + apply Z.leb_gt in E1. destruct (H =? height) eqn:E3; cbn [andb].
      * apply Z.eqb_eq in E3. subst H. rewrite Z.leb_refl. cbn [andb]. rewrite Z.sub_diag. cbn [Z.to_nat nth_error].
        rewrite Z.sub_0_r. reflexivity.
      * apply Z.eqb_neq in E3. assert (E2 : height <=? H = false) by (apply Z.leb_gt; lia). rewrite E2. reflexivity.
Qed.

Lemma block_eth_hash_alt : forall c H i,
  block_eth_hash c H i =
  if (1 <=? H) && (0 <=? i)
  then match nth_error c (Z.to_nat (H - 1)) with Some b => eth_hash_at b (Z.to_nat i) | None => None end
  else None.
Proof.
  intros c H i. unfold block_eth_hash, block_eth_tx, block_at, eth_hash_at, block_eth_txs.
  destruct (H <? 1) eqn:E.
  - apply Z.ltb_lt in E. assert (E2 : 1 <=? H = false) by (apply Z.leb_gt; lia). rewrite E2. reflexivity.
  - apply Z.ltb_ge in E. assert (E2 : 1 <=? H = true) by (apply Z.leb_le; lia). rewrite E2. cbn [andb].
    destruct (nth_error c (Z.to_nat (H - 1))); destruct (0 <=? i); reflexivity.
Qed.

Theorem lookup_index : forall c, wf_chain c = true -> NoDup (chain_hashes c) ->
  forall H i, get_by_block_index (run c) H i =
              match block_eth_hash c H i with Some h => chain_pos c h | None => None end.
Proof.
  intros c Hw Hnd H i. unfold get_by_block_index.
  assert (Hk : db_get (KIdx H i) (run c) = option_map VHash (block_eth_hash c H i)).
  { rewrite run_entries. unfold wf_chain in Hw. rewrite (wf_chain_entries c 1 Hw).
    rewrite idx_chain, block_eth_hash_alt.
    destruct ((1 <=? H) && (0 <=? i)); [|reflexivity].
    destruct (nth_error c (Z.to_nat (H - 1))) as [b|]; reflexivity. }
  rewrite Hk. destruct (block_eth_hash c H i) as [h|]; cbn; [|reflexivity].
  apply lookup_hash; assumption.
Qed.

(* the i-th Ethereum tx of a block is found at (that block, i): the index answers with the real position *)
Lemma nth_passed_in_sent : forall l height ti ei k t,
  nth_error (filter passed l) k = Some t ->
  exists ti', In (tv_hash t, Res height ti' (ei + Z.of_nat k) (spec_failed t)) (sent height ti ei l)
              /\ ti <= ti' /\ nth_error l (Z.to_nat (ti' - ti)) = Some t.
Proof.
  induction l as [|x l IH]; intros height ti ei k t Hn; cbn in *; [destruct k; discriminate|].
  destruct (passed x) eqn:Hp.
  - destruct k as [|k]; cbn in Hn.
    + inversion Hn; subst. exists ti. rewrite Z.add_0_r, Z.sub_diag. cbn. split; [left; reflexivity|split; [lia|reflexivity]].
    + destruct (IH height (ti + 1) (ei + 1) k t Hn) as [ti' [Hin [Hle Hnth]]].
      exists ti'. split; [right; replace (ei + Z.of_nat (S k)) with (ei + 1 + Z.of_nat k) by lia; exact Hin|].
      split; [lia|]. replace (Z.to_nat (ti' - ti)) with (S (Z.to_nat (ti' - (ti + 1)))) by lia. exact Hnth.
  - destruct (IH height (ti + 1) ei k t Hn) as [ti' [Hin [Hle Hnth]]].
    exists ti'. split; [exact Hin|]. split; [lia|].
    replace (Z.to_nat (ti' - ti)) with (S (Z.to_nat (ti' - (ti + 1)))) by lia. exact Hnth.
Qed.

Lemma nth_block_in_centries : forall c height j b, nth_error c j = Some b ->
  forall e, In e (sent (height + Z.of_nat j) 0 0 b) -> In e (centries sent height c).
Proof.
  induction c as [|b0 c IH]; intros height j b Hn e Hin; [destruct j; discriminate|].
  cbn. apply in_or_app. destruct j as [|j]; cbn in Hn.
  - inversion Hn; subst. left. rewrite Z.add_0_r in Hin. exact Hin.
  - right. eapply IH; eauto. replace (height + 1 + Z.of_nat j) with (height + Z.of_nat (S j)) by lia. exact Hin.
Qed.

Theorem position_of_block_tx : forall c, NoDup (chain_hashes c) ->
  forall H i t, block_eth_tx c H i = Some t ->
  exists r, chain_pos c (tv_hash t) = Some r /\ r_height r = H /\ r_ethidx r = i /\ r_failed r = spec_failed t /\
            exists b, block_at c H = Some b /\ nth_error b (Z.to_nat (r_txidx r)) = Some t /\ 0 <= r_txidx r.
Proof.
  intros c Hnd H i t Ht. unfold block_eth_tx in Ht.
  destruct (block_at c H) as [b|] eqn:Hb0; [|discriminate].
  destruct (0 <=? i) eqn:Hi; [|discriminate]. apply Z.leb_le in Hi.
  unfold block_eth_txs in Ht.
  destruct (nth_passed_in_sent b H 0 0 (Z.to_nat i) t Ht) as [ti' [Hin [Hle Hnth]]].
  pose proof Hb0 as Hb. unfold block_at in Hb. destruct (H <? 1) eqn:EH; [discriminate|]. apply Z.ltb_ge in EH.
  assert (Hin' : In (tv_hash t, Res H ti' (0 + Z.of_nat (Z.to_nat i)) (spec_failed t)) (centries sent 1 c)).
  { eapply nth_block_in_centries; [exact Hb|]. replace (1 + Z.of_nat (Z.to_nat (H - 1))) with H by lia. exact Hin. }
  unfold chain_pos. destruct (chain_pos_from c 1 (tv_hash t)) as [r|] eqn:E.
  - apply chain_pos_in in E.
    assert (r = Res H ti' (0 + Z.of_nat (Z.to_nat i)) (spec_failed t)).
    { eapply nodup_fst_fun; [|exact E|exact Hin']. rewrite centries_fst. exact Hnd. }
    subst r. exists (Res H ti' (0 + Z.of_nat (Z.to_nat i)) (spec_failed t)). cbn [r_height r_ethidx r_failed r_txidx].
    split; [reflexivity|]. split; [reflexivity|]. split; [lia|]. split; [reflexivity|].
    exists b. rewrite Z.sub_0_r in Hnth. split; [reflexivity|]. split; [exact Hnth|lia].
  - exfalso. eapply chain_pos_none; eauto.
Qed.

(* ------------------------------------------------------------------ the service loop *)
Lemma block_at_beyond : forall c a k, 0 <= a -> 0 <= k -> block_at c (a + 1) = None -> block_at c (a + 1 + k) = None.
Proof.
  intros c a k Ha Hk H. unfold block_at in *.
  destruct (a + 1 <? 1) eqn:E; [apply Z.ltb_lt in E; lia|].
  destruct (a + 1 + k <? 1) eqn:E2; [reflexivity|].
  apply nth_error_None in H. apply nth_error_None. lia.
Qed.

Lemma index_from_none : forall c d a n, block_at c (a + 1) = None -> index_from c d a n = d.
Proof. intros c d a [|n] H; cbn; [reflexivity|rewrite H; reflexivity]. Qed.

Lemma index_from_add : forall c n1 n2 d a, 0 <= a ->
  index_from c d a (n1 + n2) = index_from c (index_from c d a n1) (a + Z.of_nat n1) n2.
Proof.
  intros c n1. induction n1 as [|n1 IH]; intros n2 d a Ha.
  - cbn [plus index_from]. rewrite Z.add_0_r. reflexivity.
  - cbn [plus index_from]. destruct (block_at c (a + 1)) as [b|] eqn:E.
    + rewrite IH by lia. f_equal. lia.
    + symmetry. apply index_from_none.
      replace (a + Z.of_nat (S n1) + 1) with (a + 1 + Z.of_nat (S n1)) by lia.
      apply block_at_beyond; [lia|lia|exact E].
Qed.

Lemma index_range_split : forall c d a b e, 0 <= a -> a <= b -> b <= e ->
  index_range c (index_range c d a b) b e = index_range c d a e.
Proof.
  intros c d a b e Ha Hab Hbe. unfold index_range.
  replace (Z.to_nat (e - a)) with (Z.to_nat (b - a) + Z.to_nat (e - b))%nat by lia.
  rewrite index_from_add by lia. f_equal. lia.
Qed.

Lemma index_range_nop : forall c d a b, b <= a -> index_range c d a b = d.
Proof. intros. unfold index_range. replace (Z.to_nat (b - a)) with 0%nat by lia. reflexivity. Qed.

Lemma block_at_end : forall c, block_at c (Z.of_nat (length c) + 1) = None.
Proof. intros c. rewrite block_at_nat. apply nth_error_None. lia. Qed.

Lemma index_range_beyond : forall c d a e, 0 <= a -> Z.of_nat (length c) <= e ->
  index_range c d a e = index_range c d a (Z.of_nat (length c)).
Proof.
  intros c d a e Ha He. set (n := Z.of_nat (length c)) in *.
  destruct (Z_le_gt_dec a n) as [Han|Han].
  - rewrite <- (index_range_split c d a n e) by lia.
    unfold index_range at 1. apply index_from_none. apply block_at_end.
  - rewrite (index_range_nop c d a n) by lia. unfold index_range. apply index_from_none.
    replace (a + 1) with (n + 1 + (a - n)) by lia. apply block_at_beyond; [lia|lia|apply block_at_end].
Qed.

(* the index does not depend on when the node announced its blocks *)
Lemma svc_loop_inv : forall c s0 anns cur, 0 <= s0 -> s0 <= cur ->
  exists cur', cur <= cur' /\ (forall a, In a anns -> a <= cur') /\
               svc_loop c (index_range c [] s0 cur) cur anns = index_range c [] s0 cur'.
Proof.
  intros c s0 anns. induction anns as [|a r IH]; intros cur H0 Hc.
  - exists cur. split; [lia|]. split; [intros a []|reflexivity].
  - cbn [svc_loop].
    assert (Hstep : index_range c (index_range c [] s0 cur) cur a = index_range c [] s0 (Z.max cur a)).
    { destruct (Z_le_gt_dec a cur) as [Hle|Hgt].
      - rewrite index_range_nop by lia. rewrite Z.max_l by lia. reflexivity.
      - rewrite index_range_split by lia. rewrite Z.max_r by lia. reflexivity. }
    rewrite Hstep. destruct (IH (Z.max cur a) H0 ltac:(lia)) as [cur' [Hle [Hall Heq]]].
    exists cur'. split; [lia|]. split; [|exact Heq].
    intros x [<-|Hx]; [lia|apply Hall, Hx].
Qed.

Theorem index_function_of_chain : forall c s0 anns, 0 <= s0 -> s0 <= Z.of_nat (length c) ->
  svc_loop c [] s0 (anns ++ [Z.of_nat (length c)]) = run_from c s0.
Proof.
  intros c s0 anns H0 Hn.
  pose proof (svc_loop_inv c s0 (anns ++ [Z.of_nat (length c)]) s0 H0 ltac:(lia)) as [cur' [Hle [Hall Heq]]].
  rewrite (index_range_nop c [] s0 s0) in Heq by lia. rewrite Heq.
  unfold run_from. apply index_range_beyond; [lia|]. apply Hall. apply in_or_app. right. left. reflexivity.
Qed.

(* ------------------------------------------------------------------ last_indexed *)
Lemma last_indexed_ge : forall d, -1 <= last_indexed d.
Proof. induction d as [|[[h|h i] v] d IH]; cbn; lia. Qed.

Lemma last_indexed_app : forall a b, last_indexed (a ++ b) = Z.max (last_indexed a) (last_indexed b).
Proof.
  induction a as [|[[h|h i] v] a IH]; intros b; cbn.
  - pose proof (last_indexed_ge b). lia.
  - apply IH.
  - rewrite IH. lia.
Qed.

Lemma last_indexed_rev : forall a, last_indexed (rev a) = last_indexed a.
Proof.
  induction a as [|[[h|h i] v] a IH]; cbn; [reflexivity| |]; rewrite last_indexed_app, IH; cbn;
    pose proof (last_indexed_ge a); lia.
Qed.

Lemma pent_height : forall l height ti ei e, In e (pent height ti ei l) -> r_height (snd e) = height.
Proof.
  induction l as [|t l IH]; intros height ti ei e Hin; cbn in Hin; [contradiction|].
  destruct (dropped t || negb (tv_dec t) || negb (is_eth_tx t)); [eapply IH; eauto|].
  destruct (parse_tx_result t) as [| |f].
  - eapply IH; eauto.
  - apply in_app_or in Hin as [Hin|Hin]; [|eapply IH; eauto].
    destruct (negb (tv_code_ok t)); cbn in Hin; [destruct Hin as [<-|[]]; reflexivity|contradiction].
  - apply in_app_or in Hin as [Hin|Hin]; [|eapply IH; eauto].
    destruct (negb (tv_code_ok t)); cbn in Hin; destruct Hin as [<-|[]]; reflexivity.
Qed.

Lemma last_indexed_entries : forall es H, 0 <= H -> (forall e, In e es -> r_height (snd e) = H) ->
  last_indexed (flat_map pers es) = match es with [] => -1 | _ => H end.
Proof.
  induction es as [|e es IH]; intros H H0 Hall; [reflexivity|].
  cbn [flat_map]. rewrite last_indexed_app. rewrite (IH H H0) by (intros; apply Hall; right; assumption).
  destruct e as [h r]. pose proof (Hall (h, r) (or_introl eq_refl)) as Hh. cbn in Hh. cbn. rewrite Hh. destruct es; lia.
Qed.

Lemma last_indexed_block : forall height b, 0 <= height ->
  last_indexed (index_block height b) = match index_block height b with [] => -1 | _ => height end.
Proof.
  intros height b H0. unfold index_block. rewrite index_txs_pent.
  rewrite (last_indexed_entries _ height H0) by (intros e; apply pent_height).
  destruct (pent height 0 0 b) as [|[h r] es]; reflexivity.
Qed.

Definition empty_at (c : chain) (j : Z) : Prop :=
  match block_at c j with Some b => index_block j b = [] | None => True end.

Lemma index_range_step : forall c d a r, 0 <= a -> a <= r ->
  index_range c d a (r + 1) =
  match block_at c (r + 1) with
  | Some b => db_write (index_range c d a r) (index_block (r + 1) b)
  | None => index_range c d a r
  end.
Proof.
  intros c d a r Ha Har. rewrite <- (index_range_split c d a r (r + 1)) by lia.
  unfold index_range at 1. replace (Z.to_nat (r + 1 - r)) with 1%nat by lia. cbn [index_from].
  destruct (block_at c (r + 1)); reflexivity.
Qed.

Lemma last_indexed_range : forall c s0 k, 0 <= s0 ->
  let r := s0 + Z.of_nat k in
  let d := index_range c [] s0 r in
  (last_indexed d = -1 \/ s0 < last_indexed d <= r) /\
  (forall j, s0 < j -> last_indexed d < j -> j <= r -> empty_at c j).
Proof.
  intros c s0 k H0. induction k as [|k IH]; cbn zeta.
  - rewrite Z.add_0_r. rewrite index_range_nop by lia. cbn. split; [left; reflexivity|intros; lia].
  - cbn zeta in IH. destruct IH as [IHb IHe].
    replace (s0 + Z.of_nat (S k)) with (s0 + Z.of_nat k + 1) by lia.
    set (r := s0 + Z.of_nat k) in *. rewrite index_range_step by lia.
    destruct (block_at c (r + 1)) as [b|] eqn:Eb.
    + unfold db_write. rewrite last_indexed_app, last_indexed_rev, last_indexed_block by lia.
      destruct (index_block (r + 1) b) as [|x xs] eqn:EB.
      * rewrite Z.max_r by (pose proof (last_indexed_ge (index_range c [] s0 r)); lia).
        split; [lia|]. intros j Hj1 Hj2 Hj3.
        destruct (Z.eq_dec j (r + 1)) as [->|Hne]; [unfold empty_at; rewrite Eb; exact EB|apply IHe; lia].
      * split; [right; lia|]. intros j Hj1 Hj2 Hj3. lia.
    + split; [lia|]. intros j Hj1 Hj2 Hj3.
      destruct (Z.eq_dec j (r + 1)) as [->|Hne]; [unfold empty_at; rewrite Eb; exact I|apply IHe; lia].
Qed.

Lemma noop_from : forall c d n a, (forall j, a < j <= a + Z.of_nat n -> empty_at c j) -> index_from c d a n = d.
Proof.
  intros c d n. induction n as [|n IH]; intros a He; cbn [index_from]; [reflexivity|].
  pose proof (He (a + 1) ltac:(lia)) as H1. unfold empty_at in H1.
  destruct (block_at c (a + 1)) as [b|]; [|reflexivity].
  rewrite H1. unfold db_write. cbn. apply IH. intros j Hj. apply He. lia.
Qed.

(* one life preserves "the DB is the index of the chain up to `reached`" *)
Lemma incarnation_inv : forall c earliest s0 reached i,
  earliest <= 1 -> 0 <= s0 -> s0 <= reached -> reached <= Z.of_nat (length c) ->
  let d := index_range c [] s0 reached in
  (last_indexed d <> -1 \/ i_start i = reached) -> i_end i <= Z.of_nat (length c) ->
  let reached' := step_reached earliest d reached i in
  run_incarnation c earliest d i = index_range c [] s0 reached' /\ reached <= reached' <= Z.of_nat (length c)
  /\ 0 <= resume d (i_start i) earliest.
Proof.
  intros c earliest s0 reached i He H0 Hr Hn d Hok Hend reached'.
  pose proof (last_indexed_range c s0 (Z.to_nat (reached - s0)) H0) as HL. cbn zeta in HL.
  replace (s0 + Z.of_nat (Z.to_nat (reached - s0))) with reached in HL by lia. fold d in HL.
  destruct HL as [HLb HLe].
  unfold run_incarnation, reached', step_reached.
  set (cur := resume d (i_start i) earliest).
  set (m := Nat.min (i_kill i) (Z.to_nat (i_end i - cur))).
  destruct (Z.eq_dec (last_indexed d) (-1)) as [El|El].
  - (* empty DB: the node is where the indexer stopped *)
    destruct Hok as [Hok|Hok]; [contradiction|].
    assert (Hcur : cur = reached).
    { unfold cur, resume. rewrite El. cbn. exact Hok. }
    rewrite Hcur in *. rewrite Z.max_r by lia.
    split; [|split; [|lia]].
    + change (index_from c d reached m) with (index_from c (index_range c [] s0 reached) reached m).
      replace m with (Z.to_nat (reached + Z.of_nat m - reached)) at 1 by lia.
      fold (index_range c (index_range c [] s0 reached) reached (reached + Z.of_nat m)).
      apply index_range_split; lia.
    + unfold m. lia.
  - (* non-empty DB: resume at the last indexed block; re-indexing up to `reached` writes nothing *)
    assert (Hl : s0 < last_indexed d <= reached) by (destruct HLb; [contradiction|assumption]).
    assert (Hcur : cur = last_indexed d).
    { unfold cur, resume. destruct (last_indexed d =? -1) eqn:E1; [apply Z.eqb_eq in E1; contradiction|].
      destruct (last_indexed d <? earliest) eqn:E2; [apply Z.ltb_lt in E2; lia|reflexivity]. }
    set (l := last_indexed d) in *.
    destruct (Z_le_gt_dec (cur + Z.of_nat m) reached) as [Hle|Hgt].
    + rewrite Z.max_l by lia. split; [|split; lia].
      apply noop_from. intros j Hj. apply HLe; lia.
    + rewrite Z.max_r by lia. split; [|split; [unfold m; lia|lia]].
      transitivity (index_from c d cur (Z.to_nat (reached - cur) + Z.to_nat (cur + Z.of_nat m - reached))%nat);
        [f_equal; lia|].
      rewrite index_from_add by lia.
      rewrite (noop_from c d (Z.to_nat (reached - cur)) cur) by (intros j Hj; apply HLe; lia).
      replace (cur + Z.of_nat (Z.to_nat (reached - cur))) with reached by lia.
      fold (index_range c d reached (cur + Z.of_nat m)). unfold d.
      apply index_range_split; lia.
Qed.

Lemma life_inv : forall c earliest s0 l reached,
  earliest <= 1 -> 0 <= s0 -> s0 <= reached -> reached <= Z.of_nat (length c) ->
  sched_ok c earliest (index_range c [] s0 reached) reached l = true ->
  exists reached', reached <= reached' <= Z.of_nat (length c) /\
    fold_left (run_incarnation c earliest) l (index_range c [] s0 reached) = index_range c [] s0 reached' /\
    (forall i, In i l -> Z.of_nat (length c) <= Z.of_nat (i_kill i) -> i_end i = Z.of_nat (length c) ->
               reached' = Z.of_nat (length c)).
Proof.
  intros c earliest s0 l. induction l as [|i l IH]; intros reached He H0 Hr Hn Hok.
  - exists reached. split; [lia|]. split; [reflexivity|intros i []].
  - cbn [sched_ok] in Hok. apply andb_true_iff in Hok as [Hok Hrest]. apply andb_true_iff in Hok as [Hok1 Hok2].
    apply Z.leb_le in Hok2.
    assert (Hcond : last_indexed (index_range c [] s0 reached) <> -1 \/ i_start i = reached).
    { apply orb_true_iff in Hok1 as [H|H].
      - left. apply negb_true_iff, Z.eqb_neq in H. exact H.
      - right. apply Z.eqb_eq in H. exact H. }
    pose proof (incarnation_inv c earliest s0 reached i He H0 Hr Hn Hcond Hok2) as Hinv. cbn zeta in Hinv.
    set (r1 := step_reached earliest (index_range c [] s0 reached) reached i) in *.
    destruct Hinv as [Heq [Hb Hcur0]].
    cbn [fold_left]. rewrite Heq in *.
    assert (Hr1a : s0 <= r1) by lia. assert (Hr1b : r1 <= Z.of_nat (length c)) by lia.
    destruct (IH r1 He H0 Hr1a Hr1b Hrest) as [r2 [Hb2 [Heq2 Hfin]]].
    exists r2. split; [lia|]. split; [exact Heq2|].
    intros x [<-|Hx] Hk Hend; [|eapply Hfin; eauto].
    (* this life ran to the end of the chain without being killed *)
    assert (r1 = Z.of_nat (length c)); [|lia].
    unfold r1, step_reached in *.
    set (cur := resume (index_range c [] s0 reached) (i_start i) earliest) in *.
    destruct (Z_le_gt_dec cur (Z.of_nat (length c))); lia.
Qed.

Theorem crash_converges : forall c earliest s0 l fin,
  earliest <= 1 -> 0 <= s0 -> s0 <= Z.of_nat (length c) ->
  sched_ok c earliest [] s0 (l ++ [fin]) = true ->
  i_end fin = Z.of_nat (length c) -> Z.of_nat (length c) <= Z.of_nat (i_kill fin) ->
  life c earliest (l ++ [fin]) = run_from c s0.
Proof.
  intros c earliest s0 l fin He H0 Hn Hok Hend Hk.
  unfold life. rewrite <- (index_range_nop c [] s0 s0) by lia.
  rewrite <- (index_range_nop c [] s0 s0) in Hok by lia.
  destruct (life_inv c earliest s0 (l ++ [fin]) s0 He H0 ltac:(lia) Hn Hok) as [r [Hb [Heq Hfin]]].
  rewrite Heq. unfold run_from. f_equal. eapply Hfin; eauto. apply in_or_app. right. left. reflexivity.
Qed.

(* ================================================================== explicit positions *)
(* position in the block of its k-th admitted Ethereum transaction *)
Fixpoint pos_of (l : list txv) (k : nat) : option nat :=
  match l with
  | [] => None
  | t :: r =>
      if passed t
      then match k with O => Some O | S k' => option_map S (pos_of r k') end
      else option_map S (pos_of r k)
  end.

Lemma pos_of_spec : forall l k p, pos_of l k = Some p ->
  nth_error l p = nth_error (filter passed l) k /\ filter passed (firstn p l) = firstn k (filter passed l).
Proof.
  induction l as [|x l IH]; intros k p H; cbn in H; [discriminate|].
  destruct (passed x) eqn:Hp.
  - destruct k as [|k].
    + inversion H; subst. cbn. rewrite Hp. split; reflexivity.
    + destruct (pos_of l k) as [q|] eqn:E; [|discriminate]. inversion H; subst.
      destruct (IH k q E) as [H1 H2]. cbn. rewrite Hp. cbn. rewrite H2. split; [exact H1|reflexivity].
  - destruct (pos_of l k) as [q|] eqn:E; [|discriminate]. inversion H; subst.
    destruct (IH k q E) as [H1 H2]. cbn. rewrite Hp. split; [exact H1|exact H2].
Qed.

Lemma nth_passed_pos : forall l height ti ei k t,
  nth_error (filter passed l) k = Some t ->
  exists p, pos_of l k = Some p /\
            In (tv_hash t, Res height (ti + Z.of_nat p) (ei + Z.of_nat k) (spec_failed t)) (sent height ti ei l).
Proof.
  induction l as [|x l IH]; intros height ti ei k t Hn; cbn in *; [destruct k; discriminate|].
  destruct (passed x) eqn:Hp.
  - destruct k as [|k]; cbn in Hn.
    + inversion Hn; subst. exists 0%nat. rewrite !Z.add_0_r. split; [reflexivity|left; reflexivity].
    + destruct (IH height (ti + 1) (ei + 1) k t Hn) as [p [Hpos Hin]].
      exists (S p). rewrite Hpos. split; [reflexivity|]. right.
      replace (ti + Z.of_nat (S p)) with (ti + 1 + Z.of_nat p) by lia.
      replace (ei + Z.of_nat (S k)) with (ei + 1 + Z.of_nat k) by lia. exact Hin.
  - destruct (IH height (ti + 1) ei k t Hn) as [p [Hpos Hin]].
    exists (S p). rewrite Hpos. split; [reflexivity|].
    replace (ti + Z.of_nat (S p)) with (ti + 1 + Z.of_nat p) by lia. exact Hin.
Qed.

Lemma passed_of_nth : forall l k t, nth_error (filter passed l) k = Some t -> passed t = true.
Proof. intros l k t H. apply nth_error_In in H. apply filter_In in H. apply H. Qed.

(* The i-th Ethereum transaction of block H: both lookups answer with its real position *)
Theorem entry_of_block_tx : forall c, wf_chain c = true -> NoDup (chain_hashes c) ->
  forall H i t, block_eth_tx c H i = Some t ->
  exists b p, block_at c H = Some b /\ pos_of b (Z.to_nat i) = Some p /\ nth_error b p = Some t /\ 0 <= i /\
    get_by_hash (run c) (tv_hash t) = Some (Res H (Z.of_nat p) i (spec_failed t)) /\
    get_by_block_index (run c) H i = Some (Res H (Z.of_nat p) i (spec_failed t)).
Proof.
  intros c Hw Hnd H i t Ht. pose proof Ht as Ht0. unfold block_eth_tx in Ht.
  destruct (block_at c H) as [b|] eqn:Hb0; [|discriminate].
  destruct (0 <=? i) eqn:Hi; [|discriminate]. apply Z.leb_le in Hi. unfold block_eth_txs in Ht.
  destruct (nth_passed_pos b H 0 0 (Z.to_nat i) t Ht) as [p [Hpos Hin]].
  rewrite Z.add_0_l in Hin. replace (0 + Z.of_nat (Z.to_nat i)) with i in Hin by lia.
  pose proof Hb0 as Hb. unfold block_at in Hb. destruct (H <? 1) eqn:EH; [discriminate|]. apply Z.ltb_ge in EH.
  assert (Hin' : In (tv_hash t, Res H (Z.of_nat p) i (spec_failed t)) (centries sent 1 c)).
  { eapply nth_block_in_centries; [exact Hb|]. replace (1 + Z.of_nat (Z.to_nat (H - 1))) with H by lia. exact Hin. }
  assert (Hcp : chain_pos c (tv_hash t) = Some (Res H (Z.of_nat p) i (spec_failed t))).
  { unfold chain_pos. destruct (chain_pos_from c 1 (tv_hash t)) as [r|] eqn:E.
    - apply chain_pos_in in E. f_equal. eapply nodup_fst_fun; [|exact E|exact Hin']. rewrite centries_fst. exact Hnd.
    - exfalso. eapply chain_pos_none; eauto. }
  exists b, p. split; [reflexivity|]. split; [exact Hpos|].
  split; [destruct (pos_of_spec b _ _ Hpos) as [H1 _]; rewrite H1; exact Ht|]. split; [exact Hi|].
  split.
  - rewrite lookup_hash by assumption. exact Hcp.
  - rewrite lookup_index by assumption. unfold block_eth_hash. rewrite Ht0. cbn. exact Hcp.
Qed.

(* everything the index answers is real: an answer names an admitted Ethereum transaction at that very position *)
Lemma find_pos_sound : forall l height ti ei h r, find_pos height ti ei l h = Some r ->
  exists t, r_height r = height /\ ti <= r_txidx r /\ ei <= r_ethidx r /\
    nth_error l (Z.to_nat (r_txidx r - ti)) = Some t /\
    nth_error (filter passed l) (Z.to_nat (r_ethidx r - ei)) = Some t /\
    tv_hash t = h /\ r_failed r = spec_failed t.
Proof.
  induction l as [|x l IH]; intros height ti ei h r H; cbn in H; [discriminate|].
  destruct (passed x) eqn:Hp.
  - destruct (tv_hash x =? h) eqn:E.
    + apply Z.eqb_eq in E. inversion H; subst. cbn. exists x. rewrite !Z.sub_diag. cbn. rewrite Hp. cbn.
      repeat split; try lia; reflexivity.
    + destruct (IH _ _ _ _ _ H) as [t [H1 [H2 [H3 [H4 [H5 [H6 H7]]]]]]].
      exists t. split; [exact H1|]. split; [lia|]. split; [lia|].
      replace (Z.to_nat (r_txidx r - ti)) with (S (Z.to_nat (r_txidx r - (ti + 1)))) by lia.
      replace (Z.to_nat (r_ethidx r - ei)) with (S (Z.to_nat (r_ethidx r - (ei + 1)))) by lia.
      cbn. rewrite Hp. cbn. repeat split; assumption.
  - destruct (IH _ _ _ _ _ H) as [t [H1 [H2 [H3 [H4 [H5 [H6 H7]]]]]]].
    exists t. split; [exact H1|]. split; [lia|]. split; [lia|].
    replace (Z.to_nat (r_txidx r - ti)) with (S (Z.to_nat (r_txidx r - (ti + 1)))) by lia.
    cbn. rewrite Hp. repeat split; assumption.
Qed.

Lemma chain_pos_sound : forall c height h r, chain_pos_from c height h = Some r ->
  exists b t, height <= r_height r /\ nth_error c (Z.to_nat (r_height r - height)) = Some b /\
    0 <= r_txidx r /\ 0 <= r_ethidx r /\
    nth_error b (Z.to_nat (r_txidx r)) = Some t /\ nth_error (filter passed b) (Z.to_nat (r_ethidx r)) = Some t /\
    tv_hash t = h /\ r_failed r = spec_failed t.
Proof.
  induction c as [|b c IH]; intros height h r H; cbn in H; [discriminate|].
  destruct (find_pos height 0 0 b h) as [x|] eqn:E.
  - inversion H; subst. destruct (find_pos_sound _ _ _ _ _ _ E) as [t [H1 [H2 [H3 [H4 [H5 [H6 H7]]]]]]].
    rewrite Z.sub_0_r in H4, H5. exists b, t. rewrite H1, Z.sub_diag. cbn. repeat split; try assumption; lia.
  - destruct (IH _ _ _ H) as [b' [t [H1 [H2 H3]]]]. exists b', t. split; [lia|].
    replace (Z.to_nat (r_height r - height)) with (S (Z.to_nat (r_height r - (height + 1)))) by lia.
    cbn. split; assumption.
Qed.

Theorem index_sound : forall c, wf_chain c = true -> NoDup (chain_hashes c) ->
  forall h r, get_by_hash (run c) h = Some r ->
  exists b t, block_at c (r_height r) = Some b /\ 0 <= r_txidx r /\ nth_error b (Z.to_nat (r_txidx r)) = Some t /\
    tv_hash t = h /\ passed t = true /\ block_eth_tx c (r_height r) (r_ethidx r) = Some t /\ r_failed r = spec_failed t.
Proof.
  intros c Hw Hnd h r H. rewrite lookup_hash in H by assumption. unfold chain_pos in H.
  destruct (chain_pos_sound _ _ _ _ H) as [b [t [H1 [H2 [H3 [H4 [H5 [H6 [H7 H8]]]]]]]]].
  assert (Hb : block_at c (r_height r) = Some b).
  { unfold block_at. destruct (r_height r <? 1) eqn:E; [apply Z.ltb_lt in E; lia|exact H2]. }
  exists b, t. split; [exact Hb|]. split; [exact H3|]. split; [exact H5|]. split; [exact H7|].
  split; [eapply passed_of_nth; eauto|]. split; [|exact H8].
  unfold block_eth_tx. rewrite Hb. destruct (0 <=? r_ethidx r) eqn:E; [exact H6|apply Z.leb_gt in E; lia].
Qed.

Lemma chain_pos_none_iff : forall c h, chain_pos c h = None <-> ~ In h (chain_hashes c).
Proof.
  intros c h. unfold chain_pos. rewrite <- (centries_fst c 1). split.
  - intros Hn Hin. apply in_map_iff in Hin as [[h' r] [E Hin]]. cbn in E. subst h'.
    eapply chain_pos_none; eauto.
  - intros Hn. destruct (chain_pos_from c 1 h) as [r|] eqn:E; [|reflexivity].
    exfalso. apply Hn. apply chain_pos_in in E. change h with (fst (h, r)). apply in_map, E.
Qed.

Theorem unknown_hash : forall c, wf_chain c = true -> NoDup (chain_hashes c) ->
  forall h, get_by_hash (run c) h = None <-> ~ In h (chain_hashes c).
Proof. intros c Hw Hnd h. rewrite lookup_hash by assumption. apply chain_pos_none_iff. Qed.

(* ================================================================== JSON-RPC views against consensus results *)
Lemma wf_eth_msg_passed : forall t, wf_tx t = true -> negb (dropped t) && eth_msg t = passed t.
Proof.
  intros t Hw. unfold wf_tx in Hw. destruct (passed t) eqn:Hp.
  - unfold passed, is_eth_tx in Hp. unfold eth_msg.
    destruct (tv_dec t), (tv_eth t), (tv_ext t), (dropped t); cbn in *; congruence.
  - apply andb_true_iff in Hw as [_ Hw]. unfold passed, is_eth_tx in Hp. unfold eth_msg in *.
    destruct (tv_dec t), (tv_eth t), (dropped t); cbn in *; try reflexivity. rewrite Hw in Hp. discriminate.
Qed.

Lemma eth_msgs_wf : forall b, forallb wf_tx b = true -> eth_msgs b = filter passed b.
Proof.
  induction b as [|t b IH]; intros Hw; [reflexivity|].
  cbn in Hw. apply andb_true_iff in Hw as [Ht Hb]. unfold eth_msgs in *. cbn.
  rewrite (wf_eth_msg_passed t Ht), (IH Hb). reflexivity.
Qed.

(* gas that consensus charged to the block for a list of admitted Ethereum transactions *)
Definition tx_gas (t : txv) : Z := match first_rc (tv_events t) with Some rc => rc_gas rc | None => tv_gas t end.
Fixpoint gas_sum (l : list txv) : Z := match l with [] => 0 | t :: r => tx_gas t + gas_sum r end.

Lemma prev_gas_wf : forall l, forallb wf_tx l = true -> prev_gas l = gas_sum (filter passed l).
Proof.
  induction l as [|t l IH]; intros Hw; [reflexivity|].
  cbn in Hw. apply andb_true_iff in Hw as [Ht Hl]. cbn [prev_gas filter].
  rewrite (IH Hl). pose proof (wf_eth_msg_passed t Ht) as E. rewrite andb_comm in E. rewrite E.
  destruct (passed t); cbn [gas_sum]; unfold tx_gas; lia.
Qed.

Lemma forallb_firstn : forall (A : Type) (f : A -> bool) n l, forallb f l = true -> forallb f (firstn n l) = true.
Proof.
  intros A f n. induction n as [|n IH]; intros [|x l] H; cbn in *; try reflexivity.
  apply andb_true_iff in H as [H1 H2]. rewrite H1, (IH l H2). reflexivity.
Qed.

Definition cons_receipt_of (height ei sum : Z) (t : txv) : rview :=
  match first_rc (tv_events t) with
  | Some rc => view_of_rc t rc
  | None => RV 0 (tv_gas t) (sum + tv_gas t) height ei (tv_from t) [] false
  end.

Lemma cons_receipts_nth : forall l height ei sum k t, nth_error l k = Some t ->
  nth_error (cons_receipts height ei sum l) k =
  Some (cons_receipt_of height (ei + Z.of_nat k) (sum + gas_sum (firstn k l)) t).
Proof.
  induction l as [|x l IH]; intros height ei sum k t H; [destruct k; discriminate|].
  destruct k as [|k]; cbn in H.
  - inversion H; subst. cbn [cons_receipts firstn gas_sum]. rewrite !Z.add_0_r. unfold cons_receipt_of.
    destruct (first_rc (tv_events t)); reflexivity.
  - cbn [cons_receipts firstn gas_sum]. unfold tx_gas.
    destruct (first_rc (tv_events x)) as [rc|]; cbn [nth_error]; rewrite (IH _ _ _ _ _ H); f_equal; f_equal; lia.
Qed.

Lemma cons_receipts_length : forall l height ei sum, length (cons_receipts height ei sum l) = length l.
Proof.
  induction l as [|x l IH]; intros; cbn; [reflexivity|].
  destruct (first_rc (tv_events x)); cbn; rewrite IH; reflexivity.
Qed.

Lemma wf_pos_nth : forall l height ei k t rc, wf_pos height ei l = true ->
  nth_error (filter passed l) k = Some t -> first_rc (tv_events t) = Some rc ->
  rc_txidx rc = ei + Z.of_nat k /\ rc_block rc = height.
Proof.
  induction l as [|x l IH]; intros height ei k t rc Hw Hn Hrc; cbn in *; [destruct k; discriminate|].
  destruct (passed x) eqn:Hp.
  - apply andb_true_iff in Hw as [Hx Hl]. destruct k as [|k]; cbn in Hn.
    + inversion Hn; subst. rewrite Hrc in Hx. apply andb_true_iff in Hx as [H1 H2].
      apply Z.eqb_eq in H1, H2. lia.
    + destruct (IH _ _ _ _ _ Hl Hn Hrc) as [H1 H2]. lia.
  - eapply IH; eauto.
Qed.

Lemma wf_chain_block : forall c height j b, wf_chain_from height c = true -> nth_error c j = Some b ->
  wf_block (height + Z.of_nat j) b = true.
Proof.
  induction c as [|x c IH]; intros height j b Hw Hn; [destruct j; discriminate|].
  cbn in Hw. apply andb_true_iff in Hw as [Hx Hc]. destruct j as [|j]; cbn in Hn.
  - inversion Hn; subst. rewrite Z.add_0_r. exact Hx.
  - replace (height + Z.of_nat (S j)) with (height + 1 + Z.of_nat j) by lia. eapply IH; eauto.
Qed.

Lemma wf_block_at : forall c H b, wf_chain c = true -> block_at c H = Some b -> wf_block H b = true.
Proof.
  intros c H b Hw Hb. unfold block_at in Hb. destruct (H <? 1) eqn:E; [discriminate|]. apply Z.ltb_ge in E.
  replace H with (1 + Z.of_nat (Z.to_nat (H - 1))) by lia. eapply wf_chain_block; eauto.
Qed.

Lemma passed_not_dropped : forall t, passed t = true -> dropped t = false.
Proof. intros t H. unfold passed in H. destruct (dropped t); [rewrite andb_false_r in H; discriminate|reflexivity]. Qed.

(* eth_getTransactionReceipt = the consensus receipt, at the real position; also for a transaction that failed after
   admission or exceeded the block gas limit (no tx_receipt event: status 0, whole gas limit, no logs) *)
Theorem rpc_receipt_consensus : forall c, wf_chain c = true -> NoDup (chain_hashes c) ->
  forall H i t b, block_at c H = Some b -> block_eth_tx c H i = Some t ->
  exists v, rpc_receipt c (run c) (tv_hash t) = Some v /\
            nth_error (block_cons_receipts H b) (Z.to_nat i) = Some v /\
            rv_height v = H /\ rv_index v = i /\ rv_from v = tv_from t /\
            (first_rc (tv_events t) = None -> rv_status v = 0 /\ rv_gas v = tv_gas t /\ rv_logs v = [] /\ rv_contract v = false).
Proof.
  intros c Hw Hnd H i t b Hb Ht.
  destruct (entry_of_block_tx c Hw Hnd H i t Ht) as [b' [p [Hb' [Hpos [Hnth [Hi [Hgh _]]]]]]].
  rewrite Hb in Hb'. inversion Hb'; subst b'. clear Hb'.
  pose proof (wf_block_at c H b Hw Hb) as Hwb. unfold wf_block in Hwb. apply andb_true_iff in Hwb as [Hwt Hwp].
  destruct (pos_of_spec b _ _ Hpos) as [Hsame Hpre].
  assert (HtF : nth_error (filter passed b) (Z.to_nat i) = Some t) by (rewrite <- Hsame; exact Hnth).
  assert (Hcons : nth_error (block_cons_receipts H b) (Z.to_nat i) =
                  Some (cons_receipt_of H i (gas_sum (firstn (Z.to_nat i) (filter passed b))) t)).
  { unfold block_cons_receipts, block_eth_txs. rewrite (cons_receipts_nth _ H 0 0 _ t HtF). f_equal. f_equal; lia. }
  exists (cons_receipt_of H i (gas_sum (firstn (Z.to_nat i) (filter passed b))) t).
  split; [|split; [exact Hcons|]].
  - unfold rpc_receipt. rewrite Hgh. cbn [r_height r_txidx r_ethidx]. rewrite Hb, Nat2Z.id, Hnth.
    rewrite (passed_not_dropped t (passed_of_nth _ _ _ HtF)).
    unfold cons_receipt_of. destruct (first_rc (tv_events t)) as [rc|]; [reflexivity|].
    f_equal. f_equal. rewrite prev_gas_wf by (apply forallb_firstn; exact Hwt). rewrite Hpre.
    destruct (0 <? i) eqn:E; [lia|]. apply Z.ltb_ge in E. replace (Z.to_nat i) with 0%nat by lia. cbn. lia.
  - unfold cons_receipt_of. destruct (first_rc (tv_events t)) as [rc|] eqn:Hrc.
    + destruct (wf_pos_nth _ _ _ _ _ _ Hwp HtF Hrc) as [H1 H2]. cbn. repeat split; try lia; try discriminate.
    + cbn. repeat split; reflexivity.
Qed.

Theorem rpc_receipt_unknown : forall c, wf_chain c = true -> NoDup (chain_hashes c) ->
  forall h, ~ In h (chain_hashes c) -> rpc_receipt c (run c) h = None /\ rpc_tx_by_hash c (run c) h = None.
Proof.
  intros c Hw Hnd h Hn. apply (unknown_hash c Hw Hnd) in Hn. unfold rpc_receipt, rpc_tx_by_hash. rewrite Hn. split; reflexivity.
Qed.

(* eth_getTransactionByHash / ...ByBlockNumberAndIndex *)
Theorem rpc_tx_views : forall c, wf_chain c = true -> NoDup (chain_hashes c) ->
  forall H i t, block_eth_tx c H i = Some t ->
  rpc_tx_by_hash c (run c) (tv_hash t) = Some (TV H i (tv_hash t) (tv_from t)) /\
  rpc_tx_by_block_index c (run c) H i = Some (TV H i (tv_hash t) (tv_from t)).
Proof.
  intros c Hw Hnd H i t Ht.
  destruct (entry_of_block_tx c Hw Hnd H i t Ht) as [b [p [Hb [Hpos [Hnth [Hi [Hgh Hgi]]]]]]].
  unfold rpc_tx_by_hash, rpc_tx_by_block_index. rewrite Hgh, Hgi. cbn [r_height r_txidx r_ethidx].
  rewrite Hb, Nat2Z.id, Hnth. split; reflexivity.
Qed.

Theorem rpc_tx_by_index_out_of_range : forall c, wf_chain c = true -> NoDup (chain_hashes c) ->
  forall H i, 0 <= i -> block_eth_tx c H i = None -> rpc_tx_by_block_index c (run c) H i = None.
Proof.
  intros c Hw Hnd H i Hi Hn. unfold rpc_tx_by_block_index.
  destruct (block_at c H) as [b|] eqn:Hb; [|reflexivity].
  rewrite lookup_index by assumption. unfold block_eth_hash. rewrite Hn. cbn.
  pose proof (wf_block_at c H b Hw Hb) as Hwb. unfold wf_block in Hwb. apply andb_true_iff in Hwb as [Hwt _].
  rewrite (eth_msgs_wf b Hwt). unfold block_eth_tx in Hn. rewrite Hb in Hn.
  destruct (0 <=? i) eqn:E; [|apply Z.leb_gt in E; lia]. unfold block_eth_txs in Hn. rewrite Hn. reflexivity.
Qed.

(* ------------------------------------------------------------------ block view, count, logs *)
Definition gc (v : rview) : Z * Z := (rv_gas v, rv_cum v).

Lemma sumfst_app : forall a b, sumfst (a ++ b) = sumfst a + sumfst b.
Proof. induction a as [|[g x] a IH]; intros b; cbn; [reflexivity|rewrite IH; lia]. Qed.

Lemma block_receipts_spec : forall d b height msgs ei acc,
  (forall t, In t msgs -> exists x, get_by_hash d (tv_hash t) = Some x /\
                                    nth_error b (Z.to_nat (r_txidx x)) = Some t /\ dropped t = false) ->
  block_receipts d b msgs acc = Some (acc ++ map gc (cons_receipts height ei (sumfst acc) msgs)).
Proof.
  intros d b height msgs. induction msgs as [|t msgs IH]; intros ei acc Hl; cbn [block_receipts cons_receipts map].
  - rewrite app_nil_r. reflexivity.
  - destruct (Hl t (or_introl eq_refl)) as [x [Hg [Hn Hd]]]. rewrite Hg, Hn, Hd.
    destruct (first_rc (tv_events t)) as [rc|].
    + rewrite (IH (ei + 1)) by (intros t' Ht'; apply Hl; right; exact Ht').
      rewrite sumfst_app. cbn [sumfst map]. rewrite <- app_assoc. cbn [app]. unfold gc at 2. cbn [rv_gas rv_cum view_of_rc].
      rewrite Z.add_0_r. reflexivity.
    + rewrite (IH (ei + 1)) by (intros t' Ht'; apply Hl; right; exact Ht').
      rewrite sumfst_app. cbn [sumfst map]. rewrite <- app_assoc. cbn [app]. unfold gc at 2. cbn [rv_gas rv_cum].
      rewrite Z.add_0_r. do 3 f_equal. f_equal. lia.
Qed.

(* block gas used according to consensus: the cumulative gas of the last consensus receipt *)
Definition block_gas_used (height : Z) (b : block) : Z :=
  match rev (block_cons_receipts height b) with [] => 0 | v :: _ => rv_cum v end.

Lemma in_filter_nth : forall (l : list txv) t, In t (filter passed l) -> exists k, nth_error (filter passed l) k = Some t.
Proof. intros l t H. apply In_nth_error in H. exact H. Qed.

Theorem rpc_block_consensus : forall c, wf_chain c = true -> NoDup (chain_hashes c) ->
  forall H b, block_at c H = Some b ->
  rpc_block c (run c) H = BSome (map tv_hash (block_eth_txs b)) (block_gas_used H b).
Proof.
  intros c Hw Hnd H b Hb. unfold rpc_block. rewrite Hb.
  pose proof (wf_block_at c H b Hw Hb) as Hwb. unfold wf_block in Hwb. apply andb_true_iff in Hwb as [Hwt _].
  rewrite (eth_msgs_wf b Hwt).
  rewrite (block_receipts_spec (run c) b H (filter passed b) 0 []).
  - cbn [app sumfst]. unfold block_gas_used, block_cons_receipts, block_eth_txs.
    rewrite <- map_rev. destruct (rev (cons_receipts H 0 0 (filter passed b))) as [|v vs]; reflexivity.
  - intros t Hin. destruct (in_filter_nth b t Hin) as [k Hk].
    assert (Ht : block_eth_tx c H (Z.of_nat k) = Some t).
    { unfold block_eth_tx. rewrite Hb. destruct (0 <=? Z.of_nat k) eqn:E; [|apply Z.leb_gt in E; lia].
      rewrite Nat2Z.id. exact Hk. }
    destruct (entry_of_block_tx c Hw Hnd H _ t Ht) as [b' [p [Hb' [Hpos [Hnth [_ [Hgh _]]]]]]].
    rewrite Hb in Hb'. inversion Hb'; subst b'.
    eexists. split; [exact Hgh|]. cbn [r_txidx]. rewrite Nat2Z.id. split; [exact Hnth|].
    apply passed_not_dropped. eapply passed_of_nth; eauto.
Qed.

Theorem rpc_block_unknown : forall c d H, block_at c H = None ->
  rpc_block c d H = BNone /\ rpc_tx_count c H = None /\ rpc_logs c H = None /\
  forall i, rpc_tx_by_block_index c d H i = None.
Proof. intros c d H Hb. unfold rpc_block, rpc_tx_count, rpc_logs, rpc_tx_by_block_index. rewrite Hb. repeat split. Qed.

Theorem rpc_tx_count_consensus : forall c, wf_chain c = true -> forall H b, block_at c H = Some b ->
  rpc_tx_count c H = Some (Z.of_nat (length (block_eth_txs b))).
Proof.
  intros c Hw H b Hb. unfold rpc_tx_count. rewrite Hb.
  pose proof (wf_block_at c H b Hw Hb) as Hwb. unfold wf_block in Hwb. apply andb_true_iff in Hwb as [Hwt _].
  rewrite (eth_msgs_wf b Hwt). reflexivity.
Qed.

(* logs: one group per executed transaction, in block order, with the indices of its consensus receipt *)
Definition tx_logs (t : txv) : list (list Z) :=
  match first_rc (tv_events t) with Some rc => [log_indices rc] | None => [] end.
Definition block_logs (b : block) : list (list Z) := flat_map tx_logs (block_eth_txs b).

Lemma ev_logs_none : forall evs, length (filter is_ev_rc evs) = 0%nat -> ev_logs evs = [] /\ first_rc evs = None.
Proof.
  induction evs as [|e evs IH]; intros H; [split; reflexivity|].
  destruct e as [ok|rc]; cbn in *; [apply IH, H|discriminate].
Qed.

Lemma ev_logs_one : forall evs, (length (filter is_ev_rc evs) <= 1)%nat ->
  ev_logs evs = match first_rc evs with Some rc => [log_indices rc] | None => [] end.
Proof.
  induction evs as [|e evs IH]; intros H; [reflexivity|].
  destruct e as [ok|rc]; cbn in *; [apply IH, H|].
  destruct (ev_logs_none evs ltac:(lia)) as [E _]. rewrite E. reflexivity.
Qed.

Lemma wf_tx_logs : forall t, wf_tx t = true -> ev_logs (tv_events t) = if passed t then tx_logs t else [].
Proof.
  intros t Hw. unfold wf_tx in Hw. unfold tx_logs. destruct (passed t).
  - apply andb_true_iff in Hw as [_ Hw]. apply ev_logs_one. unfold count_rc in Hw.
    destruct (tv_code_ok t).
    + apply andb_true_iff in Hw as [_ Hw]. apply Nat.eqb_eq in Hw. lia.
    + apply Nat.eqb_eq in Hw. lia.
  - apply andb_true_iff in Hw as [Hw _]. apply Nat.eqb_eq in Hw. apply ev_logs_none. exact Hw.
Qed.

Lemma concat_logs_cons : forall l height ei sum,
  concat (flat_map tx_logs l) = concat (map rv_logs (cons_receipts height ei sum l)).
Proof.
  induction l as [|t l IH]; intros height ei sum; [reflexivity|].
  cbn [flat_map cons_receipts]. unfold tx_logs at 1.
  destruct (first_rc (tv_events t)) as [rc|]; cbn [map concat app rv_logs view_of_rc];
    rewrite <- (IH height (ei + 1)); reflexivity.
Qed.

Theorem rpc_logs_consensus : forall c, wf_chain c = true -> forall H b, block_at c H = Some b ->
  rpc_logs c H = Some (block_logs b) /\
  concat (block_logs b) = concat (map rv_logs (block_cons_receipts H b)).
Proof.
  intros c Hw H b Hb. unfold rpc_logs. rewrite Hb.
  pose proof (wf_block_at c H b Hw Hb) as Hwb. unfold wf_block in Hwb. apply andb_true_iff in Hwb as [Hwt _].
  split.
  - f_equal. unfold block_logs, block_eth_txs. clear Hb. induction b as [|t b IH]; [reflexivity|].
    cbn in Hwt. apply andb_true_iff in Hwt as [Ht Hbt]. cbn [flat_map filter].
    rewrite (wf_tx_logs t Ht), (IH Hbt). destruct (passed t); reflexivity.
  - unfold block_logs, block_cons_receipts. apply concat_logs_cons.
Qed.

(* cumulative gas: when consensus receipts carry the running sum (checked by the driver on every block), the
   cumulative gas of the k-th consensus receipt - hence of the RPC receipt - is the gas of all admitted Ethereum
   transactions up to and including it, admitted-but-failed ones counted with their gas limit *)
Lemma cons_receipts_gas : forall l height ei sum k v, nth_error (cons_receipts height ei sum l) k = Some v ->
  exists t, nth_error l k = Some t /\ rv_gas v = tx_gas t.
Proof.
  induction l as [|x l IH]; intros height ei sum k v H; [destruct k; discriminate|].
  cbn [cons_receipts] in H. unfold tx_gas.
  destruct (first_rc (tv_events x)) as [rc|] eqn:E; destruct k as [|k]; cbn in H.
  - inversion H; subst. exists x. rewrite E. split; reflexivity.
  - apply IH in H. exact H.
  - inversion H; subst. exists x. rewrite E. split; reflexivity.
  - apply IH in H. exact H.
Qed.

Theorem cum_is_running_sum : forall l height ei sum k t v, cum_ok sum l = true ->
  nth_error l k = Some t -> nth_error (cons_receipts height ei sum l) k = Some v ->
  rv_cum v = sum + gas_sum (firstn (S k) l).
Proof.
  induction l as [|x l IH]; intros height ei sum k t v Hc Hn Hv; [destruct k; discriminate|].
  cbn [cum_ok] in Hc. cbn [cons_receipts] in Hv. cbn [firstn gas_sum]. unfold tx_gas.
  destruct (first_rc (tv_events x)) as [rc|] eqn:E.
  - apply andb_true_iff in Hc as [H1 H2]. apply Z.eqb_eq in H1. destruct k as [|k]; cbn in Hn, Hv.
    + inversion Hv; subst. cbn. lia.
    + rewrite (IH _ _ _ _ _ _ H2 Hn Hv). cbn [firstn gas_sum]. lia.
  - destruct k as [|k]; cbn in Hn, Hv.
    + inversion Hv; subst. cbn. lia.
    + rewrite (IH _ _ _ _ _ _ Hc Hn Hv). cbn [firstn gas_sum]. lia.
Qed.

(* ================================================================== re-indexing; the index as a function of the chain *)
Lemma db_get_in : forall k d v, db_get k d = Some v -> In (k, v) d.
Proof.
  induction d as [|[k' v'] d IH]; intros v H; cbn in H; [discriminate|].
  destruct (key_eqb k k') eqn:E.
  - apply key_eqb_eq in E. inversion H; subst. left; reflexivity.
  - right. apply IH, H.
Qed.

Lemma in_db_get : forall k v d, In (k, v) d -> exists v', db_get k d = Some v'.
Proof.
  induction d as [|[k' v'] d IH]; intros H; [contradiction|]. cbn.
  destruct (key_eqb k k') eqn:E; [eexists; reflexivity|].
  destruct H as [H|H]; [inversion H; subst; rewrite key_eqb_refl in E; discriminate|apply IH, H].
Qed.

Definition present (d : db) (b : batch) : Prop := forall k v, In (k, v) b -> db_get k d = Some v.

Lemma write_present : forall d b, present d b -> db_equiv (db_write d b) d.
Proof.
  intros d b Hp k. unfold db_write. rewrite db_get_app.
  destruct (db_get k (rev b)) as [v|] eqn:E; [|reflexivity].
  apply db_get_in, in_rev in E. symmetry. apply Hp, E.
Qed.

Lemma idx_key_run : forall c, wf_chain c = true ->
  forall H i, db_get (KIdx H i) (run c) = option_map VHash (block_eth_hash c H i).
Proof.
  intros c Hw H i. rewrite run_entries. unfold wf_chain in Hw. rewrite (wf_chain_entries c 1 Hw).
  rewrite idx_chain, block_eth_hash_alt.
  destruct ((1 <=? H) && (0 <=? i)); [|reflexivity].
  destruct (nth_error c (Z.to_nat (H - 1))) as [b|]; reflexivity.
Qed.

Lemma sent_in_inv : forall l height ti ei h r, In (h, r) (sent height ti ei l) ->
  exists k t, nth_error (filter passed l) k = Some t /\ tv_hash t = h /\ r_height r = height /\ r_ethidx r = ei + Z.of_nat k.
Proof.
  induction l as [|x l IH]; intros height ti ei h r Hin; cbn in Hin; [contradiction|].
  destruct (passed x) eqn:Hp.
  - destruct Hin as [Hin|Hin].
    + inversion Hin; subst. exists 0%nat, x. cbn. rewrite Hp. cbn. repeat split; lia.
    + destruct (IH _ _ _ _ _ Hin) as [k [t [H1 [H2 [H3 H4]]]]]. exists (S k), t. cbn. rewrite Hp. cbn.
      repeat split; try assumption. lia.
  - destruct (IH _ _ _ _ _ Hin) as [k [t [H1 [H2 [H3 H4]]]]]. exists k, t. cbn. rewrite Hp. repeat split; assumption.
Qed.

Lemma in_pers : forall k v es, In (k, v) (flat_map pers es) ->
  exists h r, In (h, r) es /\ ((k = KHash h /\ v = VRes r) \/ (k = KIdx (r_height r) (r_ethidx r) /\ v = VHash h)).
Proof.
  intros k v es H. apply in_flat_map in H as [[h r] [Hin Hp]]. exists h, r. split; [exact Hin|].
  cbn in Hp. destruct Hp as [Hp|[Hp|[]]]; inversion Hp; subst; [left|right]; split; reflexivity.
Qed.

Lemma index_block_sent : forall c H b, wf_chain c = true -> block_at c H = Some b ->
  index_block H b = flat_map pers (sent H 0 0 b).
Proof.
  intros c H b Hw Hb. unfold index_block. rewrite index_txs_pent.
  pose proof (wf_block_at c H b Hw Hb) as Hwb. unfold wf_block in Hwb. apply andb_true_iff in Hwb as [Hwt _].
  rewrite (wf_pent_sent b H 0 0 Hwt). reflexivity.
Qed.

(* every write of a block's batch is already in the index of the whole chain, with the same value *)
Lemma block_present : forall c, wf_chain c = true -> NoDup (chain_hashes c) ->
  forall H b, block_at c H = Some b -> present (run c) (index_block H b).
Proof.
  intros c Hw Hnd H b Hb k v Hin. rewrite (index_block_sent c H b Hw Hb) in Hin.
  destruct (in_pers _ _ _ Hin) as [h [r [Hs Hkv]]].
  pose proof Hb as Hb1. unfold block_at in Hb1. destruct (H <? 1) eqn:EH; [discriminate|]. apply Z.ltb_ge in EH.
  assert (Hc : In (h, r) (centries sent 1 c)).
  { eapply nth_block_in_centries; [exact Hb1|]. replace (1 + Z.of_nat (Z.to_nat (H - 1))) with H by lia. exact Hs. }
  destruct Hkv as [[-> ->]|[-> ->]].
  - rewrite run_entries. unfold wf_chain in Hw. rewrite (wf_chain_entries c 1 Hw).
    destruct (hash_in_get _ _ _ Hc) as [r' [Hg Hin']]. rewrite Hg. do 2 f_equal.
    eapply nodup_fst_fun; [|exact Hin'|exact Hc]. rewrite centries_fst. exact Hnd.
  - destruct (sent_in_inv _ _ _ _ _ _ Hs) as [j [t [H1 [H2 [H3 H4]]]]].
    rewrite idx_key_run by exact Hw. rewrite H3, H4. unfold block_eth_hash, block_eth_tx. rewrite Hb.
    destruct (0 <=? 0 + Z.of_nat j) eqn:E; [|apply Z.leb_gt in E; lia].
    unfold block_eth_txs. replace (Z.to_nat (0 + Z.of_nat j)) with j by lia. rewrite H1. cbn. rewrite H2. reflexivity.
Qed.

Lemma present_equiv : forall d d' b, db_equiv d d' -> present d b -> present d' b.
Proof. intros d d' b E Hp k v Hin. rewrite <- E. apply Hp, Hin. Qed.

(* indexing any blocks of the chain again, in any order, any number of times, changes nothing *)
Theorem reindex_noop : forall c, wf_chain c = true -> NoDup (chain_hashes c) ->
  forall hs d, db_equiv d (run c) -> db_equiv (feed c d hs) (run c).
Proof.
  intros c Hw Hnd hs. unfold feed. induction hs as [|H hs IH]; intros d E; [exact E|].
  cbn [fold_left]. apply IH. destruct (block_at c H) as [b|] eqn:Hb; [|exact E].
  eapply db_equiv_trans; [|exact E]. apply write_present.
  apply (present_equiv (run c)); [intros k; symmetry; apply E|]. apply block_present; assumption.
Qed.

(* the index is a function of the chain alone: whatever the order and multiplicity in which the blocks were handed
   to IndexBlock, once every block has been indexed the database answers every key like the in-order run *)
Definition sub (d d' : db) : Prop := forall k v, db_get k d = Some v -> db_get k d' = Some v.

Lemma feed_sub : forall c, wf_chain c = true -> NoDup (chain_hashes c) ->
  forall hs d, sub d (run c) -> sub (feed c d hs) (run c).
Proof.
  intros c Hw Hnd hs. unfold feed. induction hs as [|H hs IH]; intros d S; [exact S|].
  cbn [fold_left]. apply IH. destruct (block_at c H) as [b|] eqn:Hb; [|exact S].
  intros k v Hg. unfold db_write in Hg. rewrite db_get_app in Hg.
  destruct (db_get k (rev (index_block H b))) as [v'|] eqn:E.
  - inversion Hg; subst. apply db_get_in, in_rev in E. eapply block_present; eauto.
  - apply S, Hg.
Qed.

Lemma feed_keeps : forall c hs d k, db_get k d <> None -> db_get k (feed c d hs) <> None.
Proof.
  intros c hs. unfold feed. induction hs as [|H hs IH]; intros d k Hk; [exact Hk|].
  cbn [fold_left]. apply IH. destruct (block_at c H) as [b|]; [|exact Hk].
  unfold db_write. rewrite db_get_app. destruct (db_get k (rev (index_block H b))); [discriminate|exact Hk].
Qed.

Lemma feed_writes : forall c hs d H b k v, In H hs -> block_at c H = Some b -> In (k, v) (index_block H b) ->
  db_get k (feed c d hs) <> None.
Proof.
  intros c hs. induction hs as [|H0 hs IH]; intros d H b k v Hin Hb Hkv; [contradiction|].
  destruct Hin as [->|Hin].
  - unfold feed. cbn [fold_left]. apply (feed_keeps c hs). rewrite Hb. unfold db_write. rewrite db_get_app.
    destruct (in_db_get k v (rev (index_block H b))) as [v' Hv']; [rewrite <- in_rev; exact Hkv|].
    rewrite Hv'. discriminate.
  - unfold feed. cbn [fold_left]. eapply (IH _ H b k v); eauto.
Qed.

Lemma centries_in_block : forall c height e, In e (centries sent height c) ->
  exists j b, nth_error c j = Some b /\ In e (sent (height + Z.of_nat j) 0 0 b).
Proof.
  induction c as [|b c IH]; intros height e Hin; cbn in Hin; [contradiction|].
  apply in_app_or in Hin as [Hin|Hin].
  - exists 0%nat, b. rewrite Z.add_0_r. split; [reflexivity|exact Hin].
  - destruct (IH _ _ Hin) as [j [b' [H1 H2]]]. exists (S j), b'. split; [exact H1|].
    replace (height + Z.of_nat (S j)) with (height + 1 + Z.of_nat j) by lia. exact H2.
Qed.

Theorem index_any_order : forall c, wf_chain c = true -> NoDup (chain_hashes c) ->
  forall hs, (forall H, 1 <= H <= Z.of_nat (length c) -> In H hs) -> db_equiv (feed c [] hs) (run c).
Proof.
  intros c Hw Hnd hs Hcov k.
  assert (S : sub (feed c [] hs) (run c)) by (apply feed_sub; try assumption; intros k' v' H'; discriminate).
  destruct (db_get k (run c)) as [v|] eqn:E.
  - assert (Hne : db_get k (feed c [] hs) <> None).
    { pose proof E as E'. rewrite run_entries in E'. unfold wf_chain in Hw. rewrite (wf_chain_entries c 1 Hw) in E'.
      apply db_get_in in E'. unfold db_of in E'. rewrite <- in_rev in E'.
      destruct (in_pers _ _ _ E') as [h [r [Hc Hkv]]].
      destruct (centries_in_block _ _ _ Hc) as [j [b [Hj Hs]]].
      assert (Hb : block_at c (1 + Z.of_nat j) = Some b).
      { replace (1 + Z.of_nat j) with (Z.of_nat j + 1) by lia. rewrite block_at_nat. exact Hj. }
      assert (Hlen : (j < length c)%nat) by (apply nth_error_Some; congruence).
      eapply (feed_writes c hs [] (1 + Z.of_nat j) b k v); [apply Hcov; lia|exact Hb|].
      rewrite (index_block_sent c _ b Hw Hb). apply in_flat_map. exists (h, r). split; [exact Hs|].
      cbn. destruct Hkv as [[-> ->]|[-> ->]]; [left|right; left]; reflexivity. }
    destruct (db_get k (feed c [] hs)) as [v'|] eqn:E2; [|congruence].
    apply S in E2. congruence.
  - destruct (db_get k (feed c [] hs)) as [v'|] eqn:E2; [|reflexivity]. apply S in E2. congruence.
Qed.

(* ================================================================== the empty-DB resume rule *)
(* physically possible service histories: the node's height never decreases and stays within the chain *)
Fixpoint sched_phys (n node : Z) (l : list incarnation) : bool :=
  match l with
  | [] => true
  | i :: r => (node <=? i_start i) && (i_start i <=? i_end i) && (i_end i <=? n) && sched_phys n (i_end i) r
  end.

Definition crash_converges_full : Prop := forall c earliest i0 l fin,
  wf_chain c = true -> NoDup (chain_hashes c) -> earliest <= 1 -> 0 <= i_start i0 ->
  sched_phys (Z.of_nat (length c)) (i_start i0) (i0 :: l ++ [fin]) = true ->
  i_end fin = Z.of_nat (length c) -> Z.of_nat (length c) <= Z.of_nat (i_kill fin) ->
  db_equiv (life c earliest (i0 :: l ++ [fin])) (run_from c (i_start i0)).

(* witness: the indexer is killed while indexing block 1 (the first block with an Ethereum transaction) before its
   batch is written; at the restart the DB is empty and the node is at height 1: block 1 is never indexed *)
Definition wit_tx : txv :=
  Tx true true true 7 21000 9 true [EvEth true; EvRc (Rc 0 1 false 1 21000 21000 None 0 false)].
Definition wit_chain : chain := [[wit_tx]].

Theorem crash_converges_refuted : ~ crash_converges_full.
Proof.
  intros Hf.
  assert (Hnd : NoDup (chain_hashes wit_chain)) by (cbn; constructor; [intros []|constructor]).
  specialize (Hf wit_chain 1 (Inc 0 1 0) [] (Inc 1 1 5) eq_refl Hnd ltac:(lia) ltac:(cbn; lia) eq_refl eq_refl ltac:(cbn; lia)).
  specialize (Hf (KHash 7)). vm_compute in Hf. discriminate.
Qed.

(* the boolean distinctness test evaluated on every harness chain implies the NoDup hypothesis of the theorems *)
Lemma nodupb_sound : forall l, nodupb l = true -> NoDup l.
Proof.
  induction l as [|x l IH]; intros H; [constructor|].
  cbn in H. apply andb_true_iff in H as [H1 H2]. constructor; [|apply IH, H2].
  intros Hin. apply negb_true_iff in H1. assert (E : existsb (Z.eqb x) l = true); [|congruence].
  apply existsb_exists. exists x. split; [exact Hin|apply Z.eqb_refl].
Qed.

Lemma chain_hyps_sound : forall c, chain_hyps c = true ->
  wf_chain c = true /\ cum_chain_ok c = true /\ NoDup (chain_hashes c).
Proof.
  intros c H. unfold chain_hyps in H. apply andb_true_iff in H as [H H3]. apply andb_true_iff in H as [H1 H2].
  split; [exact H1|]. split; [exact H2|]. apply nodupb_sound, H3.
Qed.

(* ================================================================== safety under EVERY history *)
(* Whatever the service history (any kill points, any restarts, empty-DB restarts included), the database only ever
   holds entries of the in-order index of the chain: the empty-DB resume rule loses entries, it never corrupts any. *)
Lemma write_sub : forall c, wf_chain c = true -> NoDup (chain_hashes c) ->
  forall d H b, sub d (run c) -> block_at c H = Some b -> sub (db_write d (index_block H b)) (run c).
Proof.
  intros c Hw Hnd d H b S Hb k v Hg. unfold db_write in Hg. rewrite db_get_app in Hg.
  destruct (db_get k (rev (index_block H b))) as [v'|] eqn:E.
  - inversion Hg; subst. apply db_get_in, in_rev in E. eapply block_present; eauto.
  - apply S, Hg.
Qed.

Lemma index_from_sub : forall c, wf_chain c = true -> NoDup (chain_hashes c) ->
  forall n from d, sub d (run c) -> sub (index_from c d from n) (run c).
Proof.
  intros c Hw Hnd n. induction n as [|n IH]; intros from d S; cbn [index_from]; [exact S|].
  destruct (block_at c (from + 1)) as [b|] eqn:Hb; [|exact S].
  apply IH. apply write_sub; assumption.
Qed.

Theorem life_sub : forall c, wf_chain c = true -> NoDup (chain_hashes c) ->
  forall earliest l, sub (life c earliest l) (run c).
Proof.
  intros c Hw Hnd earliest l. unfold life.
  assert (G : forall d, sub d (run c) -> sub (fold_left (run_incarnation c earliest) l d) (run c)).
  { induction l as [|i l IH]; intros d S; [exact S|]. cbn [fold_left]. apply IH.
    unfold run_incarnation. apply index_from_sub; assumption. }
  apply G. intros k v H. discriminate.
Qed.

Theorem any_history_answers_are_real : forall c, wf_chain c = true -> NoDup (chain_hashes c) ->
  forall earliest l h r, get_by_hash (life c earliest l) h = Some r -> get_by_hash (run c) h = Some r.
Proof.
  intros c Hw Hnd earliest l h r H. unfold get_by_hash in *.
  destruct (db_get (KHash h) (life c earliest l)) as [[x|x]|] eqn:E; try discriminate.
  inversion H; subst. rewrite (life_sub c Hw Hnd earliest l _ _ E). reflexivity.
Qed.

(* ================================================================== transient failures of the node client *)
(* a life tolerates its node: during catch-up (heights up to the node height at start) no height is fetched in vain more
   than 10 times; the live loop (heights above) may fail any number of times *)
Definition tolerable (L : slife) : Prop :=
  forall h, h <= i_start (sl_inc L) -> (failures (sl_plan L) h <= startup_failure_threshold)%nat.

Lemma gives_up_ready : forall fuel bl rs cnt, gives_up true bl rs cnt fuel = false.
Proof.
  induction fuel as [|f IH]; intros bl rs cnt; cbn [gives_up]; [reflexivity|].
  destruct bl as [|[|] bl']; cbn [negb andb tl].
  - destruct rs as [|[|] rs']; [reflexivity|apply IH|reflexivity].
  - apply IH.
  - destruct rs as [|[|] rs']; [reflexivity|apply IH|reflexivity].
Qed.

Lemma nfail_tl : forall l, (nfail (tl l) <= nfail l)%nat.
Proof. intros [|[|] l]; unfold nfail; cbn; lia. Qed.

Lemma gives_up_few : forall fuel ready bl rs cnt,
  (cnt + nfail bl + nfail rs <= startup_failure_threshold)%nat -> gives_up ready bl rs cnt fuel = false.
Proof.
  unfold startup_failure_threshold.
  induction fuel as [|f IH]; intros ready bl rs cnt H; cbn [gives_up]; [reflexivity|].
  assert (Hrs : forall bl0, (nfail bl0 <= nfail bl)%nat ->
    match rs with
    | true :: rs' => if negb ready && (startup_failure_threshold <? S cnt)%nat then true else gives_up ready bl0 rs' (S cnt) f
    | _ => false
    end = false).
  { intros bl0 Hbl0. destruct rs as [|[|] rs']; [reflexivity| |reflexivity].
    unfold nfail in *. cbn [filter length] in H.
    replace (startup_failure_threshold <? S cnt)%nat with false
      by (symmetry; apply Nat.ltb_ge; unfold startup_failure_threshold; lia).
    rewrite andb_false_r. apply IH. unfold nfail. lia. }
  destruct bl as [|[|] bl'].
  - apply (Hrs []). lia.
  - unfold nfail in *. cbn [filter length] in H.
    replace (startup_failure_threshold <? S cnt)%nat with false
      by (symmetry; apply Nat.ltb_ge; unfold startup_failure_threshold; lia).
    rewrite andb_false_r. apply IH. unfold nfail. lia.
  - cbn [tl]. apply Hrs. unfold nfail. cbn. lia.
Qed.

Lemma skips_tolerated : forall start p i,
  (start < i \/ (failures p i <= startup_failure_threshold)%nat) -> skips start p i = false.
Proof.
  intros start p i H. unfold skips, failures in *. destruct (plan_at p i) as [bl rs].
  destruct H as [H|H].
  - replace (start <? i) with true by (symmetry; apply Z.ltb_lt; exact H). apply gives_up_ready.
  - apply gives_up_few. lia.
Qed.

(* without a give-up the loop is the plain indexing loop, cut at the kill point *)
Lemma svc_run_noskip : forall c start p n d cur bud,
  (forall i, cur < i <= cur + Z.of_nat n -> skips start p i = false) ->
  svc_run c start p d cur bud n = index_from c d cur (Nat.min bud n).
Proof.
  intros c start p n. induction n as [|n IH]; intros d cur bud H.
  - rewrite Nat.min_0_r. reflexivity.
  - cbn [svc_run]. rewrite (H (cur + 1)) by lia.
    destruct bud as [|bu].
    + cbn [Nat.min index_from]. destruct (block_at c (cur + 1)); reflexivity.
    + cbn [Nat.min index_from]. destruct (block_at c (cur + 1)) as [b|]; [|reflexivity].
      apply IH. intros i Hi. apply H. lia.
Qed.

(* transient failures of the node client leave no trace in the index: the life writes exactly what the same life
   writes over a node that always answers *)
Theorem rpc_failures_invisible : forall c d L, tolerable L -> sl_startfail L = false ->
  run_slife c d L = run_incarnation c (sl_earliest L) d (sl_inc L).
Proof.
  intros c d L Ht Hs. unfold run_slife, run_incarnation. rewrite Hs.
  apply svc_run_noskip. intros i Hi. apply skips_tolerated.
  destruct (Z_lt_ge_dec (i_start (sl_inc L)) i) as [Hlt|Hge]; [left; exact Hlt|right; apply Ht; lia].
Qed.

(* ... in particular failures of the live loop alone (heights above the node height at start), however many *)
Corollary live_loop_failures_invisible : forall c d L,
  (forall h, h <= i_start (sl_inc L) -> failures (sl_plan L) h = 0%nat) -> sl_startfail L = false ->
  run_slife c d L = run_incarnation c (sl_earliest L) d (sl_inc L).
Proof.
  intros c d L H Hs. apply rpc_failures_invisible; [|exact Hs].
  intros h Hh. rewrite (H h Hh). unfold startup_failure_threshold. lia.
Qed.

Lemma slife_inv : forall c s0 l reached,
  (forall L, In L l -> sl_earliest L <= 1) -> 0 <= s0 -> s0 <= reached -> reached <= Z.of_nat (length c) ->
  (forall L, In L l -> tolerable L) ->
  ssched_ok c (index_range c [] s0 reached) reached l = true ->
  exists reached', reached <= reached' <= Z.of_nat (length c) /\
    fold_left (run_slife c) l (index_range c [] s0 reached) = index_range c [] s0 reached' /\
    (forall L, In L l -> sl_startfail L = false -> Z.of_nat (length c) <= Z.of_nat (i_kill (sl_inc L)) ->
               i_end (sl_inc L) = Z.of_nat (length c) -> reached' = Z.of_nat (length c)).
Proof.
  intros c s0 l. induction l as [|L l IH]; intros reached Hea H0 Hr Hn Htol Hok.
  - exists reached. split; [lia|]. split; [reflexivity|intros L []].
  - assert (He : sl_earliest L <= 1) by (apply Hea; left; reflexivity).
    assert (Hea' : forall L', In L' l -> sl_earliest L' <= 1) by (intros L' HL'; apply Hea; right; exact HL').
    cbn [ssched_ok] in Hok. apply andb_true_iff in Hok as [Hend Hok]. apply Z.leb_le in Hend.
    assert (HtolL : tolerable L) by (apply Htol; left; reflexivity).
    assert (Htol' : forall L', In L' l -> tolerable L') by (intros L' HL'; apply Htol; right; exact HL').
    cbn [fold_left]. destruct (sl_startfail L) eqn:Esf.
    + (* the life failed to start: nothing read, nothing written *)
      unfold run_slife at 2. rewrite Esf.
      destruct (IH reached Hea' H0 Hr Hn Htol' Hok) as [r2 [Hb2 [Heq2 Hfin]]].
      exists r2. split; [lia|]. split; [exact Heq2|].
      intros x [<-|Hx] Hsf Hk Hxe; [congruence|eapply Hfin; eauto].
    + apply andb_true_iff in Hok as [Hok1 Hrest].
      assert (Hcond : last_indexed (index_range c [] s0 reached) <> -1 \/ i_start (sl_inc L) = reached).
      { apply orb_true_iff in Hok1 as [H|H].
        - left. apply negb_true_iff, Z.eqb_neq in H. exact H.
        - right. apply Z.eqb_eq in H. exact H. }
      rewrite (rpc_failures_invisible c _ L HtolL Esf) in *.
      pose proof (incarnation_inv c (sl_earliest L) s0 reached (sl_inc L) He H0 Hr Hn Hcond Hend) as Hinv. cbn zeta in Hinv.
      set (r1 := step_reached (sl_earliest L) (index_range c [] s0 reached) reached (sl_inc L)) in *.
      destruct Hinv as [Heq [Hb Hcur0]]. rewrite Heq in *.
      assert (Hr1a : s0 <= r1) by lia. assert (Hr1b : r1 <= Z.of_nat (length c)) by lia.
      destruct (IH r1 Hea' H0 Hr1a Hr1b Htol' Hrest) as [r2 [Hb2 [Heq2 Hfin]]].
      exists r2. split; [lia|]. split; [exact Heq2|].
      intros x [<-|Hx] Hsf Hk Hxe; [|eapply Hfin; eauto].
      assert (r1 = Z.of_nat (length c)); [|lia].
      unfold r1, step_reached in *.
      set (cur := resume (index_range c [] s0 reached) (i_start (sl_inc L)) (sl_earliest L)) in *.
      destruct (Z_le_gt_dec cur (Z.of_nat (length c))); lia.
Qed.

Theorem crash_converges_rpc : forall c s0 l fin,
  (forall L, In L (l ++ [fin]) -> sl_earliest L <= 1) -> 0 <= s0 -> s0 <= Z.of_nat (length c) ->
  (forall L, In L (l ++ [fin]) -> tolerable L) ->
  ssched_ok c [] s0 (l ++ [fin]) = true ->
  sl_startfail fin = false ->
  i_end (sl_inc fin) = Z.of_nat (length c) -> Z.of_nat (length c) <= Z.of_nat (i_kill (sl_inc fin)) ->
  slife_run c (l ++ [fin]) = run_from c s0.
Proof.
  intros c s0 l fin He H0 Hn Htol Hok Hsf Hend Hk.
  unfold slife_run. rewrite <- (index_range_nop c [] s0 s0) by lia.
  rewrite <- (index_range_nop c [] s0 s0) in Hok by lia.
  destruct (slife_inv c s0 (l ++ [fin]) s0 He H0 ltac:(lia) Hn Htol Hok) as [r [Hb [Heq Hfin]]].
  rewrite Heq. unfold run_from. f_equal. eapply Hfin; eauto. apply in_or_app. right. left. reflexivity.
Qed.

(* the old statement is the special case "the node always answers" *)
Definition quiet_life (earliest : Z) (i : incarnation) : slife := SL i earliest false [].

Lemma quiet_life_run : forall c earliest d i, run_slife c d (quiet_life earliest i) = run_incarnation c earliest d i.
Proof.
  intros. apply (rpc_failures_invisible c d (quiet_life earliest i)); [|reflexivity].
  intros h _. unfold failures, plan_at. cbn. unfold startup_failure_threshold. lia.
Qed.

(* the cursor never moves past a height that was not handed to IndexBlock, unless the start-up threshold was exceeded:
   every block between the cursor and the end of a life that tolerates its node and is not killed is written *)
Theorem no_height_skipped : forall c start p n d cur bud H b k v,
  (forall i, cur < i <= cur + Z.of_nat n -> skips start p i = false) -> (n <= bud)%nat ->
  0 <= cur -> cur < H <= cur + Z.of_nat n -> block_at c H = Some b -> In (k, v) (index_block H b) ->
  db_get k (svc_run c start p d cur bud n) <> None.
Proof.
  intros c start p n. induction n as [|n IH]; intros d cur bud H b k v Hsk Hbud Hc HH Hb Hin; [lia|].
  cbn [svc_run]. rewrite (Hsk (cur + 1)) by lia.
  destruct (block_at c (cur + 1)) as [b1|] eqn:E1.
  - destruct bud as [|bu]; [lia|].
    destruct (Z.eq_dec H (cur + 1)) as [->|Hne].
    + rewrite E1 in Hb. inversion Hb; subst b1.
      rewrite svc_run_noskip by (intros i Hi; apply Hsk; lia).
      assert (G : forall m a d0, db_get k d0 <> None -> db_get k (index_from c d0 a m) <> None).
      { induction m as [|m IHm]; intros a d0 Hd0; cbn [index_from]; [exact Hd0|].
        destruct (block_at c (a + 1)) as [b2|]; [|exact Hd0]. apply IHm.
        unfold db_write. rewrite db_get_app. destruct (db_get k (rev (index_block (a + 1) b2))); [discriminate|exact Hd0]. }
      apply G. unfold db_write. rewrite db_get_app.
      destruct (in_db_get k v (rev (index_block (cur + 1) b))) as [v' Hv']; [apply in_rev in Hin; exact Hin|].
      rewrite Hv'. discriminate.
    + apply (IH _ (cur + 1) bu H b k v); try assumption; try lia. intros i Hi. apply Hsk. lia.
  - exfalso. assert (block_at c (cur + 1 + (H - cur - 1)) = None) by (apply block_at_beyond; [lia|lia|exact E1]).
    replace (cur + 1 + (H - cur - 1)) with H in * by lia. congruence.
Qed.

(* the full statement - no bound on the failures during catch-up - is FALSE of the faithful model: the 11th failed fetch of
   a height while the indexer is not yet ready moves the cursor past it, the next block with an Ethereum transaction moves
   the resume point past it, and no later restart returns to it *)
Definition crash_converges_rpc_full : Prop := forall c s0 l fin,
  wf_chain c = true -> NoDup (chain_hashes c) ->
  (forall L, In L (l ++ [fin]) -> sl_earliest L <= 1) -> 0 <= s0 -> s0 <= Z.of_nat (length c) ->
  ssched_ok c [] s0 (l ++ [fin]) = true ->
  sl_startfail fin = false ->
  i_end (sl_inc fin) = Z.of_nat (length c) -> Z.of_nat (length c) <= Z.of_nat (i_kill (sl_inc fin)) ->
  db_equiv (slife_run c (l ++ [fin])) (run_from c s0).

Definition wit_tx_at (hash height : Z) : txv :=
  Tx true true true hash 21000 9 true [EvEth true; EvRc (Rc 0 height false 1 21000 21000 None 0 false)].
Definition wit_chain3 : chain := [[wit_tx_at 7 1]; [wit_tx_at 8 2]; [wit_tx_at 9 3]].
(* BlockResults(2) fails 11 times in a row (Block(2) answers every time) while the second life catches up from block 1 to 3 *)
Definition wit_plan : list hplan := [HP 2 [] (repeat true 11)].

Theorem crash_converges_rpc_refuted : ~ crash_converges_rpc_full.
Proof.
  intros Hf.
  assert (Hnd : NoDup (chain_hashes wit_chain3)).
  { apply nodupb_sound. vm_compute. reflexivity. }
  assert (He : forall L, In L ([SL (Inc 0 1 9) 1 false []] ++ [SL (Inc 3 3 9) 1 false wit_plan]) -> sl_earliest L <= 1).
  { intros L [<-|[<-|[]]]; cbn; lia. }
  specialize (Hf wit_chain3 0 [SL (Inc 0 1 9) 1 false []] (SL (Inc 3 3 9) 1 false wit_plan) eq_refl Hnd
                 He ltac:(lia) ltac:(cbn; lia) eq_refl eq_refl eq_refl ltac:(cbn; lia)).
  specialize (Hf (KHash 8)). vm_compute in Hf. discriminate.
Qed.

(* safety under EVERY history, node failures included: the index only ever holds entries of the in-order index *)
Lemma svc_run_sub : forall c, wf_chain c = true -> NoDup (chain_hashes c) ->
  forall start p n d cur bud, sub d (run c) -> sub (svc_run c start p d cur bud n) (run c).
Proof.
  intros c Hw Hnd start p n. induction n as [|n IH]; intros d cur bud S; cbn [svc_run]; [exact S|].
  destruct (skips start p (cur + 1)); [apply IH, S|].
  destruct (block_at c (cur + 1)) as [b|] eqn:Hb; [|exact S].
  destruct bud as [|bu]; [exact S|]. apply IH. apply write_sub; assumption.
Qed.

Theorem slife_sub : forall c, wf_chain c = true -> NoDup (chain_hashes c) ->
  forall l, sub (slife_run c l) (run c).
Proof.
  intros c Hw Hnd l. unfold slife_run.
  assert (G : forall d, sub d (run c) -> sub (fold_left (run_slife c) l d) (run c)).
  { induction l as [|L l IH]; intros d S; [exact S|]. cbn [fold_left]. apply IH.
    unfold run_slife. destruct (sl_startfail L); [exact S|]. apply svc_run_sub; assumption. }
  apply G. intros k v H. discriminate.
Qed.

Theorem any_rpc_history_answers_are_real : forall c, wf_chain c = true -> NoDup (chain_hashes c) ->
  forall l h r, get_by_hash (slife_run c l) h = Some r -> get_by_hash (run c) h = Some r.
Proof.
  intros c Hw Hnd l h r H. unfold get_by_hash in *.
  destruct (db_get (KHash h) (slife_run c l)) as [[x|x]|] eqn:E; try discriminate.
  inversion H; subst. rewrite (slife_sub c Hw Hnd l _ _ E). reflexivity.
Qed.

(* ================================================================== restart on a node that has pruned *)
(* the node pruned past the last indexed block while the indexer was down: the life (not killed, tolerating its node)
   indexes every block the node still serves, its earliest one included *)
Theorem pruned_restart_indexes_from_earliest : forall c d L H b k v,
  let i := sl_inc L in
  sl_startfail L = false -> tolerable L ->
  last_indexed d <> -1 -> last_indexed d < sl_earliest L -> 1 <= sl_earliest L ->
  (Z.to_nat (i_end i - (sl_earliest L - 1)) <= i_kill i)%nat ->
  sl_earliest L <= H <= i_end i -> block_at c H = Some b -> In (k, v) (index_block H b) ->
  db_get k (run_slife c d L) <> None.
Proof.
  intros c d L H b k v i Hsf Htol Hne Hlt He Hkill HH Hb Hin. unfold run_slife. rewrite Hsf. fold i.
  assert (Hcur : resume d (i_start i) (sl_earliest L) = sl_earliest L - 1).
  { unfold resume. destruct (last_indexed d =? -1) eqn:E1; [apply Z.eqb_eq in E1; contradiction|].
    destruct (last_indexed d <? sl_earliest L) eqn:E2; [reflexivity|apply Z.ltb_ge in E2; lia]. }
  rewrite Hcur.
  apply (no_height_skipped c (i_start i) (sl_plan L) _ d (sl_earliest L - 1) (i_kill i) H b k v); try assumption; try lia.
  intros j Hj. apply skips_tolerated.
  destruct (Z_lt_ge_dec (i_start i) j) as [Hl|Hg]; [left; exact Hl|right; apply Htol; unfold i in Hg; lia].
Qed.
