From Evm Require Import TxPipe TxPipeExt.
From Coq Require Import Lia ZifyBool.
Open Scope Z_scope.

(* ------------------------------------------------------------------ small facts *)
Lemma upd_same f a v : upd f a v a = v.
Proof. unfold upd. rewrite Z.eqb_refl. reflexivity. Qed.
Lemma upd_other f a v x : x <> a -> upd f a v x = f x.
Proof. unfold upd. intros H. destruct (x =? a) eqn:E; [lia|reflexivity]. Qed.
Lemma add_to_same f a d : add_to f a d a = f a + d.
Proof. unfold add_to. apply upd_same. Qed.
Lemma add_to_other f a d x : x <> a -> add_to f a d x = f x.
Proof. unfold add_to. apply upd_other. Qed.

(* net effect of a move list on one address *)
Fixpoint net (m : list (addr * Z)) (a : addr) : Z :=
  match m with [] => 0 | (x, d) :: r => (if x =? a then d else 0) + net r a end.

Lemma apply_moves_at m : forall f a, apply_moves f m a = f a + net m a.
Proof.
  induction m as [|[x d] r IH]; intros f a; cbn [apply_moves fold_left net fst snd].
  - lia.
  - change (fold_left _ r (add_to f x d) a) with (apply_moves (add_to f x d) r a).
    rewrite IH. destruct (x =? a) eqn:E.
    + assert (x = a) by lia. subst. rewrite add_to_same. lia.
    + rewrite add_to_other by lia. lia.
Qed.

Lemma sum_moves_acc m : forall z, fold_left (fun s p => s + snd p) m z = z + sum_moves m.
Proof.
  unfold sum_moves. induction m as [|p r IH]; intros z; cbn [fold_left]; [lia|].
  rewrite IH. rewrite (IH (0 + snd p)). lia.
Qed.

(* total of a function over a duplicate-free list of addresses *)
Fixpoint total (l : list addr) (f : addr -> Z) : Z :=
  match l with [] => 0 | a :: r => f a + total r f end.

Lemma total_ext l f g : (forall a, In a l -> f a = g a) -> total l f = total l g.
Proof.
  induction l as [|a r IH]; intros H; cbn [total]; [reflexivity|].
  rewrite (H a) by (left; reflexivity). rewrite IH; [reflexivity|].
  intros x Hx. apply H. right. exact Hx.
Qed.

Lemma total_add_to l : forall f a d, NoDup l -> In a l -> total l (add_to f a d) = total l f + d.
Proof.
  induction l as [|x r IH]; intros f a d Hnd Hin; [inversion Hin|].
  inversion Hnd as [|? ? Hnx Hndr]; subst. cbn [total].
  destruct Hin as [->|Hin].
  - rewrite add_to_same.
    rewrite (total_ext r (add_to f a d) f); [lia|].
    intros y Hy. apply add_to_other. intros ->. contradiction.
  - rewrite add_to_other by (intros ->; contradiction).
    rewrite IH by assumption. lia.
Qed.

Lemma total_apply_moves m : forall l f, NoDup l -> (forall p, In p m -> In (fst p) l) ->
  total l (apply_moves f m) = total l f + sum_moves m.
Proof.
  induction m as [|p r IH]; intros l f Hnd Hin; cbn [apply_moves fold_left].
  - unfold sum_moves; cbn. lia.
  - change (fold_left _ r (add_to f (fst p) (snd p))) with (apply_moves (add_to f (fst p) (snd p)) r).
    rewrite IH; [|assumption|intros q Hq; apply Hin; right; exact Hq].
    rewrite total_add_to; [|assumption|apply Hin; left; reflexivity].
    unfold sum_moves at 2. cbn [fold_left]. rewrite sum_moves_acc. lia.
Qed.

(* ------------------------------------------------------------------ the ante handler *)
Definition passed (o : outcome) : bool :=
  match o with CoreErr | BlockGasExceeded | Executed _ => true | _ => false end.

(* characterisation of ante success *)
Record admitted (s : st) (t : txd) : Prop := {
  ad_recovered : t_recovered t = Some (t_from t);
  ad_protected : t_protected t = true;
  ad_eoa : has_code s (t_from t) = false;
  ad_exists : acc_exists s (t_from t) = true;
  ad_price : min_allowed Deliver (base_fee s) (gmin_dec s) 0 <= price_of s t;
  ad_funds : t_gas t * price_of s t <= bal s (t_from t);
  ad_nonce : t_nonce t = sqn s (t_from t)
}.

Definition ante_effects (s : st) (t : txd) : st :=
  let fee := t_gas t * price_of s t in
  mkSt (add_to (add_to (bal s) (t_from t) (- fee)) FEE_COLLECTOR fee)
       (add_to (sqn s) (t_from t) 1) (acc_exists s) (has_code s) (supply s) (base_fee s) (gmin_dec s)
       (blk_limit s) (blk_used s) (tx_count s + 1) (cum_gas s + t_gas t) (log_count s) true true.

Lemma ante_inr s t s' : ante s t = inr s' -> admitted s t /\ s' = ante_effects s t.
Proof.
  unfold ante. destruct (t_recovered t) as [signer|] eqn:Er; [|discriminate].
  cbn [set_flags has_code acc_exists bal sqn base_fee gmin_dec].
  destruct (negb (t_protected t)) eqn:Ep; [discriminate|].
  destruct (has_code s (t_from t)) eqn:Ec; [discriminate|].
  unfold price_of at 1. cbn [base_fee set_flags].
  destruct (_ <? min_allowed Deliver (base_fee s) (gmin_dec s) 0) eqn:Em; [discriminate|].
  destruct (negb (acc_exists s (t_from t))) eqn:Ee; [discriminate|].
  destruct (bal s (t_from t) <? _) eqn:Eb; [discriminate|].
  destruct (negb (signer =? t_from t)) eqn:Es; [discriminate|].
  cbn [set_bal set_flags sqn bal acc_exists has_code supply base_fee gmin_dec blk_limit blk_used tx_count cum_gas log_count].
  destruct (negb (t_nonce t =? sqn s (t_from t))) eqn:En; [discriminate|].
  intros [= <-]. split.
  - constructor.
    + rewrite Er. f_equal. lia.
    + destruct (t_protected t); [reflexivity|discriminate].
    + assumption.
    + destruct (acc_exists s (t_from t)); [reflexivity|discriminate].
    + unfold price_of. lia.
    + unfold price_of in *. cbn [set_flags base_fee] in Eb. lia.
    + lia.
  - unfold ante_effects, set_sqn, set_flags, set_transient, set_bal, price_of. cbn. reflexivity.
Qed.

Lemma ante_inl_or_inr s t : (exists c, ante s t = inl c) \/ (exists s', ante s t = inr s').
Proof. destruct (ante s t); eauto. Qed.

(* ------------------------------------------------------------------ deliver, case analysis *)
Definition core_err_of (s : st) (t : txd) (o : evm_out) : bool :=
  let sa := ante_effects s t in
  (t_gas t <? t_intrinsic t) || ((0 <? t_value t) && (bal sa (t_from t) <? t_value t)) || e_commit_err o.

Inductive deliver_spec (s : st) (t : txd) (o : evm_out) : st * txres -> Prop :=
| DS_dropped : blk_out_of_gas s = true -> deliver_spec s t o (s, no_receipt Dropped 0 0 (-1))
| DS_rej c : blk_out_of_gas s = false -> ante s t = inl c ->
    deliver_spec s t o (s, no_receipt (RejAnte c) (-1) 0 (-1))
| DS_core : blk_out_of_gas s = false -> admitted s t -> core_err_of s t o = true ->
    let sa := ante_effects s t in
    deliver_spec s t o (set_blk_used sa (blk_used sa + t_gas t), no_receipt CoreErr (t_gas t) (t_gas t) (tx_count s))
| DS_blockgas : blk_out_of_gas s = false -> admitted s t -> core_err_of s t o = false ->
    let sa := ante_effects s t in
    blk_would_overflow sa (e_used o) = true ->
    deliver_spec s t o (set_blk_used sa (blk_used sa + e_used o), no_receipt BlockGasExceeded (t_gas t) (e_used o) (tx_count s))
| DS_exec : blk_out_of_gas s = false -> admitted s t -> core_err_of s t o = false ->
    let sa := ante_effects s t in
    blk_would_overflow sa (e_used o) = false ->
    let p := price_of s t in
    let refund := (t_gas t - e_used o) * p in
    let b0 := add_to (add_to (bal sa) (t_from t) refund) FEE_COLLECTOR (- refund) in
    let b := if e_vmerr o then b0 else apply_moves b0 (e_moves o) in
    deliver_spec s t o
      (mkSt b (sqn sa) (acc_exists s) (has_code s) (supply s - (if e_vmerr o then 0 else e_burn o))
            (base_fee s) (gmin_dec s) (blk_limit s) (blk_used s + e_used o)
            (tx_count s + 1) (cum_gas s + e_used o) (log_count s + e_logs o) true false,
       mkRes (Executed (e_vmerr o)) (t_gas t) (e_used o) (tx_count s) (e_used o)
             (cum_gas s + e_used o) (log_count s) (if e_vmerr o then 0 else 1)).

Lemma deliver_cases s t o : deliver_spec s t o (deliver s t o).
Proof.
  unfold deliver.
  destruct (blk_out_of_gas s) eqn:Eo; [apply DS_dropped; assumption|].
  destruct (ante s t) as [c|sa] eqn:Ea; [apply DS_rej; assumption|].
  apply ante_inr in Ea. destruct Ea as [Had ->].
  fold (core_err_of s t o).
  destruct (core_err_of s t o) eqn:Ec.
  - replace (tx_count (ante_effects s t) - 1) with (tx_count s) by (cbn; lia).
    apply DS_core; assumption.
  - destruct (blk_would_overflow (ante_effects s t) (e_used o)) eqn:Ev.
    + replace (tx_count (ante_effects s t) - 1) with (tx_count s) by (cbn; lia).
      apply DS_blockgas; assumption.
    + pose proof (DS_exec s t o Eo Had Ec Ev) as Hex. cbv zeta in Hex.
      match goal with |- deliver_spec _ _ _ ?x => match type of Hex with deliver_spec _ _ _ ?y => replace x with y; [exact Hex|] end end.
      unfold set_bal, set_supply, set_flags, set_transient, set_blk_used, ante_effects. cbn.
      f_equal; [f_equal; lia | f_equal; lia].
Qed.

(* ------------------------------------------------------------------ C05 / C04 per transaction *)
Lemma rejected_changes_nothing s t o :
  passed (r_out (snd (deliver s t o))) = false -> fst (deliver s t o) = s.
Proof. destruct (deliver_cases s t o); cbn; intros Hpp; try reflexivity; discriminate. Qed.

Lemma passed_iff_admitted s t o :
  passed (r_out (snd (deliver s t o))) = true -> blk_out_of_gas s = false /\ admitted s t.
Proof. destruct (deliver_cases s t o); cbn; intros Hpp; try discriminate; split; assumption. Qed.

Lemma supply_step s t o :
  supply (fst (deliver s t o)) =
  supply s - match r_out (snd (deliver s t o)) with Executed false => e_burn o | _ => 0 end.
Proof. destruct (deliver_cases s t o); cbn; try lia; destruct (e_vmerr o); lia. Qed.

(* failed after admission: exactly gas limit x price moves from the sender to the fee collector, sequence + 1 *)
Lemma failed_charge s t o a :
  r_out (snd (deliver s t o)) = CoreErr \/ r_out (snd (deliver s t o)) = BlockGasExceeded ->
  t_from t <> FEE_COLLECTOR ->
  bal (fst (deliver s t o)) a =
    bal s a + (if a =? t_from t then - (t_gas t * price_of s t) else 0)
            + (if a =? FEE_COLLECTOR then t_gas t * price_of s t else 0).
Proof.
  intros Ho Hne.
  destruct (deliver_cases s t o); cbn in Ho; try (destruct Ho; discriminate); cbn;
  (destruct (a =? FEE_COLLECTOR) eqn:E1; [assert (a = FEE_COLLECTOR) by lia; subst; rewrite add_to_same, add_to_other by lia;
     assert (FEE_COLLECTOR =? t_from t = false) as -> by lia; lia|];
   rewrite add_to_other by lia;
   destruct (a =? t_from t) eqn:E2; [assert (a = t_from t) by lia; subst; rewrite add_to_same; lia|];
   rewrite add_to_other by lia; lia).
Qed.

(* committed execution: every balance *)
Lemma executed_balance s t o v a :
  r_out (snd (deliver s t o)) = Executed v ->
  t_from t <> FEE_COLLECTOR ->
  bal (fst (deliver s t o)) a =
    bal s a + (if a =? t_from t then - (e_used o * price_of s t) else 0)
            + (if a =? FEE_COLLECTOR then e_used o * price_of s t else 0)
            + (if v then 0 else net (e_moves o) a).
Proof.
  intros Ho Hne.
  destruct (deliver_cases s t o); cbn in Ho; try discriminate.
  injection Ho as <-. cbn [fst bal].
  assert (Hb0 : b0 a = bal s a + (if a =? t_from t then - (e_used o * price_of s t) else 0)
                             + (if a =? FEE_COLLECTOR then e_used o * price_of s t else 0)).
  { subst b0 refund p sa. cbn [ante_effects bal].
    destruct (a =? FEE_COLLECTOR) eqn:E1.
    - assert (a = FEE_COLLECTOR) by lia; subst. rewrite add_to_same, add_to_other by lia.
      rewrite add_to_same, add_to_other by lia.
      assert (FEE_COLLECTOR =? t_from t = false) as -> by lia. lia.
    - rewrite add_to_other by lia.
      destruct (a =? t_from t) eqn:E2.
      + assert (a = t_from t) by lia; subst. rewrite add_to_same, add_to_other by lia. rewrite add_to_same. lia.
      + rewrite !add_to_other by lia. lia. }
  subst b. destruct (e_vmerr o); [lia|]. rewrite apply_moves_at. lia.
Qed.

(* conservation over any duplicate-free universe containing the sender, the fee collector and every moved address *)
Lemma executed_total s t o v l :
  r_out (snd (deliver s t o)) = Executed v ->
  NoDup l -> In (t_from t) l -> In FEE_COLLECTOR l -> (forall p, In p (e_moves o) -> In (fst p) l) ->
  total l (bal (fst (deliver s t o))) = total l (bal s) + (if v then 0 else sum_moves (e_moves o)).
Proof.
  intros Ho Hnd Hs Hf Hm.
  destruct (deliver_cases s t o); cbn in Ho; try discriminate.
  injection Ho as <-. cbn [fst bal].
  assert (Hb0 : total l b0 = total l (bal s)).
  { subst b0 refund p sa. cbn [ante_effects bal].
    rewrite !total_add_to by assumption. lia. }
  subst b. destruct (e_vmerr o); [lia|]. rewrite total_apply_moves by assumption. lia.
Qed.

Lemma failed_total s t o l :
  r_out (snd (deliver s t o)) = CoreErr \/ r_out (snd (deliver s t o)) = BlockGasExceeded ->
  NoDup l -> In (t_from t) l -> In FEE_COLLECTOR l ->
  total l (bal (fst (deliver s t o))) = total l (bal s).
Proof.
  intros Ho Hnd Hs Hf.
  destruct (deliver_cases s t o); cbn in Ho; try (destruct Ho; discriminate); cbn;
  rewrite !total_add_to by assumption; lia.
Qed.

(* sequences *)
Lemma sqn_step s t o a :
  sqn (fst (deliver s t o)) a =
  sqn s a + (if passed (r_out (snd (deliver s t o))) && (a =? t_from t) then 1 else 0).
Proof.
  destruct (deliver_cases s t o); cbn; try lia;
  (destruct (a =? t_from t) eqn:E; [assert (a = t_from t) by lia; subst; rewrite add_to_same; lia|rewrite add_to_other by lia; lia]).
Qed.

(* consensus result vs receipt, status *)
Lemma executed_result s t o v :
  r_out (snd (deliver s t o)) = Executed v ->
  let r := snd (deliver s t o) in
  v = e_vmerr o /\ r_gas_used r = r_receipt_gas r /\ r_receipt_gas r = e_used o /\ r_gas_wanted r = t_gas t /\
  r_tx_index r = tx_count s /\ r_cum_gas r = cum_gas s + e_used o /\ r_log_start r = log_count s /\
  (r_status r = 1 <-> v = false) /\ (r_status r = 0 <-> v = true).
Proof.
  intros Ho. destruct (deliver_cases s t o); cbn in Ho; try discriminate.
  injection Ho as <-. cbn. repeat split; try reflexivity; destruct (e_vmerr o); intros; try lia; try reflexivity; discriminate.
Qed.

Lemma failed_result s t o :
  r_out (snd (deliver s t o)) = CoreErr \/ r_out (snd (deliver s t o)) = BlockGasExceeded ->
  let r := snd (deliver s t o) in
  r_gas_wanted r = t_gas t /\ r_tx_index r = tx_count s /\
  (r_out r = CoreErr -> r_gas_used r = t_gas t).
Proof.
  intros Ho. destruct (deliver_cases s t o); cbn in Ho; try (destruct Ho; discriminate); cbn; repeat split; try reflexivity; intros; discriminate.
Qed.

Lemma charge_exact_executed s t o v :
  r_out (snd (deliver s t o)) = Executed v ->
  t_from t <> FEE_COLLECTOR ->
  bal (fst (deliver s t o)) (t_from t) =
    bal s (t_from t) - r_receipt_gas (snd (deliver s t o)) * price_of s t
                     + (if v then 0 else net (e_moves o) (t_from t)).
Proof.
  intros Ho Hne. rewrite (executed_balance s t o v (t_from t) Ho Hne).
  destruct (executed_result s t o v Ho) as (_ & _ & Hu & _). rewrite Hu.
  rewrite Z.eqb_refl. replace (t_from t =? FEE_COLLECTOR) with false; [ring|].
  symmetry. apply Z.eqb_neq. exact Hne.
Qed.

Lemma gas_bounds s t o v :
  r_out (snd (deliver s t o)) = Executed v -> t_intrinsic t <= e_used o <= t_gas t ->
  let r := snd (deliver s t o) in t_intrinsic t <= r_gas_used r <= r_gas_wanted r.
Proof.
  intros Ho Hb. destruct (executed_result s t o v Ho) as (_ & H1 & H2 & H3 & _).
  cbv zeta. rewrite H1, H2, H3. exact Hb.
Qed.

(* transient counters *)
Definition gas_shown (r : txres) : Z :=
  match r_out r with
  | Executed _ => r_receipt_gas r
  | CoreErr | BlockGasExceeded => r_gas_wanted r          (* = the gas limit *)
  | _ => 0
  end.
Definition logs_shown (o : evm_out) (r : txres) : Z :=
  match r_out r with Executed _ => e_logs o | _ => 0 end.

Lemma transient_step s t o :
  let s' := fst (deliver s t o) in let r := snd (deliver s t o) in
  tx_count s' = tx_count s + (if passed (r_out r) then 1 else 0) /\
  cum_gas s' = cum_gas s + gas_shown r /\
  log_count s' = log_count s + logs_shown o r.
Proof.
  destruct (deliver_cases s t o); cbn; unfold gas_shown, logs_shown; cbn; repeat split; lia.
Qed.

(* ------------------------------------------------------------------ histories *)
(* one pass over a list of items, collecting for each Ethereum tx its descriptor, oracle and result *)
Fixpoint trace (s : st) (l : list item) : list (st * txd * evm_out * txres) :=
  match l with
  | [] => []
  | Eth t o :: r => (s, t, o, snd (deliver s t o)) :: trace (fst (deliver s t o)) r
  | Cosmos g p f i :: r => trace (fst (step s (Cosmos g p f i))) r
  end.

Fixpoint final (s : st) (l : list item) : st :=
  match l with [] => s | i :: r => final (fst (step s i)) r end.

Lemma run_final s l : fst (run s l) = final s l.
Proof.
  revert s; induction l as [|i r IH]; intros s; cbn [run final]; [reflexivity|].
  destruct (step s i) as [s1 r1] eqn:E1. destruct (run s1 r) as [s2 r2] eqn:E2.
  cbn. rewrite <- IH, E2. reflexivity.
Qed.

Lemma step_cosmos_res s g p f i : snd (step s (Cosmos g p f i)) = [].
Proof. cbn. destruct i; reflexivity. Qed.

Lemma run_results s l : snd (run s l) = map (fun x => snd x) (trace s l).
Proof.
  revert s; induction l as [|i r IH]; intros s; cbn [run trace]; [reflexivity|].
  destruct i as [t o|g p f inc].
  - cbn [step]. destruct (deliver s t o) as [s1 r1] eqn:E1. destruct (run s1 r) as [s2 r2] eqn:E2.
    cbn. f_equal. rewrite <- IH, E2. reflexivity.
  - pose proof (step_cosmos_res s g p f inc) as Hr.
    destruct (step s (Cosmos g p f inc)) as [s1 r1] eqn:E1. cbn [fst snd] in *. subst r1.
    destruct (run s1 r) as [s2 r2] eqn:E2. cbn. rewrite <- IH, E2. reflexivity.
Qed.

Definition burned (x : st * txd * evm_out * txres) : Z :=
  let '(_, _, o, r) := x in match r_out r with Executed false => e_burn o | _ => 0 end.

Lemma step_cosmos_supply s g p f i : supply (fst (step s (Cosmos g p f i))) = supply s.
Proof. cbn. destruct i; reflexivity. Qed.

Theorem supply_history l : forall s,
  supply (final s l) = supply s - fold_right (fun x acc => burned x + acc) 0 (trace s l).
Proof.
  induction l as [|i r IH]; intros s; cbn [final trace fold_right]; [lia|].
  destruct i as [t o|g p f inc].
  - cbn [step]. destruct (deliver s t o) as [s1 r1] eqn:E. cbn [fst snd fold_right burned].
    rewrite IH. pose proof (supply_step s t o) as H. rewrite E in H. cbn [fst snd] in H. rewrite H.
    destruct (r_out r1) as [| | | |[|]]; lia.
  - rewrite IH. rewrite step_cosmos_supply. reflexivity.
Qed.

Corollary supply_never_grows l s :
  (forall x, In x (trace s l) -> 0 <= burned x) -> supply (final s l) <= supply s.
Proof.
  intros H. rewrite supply_history.
  assert (0 <= fold_right (fun x acc => burned x + acc) 0 (trace s l)); [|lia].
  induction (trace s l) as [|x r IH]; cbn [fold_right]; [lia|].
  assert (0 <= burned x) by (apply H; left; reflexivity).
  assert (0 <= fold_right (fun x acc => burned x + acc) 0 r) by (apply IH; intros y Hy; apply H; right; exact Hy).
  lia.
Qed.

(* sequences never decrease, over any history *)
Lemma sqn_step_item s i a : sqn s a <= sqn (fst (step s i)) a.
Proof.
  destruct i as [t o|g p f inc]; cbn [step].
  - destruct (deliver s t o) as [s1 r1] eqn:E. cbn [fst].
    pose proof (sqn_step s t o a) as H. rewrite E in H. cbn [fst snd] in H. rewrite H.
    destruct (passed (r_out r1) && (a =? t_from t)); lia.
  - destruct inc; cbn; [|lia].
    destruct (a =? p) eqn:E; [assert (a = p) by lia; subst; rewrite add_to_same; lia|rewrite add_to_other by lia; lia].
Qed.

Lemma sqn_monotone l : forall s a, sqn s a <= sqn (final s l) a.
Proof.
  induction l as [|i r IH]; intros s a; cbn [final]; [lia|].
  pose proof (sqn_step_item s i a). pose proof (IH (fst (step s i)) a). lia.
Qed.

(* every element of a trace was produced from a state whose sequences are >= the starting ones *)
Lemma trace_states_ge l : forall s x a, In x (trace s l) ->
  let '(sx, _, _, _) := x in sqn s a <= sqn sx a.
Proof.
  induction l as [|i r IH]; intros s x a Hin; [inversion Hin|].
  destruct i as [t o|g p f inc]; cbn [trace] in Hin.
  - destruct Hin as [<-|Hin]; [lia|].
    specialize (IH _ x a Hin). destruct x as [[[sx tx] ox] rx].
    pose proof (sqn_step_item s (Eth t o) a) as H. cbn [step] in H.
    destruct (deliver s t o) as [s1 r1]; cbn [fst] in *. lia.
  - specialize (IH _ x a Hin). destruct x as [[[sx tx] ox] rx].
    pose proof (sqn_step_item s (Cosmos g p f inc) a). lia.
Qed.

(* NO REPLAY: in any history, two Ethereum transactions with the same sender and nonce cannot both pass admission *)
Theorem no_replay l : forall s pre x mid y post,
  trace s l = pre ++ x :: mid ++ y :: post ->
  let '(_, tx, _, rx) := x in let '(_, ty, _, ry) := y in
  t_from tx = t_from ty -> t_nonce tx = t_nonce ty ->
  passed (r_out rx) = true -> passed (r_out ry) = false.
Proof.
  induction l as [|i r IH]; intros s pre x mid y post Htr.
  - destruct pre; discriminate.
  - destruct i as [t o|g p f inc]; cbn [trace] in Htr.
    + destruct pre as [|z pre'].
      * cbn in Htr. injection Htr as <- Hrest.
        destruct y as [[[sy ty] oy] ry]. cbv beta iota zeta.
        intros Hf Hn Hp.
        (* y occurs in the trace from the state after x *)
        assert (Hin : In (sy, ty, oy, ry) (trace (fst (deliver s t o)) r)).
        { rewrite Hrest. apply in_or_app. right. left. reflexivity. }
        pose proof (trace_states_ge r _ _ (t_from t) Hin) as Hge. cbn in Hge.
        pose proof (sqn_step s t o (t_from t)) as Hs.
        rewrite Hp in Hs. rewrite Z.eqb_refl in Hs. cbn in Hs.
        apply passed_iff_admitted in Hp. destruct Hp as [_ Had].
        (* ry is the result of deliver sy ty oy *)
        assert (Hry : ry = snd (deliver sy ty oy)).
        { clear - Hin. revert Hin. generalize (fst (deliver s t o)). induction r as [|j r IHr]; intros s0 Hin; [inversion Hin|].
          destruct j as [t1 o1|g1 p1 f1 i1]; cbn [trace] in Hin.
          - destruct Hin as [Heq|Hin]; [injection Heq as -> -> -> ->; reflexivity|eapply IHr; exact Hin].
          - eapply IHr; exact Hin. }
        destruct (passed (r_out ry)) eqn:Epy; [|reflexivity]. exfalso.
        rewrite Hry in Epy. apply passed_iff_admitted in Epy. destruct Epy as [_ Hady].
        pose proof (ad_nonce _ _ Had). pose proof (ad_nonce _ _ Hady).
        rewrite <- Hf in *. lia.
      * cbn in Htr. injection Htr as _ Hrest. eapply IH. exact Hrest.
    + eapply IH. exact Htr.
Qed.

(* per-block numbering: tx indices, log indices and cumulative gas, for every prefix of any block *)
Fixpoint shown_before (tr : list (st * txd * evm_out * txres)) : Z * Z * Z :=
  (* (number that passed admission, gas shown, logs shown) *)
  match tr with
  | [] => (0, 0, 0)
  | (_, _, o, r) :: rest =>
      let '(n, g, lg) := shown_before rest in
      ((if passed (r_out r) then 1 else 0) + n, gas_shown r + g, logs_shown o r + lg)
  end.

Lemma step_cosmos_transient s g p f i :
  let s' := fst (step s (Cosmos g p f i)) in
  tx_count s' = tx_count s /\ cum_gas s' = cum_gas s /\ log_count s' = log_count s.
Proof. cbn. destruct i; cbn; auto. Qed.

Lemma numbering l : forall s pre x post,
  trace s l = pre ++ x :: post ->
  let '(sx, _, _, _) := x in
  let '(n, g, lg) := shown_before pre in
  tx_count sx = tx_count s + n /\ cum_gas sx = cum_gas s + g /\ log_count sx = log_count s + lg.
Proof.
  induction l as [|i r IH]; intros s pre x post Htr.
  - destruct pre; discriminate.
  - destruct i as [t o|g0 p0 f0 inc0]; cbn [trace] in Htr.
    + destruct pre as [|z pre'].
      * cbn in Htr. injection Htr as <- _. cbn. lia.
      * cbn in Htr. injection Htr as <- Hrest.
        specialize (IH _ _ _ _ Hrest). destruct x as [[[sx tx] ox] rx].
        cbn [shown_before]. destruct (shown_before pre') as [[n g] lg].
        pose proof (transient_step s t o) as Ht. cbv zeta in Ht.
        destruct Ht as (H1 & H2 & H3). destruct IH as (I1 & I2 & I3).
        rewrite I1, I2, I3, H1, H2, H3. repeat split; lia.
    + specialize (IH _ _ _ _ Htr). destruct x as [[[sx tx] ox] rx].
      destruct (shown_before pre) as [[n g] lg].
      pose proof (step_cosmos_transient s g0 p0 f0 inc0) as Hc. cbv zeta in Hc.
      destruct Hc as (H1 & H2 & H3). destruct IH as (I1 & I2 & I3).
      rewrite I1, I2, I3, H1, H2, H3. repeat split; lia.
Qed.

Lemma trace_result_is_deliver l : forall s x, In x (trace s l) ->
  let '(sx, tx, ox, rx) := x in rx = snd (deliver sx tx ox).
Proof.
  induction l as [|i r IH]; intros s x Hin; [inversion Hin|].
  destruct i as [t o|g p f inc]; cbn [trace] in Hin.
  - destruct Hin as [<-|Hin]; [reflexivity|eapply IH; exact Hin].
  - eapply IH; exact Hin.
Qed.

(* The k-th Ethereum transaction of a block (from begin_block): index, first log index and cumulative gas *)
Theorem block_numbering s l pre x post :
  trace (begin_block s) l = pre ++ x :: post ->
  let '(_, _, o, r) := x in
  let '(n, g, lg) := shown_before pre in
  (passed (r_out r) = true -> r_tx_index r = n) /\
  (forall v, r_out r = Executed v -> r_cum_gas r = g + gas_shown r /\ r_log_start r = lg).
Proof.
  intros Htr. pose proof (numbering l _ _ _ _ Htr) as Hn.
  assert (Hin : In x (trace (begin_block s) l)) by (rewrite Htr; apply in_or_app; right; left; reflexivity).
  pose proof (trace_result_is_deliver l _ _ Hin) as Hr.
  destruct x as [[[sx tx] ox] rx]. destruct (shown_before pre) as [[n g] lg].
  destruct Hn as (H1 & H2 & H3). cbn in H1, H2, H3. subst rx.
  split.
  - intros Hp. destruct (r_out (snd (deliver sx tx ox))) eqn:Eo; cbn in Hp; try discriminate.
    + pose proof (failed_result sx tx ox (or_introl Eo)) as (_ & Hi & _). lia.
    + pose proof (failed_result sx tx ox (or_intror Eo)) as (_ & Hi & _). lia.
    + pose proof (executed_result sx tx ox vmerr Eo) as (_ & _ & _ & _ & Hi & _). lia.
  - intros v Ho. pose proof (executed_result sx tx ox v Ho) as (_ & _ & Hu & _ & _ & Hc & Hl & _).
    unfold gas_shown. rewrite Ho. lia.
Qed.

(* ------------------------------------------------------------------ refund rule *)
Lemma refund_cap consumed counter :
  0 <= consumed -> 0 <= counter ->
  0 <= consumed - gas_after_refund consumed counter <= consumed / 5 /\
  consumed - gas_after_refund consumed counter <= counter.
Proof.
  intros Hc Hk. unfold gas_after_refund.
  assert (0 <= consumed / 5) by (apply Z.div_pos; lia). lia.
Qed.

(* gas used after the refund grows with the gas consumed: the bracket [gas_after_refund lb c, gas_after_refund ub c]
   that Corr/CorrTxPipe.oracle_consistent checks around the observed gas used is sound for lb <= consumed <= ub *)
Lemma gas_after_refund_monotone c1 c2 counter :
  0 <= c1 <= c2 -> gas_after_refund c1 counter <= gas_after_refund c2 counter.
Proof.
  intros H. unfold gas_after_refund.
  assert (c1 / 5 <= c2 / 5) by (apply Z.div_le_mono; lia).
  assert (c2 / 5 - c1 / 5 <= c2 - c1).
  { pose proof (Z.div_mod c1 5 ltac:(lia)). pose proof (Z.div_mod c2 5 ltac:(lia)).
    pose proof (Z.mod_pos_bound c1 5 ltac:(lia)). pose proof (Z.mod_pos_bound c2 5 ltac:(lia)). lia. }
  lia.
Qed.

(* ------------------------------------------------------------------ bloom (abstract bits) *)
Section Bloom.
  Variable log : Type.
  Variable bits : log -> list Z.                       (* the three bit positions go-ethereum derives from a log *)
  Definition bloom_of (ls : list log) : list Z := flat_map bits ls.
  Definition receipt_bloom (ls : list log) := bloom_of ls.
  Definition block_bloom (receipts : list (list log)) := flat_map receipt_bloom receipts.
  Lemma receipt_bloom_is_exact ls z :
    In z (receipt_bloom ls) <-> exists l, In l ls /\ In z (bits l).
  Proof. unfold receipt_bloom, bloom_of. apply in_flat_map. Qed.
  Lemma block_bloom_is_union receipts z :
    In z (block_bloom receipts) <-> exists ls l, In ls receipts /\ In l ls /\ In z (bits l).
  Proof.
    unfold block_bloom, receipt_bloom, bloom_of. rewrite in_flat_map. split.
    - intros (ls & Hls & Hz). apply in_flat_map in Hz. destruct Hz as (l & Hl & Hz). eauto.
    - intros (ls & l & Hls & Hl & Hz). exists ls. split; [assumption|]. apply in_flat_map. eauto.
  Qed.
End Bloom.

(* ------------------------------------------------------------------ C04: balances sum to minus the burns; untouched accounts *)
(* With the interpreter's own conservation (its movements net to minus what it destroyed: checked on every case by
   Corr/CorrTxPipe.oracle_consistent), the balance changes over any universe containing the accounts involved sum to the
   supply change, in every outcome. *)
Lemma balances_follow_supply s t o l :
  (e_vmerr o = false -> sum_moves (e_moves o) = - e_burn o) ->
  NoDup l -> In (t_from t) l -> In FEE_COLLECTOR l -> (forall p, In p (e_moves o) -> In (fst p) l) ->
  total l (bal (fst (deliver s t o))) - total l (bal s) = supply (fst (deliver s t o)) - supply s.
Proof.
  intros Hc Hnd Hs Hf Hm.
  destruct (deliver_cases s t o); cbn [fst bal supply].
  - lia.
  - lia.
  - subst sa. cbn. rewrite !total_add_to by assumption. lia.
  - subst sa. cbn. rewrite !total_add_to by assumption. lia.
  - assert (Hb0 : total l b0 = total l (bal s)).
    { subst b0 refund p sa. cbn [ante_effects bal]. rewrite !total_add_to by assumption. lia. }
    subst b. destruct (e_vmerr o); [lia|]. rewrite total_apply_moves by assumption.
    specialize (Hc eq_refl). lia.
Qed.

(* an account that is neither the sender nor the fee collector nor named by the execution's movements keeps its
   balance, in every outcome (in particular the EVM module account, through which every credit and debit passes) *)
Lemma net_not_mentioned m a : (forall p, In p m -> fst p <> a) -> net m a = 0.
Proof.
  induction m as [|[x d] r IH]; intros H; cbn [net]; [reflexivity|].
  assert (x <> a) by (apply (H (x, d)); left; reflexivity).
  rewrite IH by (intros p Hp; apply H; right; exact Hp).
  destruct (x =? a) eqn:E; lia.
Qed.

Lemma untouched_balance s t o a :
  a <> t_from t -> a <> FEE_COLLECTOR -> (forall p, In p (e_moves o) -> fst p <> a) ->
  bal (fst (deliver s t o)) a = bal s a.
Proof.
  intros Hs Hf Hm.
  destruct (deliver_cases s t o); cbn [fst bal]; try reflexivity.
  - subst sa. cbn. rewrite !add_to_other by lia. reflexivity.
  - subst sa. cbn. rewrite !add_to_other by lia. reflexivity.
  - assert (Hb0 : b0 a = bal s a).
    { subst b0 refund p sa. cbn [ante_effects bal]. rewrite !add_to_other by lia. reflexivity. }
    subst b. destruct (e_vmerr o); [exact Hb0|]. rewrite apply_moves_at, net_not_mentioned by assumption. lia.
Qed.

(* ------------------------------------------------------------------ C13: created-contract address and receipt bloom *)
Section CreateAddress.
  Variable create_addr : addr -> Z -> addr.          (* crypto.CreateAddress(sender, nonce) *)

  (* the receipt reports a contract address exactly when the transaction is a creation whose execution was committed
     without VM error, and then it is the CREATE address of (sender, nonce) *)
  Lemma contract_address_iff s t o ls a :
    let r := snd (deliver s t o) in
    (exists x, receipt_ext t (create_addr (t_from t) (t_nonce t)) ls r = Some x /\ x_contract x = Some a)
    <-> (t_create t = true /\ r_out r = Executed false /\ a = create_addr (t_from t) (t_nonce t)).
  Proof.
    cbv zeta. unfold receipt_ext. split.
    - intros (x & Hx & Hc). destruct (r_out (snd (deliver s t o))) as [| | | |v]; try discriminate.
      injection Hx as <-. cbn in Hc. destruct (t_create t); [|discriminate]. destruct v; [discriminate|].
      cbn in Hc. injection Hc as <-. auto.
    - intros (Hc & Ho & ->). rewrite Ho, Hc. eexists. split; reflexivity.
  Qed.

  (* no receipt, hence no reported address, unless the execution was committed *)
  Lemma receipt_iff_executed s t o ls ca :
    let r := snd (deliver s t o) in
    (exists x, receipt_ext t ca ls r = Some x) <-> (exists v, r_out r = Executed v).
  Proof.
    cbv zeta. unfold receipt_ext. split.
    - intros (x & Hx). destruct (r_out (snd (deliver s t o))) as [| | | |v]; try discriminate. eauto.
    - intros (v & ->). eauto.
  Qed.
End CreateAddress.

(* a receipt's bloom has exactly the bits of its own logs *)
Lemma receipt_bloom_exact t ca ls r x z :
  receipt_ext t ca ls r = Some x -> (In z (x_bloom x) <-> exists l, In l ls /\ In z l).
Proof.
  unfold receipt_ext. destruct (r_out r); try discriminate. intros [= <-]. cbn [x_bloom].
  unfold bloom_of_logs. rewrite in_flat_map. reflexivity.
Qed.

(* the block bloom is the union of the receipt blooms *)
Lemma block_bloom_bits_union rs z :
  In z (block_bloom_bits rs) <-> exists x, In (Some x) rs /\ In z (x_bloom x).
Proof.
  unfold block_bloom_bits. rewrite in_flat_map. split.
  - intros ([x|] & Hin & Hz); [eauto|inversion Hz].
  - intros (x & Hin & Hz). exists (Some x). auto.
Qed.

(* ------------------------------------------------------------------ executions aborted by a panic (TxPipeExt.deliver_panic) *)
Lemma core_err_no_exec s t : core_err_of s t no_exec = pre_exec_err (ante_effects s t) t.
Proof. unfold core_err_of, pre_exec_err. cbn [e_commit_err no_exec]. apply orb_false_r. Qed.

Inductive panic_spec (s : st) (t : txd) (gu : Z) : st * txres -> Prop :=
| PS_dropped : blk_out_of_gas s = true -> panic_reached s t = false ->
    panic_spec s t gu (s, no_receipt Dropped 0 0 (-1))
| PS_rej c : blk_out_of_gas s = false -> ante s t = inl c -> panic_reached s t = false ->
    panic_spec s t gu (s, no_receipt (RejAnte c) (-1) 0 (-1))
| PS_core : blk_out_of_gas s = false -> admitted s t -> pre_exec_err (ante_effects s t) t = true ->
    panic_reached s t = false ->
    let sa := ante_effects s t in
    panic_spec s t gu (set_blk_used sa (blk_used sa + t_gas t), no_receipt CoreErr (t_gas t) (t_gas t) (tx_count s))
| PS_panic : blk_out_of_gas s = false -> admitted s t -> pre_exec_err (ante_effects s t) t = false ->
    panic_reached s t = true ->
    let sa := ante_effects s t in
    panic_spec s t gu (set_blk_used sa (blk_used sa + gu), no_receipt CoreErr (t_gas t) gu (tx_count s)).

Lemma panic_cases s t gu : panic_spec s t gu (deliver_panic s t gu).
Proof.
  unfold deliver_panic.
  destruct (blk_out_of_gas s) eqn:Eo.
  - unfold deliver. rewrite Eo. apply PS_dropped; [assumption|]. unfold panic_reached. rewrite Eo. reflexivity.
  - destruct (ante s t) as [c|sa] eqn:Ea.
    + unfold deliver. rewrite Eo, Ea. apply PS_rej; [assumption|assumption|].
      unfold panic_reached. rewrite Eo, Ea. reflexivity.
    + destruct (ante_inr _ _ _ Ea) as [Had Hsa]. subst sa.
      destruct (pre_exec_err (ante_effects s t) t) eqn:Ep.
      * unfold deliver. rewrite Eo, Ea. unfold pre_exec_err in Ep. cbn [e_commit_err no_exec]. rewrite Ep. cbn [orb].
        replace (tx_count (ante_effects s t) - 1) with (tx_count s) by (cbn; lia).
        apply PS_core; try assumption. unfold panic_reached. rewrite Eo, Ea. unfold pre_exec_err. rewrite Ep. reflexivity.
      * replace (tx_count (ante_effects s t) - 1) with (tx_count s) by (cbn; lia).
        apply PS_panic; try assumption. unfold panic_reached. rewrite Eo, Ea, Ep. reflexivity.
Qed.

(* unless the execution is reached, the transaction ends as TxPipe.deliver says (dropped, rejected by the ante handler, or
   refused by the state transition's own checks with the whole limit consumed) *)
Lemma panic_not_reached s t gu : panic_reached s t = false -> deliver_panic s t gu = deliver s t no_exec.
Proof.
  unfold panic_reached, deliver_panic. destruct (blk_out_of_gas s); [reflexivity|].
  destruct (ante s t) as [c|sa]; [reflexivity|]. destruct (pre_exec_err sa t); [reflexivity|discriminate].
Qed.

(* reached: exactly the ante handler's effects remain, the block gas meter takes the observed figure, the result shows
   the gas limit as gas wanted, the observed figure as gas used, the next Ethereum index, and no receipt *)
Lemma panic_reached_result s t gu : panic_reached s t = true ->
  blk_out_of_gas s = false /\ admitted s t /\
  deliver_panic s t gu = (set_blk_used (ante_effects s t) (blk_used s + gu), no_receipt CoreErr (t_gas t) gu (tx_count s)).
Proof.
  intros Hr. destruct (panic_cases s t gu); try congruence. split; [assumption|]. split; [assumption|]. subst sa. reflexivity.
Qed.

Lemma panic_rejected_changes_nothing s t gu :
  passed (r_out (snd (deliver_panic s t gu))) = false -> fst (deliver_panic s t gu) = s.
Proof. destruct (panic_cases s t gu); cbn; intros Hpp; try reflexivity; discriminate. Qed.

Lemma panic_passed_admitted s t gu :
  passed (r_out (snd (deliver_panic s t gu))) = true -> blk_out_of_gas s = false /\ admitted s t.
Proof. destruct (panic_cases s t gu); cbn; intros Hpp; try discriminate; split; assumption. Qed.

(* C04: no coin is created or destroyed *)
Lemma panic_supply s t gu : supply (fst (deliver_panic s t gu)) = supply s.
Proof. destruct (panic_cases s t gu); reflexivity. Qed.

(* C04 / C05: every balance: if the transaction passed admission, the fee for the WHOLE gas limit went from the sender to
   the fee collector; nothing else moved - whatever the interpreter had done before the panic is gone *)
Lemma panic_charge s t gu a :
  t_from t <> FEE_COLLECTOR ->
  bal (fst (deliver_panic s t gu)) a =
    bal s a + (if passed (r_out (snd (deliver_panic s t gu))) && (a =? t_from t) then - (t_gas t * price_of s t) else 0)
            + (if passed (r_out (snd (deliver_panic s t gu))) && (a =? FEE_COLLECTOR) then t_gas t * price_of s t else 0).
Proof.
  intros Hne.
  destruct (panic_cases s t gu); cbn [fst snd r_out no_receipt passed andb bal]; try lia;
  (subst sa; cbn;
   destruct (a =? FEE_COLLECTOR) eqn:E1; [assert (a = FEE_COLLECTOR) by lia; subst; rewrite add_to_same, add_to_other by lia;
     assert (FEE_COLLECTOR =? t_from t = false) as -> by lia; lia|];
   rewrite add_to_other by lia;
   destruct (a =? t_from t) eqn:E2; [assert (a = t_from t) by lia; subst; rewrite add_to_same; lia|];
   rewrite add_to_other by lia; lia).
Qed.

Lemma panic_total s t gu l :
  NoDup l -> In (t_from t) l -> In FEE_COLLECTOR l ->
  total l (bal (fst (deliver_panic s t gu))) = total l (bal s).
Proof.
  intros Hnd Hs Hf.
  destruct (panic_cases s t gu); cbn [fst bal]; try reflexivity; subst sa; cbn; rewrite !total_add_to by assumption; lia.
Qed.

(* an account that is neither the sender nor the fee collector keeps its balance: in particular the module account the
   execution tried to credit, and the EVM module account *)
Lemma panic_untouched s t gu a :
  a <> t_from t -> a <> FEE_COLLECTOR -> bal (fst (deliver_panic s t gu)) a = bal s a.
Proof.
  intros Hs Hf.
  destruct (panic_cases s t gu); cbn [fst bal]; try reflexivity; subst sa; cbn; rewrite !add_to_other by lia; reflexivity.
Qed.

(* C06: the sequence advances by exactly one iff the transaction passed admission *)
Lemma panic_sqn s t gu a :
  sqn (fst (deliver_panic s t gu)) a =
  sqn s a + (if passed (r_out (snd (deliver_panic s t gu))) && (a =? t_from t) then 1 else 0).
Proof.
  destruct (panic_cases s t gu); cbn; try lia;
  (destruct (a =? t_from t) eqn:E; [assert (a = t_from t) by lia; subst; rewrite add_to_same; lia|rewrite add_to_other by lia; lia]).
Qed.

(* C13 / C05: transient counters: the transaction owns an index and its per-index gas stays at the gas limit *)
Lemma panic_transient s t gu :
  let s' := fst (deliver_panic s t gu) in let r := snd (deliver_panic s t gu) in
  tx_count s' = tx_count s + (if passed (r_out r) then 1 else 0) /\
  cum_gas s' = cum_gas s + gas_shown r /\
  log_count s' = log_count s + logs_shown no_exec r.
Proof.
  destruct (panic_cases s t gu); cbn; unfold gas_shown, logs_shown; cbn; repeat split; lia.
Qed.

Lemma panic_index s t gu :
  passed (r_out (snd (deliver_panic s t gu))) = true ->
  r_tx_index (snd (deliver_panic s t gu)) = tx_count s /\ r_gas_wanted (snd (deliver_panic s t gu)) = t_gas t.
Proof. destruct (panic_cases s t gu); cbn; intros Hpp; try discriminate; split; reflexivity. Qed.

Lemma panic_never_executed s t gu v : r_out (snd (deliver_panic s t gu)) <> Executed v.
Proof. destruct (panic_cases s t gu); cbn; discriminate. Qed.

(* C13: no receipt, so no reported contract address and no bloom *)
Lemma panic_no_receipt s t gu ca ls : receipt_ext t ca ls (snd (deliver_panic s t gu)) = None.
Proof. unfold receipt_ext. destruct (panic_cases s t gu); reflexivity. Qed.

(* ------------------------------------------------------------------ what the history theorems need from one Ethereum
   transaction, whichever way it went (TxPipe.deliver or TxPipeExt.deliver_panic) *)
Record step_facts (s : st) (t : txd) (o : evm_out) (s' : st) (r : txres) : Prop := {
  sf_adm : passed (r_out r) = true -> blk_out_of_gas s = false /\ admitted s t;
  sf_sqn : forall a, sqn s' a = sqn s a + (if passed (r_out r) && (a =? t_from t) then 1 else 0);
  sf_cnt : tx_count s' = tx_count s + (if passed (r_out r) then 1 else 0);
  sf_gas : cum_gas s' = cum_gas s + gas_shown r;
  sf_log : log_count s' = log_count s + logs_shown o r;
  sf_idx : passed (r_out r) = true -> r_tx_index r = tx_count s;
  sf_exec : forall v, r_out r = Executed v -> r_cum_gas r = cum_gas s + gas_shown r /\ r_log_start r = log_count s
}.

Lemma deliver_facts s t o : step_facts s t o (fst (deliver s t o)) (snd (deliver s t o)).
Proof.
  pose proof (transient_step s t o) as Ht. cbv zeta in Ht. destruct Ht as (H1 & H2 & H3).
  constructor; try assumption.
  - apply passed_iff_admitted.
  - apply sqn_step.
  - intros Hp. destruct (r_out (snd (deliver s t o))) eqn:Eo; cbn in Hp; try discriminate.
    + pose proof (failed_result s t o (or_introl Eo)) as (_ & Hi & _). exact Hi.
    + pose proof (failed_result s t o (or_intror Eo)) as (_ & Hi & _). exact Hi.
    + pose proof (executed_result s t o vmerr Eo) as (_ & _ & _ & _ & Hi & _). exact Hi.
  - intros v Ho. pose proof (executed_result s t o v Ho) as (_ & _ & Hu & _ & _ & Hc & Hl & _).
    unfold gas_shown. rewrite Ho. split; lia.
Qed.

Lemma panic_facts s t gu : step_facts s t no_exec (fst (deliver_panic s t gu)) (snd (deliver_panic s t gu)).
Proof.
  pose proof (panic_transient s t gu) as Ht. cbv zeta in Ht. destruct Ht as (H1 & H2 & H3).
  constructor; try assumption.
  - apply panic_passed_admitted.
  - apply panic_sqn.
  - intros Hp. apply panic_index. exact Hp.
  - intros v Ho. exfalso. exact (panic_never_executed s t gu v Ho).
Qed.
