(* Proofs about the dual-lane ante handler model (Model/Lane.v). *)
From Evm Require Import Lane.
From Coq Require Import Lia.
Open Scope Z_scope.

(* ------------------------------------------------------------------ lane predicate *)

Lemma hse_loop_true_nil : forall l, hse_loop true l = true -> l = [].
Proof.
  destruct l as [|m r]; [reflexivity|]. cbn. destruct (is_eth m); discriminate.
Qed.

Lemma has_single_eth_iff : forall l, has_single_eth l = true <-> exists p, l = [MEth p].
Proof.
  intros l. split.
  - unfold has_single_eth. destruct l as [|m r]; cbn; [discriminate|].
    destruct m; cbn; try discriminate. intros H. apply hse_loop_true_nil in H. subst. eauto.
  - intros [p ->]. reflexivity.
Qed.

Lemma has_single_eth_false_not_singleton : forall l p, has_single_eth l = false -> l <> [MEth p].
Proof. intros l p H ->. discriminate. Qed.

(* ------------------------------------------------------------------ the chain splits into two lanes *)

Fixpoint first_some {A} (l : list (option A)) : option A :=
  match l with [] => None | Some x :: _ => Some x | None :: r => first_some r end.

(* the checks an Ethereum-lane transaction goes through, in order *)
Definition eth_lane (m : mode) (e : env) (sh : shape) : option reason :=
  first_some
    [ (if is_ethereum_tx sh then None else Some RExtOpt);
      (if is_recheck m then None else with_payload (d03_eth_checks sh) sh);
      with_payload (fun p => if e_eoa_ok p then None else Some RNotEoa) sh;
      match s_timeout sh with TNone => None | _ => Some RTimeoutEth end;
      match s_memo sh with MemoNone => None | _ => Some RMemoEth end;
      with_payload (fun p =>
        if negb (is_sim m) && (gas_limit sh =? 0) then Some RFeeGasZero
        else if negb (is_sim m) && negb (single_evm_coin (fee sh)) then Some RFeeCoins
        else if granter sh && negb (granter_allows e) then Some RFeeGrant
        else if payer sh || granter sh then (if payer_can_pay e then None else Some RFeeFunds)
        else if e_fee_ok p then None else Some RFeeFunds) sh;
      with_payload (fun p => if e_sig_ok p then None else Some REthSig) sh;
      (if runs_trial_exec m then with_payload (fun p => if e_exec_ok p then None else Some RTrialExec) sh else None) ].

(* the checks a Cosmos-lane transaction goes through, in order *)
Definition cosmos_lane (tbl : list N) (m : mode) (e : env) (sh : shape) : option reason :=
  first_some
    [ (if forallb xopt_is_dyn (ext_opts sh) then None else Some RExtOpt);
      (if is_recheck m then None
       else if existsb is_eth (msgs sh) then Some RCombined
       else match sdk_vb e with Some c => Some (RSdkVb c) | None => None end);
      match s_timeout sh with TPast => Some RTimeoutSdk | _ => None end;
      match s_memo sh with MemoLong => Some RMemoSdk | _ => None end;
      match sdk_rest e m with Some c => Some (RSdkRest c) | None => None end;
      (if existsb is_eth (msgs sh) then Some RLaneMixed else None);
      check_disabled tbl (msgs sh);
      chk_vesting (has_proof e) (msgs sh) ].

Ltac case_opt :=
  repeat match goal with
         | |- context [match ?x with Some _ => _ | None => _ end] =>
             match x with
             | context [match _ with _ => _ end] => fail 1
             | _ => destruct x eqn:?
             end
         end.

Lemma ante_split : forall tbl m e sh,
  run_decs (ante_chain tbl) m e sh =
  if has_single_eth (msgs sh) then eth_lane m e sh else cosmos_lane tbl m e sh.
Proof.
  intros tbl m e sh.
  unfold ante_chain, run_decs, d01_setup, d02_ext, d03_validate_basic, d03e_eoa, d04_timeout, d05_memo,
    d06_txsize, d07_deduct_fee, d08_pubkey, d09_sigcount, d10_siggas, d11_sigverify, d12_incseq, d13_ibc,
    d991e_setup_exec, d992e_emit_event, d993e_trial_exec, d991c_reject_eth, d992c_authz, d993c_vesting, dl, pass.
  destruct (has_single_eth (msgs sh)) eqn:Hl.
  - unfold eth_lane, first_some.
    destruct (is_ethereum_tx sh); [|reflexivity].
    destruct (is_recheck m); destruct (runs_trial_exec m); reflexivity.
  - unfold cosmos_lane, first_some.
    destruct (forallb xopt_is_dyn (ext_opts sh)); [|reflexivity].
    destruct (is_recheck m); destruct (runs_trial_exec m); reflexivity.
Qed.

(* Every decorator of the chain takes its decision with the same predicate: it is of the form
   "if has_single_eth then <ethereum branch> else <cosmos branch>" for two branches that do not
   look at the lane themselves being reached. *)
Definition lane_split (d : dec) : Prop :=
  exists eth cos : mode -> env -> shape -> option reason,
    forall m e sh, d m e sh = if has_single_eth (msgs sh) then eth m e sh else cos m e sh.

Lemma dl_split : forall a b, lane_split (dl a b).
Proof. intros a b. exists a, b. reflexivity. Qed.

Lemma every_decorator_one_predicate : forall tbl, Forall lane_split (ante_chain tbl).
Proof.
  intros tbl. unfold ante_chain.
  repeat (apply Forall_cons; [ try apply dl_split | ]); try apply Forall_nil.
  - (* d03: the re-check shortcut in front of the split *)
    exists (fun m e sh => if is_recheck m then None else with_payload (d03_eth_checks sh) sh),
           (fun m e sh => if is_recheck m then None
                          else if existsb is_eth (msgs sh) then Some RCombined
                          else match sdk_vb e with Some c => Some (RSdkVb c) | None => None end).
    intros m e sh. unfold d03_validate_basic, dl. destruct (is_recheck m), (has_single_eth (msgs sh)); reflexivity.
  - (* d993e: the mode test in front of the split *)
    exists (fun m e sh => if runs_trial_exec m
                          then with_payload (fun p => if e_exec_ok p then None else Some RTrialExec) sh else None),
           (fun _ _ _ => None).
    intros m e sh. unfold d993e_trial_exec, dl, pass. destruct (runs_trial_exec m), (has_single_eth (msgs sh)); reflexivity.
Qed.

Inductive lane := LEth | LCosmos.
Definition lane_of (sh : shape) : lane := if has_single_eth (msgs sh) then LEth else LCosmos.

Lemma one_lane : forall tbl m e sh,
  Forall lane_split (ante_chain tbl) /\
  ante tbl m e sh =
    match lane_of sh with
    | LEth => match eth_lane m e sh with Some r => Reject r | None => Accept end
    | LCosmos => match cosmos_lane tbl m e sh with Some r => Reject r | None => Accept end
    end /\
  (lane_of sh = LEth <-> exists p, msgs sh = [MEth p]).
Proof.
  intros tbl m e sh. split; [apply every_decorator_one_predicate|]. split.
  - unfold ante, lane_of. rewrite ante_split. destruct (has_single_eth (msgs sh)); reflexivity.
  - unfold lane_of. rewrite <- has_single_eth_iff. destruct (has_single_eth (msgs sh)); split; congruence.
Qed.

(* ------------------------------------------------------------------ acceptance on the Ethereum lane *)

Lemma first_some_none_cons : forall A (x : option A) l, first_some (x :: l) = None -> x = None /\ first_some l = None.
Proof. intros A [a|] l; cbn; [discriminate|auto]. Qed.

Lemma coins_eqb_eq : forall a b, coins_eqb a b = true -> a = b.
Proof.
  induction a as [|[d1 x1] a IH]; destruct b as [|[d2 x2] b]; cbn; try discriminate; auto.
  intros H. apply andb_prop in H as [H H3]. apply andb_prop in H as [H1 H2].
  apply N.eqb_eq in H1. apply Z.eqb_eq in H2. subst. f_equal. auto.
Qed.

Lemma is_ethereum_tx_ext_ok : forall sh, is_ethereum_tx sh = true -> ext_ok sh = true.
Proof.
  intros sh. unfold is_ethereum_tx, ext_ok. intros H. apply andb_prop in H as [_ H].
  destruct (noncrit sh); [|discriminate].
  destruct (ext_opts sh) as [|x [|y r]]; [reflexivity|destruct x; [reflexivity|discriminate]|discriminate].
Qed.

Lemma d03_eth_checks_none : forall sh p, d03_eth_checks sh p = None ->
  n_sigs sh = 0%nat /\ n_infos sh = 0%nat /\ payer sh = false /\ granter sh = false /\
  e_basic_ok p = true /\ e_asmsg_ok p = true /\ e_enabled p = true /\ e_protected p = true /\
  fee sh = fee_coins_of (e_fee p) /\ gas_limit sh = e_gas p /\ gas_limit sh <= MAX_GAS_WANTED.
Proof.
  intros sh p. unfold d03_eth_checks.
  destruct (is_ethereum_tx sh); cbn [negb]; [|discriminate].
  destruct (gas_limit sh >? MAX_GAS_WANTED) eqn:Hg; [discriminate|].
  destruct ((0 <? n_sigs sh)%nat && negb (n_sigs sh =? n_signers sh)%nat); [discriminate|].
  destruct (0 <? n_infos sh)%nat eqn:Hi; [discriminate|].
  destruct (payer sh) eqn:Hp; [discriminate|]. destruct (granter sh) eqn:Hgr; [discriminate|]. cbn [orb].
  destruct (0 <? n_sigs sh)%nat eqn:Hs; [discriminate|].
  destruct (e_basic_ok p); [|discriminate]. destruct (e_asmsg_ok p); [|discriminate].
  destruct (e_enabled p); [|discriminate]. destruct (e_protected p); [|discriminate]. cbn [negb].
  destruct (coins_eqb (fee sh) (fee_coins_of (e_fee p))) eqn:Hf; [|discriminate]. cbn [negb].
  destruct (gas_limit sh =? e_gas p) eqn:Hgl; [|discriminate]. intros _.
  apply Nat.ltb_ge in Hi, Hs. apply coins_eqb_eq in Hf. apply Z.eqb_eq in Hgl.
  repeat split; auto; lia.
Qed.

Lemma accepted_inv : forall tbl m e sh, accepted tbl m e sh = true ->
  pre_ante sh = None /\ run_decs (ante_chain tbl) m e sh = None.
Proof.
  intros tbl m e sh. unfold accepted, runtx, ante.
  destruct (pre_ante sh); [discriminate|].
  destruct (run_decs (ante_chain tbl) m e sh); [discriminate|auto].
Qed.

(* what every mode guarantees for an accepted transaction with an Ethereum message (re-check included) *)
Lemma eth_accept_any_mode : forall tbl m e sh,
  accepted tbl m e sh = true -> existsb is_eth (msgs sh) = true ->
  exists p, msgs sh = [MEth p] /\ s_memo sh = MemoNone /\ s_timeout sh = TNone /\ ext_ok sh = true /\
            (m <> MReCheck -> d03_eth_checks sh p = None).
Proof.
  intros tbl m e sh Hacc Hex. apply accepted_inv in Hacc as [_ Hrun]. rewrite ante_split in Hrun.
  destruct (has_single_eth (msgs sh)) eqn:Hl.
  - apply has_single_eth_iff in Hl as [p Hp]. exists p. split; [exact Hp|].
    unfold eth_lane in Hrun.
    apply first_some_none_cons in Hrun as [H02 Hrun].
    apply first_some_none_cons in Hrun as [H03 Hrun].
    apply first_some_none_cons in Hrun as [_ Hrun].
    apply first_some_none_cons in Hrun as [H04 Hrun].
    apply first_some_none_cons in Hrun as [H05 _].
    destruct (is_ethereum_tx sh) eqn:Hie; [|discriminate].
    repeat split.
    + destruct (s_memo sh); [reflexivity|discriminate|discriminate].
    + destruct (s_timeout sh); [reflexivity|discriminate|discriminate].
    + apply is_ethereum_tx_ext_ok; exact Hie.
    + intros Hm. destruct m; cbn in H03; try congruence;
        unfold with_payload, eth_payload in H03; rewrite Hp in H03; exact H03.
  - (* Cosmos lane: 991c refuses any top-level Ethereum message, in every mode *)
    unfold cosmos_lane in Hrun.
    do 5 (apply first_some_none_cons in Hrun as [_ Hrun]).
    apply first_some_none_cons in Hrun as [H991 _]. rewrite Hex in H991. discriminate.
Qed.

Lemma eth_accept_shape : forall tbl m e sh,
  m <> MReCheck -> accepted tbl m e sh = true -> existsb is_eth (msgs sh) = true ->
  exists p, eth_shape_ok sh p /\ e_basic_ok p = true /\ e_protected p = true.
Proof.
  intros tbl m e sh Hm Hacc Hex.
  destruct (eth_accept_any_mode _ _ _ _ Hacc Hex) as [p (Hp & Hmemo & Hto & Hext & H03)].
  specialize (H03 Hm). apply d03_eth_checks_none in H03.
  destruct H03 as (Hs & Hi & Hpay & Hgr & Hb & _ & _ & Hprot & Hfee & Hgas & _).
  exists p. unfold eth_shape_ok. repeat split; assumption.
Qed.

(* Re-check: the code skips decorator 03, so the shape follows only together with the fact that the
   same bytes passed CheckTx before (the only way CometBFT issues a re-check). *)
Lemma eth_accept_shape_recheck : forall tbl e e0 sh,
  accepted tbl MCheck e0 sh = true ->
  accepted tbl MReCheck e sh = true -> existsb is_eth (msgs sh) = true ->
  exists p, eth_shape_ok sh p /\ e_basic_ok p = true /\ e_protected p = true.
Proof.
  intros tbl e e0 sh Hc _ Hex. apply (eth_accept_shape tbl MCheck e0 sh); [discriminate|assumption|assumption].
Qed.

(* ------------------------------------------------------------------ nested screening (992c) *)

(* x occurs d levels below the top-level list l (d = 0: listed in l; d+1: inside a MsgExec of l) *)
Inductive occurs : nat -> msg -> list msg -> Prop :=
| occ_here : forall x l, In x l -> occurs 0 x l
| occ_deeper : forall d x l inner, In (MExec inner) l -> occurs d x inner -> occurs (S d) x l.

Definition is_exec (m : msg) : bool := match m with MExec _ => true | _ => false end.
Definition is_grant (m : msg) : bool := match m with MGrant _ => true | _ => false end.

Lemma chk_exec_unfold : forall tbl lvl l,
  chk_msg tbl lvl (MExec l) =
  if (MAX_NESTED_LEVELS <? S lvl)%nat then Some RAuthzDepth else chk_list tbl (S lvl) l.
Proof.
  intros tbl lvl l. cbn [chk_msg]. destruct (MAX_NESTED_LEVELS <? S lvl)%nat; [reflexivity|].
  induction l as [|x r IH]; [reflexivity|]. cbn [chk_list]. rewrite <- IH. reflexivity.
Qed.

Lemma chk_list_none_in : forall tbl lvl l x, chk_list tbl lvl l = None -> In x l -> chk_msg tbl lvl x = None.
Proof.
  induction l as [|y r IH]; intros x H Hin; [contradiction|].
  cbn [chk_list] in H. destruct (chk_msg tbl lvl y) eqn:Hy; [discriminate|].
  destruct Hin as [->|Hin]; auto.
Qed.

(* the invariant of checkDisabledMsgs: no error at level lvl means ... for everything below *)
Lemma chk_list_none_occurs : forall tbl d lvl l x,
  chk_list tbl lvl l = None -> occurs d x l ->
  chk_msg tbl (lvl + d) x = None /\ (d = 0%nat \/ (lvl + d <= MAX_NESTED_LEVELS)%nat).
Proof.
  induction d as [|d IH]; intros lvl l x Hn Hocc; inversion Hocc; subst.
  - rewrite Nat.add_0_r. split; [eapply chk_list_none_in; eauto|auto].
  - pose proof (chk_list_none_in _ _ _ _ Hn H0) as He. rewrite chk_exec_unfold in He.
    destruct (MAX_NESTED_LEVELS <? S lvl)%nat eqn:Hlt; [discriminate|]. apply Nat.ltb_ge in Hlt.
    destruct (IH (S lvl) inner x He H1) as [Hc Hd].
    replace (lvl + S d)%nat with (S lvl + d)%nat by lia. split; [exact Hc|].
    right. destruct Hd as [->|Hd]; lia.
Qed.

Lemma check_disabled_none : forall tbl l, check_disabled tbl l = None -> chk_list tbl 1 l = None.
Proof. intros tbl l. unfold check_disabled. cbn. auto. Qed.

(* consequences of an accepted screening, for a message x found d levels down *)
Lemma screening_sound : forall tbl l d x,
  check_disabled tbl l = None -> occurs d x l ->
  (d < MAX_NESTED_LEVELS)%nat /\
  (is_exec x = true -> (S d < MAX_NESTED_LEVELS)%nat) /\
  (forall u, x = MGrant u -> memN u tbl = false) /\
  ((1 <= d)%nat -> is_exec x = false -> is_grant x = false -> memN (tid x) tbl = false).
Proof.
  intros tbl l d x Hn Hocc. apply check_disabled_none in Hn.
  destruct (chk_list_none_occurs _ _ _ _ _ Hn Hocc) as [Hc Hd].
  assert (Hlt : (d < MAX_NESTED_LEVELS)%nat) by (unfold MAX_NESTED_LEVELS in *; destruct Hd; lia).
  split; [exact Hlt|]. split; [|split].
  - intros Hx. destruct x; try discriminate. rewrite chk_exec_unfold in Hc.
    destruct (MAX_NESTED_LEVELS <? S (1 + d))%nat eqn:E; [discriminate|]. apply Nat.ltb_ge in E. lia.
  - intros u ->. cbn [chk_msg] in Hc. destruct (memN u tbl); [discriminate|reflexivity].
  - intros Hd1 Hx Hg.
    destruct x; try discriminate; cbn [chk_msg] in Hc;
      (destruct (1 <? 1 + d)%nat eqn:E; [|apply Nat.ltb_ge in E; lia]); cbn [andb] in Hc;
      match type of Hc with (if ?b then _ else _) = None => destruct b; [discriminate|reflexivity] end.
Qed.

(* completeness: the screening rejects ONLY for one of those reasons (so the model is not simply "reject") *)
Definition bad_at (tbl : list N) (d : nat) (x : msg) : Prop :=
  (is_exec x = true /\ (MAX_NESTED_LEVELS <= S d)%nat) \/
  (exists u, x = MGrant u /\ memN u tbl = true) \/
  ((1 <= d)%nat /\ is_exec x = false /\ is_grant x = false /\ memN (tid x) tbl = true).

(* ------------------------------------------------------------------ rose-tree induction *)

Section MsgInd.
  Variable P : msg -> Prop.
  Hypothesis Heth : forall p, P (MEth p).
  Hypothesis Hves : forall k a, P (MVesting k a).
  Hypothesis Hexec : forall l, Forall P l -> P (MExec l).
  Hypothesis Hgrant : forall u, P (MGrant u).
  Hypothesis Hother : forall t, P (MOther t).

  Fixpoint msg_ind' (m : msg) : P m :=
    match m with
    | MEth p => Heth p
    | MVesting k a => Hves k a
    | MExec l => Hexec l ((fix go (l : list msg) : Forall P l :=
                             match l with
                             | [] => Forall_nil P
                             | x :: r => Forall_cons x (msg_ind' x) (go r)
                             end) l)
    | MGrant u => Hgrant u
    | MOther t => Hother t
    end.
End MsgInd.

Lemma chk_list_some_in : forall tbl lvl l r, chk_list tbl lvl l = Some r -> exists x, In x l /\ chk_msg tbl lvl x = Some r.
Proof.
  induction l as [|y l IH]; intros r H; [discriminate|]. cbn [chk_list] in H.
  destruct (chk_msg tbl lvl y) eqn:Hy.
  - inversion H; subst. exists y. split; [left; reflexivity|exact Hy].
  - destruct (IH r H) as (x & Hx & Hc). exists x. split; [right; exact Hx|exact Hc].
Qed.

Lemma chk_msg_some_bad : forall tbl m lvl r,
  (1 <= lvl)%nat -> chk_msg tbl lvl m = Some r -> exists d y, occurs d y [m] /\ bad_at tbl (lvl - 1 + d) y.
Proof.
  intros tbl m. induction m using msg_ind'; intros lvl r Hlvl Hc.
  - cbn [chk_msg] in Hc. destruct (1 <? lvl)%nat eqn:E; [|discriminate]. apply Nat.ltb_lt in E. cbn [andb] in Hc.
    destruct (memN (tid (MEth p)) tbl) eqn:Hm; [|discriminate].
    exists 0%nat, (MEth p). split; [apply occ_here; left; reflexivity|]. right; right. repeat split; auto. lia.
  - cbn [chk_msg] in Hc. destruct (1 <? lvl)%nat eqn:E; [|discriminate]. apply Nat.ltb_lt in E. cbn [andb] in Hc.
    destruct (memN (tid (MVesting k a)) tbl) eqn:Hm; [|discriminate].
    exists 0%nat, (MVesting k a). split; [apply occ_here; left; reflexivity|]. right; right. repeat split; auto. lia.
  - rewrite chk_exec_unfold in Hc. destruct (MAX_NESTED_LEVELS <? S lvl)%nat eqn:E.
    + apply Nat.ltb_lt in E. exists 0%nat, (MExec l). split; [apply occ_here; left; reflexivity|].
      left. split; [reflexivity|lia].
    + apply chk_list_some_in in Hc as (x & Hx & Hc). rewrite Forall_forall in H.
      destruct (H x Hx (S lvl) r) as (d & y & Ho & Hb); [lia|exact Hc|].
      exists (S d), y. split.
      * eapply occ_deeper; [left; reflexivity|]. inversion Ho; subst.
        -- destruct H0 as [->|[]]. apply occ_here. exact Hx.
        -- destruct H0 as [Heq|[]]. eapply occ_deeper; [rewrite Heq in Hx; exact Hx|exact H1].
      * replace (lvl - 1 + S d)%nat with (S lvl - 1 + d)%nat by lia. exact Hb.
  - cbn [chk_msg] in Hc. destruct (memN u tbl) eqn:Hm; [|discriminate].
    exists 0%nat, (MGrant u). split; [apply occ_here; left; reflexivity|]. right; left. eauto.
  - cbn [chk_msg] in Hc. destruct (1 <? lvl)%nat eqn:E; [|discriminate]. apply Nat.ltb_lt in E. cbn [andb] in Hc.
    destruct (memN (tid (MOther t)) tbl) eqn:Hm; [|discriminate].
    exists 0%nat, (MOther t). split; [apply occ_here; left; reflexivity|]. right; right. repeat split; auto. lia.
Qed.

(* completeness of the screening: it rejects only when a message of the forbidden kind is really there *)
Lemma screening_complete : forall tbl l r,
  check_disabled tbl l = Some r -> exists d y, occurs d y l /\ bad_at tbl d y.
Proof.
  intros tbl l r H. unfold check_disabled in H. cbn in H.
  apply chk_list_some_in in H as (x & Hx & Hc).
  destruct (chk_msg_some_bad tbl x 1 r (le_n 1) Hc) as (d & y & Ho & Hb). cbn in Hb.
  exists d, y. split; [|exact Hb]. inversion Ho; subst.
  - destruct H as [->|[]]. apply occ_here. exact Hx.
  - destruct H as [Heq|[]]. eapply occ_deeper; [rewrite Heq in Hx; exact Hx|exact H0].
Qed.

Lemma nested_exec_unfold : forall l,
  nested_of (MExec l) =
  (fix go (l : list msg) : list msg := match l with [] => [] | x :: r => x :: nested_of x ++ go r end) l.
Proof. reflexivity. Qed.

Lemma in_nested_exec : forall l y,
  In y (nested_of (MExec l)) <-> (In y l \/ exists x, In x l /\ In y (nested_of x)).
Proof.
  intros l y. rewrite nested_exec_unfold. induction l as [|x r IH].
  - split; [intros []|intros [[]|(x & [] & _)]].
  - split.
    + intros [->|H]; [left; left; reflexivity|].
      apply in_app_or in H as [H|H].
      * right. exists x. split; [left; reflexivity|exact H].
      * apply IH in H as [H|(z & Hz & H)]; [left; right; exact H|right; exists z; split; [right; exact Hz|exact H]].
    + intros [[->|H]|(z & [->|Hz] & H)].
      * left; reflexivity.
      * right. apply in_or_app. right. apply IH. left; exact H.
      * right. apply in_or_app. left; exact H.
      * right. apply in_or_app. right. apply IH. right. exists z. auto.
Qed.

Lemma in_nested_all : forall l y, In y (nested_all l) <-> exists x, In x l /\ In y (nested_of x).
Proof.
  induction l as [|x r IH]; intros y; cbn [nested_all].
  - split; [intros []|intros (x & [] & _)].
  - rewrite in_app_iff, IH. split.
    + intros [H|(z & Hz & H)]; [exists x; split; [left; reflexivity|exact H]|exists z; split; [right; exact Hz|exact H]].
    + intros (z & [->|Hz] & H); [left; exact H|right; exists z; auto].
Qed.

(* everything the authz keeper dispatches out of m sits at some depth >= 1 below [m] *)
Lemma nested_of_occurs : forall m y, In y (nested_of m) -> exists d, occurs (S d) y [m].
Proof.
  intros m. induction m using msg_ind'; intros y Hy; try (cbn in Hy; contradiction).
  apply in_nested_exec in Hy as [Hy|(x & Hx & Hy)].
  - exists 0%nat. eapply occ_deeper; [left; reflexivity|apply occ_here; exact Hy].
  - rewrite Forall_forall in H. destruct (H x Hx y Hy) as [d Hd].
    exists (S d). eapply occ_deeper; [left; reflexivity|].
    inversion Hd; subst. destruct H1 as [Heq|[]]. eapply occ_deeper; [rewrite Heq in Hx; exact Hx|exact H2].
Qed.

Lemma nested_all_occurs : forall l y, In y (nested_all l) -> exists d, occurs (S d) y l.
Proof.
  intros l y Hy. apply in_nested_all in Hy as (x & Hx & Hy).
  destruct (nested_of_occurs x y Hy) as [d Hd]. exists d.
  inversion Hd; subst. destruct H0 as [Heq|[]]. eapply occ_deeper; [rewrite Heq in Hx; exact Hx|exact H1].
Qed.

(* and conversely *)
Lemma occurs_nested_all : forall d l y, occurs (S d) y l -> In y (nested_all l).
Proof.
  induction d as [|d IH]; intros l y Ho; inversion Ho; subst; apply in_nested_all; exists (MExec inner); (split; [assumption|]);
    apply in_nested_exec.
  - inversion H1; subst. left; assumption.
  - right. specialize (IH inner y H1). apply in_nested_all in IH. exact IH.
Qed.

(* ------------------------------------------------------------------ acceptance on the Cosmos lane *)

Lemma cosmos_accept_inv : forall tbl m e sh,
  accepted tbl m e sh = true -> has_single_eth (msgs sh) = false ->
  existsb is_eth (msgs sh) = false /\ check_disabled tbl (msgs sh) = None /\
  chk_vesting (has_proof e) (msgs sh) = None /\ forallb xopt_is_dyn (ext_opts sh) = true.
Proof.
  intros tbl m e sh Hacc Hl. apply accepted_inv in Hacc as [_ Hrun]. rewrite ante_split, Hl in Hrun.
  unfold cosmos_lane in Hrun.
  apply first_some_none_cons in Hrun as [H02 Hrun].
  do 4 (apply first_some_none_cons in Hrun as [_ Hrun]).
  apply first_some_none_cons in Hrun as [H991 Hrun].
  apply first_some_none_cons in Hrun as [H992 Hrun].
  apply first_some_none_cons in Hrun as [H993 _].
  destruct (existsb is_eth (msgs sh)); [discriminate|].
  destruct (forallb xopt_is_dyn (ext_opts sh)); [|discriminate]. auto.
Qed.

Lemma chk_vesting_none : forall hp l k a, chk_vesting hp l = None -> In (MVesting k a) l -> hp a = true.
Proof.
  induction l as [|x r IH]; intros k a H Hin; [contradiction|].
  destruct Hin as [->|Hin].
  - cbn in H. destruct (hp a); [reflexivity|discriminate].
  - destruct x; cbn in H; try (eapply IH; eassumption).
    destruct (hp target); [eapply IH; eassumption|discriminate].
Qed.

(* The main Cosmos-lane theorem: whatever is accepted without being an Ethereum-lane transaction
   contains no disabled message type at ANY depth, no grant for one, and no nesting beyond the cap. *)
Lemma cosmos_no_disabled_any_depth : forall tbl m e sh d x,
  accepted tbl m e sh = true -> has_single_eth (msgs sh) = false -> occurs d x (msgs sh) ->
  (d < MAX_NESTED_LEVELS)%nat /\
  (is_exec x = true -> (S d < MAX_NESTED_LEVELS)%nat) /\
  (d = 0%nat -> is_eth x = false) /\
  ((1 <= d)%nat -> is_exec x = false -> is_grant x = false -> memN (tid x) tbl = false) /\
  (forall u, x = MGrant u -> memN u tbl = false) /\
  (d = 0%nat -> forall k a, x = MVesting k a -> has_proof e a = true).
Proof.
  intros tbl m e sh d x Hacc Hl Hocc.
  destruct (cosmos_accept_inv _ _ _ _ Hacc Hl) as (H991 & H992 & H993 & _).
  destruct (screening_sound _ _ _ _ H992 Hocc) as (Hd & Hex & Hgr & Hdis).
  repeat split; auto.
  - intros ->. inversion Hocc; subst. destruct (is_eth x) eqn:E; [|reflexivity].
    assert (existsb is_eth (msgs sh) = true) by (apply existsb_exists; eauto). congruence.
  - intros -> k a ->. inversion Hocc; subst. eapply chk_vesting_none; eauto.
Qed.

(* with the default table: no Ethereum message and no vesting-creation message below the top level *)
Lemma cosmos_default_table : forall m e sh d x,
  accepted default_disabled m e sh = true -> has_single_eth (msgs sh) = false -> occurs d x (msgs sh) ->
  is_eth x = false /\
  ((1 <= d)%nat -> forall k a, x <> MVesting k a) /\
  (forall u, x = MGrant u -> u <> TID_ETH /\ forall k, u <> tid_vesting k).
Proof.
  intros m e sh d x Hacc Hl Hocc.
  destruct (cosmos_no_disabled_any_depth _ _ _ _ _ _ Hacc Hl Hocc) as (_ & _ & H0 & Hdis & Hgr & _).
  split; [|split].
  - destruct d; [auto|]. destruct x; try reflexivity.
    assert (memN (tid (MEth p)) default_disabled = false) by (apply Hdis; auto; lia). discriminate.
  - intros Hd k a ->.
    assert (memN (tid (MVesting k a)) default_disabled = false) by (apply Hdis; auto). destruct k; discriminate.
  - intros u ->. specialize (Hgr u eq_refl). split.
    + intros ->. discriminate.
    + intros k ->. destruct k; discriminate.
Qed.

Lemma deep_nesting_rejected : forall tbl m e sh x,
  has_single_eth (msgs sh) = false -> occurs MAX_NESTED_LEVELS x (msgs sh) -> accepted tbl m e sh = false.
Proof.
  intros tbl m e sh x Hl Hocc. destruct (accepted tbl m e sh) eqn:Hacc; [|reflexivity].
  destruct (cosmos_no_disabled_any_depth _ _ _ _ _ _ Hacc Hl Hocc) as (Hd & _). lia.
Qed.

(* ------------------------------------------------------------------ routes *)

Lemma executed_tx_inv : forall tbl e sh r x,
  In (r, x) (executed_tx tbl e sh) ->
  accepted tbl MDeliver e sh = true /\
  ((r = TopLevel /\ occurs 0 x (msgs sh)) \/ (r = InAuthzExec /\ exists d, occurs (S d) x (msgs sh))).
Proof.
  intros tbl e sh r x. unfold executed_tx. destruct (accepted tbl MDeliver e sh) eqn:Hacc; [|intros []].
  intros H. split; [reflexivity|]. apply in_app_or in H as [H|H]; apply in_map_iff in H as (y & Heq & Hy); inversion Heq; subst.
  - left. split; [reflexivity|apply occ_here; exact Hy].
  - right. split; [reflexivity|apply nested_all_occurs; exact Hy].
Qed.

(* An Ethereum message reaches its handler out of a transaction only as the sole top-level message of
   a transaction that went through the Ethereum lane with the demanded shape. *)
Lemma eth_handler_only_via_evm_lane : forall tbl e sh r p,
  memN TID_ETH tbl = true ->
  In (r, MEth p) (executed_tx tbl e sh) ->
  r = TopLevel /\ lane_of sh = LEth /\ eth_shape_ok sh p.
Proof.
  intros tbl e sh r p Htbl Hin. apply executed_tx_inv in Hin as [Hacc Hr].
  destruct (has_single_eth (msgs sh)) eqn:Hl.
  - destruct (proj1 (has_single_eth_iff _) Hl) as [q Hq].
    destruct Hr as [[-> Ho]|[-> [d Ho]]].
    + inversion Ho; subst. rewrite Hq in H. destruct H as [Heq|[]]. inversion Heq; subst.
      assert (Hexs : existsb is_eth (msgs sh) = true) by (rewrite Hq; reflexivity).
      destruct (eth_accept_shape tbl MDeliver e sh) as [p' (Hs & _)]; [discriminate|assumption|assumption|].
      assert (p' = p) by (destruct Hs as (Hm & _); rewrite Hq in Hm; inversion Hm; reflexivity). subst p'.
      split; [reflexivity|]. split; [unfold lane_of; rewrite Hl; reflexivity|exact Hs].
    + inversion Ho; subst. rewrite Hq in H0. destruct H0 as [Heq|[]]. discriminate.
  - exfalso. destruct Hr as [[-> Ho]|[-> [d Ho]]].
    + destruct (cosmos_no_disabled_any_depth _ _ _ _ _ _ Hacc Hl Ho) as (_ & _ & H0 & _).
      specialize (H0 eq_refl). discriminate.
    + destruct (cosmos_no_disabled_any_depth _ _ _ _ _ _ Hacc Hl Ho) as (_ & _ & _ & Hdis & _).
      assert (memN (tid (MEth p)) tbl = false) by (apply Hdis; auto; lia).
      cbn [tid] in H. congruence.
Qed.

(* vesting-creation handlers run out of a transaction only top-level and only for proven targets *)
Lemma vesting_handler_needs_proof : forall tbl e sh r k a,
  (forall k, memN (tid_vesting k) tbl = true) ->
  In (r, MVesting k a) (executed_tx tbl e sh) ->
  r = TopLevel /\ has_proof e a = true.
Proof.
  intros tbl e sh r k a Htbl Hin. apply executed_tx_inv in Hin as [Hacc Hr].
  destruct (has_single_eth (msgs sh)) eqn:Hl.
  - exfalso. apply has_single_eth_iff in Hl as [q Hq].
    destruct Hr as [[-> Ho]|[-> [d Ho]]]; inversion Ho; subst.
    + rewrite Hq in H. destruct H as [Heq|[]]. discriminate.
    + rewrite Hq in H0. destruct H0 as [Heq|[]]. discriminate.
  - destruct Hr as [[-> Ho]|[-> [d Ho]]].
    + destruct (cosmos_no_disabled_any_depth _ _ _ _ _ _ Hacc Hl Ho) as (_ & _ & _ & _ & _ & Hv).
      split; [reflexivity|]. eapply Hv; reflexivity.
    + exfalso. destruct (cosmos_no_disabled_any_depth _ _ _ _ _ _ Hacc Hl Ho) as (_ & _ & _ & Hdis & _).
      assert (memN (tid (MVesting k a)) tbl = false) by (apply Hdis; auto; lia).
      cbn [tid] in H. rewrite Htbl in H. discriminate.
Qed.

(* ICA host route: with the default host parameters an Ethereum message (and a vesting-creation
   message for any target) is handed to its handler although no ante handler ran. *)
Definition eth0 : ethp :=
  {| e_basic_ok := true; e_asmsg_ok := true; e_enabled := true; e_protected := true; e_fee := 21000; e_gas := 21000;
     e_eoa_ok := true; e_fee_ok := true; e_sig_ok := true; e_exec_ok := true |}.

Lemma ica_executes_eth : In (InIcaPacket, MEth eth0) (executed_ica ica_default true [MEth eth0]).
Proof. cbn. left. reflexivity. Qed.

Lemma ica_executes_vesting : forall k a, In (InIcaPacket, MVesting k a) (executed_ica ica_default true [MVesting k a]).
Proof. intros k a. cbn. left. reflexivity. Qed.

(* the host is safe for a message type exactly when the allow list keeps it (and MsgExec) out *)
Lemma ica_safe_if_not_allowed : forall p ok l x,
  ica_allow_all p = false -> memN (tid x) (ica_allow p) = false -> memN TID_EXEC (ica_allow p) = false ->
  ~ In (InIcaPacket, x) (executed_ica p ok l).
Proof.
  intros p ok l x Hall Hx Hexec Hin. unfold executed_ica in Hin.
  destruct (ica_enabled p); cbn [andb] in Hin; [|contradiction].
  destruct (forallb (ica_allowed p) l) eqn:Hf; cbn [andb] in Hin; [|contradiction].
  destruct (ok && forallb msg_basic_ok l); [|contradiction].
  rewrite forallb_forall in Hf.
  apply in_map_iff in Hin as (y & Heq & Hy). inversion Heq; subst y.
  apply in_app_or in Hy as [Hy|Hy].
  - specialize (Hf x Hy). unfold ica_allowed in Hf. rewrite Hall, Hx in Hf. discriminate.
  - apply in_nested_all in Hy as (z & Hz & Hy). destruct z; try contradiction.
    specialize (Hf _ Hz). unfold ica_allowed in Hf. rewrite Hall in Hf. cbn [tid orb] in Hf. congruence.
Qed.
