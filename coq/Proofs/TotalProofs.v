(* C20: no panic escapes a recover boundary in the per-transaction pipeline; dead and live panic sites;
   end-of-block totality; isolation of a failing transaction. *)
From Evm Require Import BaseFee BaseFeeProofs TxPipe Total.
From Coq Require Import Lia.
Open Scope Z_scope.

Definition is_crash (v : verdict) : bool := match v with VCrash _ => true | _ => false end.

Lemma within_some b r : (forall v, r = Cont v -> is_crash v = false) -> is_crash (within (Some b) r) = false.
Proof. intros H. destruct r as [v|c|s]; cbn; auto. Qed.

Lemma bind_cont {A B} (r : sres A) (f : A -> sres B) v :
  bind r f = Cont v -> exists a, r = Cont a /\ f a = Cont v.
Proof. destruct r; cbn; intros H; try discriminate. eauto. Qed.

Lemma class_of_outcome_not_crash o : is_crash (class_of_outcome o) = false.
Proof. destruct o; reflexivity. Qed.

Lemma eth_run_not_crash m s e v : eth_run m s e = Cont v -> is_crash v = false.
Proof.
  unfold eth_run, eth_pre. intros H.
  repeat (apply bind_cont in H; destruct H as (? & _ & H)).
  destruct (deliver s (e_tx e) (e_out e)) as [s' r]. destruct (r_out r) eqn:Eo;
    try (inversion H; subst; reflexivity).
  apply bind_cont in H. destruct H as (? & _ & H). inversion H; subst. reflexivity.
Qed.

Lemma cos_msg_not_crash c v : cos_msg c = Cont v -> is_crash v = false.
Proof.
  unfold cos_msg. destruct (c_msg c) as [ok|t ok|l ok]; destruct ok; intros H; try discriminate;
    try (inversion H; subst; reflexivity).
  apply bind_cont in H. destruct H as (? & _ & H). inversion H; subst. reflexivity.
Qed.

Lemma cos_run_not_crash m c v : cos_run m c = Cont v -> is_crash v = false.
Proof.
  unfold cos_run. intros H.
  repeat (apply bind_cont in H; destruct H as (? & _ & H)).
  destruct m; try (inversion H; subst; reflexivity);
    apply bind_cont in H; destruct H as (? & _ & H); eapply cos_msg_not_crash; eauto.
Qed.

Lemma lane_run_not_crash m s l v : lane_run m s l = Cont v -> is_crash v = false.
Proof.
  destruct l as [e|c|o]; cbn.
  - apply eth_run_not_crash.
  - apply cos_run_not_crash.
  - destruct o; intros H; inversion H; subst; reflexivity.
Qed.

Lemma run_tx_not_crash m s r : is_crash (run_tx m s r) = false.
Proof.
  unfold run_tx. apply within_some. intros v H. apply bind_cont in H. destruct H as (l & _ & H).
  eapply lane_run_not_crash; eauto.
Qed.

(* every phase, every input of the model: Ok, Rejected, or a panic inside a recover boundary *)
Theorem tx_never_escapes p s r : is_crash (phase_tx p s r) = false.
Proof.
  destruct p; cbn [phase_tx]; try apply run_tx_not_crash.
  - unfold decode. destruct (r_decodes r); reflexivity.
  - reflexivity.
  - unfold decode. destruct (r_decodes r); [apply run_tx_not_crash|reflexivity].
Qed.

Theorem tx_verdict_shape p s r :
  match phase_tx p s r with
  | VOk _ | VRejected _ => True
  | VPanicRecovered _ _ => True      (* carries its boundary *)
  | VCrash _ => False
  end.
Proof. pose proof (tx_never_escapes p s r) as H. destruct (phase_tx p s r); auto. discriminate. Qed.

Theorem query_never_escapes q : is_crash (query q) = false.
Proof.
  unfold query. apply within_some. intros v H. destruct q; cbn in H.
  - destruct ok; inversion H; reflexivity.
  - repeat (apply bind_cont in H; destruct H as (? & _ & H)). destruct ok; inversion H; reflexivity.
  - repeat (apply bind_cont in H; destruct H as (? & _ & H)). destruct ok; inversion H; reflexivity.
Qed.

(* ---- dead sites: the guards in front of them always fire first *)
Lemma bind_pan {A B} (r : sres A) (f : A -> sres B) x :
  bind r f = Pan x -> r = Pan x \/ exists a, r = Cont a /\ f a = Pan x.
Proof.
  destruct r as [a|c|y]; cbn; intros H.
  - right. exists a. split; [reflexivity|exact H].
  - discriminate.
  - left. inversion H; reflexivity.
Qed.

Theorem eth_accessors_never_panic m s e x :
  eth_run m s e = Pan x -> x <> S_AsTransaction /\ x <> S_MustBech32From.
Proof.
  unfold eth_run, eth_pre, eth_fee_checker, eth_validate_basic. unfold as_transaction, get_from, guard, site_if.
  destruct (e_from_ok e), (e_payload_ok e), (e_fields_ok e); cbn; try discriminate.
  intros H.
  destruct m; cbn in H;
    repeat match type of H with
    | context [if ?b then _ else _] => destruct b; cbn in H; try discriminate
    | context [let '(_, _) := ?d in _] => destruct d; cbn in H
    | context [match r_out ?r with _ => _ end] => destruct (r_out r); cbn in H; try discriminate
    end; inversion H; subst; split; discriminate.
Qed.

Lemma cos_fee_checker_no_div c x : 0 < c_gas c -> cos_fee_checker c = Pan x -> x <> S_FeeQuoZeroGas.
Proof.
  intros Hg. unfold cos_fee_checker, guard, site_if.
  assert (c_gas c =? 0 = false) as -> by lia.
  destruct (c_fees_len c =? 1); cbn; try discriminate.
  destruct (c_denom_ok c); cbn; try discriminate.
  destruct (c_dyn c) as [[tip|]|]; cbn.
  - destruct (0 <=? tip); cbn; try discriminate.
    destruct (_ && _); cbn; [intros H; inversion H; discriminate|].
    destruct (_ <=? _); discriminate.
  - intros H; inversion H; discriminate.
  - rewrite Bool.andb_false_r. cbn. destruct (_ <=? _); discriminate.
Qed.

Theorem cos_never_divides_by_zero_gas m c : cos_run m c <> Pan S_FeeQuoZeroGas.
Proof.
  unfold cos_run, cos_fee_checker, cos_msg, guard, site_if. intros H.
  destruct (c_basic_ok c); cbn in H; try discriminate.
  destruct (negb _); cbn in H; try discriminate.
  destruct (c_ext_ok c); cbn in H; try discriminate.
  destruct (c_dyn c) as [[tip|]|]; destruct m; cbn in H.
  all: repeat match type of H with
       | context [if ?b then _ else _] => let E := fresh "E" in destruct b eqn:E; cbn in H; try discriminate
       | context [match c_msg ?c with _ => _ end] => destruct (c_msg c); cbn in H; try discriminate
       end; try lia.
Qed.

Theorem cpc_call_never_panics len known args ok : exists failed, cpc_call len known args ok = Cont failed.
Proof.
  unfold cpc_call, site_if. destruct (len <? 4) eqn:E; [eauto|]. destruct known; cbn; [|eauto].
  destruct args; cbn; eauto.
Qed.

(* ---- end of block *)
Lemma blk_invariant (l : list bool) :
  let b := fold_left blk_step l blk0 in forall i, (i < b_count b)%nat -> In i (b_receipts b).
Proof.
  assert (G : forall l b, (forall i, (i < b_count b)%nat -> In i (b_receipts b)) ->
              forall i, (i < b_count (fold_left blk_step l b))%nat -> In i (b_receipts (fold_left blk_step l b))).
  { induction l0 as [|x t IH]; intros b Hb; cbn; auto. apply IH.
    destruct x; cbn; auto. intros i Hi. destruct (Nat.eq_dec i (b_count b)) as [->|]; [left; auto|right; apply Hb; lia]. }
  cbn. apply G. cbn. intros i Hi. lia.
Qed.

(* receipts match the counter after any sequence of transactions (committed ante or not) *)
Theorem evm_end_block_total (l : list bool) : evm_end_block (fold_left blk_step l blk0) = Cont tt.
Proof.
  unfold evm_end_block. pose proof (blk_invariant l) as H. cbn in H.
  set (b := fold_left blk_step l blk0) in *.
  assert (forallb (fun i => existsb (Nat.eqb i) (b_receipts b)) (seq 0 (b_count b)) = true) as ->; auto.
  apply forallb_forall. intros i Hi. apply in_seq in Hi. apply existsb_exists. exists i. split.
  - apply H. lia.
  - apply Nat.eqb_refl.
Qed.

(* EndBlock never fails for valid consensus parameters, as long as the next base fee fits sdkmath.Int (C09_total) *)
Theorem endblock_total_partial (l : list bool) base used mg md :
  -1 <= mg -> 0 <= base -> 0 <= used <= gas_limit mg ->
  base + base / 4 + 1 <= MAX256 -> md / E18 <= MAX256 ->
  end_block (fold_left blk_step l blk0) base used mg md = VOk false.
Proof.
  intros H1 H2 H3 H4 H5. unfold end_block. rewrite evm_end_block_total. cbn.
  destruct (calc_total base used mg md H1 H2 H3 H4 H5) as [z Hz]. unfold feemarket_end_block. rewrite Hz. reflexivity.
Qed.

(* ... and the only way it fails for valid parameters is the known overflow corner; never a division by zero, never a missing receipt *)
Theorem endblock_failure_is_overflow (l : list bool) base used mg md x :
  -1 <= mg -> end_block (fold_left blk_step l blk0) base used mg md = VCrash x -> x = S_BaseFeeOverflow.
Proof.
  intros H1. unfold end_block. rewrite evm_end_block_total. cbn. unfold feemarket_end_block.
  pose proof (calc_never_divzero base used mg md H1) as Hn.
  destruct (calc_base_fee base used mg md); cbn; intros H; try discriminate; try congruence.
Qed.

Definition endblock_total_full : Prop := forall (l : list bool) base used mg md,
  -1 <= mg -> 0 <= base <= MAX256 -> 0 <= used <= gas_limit mg -> 0 <= md / E18 <= MAX256 ->
  end_block (fold_left blk_step l blk0) base used mg md = VOk false.

Theorem endblock_total_refuted : ~ endblock_total_full.
Proof.
  intros H. specialize (H [] MAX256 100 100 0). vm_compute in H.
  assert (X : VCrash S_BaseFeeOverflow = VOk false) by (apply H; intuition congruence). discriminate.
Qed.

(* ---- isolation: what a failing execution did before failing leaves no trace *)
Definition failing (o : evm_out) : Prop := e_vmerr o = true.
Definition same_figures (o o' : evm_out) : Prop :=
  e_used o = e_used o' /\ e_logs o = e_logs o' /\ e_commit_err o = e_commit_err o'.

Lemma deliver_failing_eq s t o o' :
  failing o -> failing o' -> same_figures o o' -> deliver s t o = deliver s t o'.
Proof.
  intros F F' (E1 & E2 & E3). unfold failing in *. unfold deliver.
  destruct (blk_out_of_gas s); auto. destruct (ante s t); auto.
  rewrite E3, E1, E2, F, F'. reflexivity.
Qed.

Lemma run_app s l1 l2 :
  run s (l1 ++ l2) = let '(s1, r1) := run s l1 in let '(s2, r2) := run s1 l2 in (s2, r1 ++ r2).
Proof.
  revert s; induction l1 as [|i t IH]; intros s; cbn.
  - destruct (run s l2); reflexivity.
  - destruct (step s i) as [s1 r1]. rewrite IH. destruct (run s1 t) as [s2 r2]. destruct (run s2 l2) as [s3 r3].
    rewrite app_assoc. reflexivity.
Qed.

(* replacing a failing transaction by another failing execution of the same transaction (same gas and log figures):
   the whole block -- every other transaction's result and the final state -- is unchanged, whatever the two
   executions did internally (value movements, burns) *)
Theorem tx_failure_isolated s pre suf t o o' :
  failing o -> failing o' -> same_figures o o' ->
  run s (pre ++ Eth t o :: suf) = run s (pre ++ Eth t o' :: suf).
Proof.
  intros F F' E. rewrite !run_app. destruct (run s pre) as [s1 r1]. cbn.
  rewrite (deliver_failing_eq s1 t o o' F F' E). reflexivity.
Qed.

(* a failing execution leaves exactly the ante effects, the gas accounting and the refund: nothing of its moves / burns *)
Theorem failing_ignores_effects s t o moves burn :
  failing o ->
  deliver s t o = deliver s t (mkOut (e_used o) true (e_logs o) moves burn (e_commit_err o)).
Proof. intros F. apply deliver_failing_eq; auto. - reflexivity. - repeat split. Qed.

(* the pending-transaction consumers never panic, whatever a block carries *)
Theorem rpc_pending_never_crashes decodes has_msgs is_eth valid : is_crash (rpc_pending decodes has_msgs is_eth valid) = false.
Proof. destruct decodes, has_msgs, is_eth, valid; reflexivity. Qed.
