(* C20: no panic escapes a recover boundary in the per-transaction pipeline; dead and live panic sites;
   end-of-block totality; isolation of a failing transaction. *)
From Evm Require Import BaseFee BaseFeeProofs TxPipe Total.
From Coq Require Import Lia.
Open Scope Z_scope.

Definition is_crash (v : verdict) : bool := match v with VCrash _ => true | _ => false end.

Lemma within_some b r : (forall v, r = Cont v -> is_crash v = false) -> is_crash (within (Some b) r) = false.
Proof. intros H. destruct r as [v|c|s]; cbn; auto. Qed.

Lemma bind_cont {A B} (r : sres A) (f : A -> sres B) v :
  bind r f = Cont v -> exists a, r = Cont a /\ f a = Cont v.
Proof. destruct r; cbn; intros H; try discriminate. eauto. Qed.

Lemma class_of_outcome_not_crash o : is_crash (class_of_outcome o) = false.
Proof. destruct o; reflexivity. Qed.

Lemma eth_run_not_crash m s e v : eth_run m s e = Cont v -> is_crash v = false.
Proof.
  unfold eth_run, eth_pre. intros H.
  repeat (apply bind_cont in H; destruct H as (? & _ & H)).
  destruct (deliver s (e_tx e) (e_out e)) as [s' r]. destruct (r_out r) eqn:Eo;
    try (inversion H; subst; reflexivity).
  apply bind_cont in H. destruct H as (? & _ & H). inversion H; subst. reflexivity.
Qed.

Lemma cos_msg_not_crash c v : cos_msg c = Cont v -> is_crash v = false.
Proof.
  unfold cos_msg. destruct (c_msg c) as [ok|t ok|l ok]; destruct ok; intros H; try discriminate;
    try (inversion H; subst; reflexivity).
  apply bind_cont in H. destruct H as (? & _ & H). inversion H; subst. reflexivity.
Qed.

Lemma cos_run_not_crash m c v : cos_run m c = Cont v -> is_crash v = false.
Proof.
  unfold cos_run. intros H.
  repeat (apply bind_cont in H; destruct H as (? & _ & H)).
  destruct m; try (inversion H; subst; reflexivity);
    apply bind_cont in H; destruct H as (? & _ & H); eapply cos_msg_not_crash; eauto.
Qed.

Lemma lane_run_not_crash m s l v : lane_run m s l = Cont v -> is_crash v = false.
Proof.
  destruct l as [e|c|o]; cbn.
  - apply eth_run_not_crash.
  - apply cos_run_not_crash.
  - destruct o; intros H; inversion H; subst; reflexivity.
Qed.

Lemma run_tx_not_crash m s r : is_crash (run_tx m s r) = false.
Proof.
  unfold run_tx. apply within_some. intros v H. apply bind_cont in H. destruct H as (l & _ & H).
  eapply lane_run_not_crash; eauto.
Qed.

(* every phase, every input of the model: Ok, Rejected, or a panic inside a recover boundary *)
Theorem tx_never_escapes p s r : is_crash (phase_tx p s r) = false.
Proof.
  destruct p; cbn [phase_tx]; try apply run_tx_not_crash.
  - unfold decode. destruct (r_decodes r); reflexivity.
  - reflexivity.
  - unfold decode. destruct (r_decodes r); [apply run_tx_not_crash|reflexivity].
Qed.

Theorem tx_verdict_shape p s r :
  match phase_tx p s r with
  | VOk _ | VRejected _ => True
  | VPanicRecovered _ _ => True      (* carries its boundary *)
  | VCrash _ => False
  end.
Proof. pose proof (tx_never_escapes p s r) as H. destruct (phase_tx p s r); auto. discriminate. Qed.

Theorem query_never_escapes q : is_crash (query q) = false.
Proof.
  unfold query. apply within_some. intros v H. destruct q; cbn in H.
  - destruct ok; inversion H; reflexivity.
  - repeat (apply bind_cont in H; destruct H as (? & _ & H)). destruct ok; inversion H; reflexivity.
  - repeat (apply bind_cont in H; destruct H as (? & _ & H)). destruct ok; inversion H; reflexivity.
Qed.

(* ---- dead sites: the guards in front of them always fire first *)
Lemma bind_pan {A B} (r : sres A) (f : A -> sres B) x :
  bind r f = Pan x -> r = Pan x \/ exists a, r = Cont a /\ f a = Pan x.
Proof.
  destruct r as [a|c|y]; cbn; intros H.
  - right. exists a. split; [reflexivity|exact H].
  - discriminate.
  - left. inversion H; reflexivity.
Qed.

Theorem eth_accessors_never_panic m s e x :
  eth_run m s e = Pan x -> x <> S_AsTransaction /\ x <> S_MustBech32From.
Proof.
  unfold eth_run, eth_pre, eth_fee_checker, eth_validate_basic. unfold as_transaction, get_from, guard, site_if.
  destruct (e_from_ok e), (e_payload_ok e), (e_fields_ok e); cbn; try discriminate.
  intros H.
  destruct m; cbn in H;
    repeat match type of H with
    | context [if ?b then _ else _] => destruct b; cbn in H; try discriminate
    | context [let '(_, _) := ?d in _] => destruct d; cbn in H
    | context [match r_out ?r with _ => _ end] => destruct (r_out r); cbn in H; try discriminate
    end; inversion H; subst; split; discriminate.
Qed.

Lemma cos_fee_checker_no_div c x : 0 < c_gas c -> cos_fee_checker c = Pan x -> x <> S_FeeQuoZeroGas.
Proof.
  intros Hg. unfold cos_fee_checker, guard, site_if.
  assert (c_gas c =? 0 = false) as -> by lia.
  destruct (c_fees_len c =? 1); cbn; try discriminate.
  destruct (c_denom_ok c); cbn; try discriminate.
  destruct (c_dyn c) as [[tip|]|]; cbn.
  - destruct (0 <=? tip); cbn; try discriminate.
    destruct (_ && _); cbn; [intros H; inversion H; discriminate|].
    destruct (_ <=? _); discriminate.
  - intros H; inversion H; discriminate.
  - rewrite Bool.andb_false_r. cbn. destruct (_ <=? _); discriminate.
Qed.

Theorem cos_never_divides_by_zero_gas m c : cos_run m c <> Pan S_FeeQuoZeroGas.
Proof.
  unfold cos_run, cos_fee_checker, cos_msg, guard, site_if. intros H.
  destruct (c_basic_ok c); cbn in H; try discriminate.
  destruct (negb _); cbn in H; try discriminate.
  destruct (c_ext_ok c); cbn in H; try discriminate.
  destruct (c_dyn c) as [[tip|]|]; destruct m; cbn in H.
  all: repeat match type of H with
       | context [if ?b then _ else _] => let E := fresh "E" in destruct b eqn:E; cbn in H; try discriminate
       | context [match c_msg ?c with _ => _ end] => destruct (c_msg c); cbn in H; try discriminate
       end; try lia.
Qed.

Theorem cpc_call_never_panics len known args ok : exists failed, cpc_call len known args ok = Cont failed.
Proof.
  unfold cpc_call, site_if. destruct (len <? 4) eqn:E; [eauto|]. destruct known; cbn; [|eauto].
  destruct args; cbn; eauto.
Qed.

(* ---- end of block *)
Lemma blk_invariant (l : list bool) :
  let b := fold_left blk_step l blk0 in forall i, (i < b_count b)%nat -> In i (b_receipts b).
Proof.
  assert (G : forall l b, (forall i, (i < b_count b)%nat -> In i (b_receipts b)) ->
              forall i, (i < b_count (fold_left blk_step l b))%nat -> In i (b_receipts (fold_left blk_step l b))).
  { induction l0 as [|x t IH]; intros b Hb; cbn; auto. apply IH.
    destruct x; cbn; auto. intros i Hi. destruct (Nat.eq_dec i (b_count b)) as [->|]; [left; auto|right; apply Hb; lia]. }
  cbn. apply G. cbn. intros i Hi. lia.
Qed.

(* receipts match the counter after any sequence of transactions (committed ante or not) *)
Theorem evm_end_block_total (l : list bool) : evm_end_block (fold_left blk_step l blk0) = Cont tt.
Proof.
  unfold evm_end_block. pose proof (blk_invariant l) as H. cbn in H.
  set (b := fold_left blk_step l blk0) in *.
  assert (forallb (fun i => existsb (Nat.eqb i) (b_receipts b)) (seq 0 (b_count b)) = true) as ->; auto.
  apply forallb_forall. intros i Hi. apply in_seq in Hi. apply existsb_exists. exists i. split.
  - apply H. lia.
  - apply Nat.eqb_refl.
Qed.

(* EndBlock never fails for valid consensus parameters, as long as the next base fee fits sdkmath.Int (C09_total) *)
Theorem endblock_total_partial (l : list bool) base used mg md :
  -1 <= mg -> 0 <= base -> 0 <= used <= gas_limit mg ->
  base + base / 4 + 1 <= MAX256 -> md / E18 <= MAX256 ->
  end_block (fold_left blk_step l blk0) base used mg md = VOk false.
Proof.
  intros H1 H2 H3 H4 H5. unfold end_block. rewrite evm_end_block_total. cbn.
  destruct (calc_total base used mg md H1 H2 H3 H4 H5) as [z Hz]. unfold feemarket_end_block. rewrite Hz. reflexivity.
Qed.

(* ... and the only way it fails for valid parameters is the known overflow corner; never a division by zero, never a missing receipt *)
Theorem endblock_failure_is_overflow (l : list bool) base used mg md x :
  -1 <= mg -> end_block (fold_left blk_step l blk0) base used mg md = VCrash x -> x = S_BaseFeeOverflow.
Proof.
  intros H1. unfold end_block. rewrite evm_end_block_total. cbn. unfold feemarket_end_block.
  pose proof (calc_never_divzero base used mg md H1) as Hn.
  destruct (calc_base_fee base used mg md); cbn; intros H; try discriminate; try congruence.
Qed.

Definition endblock_total_full : Prop := forall (l : list bool) base used mg md,
  -1 <= mg -> 0 <= base <= MAX256 -> 0 <= used <= gas_limit mg -> 0 <= md / E18 <= MAX256 ->
  end_block (fold_left blk_step l blk0) base used mg md = VOk false.

Theorem endblock_total_refuted : ~ endblock_total_full.
Proof.
  intros H. specialize (H [] MAX256 100 100 0). vm_compute in H.
  assert (X : VCrash S_BaseFeeOverflow = VOk false) by (apply H; intuition congruence). discriminate.
Qed.

(* ---- isolation: what a failing execution did before failing leaves no trace *)
Definition failing (o : evm_out) : Prop := e_vmerr o = true.
Definition same_figures (o o' : evm_out) : Prop :=
  e_used o = e_used o' /\ e_logs o = e_logs o' /\ e_commit_err o = e_commit_err o'.

Lemma deliver_failing_eq s t o o' :
  failing o -> failing o' -> same_figures o o' -> deliver s t o = deliver s t o'.
Proof.
  intros F F' (E1 & E2 & E3). unfold failing in *. unfold deliver.
  destruct (blk_out_of_gas s); auto. destruct (ante s t); auto.
  rewrite E3, E1, E2, F, F'. reflexivity.
Qed.

Lemma run_app s l1 l2 :
  run s (l1 ++ l2) = let '(s1, r1) := run s l1 in let '(s2, r2) := run s1 l2 in (s2, r1 ++ r2).
Proof.
  revert s; induction l1 as [|i t IH]; intros s; cbn.
  - destruct (run s l2); reflexivity.
  - destruct (step s i) as [s1 r1]. rewrite IH. destruct (run s1 t) as [s2 r2]. destruct (run s2 l2) as [s3 r3].
    rewrite app_assoc. reflexivity.
Qed.

(* replacing a failing transaction by another failing execution of the same transaction (same gas and log figures):
   the whole block -- every other transaction's result and the final state -- is unchanged, whatever the two
   executions did internally (value movements, burns) *)
Theorem tx_failure_isolated s pre suf t o o' :
  failing o -> failing o' -> same_figures o o' ->
  run s (pre ++ Eth t o :: suf) = run s (pre ++ Eth t o' :: suf).
Proof.
  intros F F' E. rewrite !run_app. destruct (run s pre) as [s1 r1]. cbn.
  rewrite (deliver_failing_eq s1 t o o' F F' E). reflexivity.
Qed.

(* a failing execution leaves exactly the ante effects, the gas accounting and the refund: nothing of its moves / burns *)
Theorem failing_ignores_effects s t o moves burn :
  failing o ->
  deliver s t o = deliver s t (mkOut (e_used o) true (e_logs o) moves burn (e_commit_err o)).
Proof. intros F. apply deliver_failing_eq; auto. - reflexivity. - repeat split. Qed.

(* the pending-transaction consumers never panic, whatever a block carries *)
Theorem rpc_pending_never_crashes decodes has_msgs is_eth valid : is_crash (rpc_pending decodes has_msgs is_eth valid) = false.
Proof. destruct decodes, has_msgs, is_eth, valid; reflexivity. Qed.

(* ---- isolation when the failing executions differ in gas: states equal on everything other senders read *)
Ltac pj := cbn [bal sqn acc_exists has_code supply base_fee gmin_dec blk_limit blk_used tx_count cum_gas log_count
  flag_paid flag_nonce set_bal set_sqn set_supply set_blk_used set_transient set_flags fst snd no_receipt
  r_out r_gas_wanted r_gas_used r_tx_index r_receipt_gas r_cum_gas r_log_start r_status].
Ltac pjall := cbn [bal sqn acc_exists has_code supply base_fee gmin_dec blk_limit blk_used tx_count cum_gas log_count
  flag_paid flag_nonce set_bal set_sqn set_supply set_blk_used set_transient set_flags fst snd no_receipt
  r_out r_gas_wanted r_gas_used r_tx_index r_receipt_gas r_cum_gas r_log_start r_status] in *.

Record eqv (a : addr) (s s' : st) : Prop := mkEqv {
  q_bal : forall x, x <> a -> x <> FEE_COLLECTOR -> bal s x = bal s' x;
  q_sqn : forall x, sqn s x = sqn s' x;
  q_acc : forall x, acc_exists s x = acc_exists s' x;
  q_code : forall x, has_code s x = has_code s' x;
  q_supply : supply s = supply s';
  q_base : base_fee s = base_fee s';
  q_gmin : gmin_dec s = gmin_dec s';
  q_lim : blk_limit s = blk_limit s';
  q_cnt : tx_count s = tx_count s';
  q_log : log_count s = log_count s';
  q_fp : flag_paid s = flag_paid s';
  q_fn : flag_nonce s = flag_nonce s'
}.

Definition res_eq_mod_cum (r r' : txres) : Prop :=
  r_out r = r_out r' /\ r_gas_wanted r = r_gas_wanted r' /\ r_gas_used r = r_gas_used r' /\
  r_tx_index r = r_tx_index r' /\ r_receipt_gas r = r_receipt_gas r' /\ r_log_start r = r_log_start r' /\
  r_status r = r_status r'.

Lemma apply_moves_ext (P : addr -> Prop) m : forall f g,
  (forall x, P x -> f x = g x) -> forall x, P x -> apply_moves f m x = apply_moves g m x.
Proof.
  unfold apply_moves. induction m as [|p m IH]; intros f g H x Hx; pj; auto.
  apply IH; auto. intros y Hy. unfold add_to, upd.
  destruct (y =? fst p) eqn:E; [|auto]. apply Z.eqb_eq in E. subst y. rewrite (H _ Hy). reflexivity.
Qed.

Lemma ante_eqv a s s' t :
  eqv a s s' -> t_from t <> a -> t_from t <> FEE_COLLECTOR ->
  match ante s t, ante s' t with
  | inl c, inl c' => c = c'
  | inr sa, inr sa' => eqv a sa sa' /\ blk_used sa = blk_used s /\ blk_used sa' = blk_used s' /\ blk_limit sa = blk_limit s
  | _, _ => False
  end.
Proof.
  intros [Eb Es Ea Ec Esu Eba Eg El Ecn Elo Efp Efn] Ha Hf.
  destruct s as [b q ae hc su bf gm bl bu tc cg lc fp fn], s' as [b' q' ae' hc' su' bf' gm' bl' bu' tc' cg' lc' fp' fn'].
  pjall. subst su' bf' gm' bl' tc' lc' fp' fn'.
  unfold ante, price_of. pj.
  rewrite <- (Ec (t_from t)), <- (Ea (t_from t)), <- (Eb (t_from t) Ha Hf).
  destruct (t_recovered t) as [signer|]; auto.
  destruct (negb (t_protected t)); auto.
  destruct (hc (t_from t)); auto.
  destruct (_ <? min_allowed _ _ _ _); auto.
  destruct (negb (ae (t_from t))); auto.
  destruct (b (t_from t) <? _); auto.
  destruct (negb (signer =? t_from t)); auto.
  rewrite <- (Es (t_from t)).
  destruct (negb (t_nonce t =? q (t_from t))); auto.
  repeat split; pj; auto.
  - intros x Hx1 Hx2. unfold add_to, upd.
    assert ((x =? FEE_COLLECTOR) = false) as -> by (apply Z.eqb_neq; auto).
    destruct (x =? t_from t) eqn:E; [apply Z.eqb_eq in E; subst; rewrite Eb; auto|apply Eb; auto].
  - intros x. unfold add_to, upd. destruct (x =? t_from t); rewrite ?Es; auto.
Qed.

Lemma deliver_eqv a s s' t o :
  eqv a s s' -> blk_limit s <= 0 -> t_from t <> a -> t_from t <> FEE_COLLECTOR ->
  eqv a (fst (deliver s t o)) (fst (deliver s' t o)) /\
  res_eq_mod_cum (snd (deliver s t o)) (snd (deliver s' t o)) /\
  blk_limit (fst (deliver s t o)) = blk_limit s.
Proof.
  intros He Hl Ha Hf. pose proof (ante_eqv a s s' t He Ha Hf) as HA.
  pose proof (q_lim _ _ _ He) as El.
  unfold deliver.
  assert (blk_out_of_gas s = false) as -> by (unfold blk_out_of_gas; destruct (0 <? blk_limit s) eqn:E; auto; lia).
  assert (blk_out_of_gas s' = false) as -> by (unfold blk_out_of_gas; rewrite <- El; destruct (0 <? blk_limit s) eqn:E; auto; lia).
  destruct (ante s t) as [c|sa], (ante s' t) as [c'|sa']; try contradiction.
  - subst. pj. split; [exact He|]. split; [unfold res_eq_mod_cum; pj; repeat split; auto|reflexivity].
  - destruct HA as (Hq & Hu & Hu' & Hlim).
    pose proof Hq as [Eb Es Ea Ec Esu Eba Eg El2 Ecn Elo Efp Efn].
    assert (Hbal : bal sa (t_from t) = bal sa' (t_from t)) by (apply Eb; auto).
    rewrite <- Hbal.
    assert (Hp : price_of s t = price_of s' t) by (unfold price_of; rewrite (q_base _ _ _ He); reflexivity).
    destruct ((t_gas t <? t_intrinsic t) || _ || e_commit_err o).
    + pj. split; [constructor; pj; auto|]. split; [unfold res_eq_mod_cum; pj; rewrite <- Ecn; repeat split; auto|exact Hlim].
    + assert (blk_would_overflow sa (e_used o) = false) as ->
        by (unfold blk_would_overflow; rewrite Hlim; destruct (0 <? blk_limit s) eqn:E; auto; lia).
      assert (blk_would_overflow sa' (e_used o) = false) as ->
        by (unfold blk_would_overflow; rewrite <- El2, Hlim; destruct (0 <? blk_limit s) eqn:E; auto; lia).
      pj. split; [|split; [unfold res_eq_mod_cum; pj; rewrite <- Ecn, <- Elo; repeat split; auto|exact Hlim]].
      constructor; pj; auto; try lia.
      * intros x Hx1 Hx2. rewrite <- Hp.
        destruct (e_vmerr o).
        -- unfold add_to, upd. assert ((x =? FEE_COLLECTOR) = false) as -> by (apply Z.eqb_neq; auto).
           destruct (x =? t_from t) eqn:E; [apply Z.eqb_eq in E; subst; rewrite Eb; auto|apply Eb; auto].
        -- apply (apply_moves_ext (fun y => y <> a /\ y <> FEE_COLLECTOR)); auto.
           intros y [Hy1 Hy2]. unfold add_to, upd. assert ((y =? FEE_COLLECTOR) = false) as -> by (apply Z.eqb_neq; auto).
           destruct (y =? t_from t) eqn:E; [apply Z.eqb_eq in E; subst; rewrite Eb; auto|apply Eb; auto].
Qed.

Lemma eqv_refl a s : eqv a s s.
Proof. constructor; auto. Qed.

Definition other_ok (a : addr) (i : item) : Prop :=
  match i with Eth t _ => t_from t <> a /\ t_from t <> FEE_COLLECTOR | Cosmos _ _ _ _ => True end.

Lemma deliver_failing_eqv s t o o' :
  failing o -> failing o' -> e_logs o = e_logs o' -> e_commit_err o = e_commit_err o' -> blk_limit s <= 0 ->
  eqv (t_from t) (fst (deliver s t o)) (fst (deliver s t o')) /\ blk_limit (fst (deliver s t o)) = blk_limit s.
Proof.
  unfold failing. intros F F' El Ec Hl. unfold deliver.
  assert (blk_out_of_gas s = false) as -> by (unfold blk_out_of_gas; destruct (0 <? blk_limit s) eqn:E; auto; lia).
  destruct (ante s t) as [c|sa] eqn:EA.
  - pj. split; auto using eqv_refl.
  - assert (Hlim : blk_limit sa = blk_limit s).
    { pose proof (ante_eqv (t_from t + 1) s s t (eqv_refl _ _)) as H. rewrite EA in H.
      destruct (Z.eq_dec (t_from t) FEE_COLLECTOR) as [Hf|Hf].
      - (* the fee collector as sender: read the limit off the definition *)
        clear H. unfold ante in EA.
        repeat match type of EA with
        | context [match ?x with _ => _ end] => destruct x; try discriminate
        end; inversion EA; subst; reflexivity.
      - destruct H as (_ & _ & _ & H); auto; lia. }
    rewrite <- Ec. destruct ((t_gas t <? t_intrinsic t) || _ || e_commit_err o).
    + pj. split; auto using eqv_refl.
    + assert (forall g, blk_would_overflow sa g = false) as Hov
        by (intros g; unfold blk_would_overflow; rewrite Hlim; destruct (0 <? blk_limit s) eqn:E; auto; lia).
      rewrite !Hov, F, F', El. pj. split; auto.
      constructor; pj; auto.
      intros x Hx1 Hx2. unfold add_to, upd.
      assert ((x =? FEE_COLLECTOR) = false) as -> by (apply Z.eqb_neq; auto).
      assert ((x =? t_from t) = false) as -> by (apply Z.eqb_neq; auto). reflexivity.
Qed.

Lemma run_eqv a l : forall s s', eqv a s s' -> blk_limit s <= 0 -> Forall (other_ok a) l ->
  eqv a (fst (run s l)) (fst (run s' l)) /\ Forall2 res_eq_mod_cum (snd (run s l)) (snd (run s' l)).
Proof.
  induction l as [|i l IH]; intros s s' He Hl Hok; cbn [run]; [pj; split; auto|].
  inversion Hok as [|? ? Hi Hrest]; subst.
  destruct i as [t o|g payer fee inc]; cbn [step].
  - destruct Hi as [H1 H2]. destruct (deliver_eqv a s s' t o He Hl H1 H2) as (Hq & Hr & Hlim).
    destruct (deliver s t o) as [s1 r1], (deliver s' t o) as [s1' r1']. cbn [fst snd] in *.
    assert (Hl1 : blk_limit s1 <= 0) by lia.
    destruct (IH s1 s1' Hq Hl1 Hrest) as [Hq2 Hr2].
    destruct (run s1 l) as [s2 r2], (run s1' l) as [s2' r2']. cbn [fst snd] in *. split; auto. constructor; auto.
  - set (u := if inc then _ else _). set (u' := if inc then _ else _).
    assert (Hq : eqv a u u' /\ blk_limit u = blk_limit s).
    { pose proof He as [Eb Es Ea Ec Esu Eba Eg El2 Ecn Elo Efp Efn].
      subst u u'. destruct inc; pj; (split; [constructor; pj; auto|auto]).
      - intros x Hx1 Hx2. unfold add_to, upd.
        assert ((x =? FEE_COLLECTOR) = false) as -> by (apply Z.eqb_neq; auto).
        destruct (x =? payer) eqn:E; [apply Z.eqb_eq in E; subst; rewrite Eb; auto|apply Eb; auto].
      - intros x. unfold add_to, upd. destruct (x =? payer); rewrite ?Es; auto.
      - intros x Hx1 Hx2. unfold add_to, upd.
        assert ((x =? FEE_COLLECTOR) = false) as -> by (apply Z.eqb_neq; auto).
        destruct (x =? payer) eqn:E; [apply Z.eqb_eq in E; subst; rewrite Eb; auto|apply Eb; auto]. }
    destruct Hq as [Hq Hlim]. assert (Hl1 : blk_limit u <= 0) by lia.
    destruct (IH u u' Hq Hl1 Hrest) as [Hq2 Hr2].
    destruct (run u l) as [s2 r2], (run u' l) as [s2' r2']. cbn [fst snd] in *. split; auto.
Qed.

(* a failing transaction replaced by ANY failing execution of the same transaction (any gas figure): the results of
   all later transactions of other senders are unchanged up to the cumulative-gas field, under an unlimited block
   gas meter; the earlier transactions' results are literally the same *)
Theorem tx_failure_isolated_any_gas s pre suf t o o' :
  failing o -> failing o' -> e_logs o = e_logs o' -> e_commit_err o = e_commit_err o' ->
  blk_limit (fst (run s pre)) <= 0 -> Forall (other_ok (t_from t)) suf ->
  exists r1 x x' rs rs',
    snd (run s (pre ++ Eth t o :: suf)) = r1 ++ x :: rs /\
    snd (run s (pre ++ Eth t o' :: suf)) = r1 ++ x' :: rs' /\
    Forall2 res_eq_mod_cum rs rs'.
Proof.
  intros F F' El Ec Hl Hok. rewrite !run_app. destruct (run s pre) as [s1 r1]. cbn [fst] in Hl. cbn [run step].
  destruct (deliver_failing_eqv s1 t o o' F F' El Ec Hl) as [Hq Hlim].
  destruct (deliver s1 t o) as [s2 x], (deliver s1 t o') as [s2' x']. cbn [fst] in *.
  assert (Hl2 : blk_limit s2 <= 0) by lia.
  destruct (run_eqv (t_from t) suf s2 s2' Hq Hl2 Hok) as [_ Hr].
  destruct (run s2 suf) as [s3 rs], (run s2' suf) as [s3' rs']. cbn [snd] in *.
  exists r1, x, x', rs, rs'. repeat split; auto.
Qed.
