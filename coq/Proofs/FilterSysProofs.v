(* Safety of the EventSystem model (repaired code, hold = true) for every interleaving, and the witness
   interleaving that crashes the code before the fix (hold = false). *)
From Evm Require Import Conc ConcProofs PubSub PubSubProofs FilterSys.
From Coq Require Import Lia Relations.

Lemma bus_call_eq d o : bus_call d o = (set_bus d (fst (apply_op (f_bus d) o)), snd (apply_op (f_bus d) o)).
Proof. unfold bus_call. destruct (apply_op (f_bus d) o); reflexivity. Qed.
Opaque apply_op bus_call.

Lemma fmx_eqb_spec a b : fmx_eqb a b = true <-> a = b.
Proof. destruct a, b; cbn; split; intros; congruence. Qed.

Ltac fwf_solve :=
  cbn; repeat (match goal with
  | |- forall _, _ => intro
  | |- _ /\ _ => split
  | |- Forall _ [] => constructor
  | |- context [if ?b then _ else _] => destruct b; cbn
  | |- context [match f_inst_q ?d with _ => _ end] => destruct (f_inst_q d) as [[[? ?] ?]|]; cbn
  | |- context [match f_uninst_q ?d with _ => _ end] => destruct (f_uninst_q d) as [[[? ?] ?]|]; cbn
  | |- context [match f_resp_q ?d with _ => _ end] => destruct (f_resp_q d); cbn
  | |- context [match lookup ?a ?b with _ => _ end] => destruct (lookup a b); cbn
  | |- context [match filter ?a ?b with _ => _ end] => destruct (filter a b) as [|[? [? ?]] ?]; cbn
  | |- context [bus_call ?a ?b] => rewrite (bus_call_eq a b); cbn
  | p : (nat * nat * nat)%type |- _ => destruct p as [[? ?] ?]; cbn in *
  | m : fmx |- _ => destruct m; cbn in *
  end); try reflexivity; try congruence; auto.

Lemma fs_wf_code hold : wf_code fpc fdata fmx ferr (fcode hold) fholds.
Proof. intros p. destruct p; destruct hold; fwf_solve. Qed.

Lemma fs_wf_client : wf_client fpc fmx fclient fholds.
Proof. intros p H m. destruct H, m; reflexivity. Qed.

(* lock order: indexMux before the bus locks *)
Lemma fs_wf_order hold : wf_order fpc fdata fmx ferr (fcode hold) fholds frank.
Proof.
  intros p m md k Hc m' md' Hh.
  destruct p; cbn in Hc; try discriminate; inversion Hc; subst; destruct m'; cbn in Hh; try discriminate; cbn; lia.
Qed.

Lemma fs_wf_nonblocking hold : wf_holder_nonblocking fpc fdata fmx ferr (fcode hold) fholds.
Proof.
  intros p m md Hh. destruct p; destruct m; cbn in Hh; try discriminate; cbn; auto.
Qed.

(* ------------------------------------------------------------------ invariant of the repaired code *)
Definition is_EL (p : fpc) : bool :=
  match p with
  | EL_sel | EL_i_lock _ _ _ | EL_i_put _ _ _ | EL_i_bacq _ _ _ _ | EL_i_add _ _ _ _ | EL_i_brel _ | EL_i_unlock _ | EL_i_close _
  | EL_u_lock _ _ _ | EL_u_del _ _ _ | EL_u_look _ _ _ | EL_u_bacq _ _ _ | EL_u_rm _ _ _ | EL_u_brel _ _ _ | EL_u_close _ _ _
  | EL_u_unlock _ | EL_u_cerr _ => true
  | _ => false
  end.

(* what must hold of the shared data while a goroutine is at pc *)
Definition pc_ok (d : fdata) (p : fpc) : Prop :=
  match p with
  | EL_i_lock f _ _ | EL_i_put f _ _ | EL_i_brel f | EL_i_unlock f | EL_i_close f => getp (f_phase d) f = 2
  | EL_i_bacq f _ _ ch | EL_i_add f _ _ ch =>
      getp (f_phase d) f = 2 /\ ch < f_nch d /\ ~ In ch (f_closed d) /\ ~ In ch (map snd (f_tchans d))
  | EL_u_lock f _ _ | EL_u_del f _ _ | EL_u_look f _ _ | EL_u_unlock f | EL_u_cerr f => getp (f_uphase d) f = 3
  | EL_u_bacq f ev ch | EL_u_rm f ev ch | EL_u_brel f ev ch | EL_u_close f ev ch =>
      getp (f_uphase d) f = 3 /\ In (ev, ch) (f_tchans d)
  | CE_send_h _ ch => ~ In ch (f_closed d)
  | CE_ru _ _ | CE_send _ _ => False            (* the unlocked send does not exist in the repaired code *)
  | _ => True
  end.

Record DI (d : fdata) : Prop := mkDI {
  k_tch : forall ev ch, In (ev, ch) (f_tchans d) -> ch < f_nch d /\ ~ In ch (f_closed d);
  k_tnd : NoDup (map snd (f_tchans d));
  k_cl : forall ch, In ch (f_closed d) -> ch < f_nch d;
  k_iq : forall f t e, f_inst_q d = Some (f, t, e) -> getp (f_phase d) f = 1;
  k_uq : forall f t e, f_uninst_q d = Some (f, t, e) -> getp (f_uphase d) f = 2
}.

Record K (s : fstate) : Prop := mkK {
  k_err : err s = None;
  k_el : forall j p, nth_error (thr s) j = Some p -> is_EL p = true -> j = 0;
  k_di : DI (dat s);
  k_pc : forall j p, nth_error (thr s) j = Some p -> pc_ok (dat s) p
}.

Definition FInv (s : fstate) : Prop := lock_inv fpc fdata fmx ferr fholds s /\ K s.

Lemma getp_cons f v l g : getp ((f, v) :: l) g = if Nat.eqb f g then v else getp l g.
Proof. unfold getp. cbn. destruct (Nat.eqb f g); reflexivity. Qed.

Lemma lookup_In k l v : lookup k l = Some v -> In (k, v) l.
Proof.
  induction l as [|[a b] t IH]; cbn; [discriminate|]. destruct (Nat.eqb_spec a k) as [->|Hne].
  - intros H; inversion H; auto.
  - auto.
Qed.

Lemma in_remove_key k l a b : In (a, b) (remove_key k l) -> In (a, b) l /\ a <> k.
Proof.
  unfold remove_key. rewrite filter_In. cbn. intros [H1 H2]. split; auto.
  destruct (Nat.eqb_spec a k); [discriminate|auto].
Qed.

Lemma nodup_remove_key k l : NoDup (map snd l) -> NoDup (map snd (remove_key k l)).
Proof.
  induction l as [|[a b] t IH]; cbn; intros H; [constructor|]. inversion H; subst.
  destruct (negb (Nat.eqb a k)); cbn; auto. constructor; auto.
  intros Hin. apply in_map_iff in Hin. destruct Hin as ([a' b'] & Hb & Hin). cbn in Hb. subst.
  apply in_remove_key in Hin. destruct Hin as [Hin _]. apply H2. apply in_map_iff. exists (a', b). auto.
Qed.

Lemma in_snd_remove_key k l c : In c (map snd (remove_key k l)) -> In c (map snd l).
Proof.
  intros Hin. apply in_map_iff in Hin. destruct Hin as ([a b] & Hb & Hin). cbn in Hb. subst.
  apply in_remove_key in Hin. apply in_map_iff. exists (a, c). tauto.
Qed.

(* other goroutines' obligations survive a step that leaves channels alone and only advances phases from 0 or 1 *)
Lemma pc_ok_mono d d' q :
  f_tchans d' = f_tchans d -> f_nch d' = f_nch d -> f_closed d' = f_closed d ->
  (forall f, getp (f_phase d) f = 2 -> getp (f_phase d') f = 2) ->
  (forall f, getp (f_uphase d) f = 3 -> getp (f_uphase d') f = 3) ->
  pc_ok d q -> pc_ok d' q.
Proof.
  intros E1 E2 E3 H2 H3 Hq. destruct q; cbn in *; try rewrite E1; try rewrite E2; try rewrite E3; intuition.
Qed.

Lemma pc_ok_nonEL d d' q : is_EL q = false -> f_closed d' = f_closed d -> pc_ok d q -> pc_ok d' q.
Proof. intros Hq E Hok. destruct q; cbn in *; try discriminate; try rewrite E; auto. Qed.

Lemma is_EL_lock hold p m md k :
  (fcode hold p = Acq m md k \/ fcode hold p = Rel m md k) -> is_EL k = is_EL p.
Proof.
  intros [H|H]; destruct p; cbn in H; try discriminate; inversion H; subst; try reflexivity;
    try (destruct found; reflexivity); destruct hold; reflexivity.
Qed.

Lemma pc_ok_lock d p m md k :
  (fcode true p = Acq m md k \/ fcode true p = Rel m md k) -> pc_ok d p -> pc_ok d k.
Proof.
  intros [H|H] Hok; destruct p; cbn in H; try discriminate; inversion H; subst; cbn in *; try tauto;
    try (destruct found; cbn; tauto).
Qed.

(* rebuilding K after thread i moved from p to k *)
Lemma K_update s i p k d' m' :
  K s -> nth_error (thr s) i = Some p -> is_EL k = is_EL p -> DI d' -> pc_ok d' k ->
  (forall j q, j <> i -> nth_error (thr s) j = Some q -> pc_ok d' q) ->
  K (mkSt d' m' (upd (thr s) i k ++ []) None).
Proof.
  intros [He Hel Hdi Hpc] Hp Hcls Hdi' Hk Hoth. constructor; cbn [dat thr err]; auto.
  - intros j q Hq Hq'. destruct (nth_upd_app_cases _ _ _ _ _ _ _ Hp Hq) as [[-> ->]|[[Hji Hq'']|[]]].
    + eapply Hel; [exact Hp|congruence].
    + eapply Hel; eauto.
  - intros j q Hq. destruct (nth_upd_app_cases _ _ _ _ _ _ _ Hp Hq) as [[-> ->]|[[Hji Hq'']|[]]]; eauto.
Qed.

Lemma DI_same d d' :
  f_tchans d' = f_tchans d -> f_nch d' = f_nch d -> f_closed d' = f_closed d ->
  f_phase d' = f_phase d -> f_uphase d' = f_uphase d -> f_inst_q d' = f_inst_q d -> f_uninst_q d' = f_uninst_q d ->
  DI d -> DI d'.
Proof.
  intros E1 E2 E3 E4 E5 E6 E7 [A B C D E]. constructor; rewrite ?E1, ?E2, ?E3, ?E4, ?E5, ?E6, ?E7; auto.
Qed.

Ltac others_mono HK :=
  let j := fresh "j" in let q := fresh "q" in let Hj := fresh "Hj" in let Hq := fresh "Hq" in
  intros j q Hj Hq; eapply pc_ok_mono; [reflexivity|reflexivity|reflexivity| | |exact (k_pc _ HK _ _ Hq)]; cbn; auto.

Lemma FInv_tstep s i s' : FInv s -> fs_tstep true s i = Some s' -> FInv s'.
Proof.
  intros [LI HK] H. split.
  { eapply (lock_inv_tstep fpc fdata fmx ferr fmx_eqb fmx_eqb_spec (fcode true) FBadUnlock fholds (fs_wf_code true)); eauto. }
  destruct (tstep_inv fpc fdata fmx ferr fmx_eqb (fcode true) FBadUnlock fholds (fs_wf_code true) s i s' LI H) as [He Hs].
  clear H. destruct Hs as [p m md k r Hp Hc Ha | p m md k r Hp Hc Hr | p g f d k sp e Hp Hc Hg Hf].
  - rewrite <- (app_nil_r (upd (thr s) i k)). eapply K_update; eauto.
    + eapply is_EL_lock; eauto.
    + apply (k_di _ HK).
    + eapply pc_ok_lock; eauto. apply (k_pc _ HK _ _ Hp).
    + intros j q _ Hq. apply (k_pc _ HK _ _ Hq).
  - rewrite <- (app_nil_r (upd (thr s) i k)). eapply K_update; eauto.
    + eapply is_EL_lock; eauto.
    + apply (k_di _ HK).
    + eapply pc_ok_lock; eauto. apply (k_pc _ HK _ _ Hp).
    + intros j q _ Hq. apply (k_pc _ HK _ _ Hq).
  - pose proof (k_pc _ HK _ _ Hp) as Hok. pose proof (k_di _ HK) as HD.
    destruct p; cbn in Hc; try discriminate; inversion Hc; subst g f; clear Hc; cbn in Hf, Hok.
    all: try solve [
      rewrite ?bus_call_eq in Hf;
      repeat match type of Hf with context [apply_op ?a ?b] => destruct (apply_op a b) end;
      repeat match type of Hf with
             | context [if ?b then _ else _] => destruct b
             | context [match lookup ?a ?b with _ => _ end] => destruct (lookup a b) eqn:?
             | context [match filter ?a ?b with _ => _ end] => destruct (filter a b) as [|[? [? ?]] ?]
             end;
      cbn in Hf; inversion Hf; subst; clear Hf;
      eapply K_update; [exact HK|exact Hp|reflexivity
        |eapply DI_same; [..|exact HD]; reflexivity
        |cbn; tauto
        |others_mono HK] ].
    + (* EL_sel: take a subscription from install or uninstall *)
      assert (Hi0 : i = 0) by (eapply (k_el _ HK); eauto).
      assert (Hoth : forall d', f_closed d' = f_closed (dat s) ->
                forall j q, j <> i -> nth_error (thr s) j = Some q -> pc_ok d' q).
      { intros d' Ecl j q Hji Hq. eapply (pc_ok_nonEL (dat s)); [|exact Ecl|exact (k_pc _ HK _ _ Hq)].
        destruct (is_EL q) eqn:Eq; auto. exfalso. apply Hji. try rewrite Hi0. eapply (k_el _ HK); eauto. }
      destruct HD as [A B C Dq Eq].
      destruct (f_inst_q (dat s)) as [[[f1 t1] e1]|] eqn:Ei; destruct (f_uninst_q (dat s)) as [[[f2 t2] e2]|] eqn:Eu;
        try discriminate Hg; try (destruct (f_coin (dat s))); cbn in Hf; inversion Hf; subst; clear Hf.
      all: eapply K_update; [exact HK|exact Hp|reflexivity| |cbn; rewrite getp_cons, Nat.eqb_refl; reflexivity|apply Hoth; reflexivity].
      all: constructor; cbn; auto; try discriminate; intros f t e Hq; rewrite ?Ei, ?Eu in Hq; try discriminate; eauto.
    + (* EL_i_put: a new topic channel is made *)
      assert (Hi0 : i = 0) by (eapply (k_el _ HK); eauto).
      inversion Hf; subst; clear Hf. destruct HD as [A B C Dq Eq].
      eapply K_update; [exact HK|exact Hp|reflexivity| | |].
      * constructor; cbn; auto.
        -- intros ev' ch' Hin. destruct (A _ _ Hin). split; auto.
        -- intros ch' Hin. specialize (C _ Hin). lia.
      * cbn. repeat split; auto.
        -- intros Hin. specialize (C _ Hin). lia.
        -- intros Hin. apply in_map_iff in Hin. destruct Hin as ([a b] & Hb & Hin). cbn in Hb; subst.
           destruct (A _ _ Hin). lia.
      * intros j q Hji Hq. eapply (pc_ok_nonEL (dat s)); [|reflexivity|exact (k_pc _ HK _ _ Hq)].
        destruct (is_EL q) eqn:Eq'; auto. exfalso. apply Hji. try rewrite Hi0. eapply (k_el _ HK); eauto.
    + (* EL_i_add: AddTopic, then topicChans[ev] = ch unless it failed *)
      assert (Hi0 : i = 0) by (eapply (k_el _ HK); eauto).
      rewrite ?bus_call_eq in Hf. destruct (apply_op (f_bus (dat s)) (OAddTopic ev ch)) as [b r]. cbn in Hf.
      destruct Hok as (Hph & Hlt & Hop & Hnin). destruct HD as [A B C Dq Eq].
      assert (Hoth : forall d', f_closed d' = f_closed (dat s) ->
                forall j q, j <> i -> nth_error (thr s) j = Some q -> pc_ok d' q).
      { intros d' Ecl j q Hji Hq. eapply (pc_ok_nonEL (dat s)); [|exact Ecl|exact (k_pc _ HK _ _ Hq)].
        destruct (is_EL q) eqn:Eq'; auto. exfalso. apply Hji. try rewrite Hi0. eapply (k_el _ HK); eauto. }
      destruct (Nat.eqb r 0); cbn in Hf; inversion Hf; subst; clear Hf.
      * eapply K_update; [exact HK|exact Hp|reflexivity| |cbn; auto|apply Hoth; reflexivity].
        constructor; cbn; auto.
        -- intros ev' ch' [Hin|Hin]; [inversion Hin; subst; auto|]. apply in_remove_key in Hin. apply A with (ev := ev'). tauto.
        -- constructor; [|apply nodup_remove_key; auto]. intros Hin. apply in_snd_remove_key in Hin. auto.
      * eapply K_update; [exact HK|exact Hp|reflexivity| |cbn; auto|apply Hoth; reflexivity].
        constructor; cbn; auto.
    + (* EL_i_close: close(f.installed) *)
      assert (Hi0 : i = 0) by (eapply (k_el _ HK); eauto).
      rewrite Hok in Hf. cbn in Hf. inversion Hf; subst; clear Hf. destruct HD as [A B C Dq Eq].
      eapply K_update; [exact HK|exact Hp|reflexivity| |cbn; auto|].
      * constructor; cbn; auto. intros f t e Hq. rewrite getp_cons. destruct (Nat.eqb_spec f0 f) as [->|]; [|eauto].
        specialize (Dq _ _ _ Hq). congruence.
      * intros j q Hji Hq. eapply (pc_ok_nonEL (dat s)); [|reflexivity|exact (k_pc _ HK _ _ Hq)].
        destruct (is_EL q) eqn:Eq'; auto. exfalso. apply Hji. try rewrite Hi0. eapply (k_el _ HK); eauto.
    + (* EL_u_del *)
      assert (Hi0 : i = 0) by (eapply (k_el _ HK); eauto).
      inversion Hf; subst; clear Hf.
      eapply K_update; [exact HK|exact Hp| |eapply DI_same; [..|exact HD]; reflexivity| |].
      * match goal with |- context [if ?b then _ else _] => destruct b end; reflexivity.
      * match goal with |- context [if ?b then _ else _] => destruct b end; cbn; auto.
      * intros j q Hji Hq. eapply (pc_ok_nonEL (dat s)); [|reflexivity|exact (k_pc _ HK _ _ Hq)].
        destruct (is_EL q) eqn:Eq'; auto. exfalso. apply Hji. try rewrite Hi0. eapply (k_el _ HK); eauto.
    + (* EL_u_look *)
      inversion Hf; subst; clear Hf.
      eapply K_update; [exact HK|exact Hp| |exact HD| |intros j q _ Hq; exact (k_pc _ HK _ _ Hq)].
      * destruct (lookup ev (f_tchans (dat s))); reflexivity.
      * destruct (lookup ev (f_tchans (dat s))) eqn:El; cbn; auto. split; auto. apply lookup_In; auto.
    + (* EL_u_close: close(ch); delete(topicChans, ev) -- ch is open because it is still in the table *)
      assert (Hi0 : i = 0) by (eapply (k_el _ HK); eauto).
      destruct Hok as (Hup & Hin). destruct HD as [A B C Dq Eq].
      destruct (A _ _ Hin) as [Hlt Hopen].
      apply memb_false in Hopen. rewrite Hopen in Hf. apply memb_false in Hopen.
      rewrite ?bus_call_eq in Hf. cbn in Hf. destruct (apply_op (f_bus (dat s)) (OClose ch)) as [b r]. cbn in Hf.
      inversion Hf; subst; clear Hf.
      eapply K_update; [exact HK|exact Hp|reflexivity| |cbn; auto|].
      * constructor; cbn; auto.
        -- intros ev' ch' Hin'. apply in_remove_key in Hin'. destruct Hin' as [Hin' Hne].
           destruct (A _ _ Hin') as [Hlt' Hop']. split; auto. intros [<-|X]; [|auto].
           (* another key with the same channel contradicts NoDup *)
           clear - B Hin Hin' Hne. induction (f_tchans (dat s)) as [|[a c] t IH]; [destruct Hin|].
           cbn in B. inversion B as [|? ? Hn Hnd]; subst. destruct Hin as [E|Hin]; destruct Hin' as [E'|Hin'].
           ++ inversion E; inversion E'; subst. congruence.
           ++ inversion E; subst. apply Hn. apply in_map_iff. exists (ev', ch). auto.
           ++ inversion E'; subst. apply Hn. apply in_map_iff. exists (ev, ch). auto.
           ++ auto.
        -- apply nodup_remove_key; auto.
        -- intros ch' [<-|Hc]; auto.
      * (* the only other goroutine that cares, a sender under the read lock, cannot coexist with this writer *)
        intros j q Hji Hq. pose proof (k_pc _ HK _ _ Hq) as Hokq.
        destruct q; cbn in Hokq |- *; try tauto;
          try (exfalso; apply Hji; try rewrite Hi0; eapply (k_el _ HK); [exact Hq|reflexivity]).
        exfalso. apply Hji. symmetry.
        eapply (excl_writer fpc fdata fmx ferr fholds s _ j _ _ IndexMux MR LI Hp); cbn; eauto.
    + (* EL_u_cerr: close(f.err) *)
      assert (Hi0 : i = 0) by (eapply (k_el _ HK); eauto).
      rewrite Hok in Hf. cbn in Hf. inversion Hf; subst; clear Hf. destruct HD as [A B C Dq Eq].
      eapply K_update; [exact HK|exact Hp|reflexivity| |cbn; auto|].
      * constructor; cbn; auto. intros f t e Hq. rewrite getp_cons. destruct (Nat.eqb_spec f0 f) as [->|]; [|eauto].
        specialize (Eq _ _ _ Hq). congruence.
      * intros j q Hji Hq. eapply (pc_ok_nonEL (dat s)); [|reflexivity|exact (k_pc _ HK _ _ Hq)].
        destruct (is_EL q) eqn:Eq'; auto. exfalso. apply Hji. try rewrite Hi0. eapply (k_el _ HK); eauto.
    + (* CE_recv *)
      destruct (f_resp_q (dat s)); [|discriminate Hg]. inversion Hf; subst; clear Hf.
      eapply K_update; [exact HK|exact Hp|reflexivity|eapply DI_same; [..|exact HD]; reflexivity|cbn; auto|others_mono HK].
    + (* CE_look: the channel found in the table is open, and stays open while the read lock is held *)
      inversion Hf; subst; clear Hf.
      eapply K_update; [exact HK|exact Hp| |exact HD| |intros j q _ Hq; exact (k_pc _ HK _ _ Hq)].
      * destruct (lookup ev (f_tchans (dat s))); reflexivity.
      * destruct (lookup ev (f_tchans (dat s))) eqn:El; cbn; auto.
        apply lookup_In in El. apply (k_tch _ HD _ _ El).
    + (* CE_send_h: send under the read lock *)
      apply memb_false in Hok. rewrite Hok in Hf. rewrite ?bus_call_eq in Hf.
      destruct (apply_op (f_bus (dat s)) (OSend ch ev)) as [b r]. cbn in Hf. destruct (f_coin (dat s)); cbn in Hf; inversion Hf; subst; clear Hf.
      * eapply K_update; [exact HK|exact Hp|reflexivity|eapply DI_same; [..|exact HD]; reflexivity|cbn; auto|others_mono HK].
      * eapply K_update; [exact HK|exact Hp|reflexivity|exact HD|cbn; auto|intros j q _ Hq; exact (k_pc _ HK _ _ Hq)].
    + (* CE_send: not a pc of the repaired code *)
      destruct Hok.
    + (* CS_comet *)
      inversion Hf; subst; clear Hf.
      eapply K_update; [exact HK|exact Hp| |exact HD| |intros j q _ Hq; exact (k_pc _ HK _ _ Hq)];
        destruct (f_coin (dat s)); cbn; auto.
    + (* CS_offer: phase 0 -> 1 *)
      destruct (f_inst_q (dat s)) eqn:Ei; [discriminate Hg|]. apply Nat.eqb_eq in Hg.
      inversion Hf; subst; clear Hf. destruct HD as [A B C Dq Eq].
      eapply K_update; [exact HK|exact Hp|reflexivity| |cbn; auto|].
      * constructor; cbn; auto. intros f t e Hq. inversion Hq; subst. rewrite getp_cons, Nat.eqb_refl. reflexivity.
      * intros j q Hji Hq. eapply (pc_ok_mono (dat s)); [reflexivity|reflexivity|reflexivity| | |exact (k_pc _ HK _ _ Hq)]; cbn; auto.
        intros f H2. rewrite getp_cons. destruct (Nat.eqb_spec f0 f) as [->|]; [congruence|auto].
    + (* CS_bsub *)
      rewrite ?bus_call_eq in Hf. destruct (apply_op (f_bus (dat s)) (OSubscribe ev)) as [b r]. cbn in Hf.
      destruct (Nat.eqb r 0); cbn in Hf; inversion Hf; subst; clear Hf;
        (eapply K_update; [exact HK|exact Hp|reflexivity|eapply DI_same; [..|exact HD]; reflexivity|cbn; auto|others_mono HK]).
    + (* U_offer: uphase 0 -> 2 *)
      destruct (f_uninst_q (dat s)) eqn:Eu; [discriminate Hg|]. apply Nat.eqb_eq in Hg.
      inversion Hf; subst; clear Hf. destruct HD as [A B C Dq Eq].
      eapply K_update; [exact HK|exact Hp|reflexivity| |cbn; auto|].
      * constructor; cbn; auto. intros f t e Hq. inversion Hq; subst. rewrite getp_cons, Nat.eqb_refl. reflexivity.
      * intros j q Hji Hq. eapply (pc_ok_mono (dat s)); [reflexivity|reflexivity|reflexivity| | |exact (k_pc _ HK _ _ Hq)]; cbn; auto.
        intros f H3. rewrite getp_cons. destruct (Nat.eqb_spec f0 f) as [->|]; [congruence|auto].
    + (* CU_do *)
      rewrite ?bus_call_eq in Hf.
      destruct (filter (fun e0 => Nat.eqb (fst e0) f0) (f_subchan (dat s))) as [|[? [id ?]] ?]; cbn in Hf.
      * inversion Hf; subst; clear Hf.
        eapply K_update; [exact HK|exact Hp|reflexivity|exact HD|cbn; auto|intros j q _ Hq; exact (k_pc _ HK _ _ Hq)].
      * destruct (apply_op (f_bus (dat s)) (OUnsub ev id)) as [b r]. cbn in Hf. inversion Hf; subst; clear Hf.
        eapply K_update; [exact HK|exact Hp|reflexivity|eapply DI_same; [..|exact HD]; reflexivity|cbn; auto|others_mono HK].
Qed.

Lemma FInv_step s s' : FInv s -> fs_step true s s' -> FInv s'.
Proof.
  intros HI H. destruct H as [s i s' H | s d' He Hv | s p He Hc].
  - eapply FInv_tstep; eauto.
  - destruct HI as [LI HK]. split; [exact LI|]. destruct HK as [E1 E2 E3 E4].
    destruct Hv as [d ev Hq | d b | d c on]; constructor; cbn [dat thr err]; auto;
      try (eapply DI_same; [..|exact E3]; reflexivity);
      intros j q Hj; eapply (pc_ok_mono d); try reflexivity; auto.
  - destruct HI as [LI HK]. split.
    + eapply (lock_inv_step fpc fdata fmx ferr fmx_eqb fmx_eqb_spec (fcode true) FBadUnlock fenv fclient fholds
                (fs_wf_code true) fs_wf_client s); [exact LI | eapply step_spawn; eauto].
    + destruct HK as [E1 E2 E3 E4]. constructor; cbn [dat thr err]; auto.
      * intros j q Hq Hel. destruct (nth_app_one_cases _ _ _ _ Hq) as [Hq'| ->]; [eauto|]. destruct Hc; discriminate.
      * intros j q Hq. destruct (nth_app_one_cases _ _ _ _ Hq) as [Hq'| ->]; [eauto|]. destruct Hc; exact I.
Qed.

Lemma FInv_init : FInv fs_init.
Proof.
  split.
  - apply lock_inv_init. intros p [<-|[<-|[]]] m; destruct m; reflexivity.
  - constructor; cbn.
    + reflexivity.
    + intros [|[|j]] p Hp Hel; cbn in Hp; inversion Hp; subst; try reflexivity; try discriminate.
      destruct j; discriminate.
    + constructor; cbn; try (intros; contradiction); try discriminate; constructor.
    + intros [|[|j]] p Hp; cbn in Hp; inversion Hp; subst; cbn; auto. destruct j; discriminate.
Qed.

Theorem fs_reach_inv s : fs_reach true s -> FInv s.
Proof. intros H. induction H as [|s s' _ IH Hs]; [apply FInv_init|eapply FInv_step; eauto]. Qed.

(* the repaired code: no step from a reachable state crashes (no send on a closed topic channel, no double close
   of a topic channel / installed / err channel, no unmatched Unlock), whatever the interleaving *)
Theorem fs_no_crash s s' : fs_reach true s -> fs_step true s s' -> err s' = None.
Proof.
  intros Hr Hs. assert (Hr' : fs_reach true s') by (eapply reach_step; eauto).
  destruct (fs_reach_inv _ Hr') as [_ HK]. apply (k_err _ HK).
Qed.

Theorem fs_send_target_open s i ev ch :
  fs_reach true s -> nth_error (thr s) i = Some (CE_send_h ev ch) -> ~ In ch (f_closed (dat s)).
Proof. intros Hr Hp. destruct (fs_reach_inv _ Hr) as [_ HK]. apply (k_pc _ HK _ _ Hp). Qed.

Theorem fs_close_target_open s i f ev ch :
  fs_reach true s -> nth_error (thr s) i = Some (EL_u_close f ev ch) -> ~ In ch (f_closed (dat s)).
Proof.
  intros Hr Hp. destruct (fs_reach_inv _ Hr) as [_ HK]. destruct (k_pc _ HK _ _ Hp) as [_ Hin].
  apply (k_tch _ (k_di _ HK) _ _ Hin).
Qed.

(* lock order indexMux < bus locks: no cycle in the waits-for graph, for either version of the code *)
Theorem fs_no_wait_cycle s : fs_reach true s -> forall i, ~ clos_trans nat (fs_waits_for true s) i i.
Proof.
  intros Hr. destruct (fs_reach_inv _ Hr) as [LI _].
  apply (no_wait_cycle fpc fdata fmx ferr (fcode true) fholds frank (fs_wf_order true) s LI).
Qed.

Theorem fs_holder_progress s j q m md :
  fs_reach true s -> nth_error (thr s) j = Some q -> fholds q m = Some md ->
  (exists s', fs_tstep true s j = Some s') \/ (exists k, fs_waits_for true s j k).
Proof.
  intros Hr Hq Hh. destruct (fs_reach_inv _ Hr) as [LI HK].
  eapply (holder_progress fpc fdata fmx ferr fmx_eqb (fcode true) FBadUnlock fholds (fs_wf_nonblocking true)); eauto.
  apply (k_err _ HK).
Qed.

(* ------------------------------------------------------------------ the code before the fix *)
Fixpoint steps (hold : bool) (s : fstate) (l : list nat) : fstate :=
  match l with
  | [] => s
  | i :: r => match fs_tstep hold s i with Some s' => steps hold s' r | None => s end
  end.

Lemma steps_reach hold l : forall s, fs_reach hold s -> fs_reach hold (steps hold s l).
Proof.
  induction l as [|i r IH]; intros s Hr; cbn; auto.
  destruct (fs_tstep hold s i) as [s'|] eqn:E; auto. apply IH. eapply reach_step; eauto. eapply step_thread; eauto.
Qed.

Transparent apply_op bus_call.

(* witness: subscribe (thread 2 installs topic 7 on channel 0); an event for topic 7 arrives and consumeEvents
   looks the channel up and releases the read lock; Unsubscribe (thread 3) is taken by eventLoop, which closes
   channel 0 under the write lock; consumeEvents sends. *)
Definition w_sub : fstate := fs_quiesce false (fspawn fs_init (CS_new 4 7)).
Definition w_ev : fstate := fwith w_sub (set_resp_q (dat w_sub) (Some 7)).
Definition w_looked : fstate := steps false w_ev [1; 1; 1; 1].
Definition w_unsub : fstate := fspawn w_looked (U_offer 0 4 7).
Definition w_closed : fstate := steps false w_unsub [3; 0; 0; 0; 0; 0; 0; 0; 0].
Definition w_crash : fstate := steps false w_closed [1].

Lemma w_crash_reach : fs_reach false w_crash.
Proof.
  unfold w_crash, w_closed. apply steps_reach. apply steps_reach.
  unfold w_unsub. eapply reach_step; [|eapply (step_spawn _ _ _ _ _ _ _ _ _ w_looked (U_offer 0 4 7)); [vm_compute; reflexivity|constructor]].
  unfold w_looked. apply steps_reach.
  unfold w_ev. eapply reach_step; [|eapply (step_env _ _ _ _ _ _ _ _ _ w_sub); [vm_compute; reflexivity|apply fe_resp; vm_compute; reflexivity]].
  unfold w_sub, fs_quiesce. apply quiesce_reach.
  eapply reach_step; [apply reach_refl|eapply (step_spawn _ _ _ _ _ _ _ _ _ fs_init (CS_new 4 7)); [reflexivity|constructor]].
Qed.

Theorem fs_window_crashes : exists s, fs_reach false s /\ err s = Some (FSendOnClosed 0).
Proof. exists w_crash. split; [apply w_crash_reach|vm_compute; reflexivity]. Qed.

(* ---- sequential histories are runs of the step relation *)
Lemma fapply_reach s o : fs_reach true s -> fs_reach true (fapply true s o).
Proof.
  intros Hr. destruct (fs_reach_inv _ Hr) as [_ HK]. pose proof (k_err _ HK) as He.
  assert (Hsp : forall p, fclient p -> fs_reach true (fspawn s p)).
  { intros p Hc. unfold fspawn. rewrite He. eapply reach_step; [exact Hr|]. eapply step_spawn; eauto. }
  assert (Hen : forall d, fenv (dat s) d -> fs_reach true (fwith s d)).
  { intros d Hc. unfold fwith. rewrite He. eapply reach_step; [exact Hr|]. eapply step_env; eauto. }
  destruct o; cbn [fapply].
  - apply quiesce_reach. apply Hsp. constructor.
  - destruct (nth f (f_subs (dat s)) (0, 0)). apply quiesce_reach. apply Hsp. constructor.
  - destruct (nth f (f_subs (dat s)) (0, 0)). apply quiesce_reach. apply Hsp. constructor.
  - destruct (f_resp_q (dat s)) eqn:E; auto. apply quiesce_reach. apply Hen. constructor; auto.
  - destruct (chan_of (dat s) f); auto. apply Hen. constructor.
Qed.
