(* Facts about the abstract EVM-view machine (Model/EvmAbs.v): the invariant "an account without nonce and
   code has no storage" is preserved by every disciplined operation; list lemmas shared by the two refinements. *)
From Coq Require Import Lia ZArith List Bool.
From Evm Require Import EvmAbs.
Import ListNotations.
Open Scope Z_scope.

Lemma upd_same : forall {V} (f : Z -> V) a v, upd f a v a = v.
Proof. intros. unfold upd. rewrite Z.eqb_refl. reflexivity. Qed.

Lemma upd_other : forall {V} (f : Z -> V) a v x, x <> a -> upd f a v x = f x.
Proof. intros. unfold upd. destruct (x =? a) eqn:E; [apply Z.eqb_eq in E; contradiction|reflexivity]. Qed.

(* Function extensionality is used for the function-valued components of the abstract state (storage, the account
   map).  It is the standard-library axiom FunctionalExtensionality.functional_extensionality; here it is an explicit
   hypothesis of every lemma that needs it (Section variable FE), so that the dependency is visible in each statement. *)
Definition funext_stmt : Prop := forall (A B : Type) (f g : A -> B), (forall x, f x = g x) -> f = g.

Section FE.
Hypothesis FE : funext_stmt.

Lemma upd_id : forall {V} (f : Z -> V) a, upd f a (f a) = f.
Proof. intros. apply FE. intro x. unfold upd. destruct (x =? a) eqn:E; [apply Z.eqb_eq in E; subst|]; reflexivity. Qed.

Lemma upd_upd : forall {V} (f : Z -> V) a v w, upd (upd f a v) a w = upd f a w.
Proof. intros. apply FE. intro x. unfold upd. destruct (x =? a); reflexivity. Qed.
End FE.

Lemma memZ_In' : forall a l, memZ a l = true <-> In a l.
Proof.
  induction l as [|x r IH]; cbn [memZ In]; [split; [discriminate|tauto]|].
  rewrite orb_true_iff, Z.eqb_eq, IH. tauto.
Qed.

Lemma memZ_false_notIn : forall a l, memZ a l = false <-> ~ In a l.
Proof. intros. rewrite <- memZ_In'. destruct (memZ a l); split; intros; try discriminate; try reflexivity. exfalso; auto. Qed.

(* an account that has neither a nonce nor code holds no storage, current or committed *)
Definition stor_ok (x : aacc) : Prop :=
  a_nonce x = 0 -> a_code x = 0 -> (forall k, a_stor x k = 0) /\ (forall k, a_comm x k = 0).

Definition core_ok (c : acore) : Prop := (forall a, stor_ok (a_accs c a)) /\ 0 <= s_refund (a_side c).

Definition wf_a (s : ast) : Prop :=
  core_ok (a_cur s) /\ Forall (fun tc => core_ok (snd tc)) (a_live s).

Lemma stor_ok_zero : stor_ok aacc0.
Proof. intros _ _. split; reflexivity. Qed.

Lemma core_ok_set : forall c a x, core_ok c -> stor_ok x -> core_ok (set_acc c a x).
Proof.
  intros c a x [Hc Hr] Hx. split; [|exact Hr]. intro b. unfold set_acc. cbn [a_accs]. unfold upd. destruct (b =? a); [exact Hx|apply Hc].
Qed.

Lemma core_ok_side : forall c s, core_ok c -> 0 <= s_refund s -> core_ok (set_side c s).
Proof. intros c s [H _] Hr. split; [exact H|exact Hr]. Qed.

Lemma find_live_some : forall {C} n (l : list (nat * C)) i j c,
  find_live n l i = Some (j, c) -> exists k, j = (i + k)%nat /\ nth_error l k = Some (n, c).
Proof.
  induction l as [|[t c0] r IH]; intros i j c H; cbn [find_live] in H; [discriminate|].
  destruct (Nat.eqb t n) eqn:E.
  - inversion H; subst. apply Nat.eqb_eq in E; subst. exists 0%nat. split; [lia|reflexivity].
  - apply IH in H. destruct H as (k & -> & Hk). exists (S k). split; [lia|exact Hk].
Qed.

Lemma Forall_firstn : forall {A} (P : A -> Prop) n l, Forall P l -> Forall P (firstn n l).
Proof.
  intros A P n l H. revert n. induction H; intros [|n]; cbn [firstn]; constructor; auto.
Qed.

Lemma Forall_nth_error : forall {A} (P : A -> Prop) l k x, Forall P l -> nth_error l k = Some x -> P x.
Proof.
  intros A P l k x H. revert k. induction H; intros [|k] E; cbn [nth_error] in E; try discriminate.
  - inversion E; subst; assumption.
  - eauto.
Qed.

Lemma finalise_ok : forall x, stor_ok x -> stor_ok (a_finalise_acc x).
Proof.
  intros x H. unfold a_finalise_acc. destruct (a_sd x); [apply stor_ok_zero|].
  intros Hn Hc. cbn [a_nonce a_code a_stor a_comm] in *. destruct (H Hn Hc) as [Hs _]. split; exact Hs.
Qed.

(* every disciplined step preserves the invariant *)
Lemma astep_x_wf : forall extra o s s' ob,
  wf_a s -> disc o s -> astep_x extra o s = Some (s', ob) -> wf_a s'.
Proof.
  intros extra o s s' ob [Hc Hl] Hd H. pose proof Hc as [Hacc Href].
  destruct o; cbn [astep_x astep] in H; cbn [disc] in Hd;
    try (inversion H; subst; split; [exact Hc|exact Hl]).
  - (* CreateAccount *) inversion H; subst. split; [|exact Hl]. cbn [with_cur a_cur].
    apply core_ok_set; [assumption|]. intros _ _. split; reflexivity.
  - (* SubBalance *) unfold ac_sub_balance in H. destruct (a_bal _ <? v); [discriminate|]. inversion H; subst.
    split; [|exact Hl]. cbn [with_cur a_cur]. apply core_ok_set; [assumption|].
    intros Hn Hcd. cbn [a_nonce a_code a_stor a_comm] in *. exact (Hacc a Hn Hcd).
  - (* AddBalance *) inversion H; subst. split; [|exact Hl]. cbn [with_cur a_cur]. unfold ac_add_balance.
    apply core_ok_set; [assumption|]. intros Hn Hcd. cbn [a_nonce a_code a_stor a_comm] in *. exact (Hacc a Hn Hcd).
  - (* SetNonce *) inversion H; subst. split; [|exact Hl]. cbn [with_cur a_cur]. apply core_ok_set; [assumption|].
    intros Hn. cbn [a_nonce] in Hn. lia.
  - (* SetCode *) inversion H; subst. split; [|exact Hl]. cbn [with_cur a_cur]. apply core_ok_set; [assumption|].
    intros Hn. cbn [a_nonce] in Hn. lia.
  - (* AddRefund *) inversion H; subst. split; [|exact Hl]. cbn [with_cur a_cur]. apply core_ok_side; [assumption|].
    cbn [s_refund]. lia.
  - (* SubRefund *) destruct (_ <? g); [discriminate|]. inversion H; subst. split; [|exact Hl]. cbn [with_cur a_cur].
    apply core_ok_side; [assumption|]. cbn [s_refund]. lia.
  - (* SetState *) inversion H; subst. split; [|exact Hl]. cbn [with_cur a_cur]. apply core_ok_set; [assumption|].
    intros Hn Hcd. cbn [a_nonce a_code] in *. destruct Hd as [Hd|Hd]; [lia|contradiction].
  - (* Suicide *) inversion H; subst. split; [|exact Hl]. cbn [with_cur a_cur]. apply core_ok_set; [assumption|].
    intros Hn Hcd. cbn [a_nonce a_code] in *. destruct Hd as [Hd|Hd]; [lia|contradiction].
  - (* Snapshot *) inversion H; subst. split; [exact Hc|]. cbn [a_live]. apply Forall_app. split; [exact Hl|]. constructor; [exact Hc|constructor].
  - (* Revert *) destruct (find_live n (a_live s) 0) as [[i c']|] eqn:E; [|discriminate]. inversion H; subst.
    apply find_live_some in E. destruct E as (k & _ & Hk). split.
    + cbn [a_cur]. exact (Forall_nth_error _ _ _ _ Hl Hk).
    + cbn [a_live]. apply Forall_firstn. assumption.
  - (* CallEnter *) unfold ac_sub_balance in H. destruct (a_bal _ <? v); [discriminate|]. inversion H; subst.
    split; [|exact Hl]. cbn [with_cur a_cur]. unfold ac_add_balance. apply core_ok_set.
    + apply core_ok_set; [assumption|]. intros Hn Hcd. cbn [a_nonce a_code a_stor a_comm] in *. exact (Hacc caller Hn Hcd).
    + intros Hn Hcd. cbn [a_nonce a_code a_stor a_comm] in *.
      cbn [set_acc a_accs] in *. unfold upd in *. destruct (a =? caller); cbn [a_nonce a_code a_stor a_comm] in *; exact (Hacc _ Hn Hcd).
  - (* Finalise *) inversion H; subst. split; [|constructor]. cbn [a_cur]. split; [|cbn; lia]. intro a. cbn [a_accs]. apply finalise_ok. apply Hacc.
Qed.
